"""C15 - parent and child (extension) stores stay consistent."""
import json

import storefam
import storefamx
import vlib

PID = "C15"
FILES = ["theories/Properties/C15.v", "theories/Examples/C15Examples.v", "theories/Examples/C15Paging.v",
         "theories/Examples/C15Wirings.v", "theories/Examples/C15Family.v", "theories/Examples/C15Links.v",
         "theories/Store/ChildValidation.v", "theories/Examples/C15Validation.v"]


def families(sch):
    """root store -> list of its child stores (only roots that have children)"""
    fam = {}
    for s in sch.order:
        p = sch.stores[s]["parent"]
        if p:
            fam.setdefault(p, []).append(s)
    return fam


def link_sets(sch, fam):
    """the two sides of every link collection that touches a family: {(root store keeping the set, set field): root store of
    the ids it lists} - the collections declared on a family's PARENT store, seen from both ends"""
    out = {}
    for s in sch.order:
        for local, other, _ in sch.stores[s]["links"]:
            if sch.root(s) in fam or sch.root(other) in fam:
                out[(sch.root(s), local)] = sch.root(other)
    return out


def peer_mentions(sch, fam, facts, r, i):
    """the facts S:<store>:<entity>:<link set>:<i> - id i of family root r listed on the other side of a link collection"""
    ls = link_sets(sch, fam)
    out = []
    for f in facts:
        q = f.split(":")
        if q[0] == "S" and q[4] == i and ls.get((q[1], q[3])) == r and not (q[1] == r and q[2] == i):
            out.append(f)
    return out


def fam_facts(sch, tx):
    fam = families(sch)
    ls = link_sets(sch, fam)
    out = []
    for f in tx["facts"]:
        p = f.split(":")
        if p[0] in ("E", "C", "CF", "F", "U", "X", "XK", "JUNK") and (p[0] == "JUNK" or p[1] in fam):
            out.append(f)
        elif p[0] == "S" and p[1] in fam and p[3] in sch.stores[p[1]]["sets"]:
            out.append(f)
        elif p[0] == "S" and (p[1], p[3]) in ls:   # both sides of the link collections of the families
            out.append(f)
    return tuple(out)


def fam_reads(sch, tx):
    fam = families(sch)
    stores = set(fam) | set(c for cs in fam.values() for c in cs)
    out = []
    for t in tx["other"]:
        p = t.split(":")
        if p[1] not in stores:
            continue
        if p[0] in ("Q", "V", "L", "I", "QS"):   # id sets (the property does not order them)
            out.append("%s:%s:%s" % (p[0], p[1], ",".join(sorted(x for x in p[2].split(",") if x))))
        elif p[0] in ("LF", "QP"):     # QP: paged / sorted / counted queries - count and ORDERED page, verbatim
            out.append(t)
        elif p[0] in ("LK", "LKD", "RE"):   # every lookup variant of the store API (store_c15w6.go), verbatim
            out.append(t)
        elif p[0] == "QC":   # QueryWithCursorC over every cursor provider (store_c15w7.go): count, ordered page, candidates
            out.append(t)
    return tuple(sorted(out))


class Compare:
    """needs the schema of the current case; storefamx calls oracle() first for every case"""
    sch = None

    def __call__(self, a, b):
        if storefam.proj_results(a) != storefam.proj_results(b):
            return "results impl %s vs model %s" % (storefam.proj_results(a), storefam.proj_results(b))
        fa, fb = fam_facts(self.sch, a), fam_facts(self.sch, b)
        if fa != fb:
            return "parent/child entity or index facts differ: only impl %s ; only model %s" % (
                sorted(set(fa) - set(fb))[:6], sorted(set(fb) - set(fa))[:6])
        ra, rb = fam_reads(self.sch, a), fam_reads(self.sch, b)
        if ra != rb:
            return "reads through the stores differ: only impl %s ; only model %s" % (
                sorted(set(ra) - set(rb))[:6], sorted(set(rb) - set(ra))[:6])
        return None


compare = Compare()


def view(facts):
    ents, child, fv, cfv, sets = {}, set(), {}, {}, {}
    for f in facts:
        p = f.split(":")
        if p[0] == "E":
            ents.setdefault(p[1], set()).add(p[2])
        elif p[0] == "C":
            child.add((p[1], p[2], p[3]))
        elif p[0] == "F":
            fv[(p[1], p[2], p[3])] = p[4]
        elif p[0] == "CF":
            cfv[(p[1], p[2], p[3], p[4])] = p[5]
        elif p[0] == "S":
            sets.setdefault((p[1], p[2], p[3]), set()).add(p[4])
    return ents, child, fv, cfv, sets


def want_val(tok, ptr):
    if tok == "N":
        return "nil" if ptr else "s-"
    return "s" + tok


QP_STATS = dict(queries=0, through_plain_child=0, plain_parents_match_too=0, page_smaller_than_matching_parents=0,
                through_extended_child=0, with_total=0)


def unhex(h):
    return b"" if h in ("-", "") else bytes.fromhex(h)


def qp_oracle(sch, fam, ents, child, fv, cfv, other):
    """paged / sorted / counted queries (tokens QP:<store>:<api>:<filter>:<sort>:<dir>:<skip>:<limit>:<count>:<ids>) against the
    entity facts of the implementation: the total is the number of entities the store shows (parent: all; plain child: those
    with child data; extended child: all parent entities) that satisfy the filter; the page holds only such entities, each
    once, and exactly min(limit, total - skip) of them (no row is lost to rows the store does not show).  The ORDER inside the
    page is not judged here (C02's subject; it is compared with the machine's).  -> list of (key, description)"""
    out = []
    seen = set()
    memo = {}
    stores = {}
    for r, cs in fam.items():
        stores[r] = (r, "parent")
        for c in cs:
            stores[c] = (r, "extended" if sch.stores[c]["ext"] else "plain")
    for t in sorted((x for x in other if x.startswith("QP:")), key=lambda x: (x.split(":")[2] != "q", x)):   # QueryIds first
        p = t.split(":")
        if len(p) != 10 or p[1] not in stores:
            continue
        s, api, flt, srt, dr, skip, limit, count, ids = p[1], p[2], p[3], p[4], p[5], int(p[6]), p[7], p[8], p[9]
        r, kind = stores[s]
        if count == "ERR":
            continue   # a refused query is not judged here; the machine answers every generated query, so it is reported as a difference
        if (s, flt) not in memo:
            own = set(f for f, _ in sch.stores[s]["fields"]) if kind != "parent" else set()

            def val(i, f, s=s, r=r, own=own):
                raw = cfv.get((r, i, s, f), "absent") if f in own else fv.get((r, i, f), "absent")
                return unhex(raw[1:]) if raw.startswith("s") else None

            all_ids = sorted(ents.get(r, ()), key=unhex)
            shown = [i for i in all_ids if kind != "plain" or (r, i, s) in child]
            if flt == "T":
                match = lambda i: True
            else:
                _, ff, hv = flt.split("=")
                want_v = unhex(hv)
                match = lambda i, ff=ff, want_v=want_v: val(i, ff) == want_v
            memo[(s, flt)] = ([i for i in shown if match(i)], [i for i in all_ids if match(i)])
        want, parents_matching = memo[(s, flt)]
        got = [x for x in ids.split(",") if x]
        QP_STATS["queries"] += 1
        QP_STATS["with_total"] += count != "-"
        QP_STATS["through_extended_child"] += kind == "extended"
        if kind == "plain":
            QP_STATS["through_plain_child"] += 1
            if want and len(parents_matching) > len(want):
                QP_STATS["plain_parents_match_too"] += 1
                QP_STATS["page_smaller_than_matching_parents"] += limit != "n" and int(limit) + skip < len(parents_matching)
        q = lambda: "%s(%s%s%s%s) through %s store %s" % (
            dict(q="QueryIds", c="QueryWithCursorC", i="IterateIds")[api],
            "true" if flt == "T" else "%s = 0x%s" % (flt.split("=")[1], flt.split("=")[2]),
            "" if srt == "-" else " sort by %s%s" % (srt, " desc" if dr == "d" else ""),
            " skip %d" % skip if skip else "", "" if limit == "n" else " limit " + limit, kind, s)
        tag = "parent" if kind == "parent" else "child"
        if count != "-" and int(count) != len(want):
            key = "C15:%s-query-count%s" % (tag, "" if kind == "parent" else "-" + kind)
            if key not in seen:
                seen.add(key)
                extra = ""
                if kind == "plain" and int(count) == len(parents_matching):
                    extra = " - that is the number of matching PARENT entities %s: plain parents are counted" % parents_matching
                out.append((key, "%s reports a total of %s; the entities it shows that satisfy the filter are %s (%d)%s"
                            % (q(), count, want, len(want), extra)))
        key = "C15:%s-query-page%s" % (tag, "" if kind == "parent" else "-" + kind)
        if key in seen:
            continue
        stray = [i for i in got if i not in want]
        n_want = max(0, len(want) - skip)
        if limit != "n":
            n_want = min(n_want, int(limit))
        if stray:
            seen.add(key)
            out.append((key, "%s returns %s: %s %s" % (q(), got, stray, "have no child data / do not satisfy the filter"
                                                        if kind == "plain" else "are not entities satisfying the filter")))
        elif len(set(got)) != len(got):
            seen.add(key)
            out.append((key, "%s returns an id twice: %s" % (q(), got)))
        elif len(got) != n_want:
            seen.add(key)
            out.append((key, "%s returns %d row(s) %s; %d of the %d entities it shows that satisfy the filter %s belong on this page (%s)"
                        % (q(), len(got), got, n_want, len(want), want,
                           "rows lost: rows the store does not show took part in the limit" if len(got) < n_want
                           else "rows the store does not show took part in the skip")))
    return out


QC_STATS = dict(queries=0, through_plain_child=0, candidates_without_child_data=0, through_extended_child=0, through_parent=0,
                set_index_cursor=0, related_entities_cursor=0, tree_set_cursor=0, id_order_scanner=0, sorting_scanner=0)
QC_PROV = dict(si="IteratorMatchingAllOf(set index %s of the parent, 1 value)", sa="IteratorMatchingAllOf(set index %s of the parent, 2 values)",
               so="IteratorMatchingAnyOf(set index %s of the parent, 2 values)", rl="GetRelatedEntitiesCursor(%s)", ts="ast.TreeSet of ids (%s)")


def qc_oracle(sch, fam, ents, child, fv, cfv, other):
    """QueryWithCursorC through a store of a family over a caller-supplied cursor (tokens
    QC:<store>:<provider>:<filter>:<sort>:<dir>:<skip>:<limit>:<count>:<ids>:<candidates>): whatever cursor produced the
    candidates, a plain child store returns and counts only candidates WITH child data that satisfy the filter, an extended
    child store and the parent every candidate that satisfies it; the page holds only such ids, each once, and exactly
    min(limit, total - skip) of them.  The order is compared with the machine's.  -> list of (key, description)"""
    out = []
    seen = set()
    stores = {}
    for r, cs in fam.items():
        stores[r] = (r, "parent")
        for c in cs:
            stores[c] = (r, "extended" if sch.stores[c]["ext"] else "plain")
    for t in sorted(x for x in other if x.startswith("QC:")):
        p = t.split(":")
        if len(p) != 11 or p[1] not in stores:
            continue
        s, prov, flt, srt, skip, limit, count, ids, cands = p[1], p[2], p[3], p[4], int(p[6]), p[7], p[8], p[9], p[10]
        r, kind = stores[s]
        if count == "ERR":
            continue
        own = set(f for f, _ in sch.stores[s]["fields"]) if kind != "parent" else set()

        def val(i, f):
            raw = cfv.get((r, i, s, f), "absent") if f in own else fv.get((r, i, f), "absent")
            return unhex(raw[1:]) if raw.startswith("s") else None

        cl = [x for x in cands.split(",") if x]
        if flt == "T":
            match = lambda i: True
        else:
            _, ff, hv = flt.split("=")
            match = lambda i, ff=ff, want_v=unhex(hv): val(i, ff) == want_v
        shown = [i for i in cl if kind != "plain" or (r, i, s) in child]
        want = [i for i in shown if match(i)]
        cands_matching = [i for i in cl if match(i)]
        got = [x for x in ids.split(",") if x]
        QC_STATS["queries"] += 1
        QC_STATS["through_parent" if kind == "parent" else "through_%s_child" % kind] += 1
        QC_STATS[dict(si="set_index_cursor", sa="set_index_cursor", so="set_index_cursor", rl="related_entities_cursor",
                      ts="tree_set_cursor")[prov[:2]]] += 1
        QC_STATS["id_order_scanner" if srt == "-" else "sorting_scanner"] += 1
        if kind == "plain" and len(shown) < len(cl):
            QC_STATS["candidates_without_child_data"] += 1
        q = lambda: "QueryWithCursorC(%s%s%s%s) over %s through %s store %s" % (
            "true" if flt == "T" else "%s = 0x%s" % (flt.split("=")[1], flt.split("=")[2]),
            "" if srt == "-" else " sort by %s" % srt, " skip %d" % skip if skip else "", "" if limit == "n" else " limit " + limit,
            QC_PROV[prov[:2]] % prov[3:], kind, s)
        tag = "parent" if kind == "parent" else "child"
        if int(count) != len(want):
            key = "C15:%s-cursor-query-count%s" % (tag, "" if kind == "parent" else "-" + kind)
            if key not in seen:
                seen.add(key)
                extra = ""
                if kind == "plain" and int(count) == len(cands_matching):
                    extra = (" - that is the number of matching CANDIDATES %s: parent entities without data of %s are counted (the "
                             "child-store test does not apply to rows of a supplied cursor)" % (cands_matching, s))
                out.append((key, "%s (candidates %s) reports a total of %s; the candidates the store shows that satisfy the filter are %s (%d)%s"
                            % (q(), cl, count, want, len(want), extra)))
        key = "C15:%s-cursor-query-page%s" % (tag, "" if kind == "parent" else "-" + kind)
        if key in seen:
            continue
        stray = [i for i in got if i not in want]
        n_want = max(0, len(want) - skip)
        if limit != "n":
            n_want = min(n_want, int(limit))
        if stray:
            seen.add(key)
            out.append((key, "%s (candidates %s) returns %s: %s %s" % (
                q(), cl, got, stray, "have no data of the child store / do not satisfy the filter / are no candidates" if kind == "plain"
                else "are not candidates satisfying the filter")))
        elif len(set(got)) != len(got):
            seen.add(key)
            out.append((key, "%s returns an id twice: %s" % (q(), got)))
        elif len(got) != n_want:
            seen.add(key)
            out.append((key, "%s (candidates %s) returns %d row(s) %s; %d of the %d candidates it shows that satisfy the filter %s belong on this page"
                        % (q(), cl, len(got), got, n_want, len(want), want)))
    return out


LINK_STATS = dict(states_with_links_on_child_entities=0, deletes_of_linked_child_entities=0, through_parent=0, through_child=0)


def link_oracle(sch, fam, ents, child, sets):
    """link collections that touch a family (declared on its PARENT store) are facts of the parent part: every member of a link
    set is an existing entity of the other store, and the other side lists the owner - for plain parent entities and for
    entities with child data alike.  -> list of problems"""
    out = []
    sides = {}
    for s in sch.order:
        for local, other, ofield in sch.stores[s]["links"]:
            if sch.root(s) in fam or sch.root(other) in fam:
                sides[(sch.root(s), local)] = (sch.root(other), ofield, s)
    linked_child = False
    for (rs, i, lf), members in sorted(sets.items()):
        if (rs, lf) not in sides:
            continue
        ro, ofield, decl = sides[(rs, lf)]
        if rs in fam and any((rs, i, c) in child for c in fam[rs]) and members:
            linked_child = True
        for m in sorted(members):
            if i not in ents.get(rs, ()):
                out.append("link set %s.%s of %s, which is no entity, lists %s" % (decl, lf, i, m))
            elif m not in ents.get(ro, ()):
                out.append("link set %s.%s of %s lists %s, which is no entity of %s (a deleted entity is still mentioned on the other "
                           "side of the link collection)" % (decl, lf, i, m, ro))
            elif i not in sets.get((ro, m, ofield), set()):
                out.append("link set %s.%s of %s lists %s, but %s.%s of %s does not list %s" % (decl, lf, i, m, ro, ofield, m, i))
    LINK_STATS["states_with_links_on_child_entities"] += linked_child
    return out


LK_NAMES = dict(fb="FindById", lb="LoadById", le="LoadEntity", ep="IsEntityPresent", eb="GetEntityBucket",
                vi="IterateValidIds.Seek")
LK_STATS = dict(lookups=0, through_parent=0, through_plain_child=0, through_extended_child=0,
                extended_child_over_entities_without_extension_data=0, families_with_several_child_stores=0,
                related_helper_answers=0)


def lookup_oracle(sch, fam, ents, child, sets, other):
    """every lookup variant of the store API (tokens LK:<store>:<variant>:<ids found among the probe ids>, LKD, RE) against
    the entity facts of the implementation and against one another: through the parent store every variant finds exactly
    the entities; through a plain child store exactly the entities with child data; through an extended child store the
    loading variants (FindById, LoadById, LoadEntity) find EVERY parent entity - what the store's query shows - and the
    bucket-level variants (IsEntityPresent, GetEntityBucket, IterateValidIds) the entities with extension data.
    -> list of (key, description)"""
    out = []
    lk = {}
    for t in other:
        p = t.split(":")
        if p[0] == "LK" and len(p) == 4:
            lk.setdefault(p[1], {})[p[2]] = sorted(x for x in p[3].split(",") if x)
    for r, cs in fam.items():
        all_ids = sorted(ents.get(r, ()))
        LK_STATS["families_with_several_child_stores"] += len(cs) > 1
        for s in [r] + cs:
            if s not in lk:
                continue
            kind = "parent" if s == r else ("extended" if sch.stores[s]["ext"] else "plain")
            with_data = sorted(i for i in all_ids if (r, i, s) in child) if s != r else all_ids
            LK_STATS["lookups"] += len(lk[s])
            LK_STATS["through_parent" if kind == "parent" else "through_%s_child" % kind] += 1
            if kind == "extended" and len(with_data) < len(all_ids):
                LK_STATS["extended_child_over_entities_without_extension_data"] += 1
            bad = []
            for v in ("fb", "lb", "le", "ep", "eb", "vi"):
                got = lk[s].get(v, [])
                want = all_ids if (kind == "extended" and v in ("fb", "lb", "le")) else with_data
                if got != want:
                    bad.append((v, got, want))
            if bad:
                v, got, want = bad[0]
                agree = [LK_NAMES[w] for w in ("fb", "lb", "le", "ep", "eb", "vi") if lk[s].get(w, []) == want and
                         (w in ("fb", "lb", "le")) == (v in ("fb", "lb", "le"))]
                out.append(("C15:lookup-%s" % (kind if kind == "parent" else kind + "-child"),
                            "%s through %s store %s finds %s, expected %s (parent entities %s, with data of %s: %s)%s%s"
                            % (LK_NAMES[v], kind if kind == "parent" else kind + " child", s, got, want, all_ids, s, with_data,
                               "; %s of the same store find(s) %s: the lookups of one store disagree" % (", ".join(agree), want) if agree else "",
                               "; also wrong: " + ", ".join(LK_NAMES[w] for w, _, _ in bad[1:]) if len(bad) > 1 else "")))
    for t in other:
        p = t.split(":")
        if p[0] == "LKD":
            out.append(("C15:lookup-variants-differ", "store %s, id %s: the entities handed out differ (%s)" % (p[1], p[2], p[3])))
        elif p[0] == "RE" and len(p) == 7:
            s, i, sf = p[1], p[2], p[3]
            r = sch.root(s)
            if r not in fam or sf not in sch.stores[r]["sets"]:
                continue
            LK_STATS["related_helper_answers"] += 1
            want = sorted(sets.get((r, i, sf), set())) if s == r else []
            answers = [sorted(x for x in p[k].split(".") if x) for k in (4, 5, 6)]
            if any(a != want for a in answers):
                out.append(("C15:related-helpers", "string list %s of %s through store %s: GetRelatedEntitiesIdList %s, "
                            "GetRelatedEntitiesCursor %s, IsEntityRelated true for %s; stored %s" % (sf, i, s, answers[0], answers[1], answers[2], want)))
    # a stored, non-empty string list the parent's helpers do not show at all
    if any(t.startswith("LK:") for t in other):
        shown = set((p[1], p[2], p[3]) for p in (t.split(":") for t in other) if p[0] == "RE")
        for (r, i, sf), members in sets.items():
            if r in fam and sf in sch.stores[r]["sets"] and members and (r, i, sf) not in shown:
                out.append(("C15:related-helpers", "string list %s of %s through the parent store %s: the helpers show nothing, stored %s"
                            % (sf, i, r, sorted(members))))
    return out


def child_level(sch, fam):
    """(fk indexes, set indexes) DECLARED ON A CHILD STORE of a family: [(child, field, target, back)], [(child, setfield)]"""
    fks, sis = [], []
    for r, cs in fam.items():
        for c in cs:
            for cn in sch.stores[c]["cons"]:
                if cn[0] == "FI":
                    fks.append((c, cn[1], cn[2], cn[3]))
                elif cn[0] == "SI":
                    sis.append((c, cn[1]))
    return fks, sis


def child_level_oracle(sch, fam, facts, ents, child, cfv, sets):
    """storefam.index_oracle / fk_oracle read an index declared on a CHILD store as if every entity of the parent took part in
    it; the entities of a child-level index are those with data of that child store, and the field of a child-level fk index
    lives in the child data.  -> (problems of the set indexes, problems of the fk indexes), same wording"""
    fks, sis = child_level(sch, fam)
    ip, fp = [], []
    for c, setf in sis:
        r = sch.root(c)
        want = set((m, i) for i in ents.get(r, ()) if (r, i, c) in child for m in sets.get((r, i, setf), ()))
        have, keys = set(), set()
        for f in facts:
            q = f.split(":")
            if q[0] == "X" and q[1] == r and q[2] == setf:
                have.add((q[3], q[4]))
            elif q[0] == "XK" and q[1] == r and q[2] == setf:
                keys.add(q[3])
        for m, i in sorted(want - have):
            ip.append("set index %s.%s: entity %s holds %s but is not indexed" % (c, setf, i, m))
        for m, i in sorted(have - want):
            ip.append("set index %s.%s: stale entry %s -> %s" % (c, setf, m, i))
        for k in sorted(keys - set(m for m, _ in have)):
            ip.append("set index %s.%s: empty index key %s left behind" % (c, setf, k))
    for c, field, target, back in fks:
        r, troot = sch.root(c), sch.root(target)
        refs = {}
        for i in ents.get(r, ()):
            v = cfv.get((r, i, c, field), "absent")
            if (r, i, c) in child and v.startswith("s") and v != "s-":
                if v[1:] not in ents.get(troot, ()):
                    fp.append("fk %s.%s: entity %s references missing %s %s" % (c, field, i, target, v[1:]))
                refs.setdefault(v[1:], set()).add(i)
        for t in ents.get(troot, ()):
            have, want = sets.get((troot, t, back), set()), refs.get(t, set())
            if have != want:
                fp.append("fk %s.%s: back-references %s.%s of %s are %s, referrers are %s" % (c, field, target, back, t, sorted(have), sorted(want)))
    return ip, fp


def not_child_level(sch, fam, probs):
    """the problems storefam's oracles report, without those about an index declared on a child store (judged above)"""
    fks, sis = child_level(sch, fam)
    skip = tuple("fk %s.%s:" % (c, f) for c, f, _, _ in fks) + tuple("set index %s.%s:" % (c, f) for c, f in sis)
    return [x for x in probs if not x.startswith(skip)] if skip else probs


DW_STATS = dict(delete_where_ops=0, committed=0, judged=0, through_parent=0, through_plain_child=0, through_extended_child=0,
                plain_child_and_plain_parents_match_too=0, filter_true=0, nothing_matched=0)


def cascades_back(sch, r):
    """can a delete of an entity of root store r reach, through cascade-delete constraints, ANOTHER entity of r?"""
    edges = {}
    for t in sch.order:
        for c in sch.stores[t]["cons"]:
            if c[0] == "CA" and c[3] == "D":
                edges.setdefault(sch.root(t), set()).add(sch.root(c[1]))
    seen, todo = set(), list(edges.get(r, ()))
    while todo:
        x = todo.pop()
        if x not in seen:
            seen.add(x)
            todo.extend(edges.get(x, ()))
    return r in seen


def dw_oracle(sch, fam, ops, committed, prev, cur):
    """DeleteWhere(filter) through a store of a family deletes exactly the entities THAT STORE'S query shows for the filter:
    through the parent every parent entity satisfying it, through a plain child store only the entities WITH child data
    satisfying it (a plain parent entity that satisfies the filter too stays, with all its fields), through an extended child
    store every parent entity satisfying it - and of each of them both parts (no entity, child data, field or set remains).
    Judged on the implementation's facts before (prev) and after (cur) a committed transaction in which the DeleteWhere is
    the only operation on its family (creates / updates of other root stores may surround it).  -> list of (key, description)"""
    out = []
    pents, pchild, pfv, pcfv, _ = prev
    ents, child, fv, cfv, sets, cur_facts = cur
    for j, op in enumerate(ops):
        if op["kind"] != "DW":
            continue
        s0 = op["store"]
        r = sch.root(s0)
        if r not in fam:
            continue
        DW_STATS["delete_where_ops"] += 1
        if not committed:
            continue
        DW_STATS["committed"] += 1
        others = [o for k, o in enumerate(ops) if k != j]
        if any(o["kind"] not in ("C", "UP") or sch.root(o["store"]) == r for o in others):
            continue
        DW_STATS["judged"] += 1
        kind = "parent" if s0 == r else ("extended" if sch.stores[s0]["ext"] else "plain")
        DW_STATS["through_parent" if kind == "parent" else "through_%s_child" % kind] += 1
        own = set(f for f, _ in sch.stores[s0]["fields"]) if kind != "parent" else set()
        all_ids = sorted(pents.get(r, ()), key=unhex)
        if op["field"] is None:
            match = lambda i: True
            DW_STATS["filter_true"] += 1
            ftxt = "true"
        else:
            f, want_raw = op["field"], "s" + op["val"]
            match = lambda i: (pcfv.get((r, i, s0, f), "absent") if f in own else pfv.get((r, i, f), "absent")) == want_raw
            ftxt = "%s = 0x%s" % (f, op["val"])
        shown = [i for i in all_ids if kind != "plain" or (r, i, s0) in pchild]
        want = [i for i in shown if match(i)]
        parents_matching = [i for i in all_ids if match(i)]
        if kind == "plain" and len(parents_matching) > len(want):
            DW_STATS["plain_child_and_plain_parents_match_too"] += 1
        if not want:
            DW_STATS["nothing_matched"] += 1
        key = "C15:delete-where-through-parent" if kind == "parent" else "C15:delete-where-through-child-" + kind
        what = "DeleteWhere(%s) through %s store %s" % (ftxt, kind if kind == "parent" else kind + " child", s0)
        # (1) every entity the store's query shows for the filter is gone, both parts
        left = []
        for i in want:
            rest = [x for x in cur_facts if x.split(":")[0] in ("E", "C", "CF", "F", "S") and x.split(":")[1] == r and x.split(":")[2] == i]
            rest += peer_mentions(sch, fam, cur_facts, r, i)   # the other side of a link collection of the parent store
            if rest:
                left.append((i, rest[:3]))
        if left:
            out.append((key, "%s reported success; the store's query showed %s for that filter, but of %s there remain %s"
                        % (what, want, [i for i, _ in left], left[0][1])))
        # (2) nothing else is deleted or changed (unless a cascade can come back to the family)
        if not cascades_back(sch, r):
            wrong = []
            for i in all_ids:
                if i in want:
                    continue
                if i not in ents.get(r, ()):
                    wrong.append("%s deleted" % i)
                    continue
                for c in fam[r]:
                    if ((r, i, c) in pchild) != ((r, i, c) in child):
                        wrong.append("%s: data of child store %s %s" % (i, c, "lost" if (r, i, c) in pchild else "appeared"))
                for (rr, ii, f), v in pfv.items():
                    if rr == r and ii == i and fv.get((rr, ii, f), "absent") != v:
                        wrong.append("%s: field %s %s -> %s" % (i, f, v, fv.get((rr, ii, f), "absent")))
            if wrong:
                why = ""
                gone = [i for i in all_ids if i not in want and i not in ents.get(r, ())]
                if kind == "plain" and gone and all(match(i) and (r, i, s0) not in pchild for i in gone):
                    why = (" - %s satisfy the filter but have NO data of %s (the store's own query does not show them): the filter was "
                           "evaluated over the parent's entities" % (gone, s0))
                out.append((key, "%s: the store's query shows %s for that filter (parent entities: %s, with data of %s: %s), but "
                            "afterwards: %s%s" % (what, want, all_ids, s0,
                                                  [i for i in all_ids if (r, i, s0) in pchild] if kind != "parent" else "-",
                                                  "; ".join(wrong[:4]), why)))
    return out


VAL_STATS = dict(guarded_ops=0, through_child=0, parent_rule_violated_through_parent=0, parent_rule_violated_through_child=0,
                 of_those_patches=0, child_rule_violated=0, over_long_parent_list_element=0, refused=0)
ELEM_LIMIT = 32768   # a string-list element is a bbolt key of one type byte + the element; keys end at 32768 bytes


def validation_oracle(sch, fam, ops, a, ents, child, fv, prev_view):
    """guarded creates / updates (op prefix G = the entity strategies of the wiring validate at persist time; the prefix lists
    the required fields as (store, field)).  -> list of (key, description)"""
    out = []
    pchild = prev_view[1]
    req_all = set()
    for j, op in enumerate(ops):
        g = op.get("guard")
        if g is None or op["kind"] not in ("C", "UP"):
            continue
        s0 = op["store"]
        r = sch.root(s0)
        if r not in fam:
            continue
        req_all |= set(g["req"])
        i = op["id"]
        chk = op.get("checker") if op["kind"] == "UP" else None
        written = lambda f: chk is None or f in chk
        empty = lambda f: op["fv"].get(f, "N") in ("N", "-")
        parent_why, child_why = [], []
        for rs, rf in g["req"]:
            if rs == r and written(rf) and empty(rf):
                parent_why.append("required field %s.%s of the parent is %s" % (r, rf, "nil" if op["fv"].get(rf, "N") == "N" else "empty"))
            elif rs == s0 and rs != r and written(rf) and empty(rf):
                child_why.append("required field %s.%s is %s" % (rs, rf, "nil" if op["fv"].get(rf, "N") == "N" else "empty"))
        for sf in sch.stores[r]["sets"]:
            if written(sf) and any(len(m) // 2 >= ELEM_LIMIT for m in op["sv"].get(sf, []) if m != "-"):
                parent_why.append("string list %s.%s of the parent holds an element of >= %d bytes (bbolt refuses the key)" % (r, sf, ELEM_LIMIT))
                VAL_STATS["over_long_parent_list_element"] += 1
        VAL_STATS["guarded_ops"] += 1
        VAL_STATS["through_child"] += s0 != r
        if parent_why:
            VAL_STATS["parent_rule_violated_through_child" if s0 != r else "parent_rule_violated_through_parent"] += 1
            VAL_STATS["of_those_patches"] += chk is not None
        VAL_STATS["child_rule_violated"] += bool(child_why)
        if j >= len(a["results"]) or a["results"][j] != "ok":
            VAL_STATS["refused"] += bool(parent_why or child_why) and j < len(a["results"])
            continue
        # an update that enters through the parent store is handled by the child store that holds data of the entity
        routed = [c for c in fam[r] if op["kind"] == "UP" and s0 == r and (r, i, c) in pchild and (r, i, c) in child
                  and not any(o.get("id") == i for o in ops[:j])]
        what = "%s of %s through %s store %s%s" % ("Create" if op["kind"] == "C" else ("Update" if chk is None else "patch naming %s" % sorted(chk)),
                                                    i, "child" if s0 != r else "parent", s0,
                                                    " (the entity has data of child store %s, whose Update handles it)" % routed[0] if routed else "")
        if parent_why:
            now = ["%s=%s" % (rf, fv.get((r, i, rf), "absent")) for rs, rf in g["req"] if rs == r]
            out.append(("C15:parent-validation-not-applied" + ("-through-child" if (s0 != r or routed) else ""),
                        "%s reported success although %s - the parent's entity strategy refuses that at persist time, and the same write "
                        "of a plain parent entity through the parent store is refused (the error raised on the persist context of the parent "
                        "part did not reach the caller); stored now: %s" % (what, "; ".join(parent_why), now)))
        elif child_why:
            out.append(("C15:child-validation-not-applied", "%s reported success although %s" % (what, "; ".join(child_why))))
    # ... and no stored entity of the family holds an empty / no value in a required field of the parent (every write of it goes
    # through the validation)
    if a["commit"]:
        for rs, rf in sorted(req_all):
            if rs in fam:
                bad = [i for i in sorted(ents.get(rs, ())) if fv.get((rs, i, rf), "absent") in ("absent", "nil", "s-")]
                if bad:
                    out.append(("C15:stored-shared-field-invalid", "after the committed transaction the required field %s.%s is empty / "
                                "absent on %s (with child data: %s)" % (rs, rf, bad, [i for i in bad if any((rs, i, c) in child for c in fam[rs])])))
    return out


def oracle(sch, txs, io, mo):
    compare.sch = sch
    out = []
    fam = families(sch)
    prev_view = view([])
    for k, (t, a) in enumerate(zip(txs, io)):
        tsys, _, _, ops = storefamx.parse_ops(t)
        ents, child, fv, cfv, sets = view(a["facts"])
        rd, lf = storefamx.reads(a)
        if "panic" in a["results"]:
            out.append(("C15:panic", "the library panicked inside the transaction", k))
            break
        # ---- child-only filtering of queries and lookups (every state)
        for r, cs in fam.items():
            all_ids = sorted(ents.get(r, ()))
            for tag in ("Q", "V", "L", "I", "QS"):
                got = sorted(rd.get(tag, {}).get(r, []))
                if got != all_ids:
                    out.append(("C15:parent-read", "%s through parent store %s returns %s, entities are %s" % (tag, r, got, all_ids), k))
            for c in cs:
                with_data = sorted(i for i in all_ids if (r, i, c) in child)
                ext = sch.stores[c]["ext"]
                for tag in ("Q", "V", "L", "I", "QS"):
                    got = sorted(rd.get(tag, {}).get(c, []))
                    want = all_ids if (ext and tag != "V") else with_data
                    if got != want:
                        out.append(("C15:child-read-%s" % ("extended" if ext else "plain"),
                                    "%s through %s child store %s returns %s, expected %s (ids with child data: %s, parent ids: %s)"
                                    % (tag, "extended" if ext else "plain", c, got, want, with_data, all_ids), k))
                # the child store sees the parent's fields
                for i in rd.get("L", {}).get(c, []):
                    for f, _ in sch.stores[r]["fields"]:
                        raw = fv.get((r, i, f), "absent")
                        raw = raw if raw.startswith("s") else "nil"
                        for st in (c, r):
                            tok = "LF:%s:%s:%s:%s" % (st, i, f, raw)
                            if tok not in lf:
                                got = [x for x in lf if x.startswith("LF:%s:%s:%s:" % (st, i, f))]
                                out.append(("C15:child-load-fields", "LoadById through %s of %s: field %s is %s, stored %s"
                                            % (st, i, f, got, raw), k))
        # ---- paged / sorted / counted queries through every store of the family (every state)
        for key, desc in qp_oracle(sch, fam, ents, child, fv, cfv, a["other"]):
            out.append((key, desc, k))
        # ---- QueryWithCursorC over every cursor provider through every store of the family (every state)
        for key, desc in qc_oracle(sch, fam, ents, child, fv, cfv, a["other"]):
            out.append((key, desc, k))
        # ---- every lookup variant through every store of the family agrees with the entities and with the others (every state)
        for key, desc in lookup_oracle(sch, fam, ents, child, sets, a["other"]):
            out.append((key, desc, k))
        if out:
            break
        # ---- the parent's constraints apply identically to an entity created through a child store: a create that reports
        # success although the entity carries no value for a field under a non-nullable unique index / fk index / fk constraint
        # of the parent store, or the system flag in an ordinary context under the parent's system-entity constraint (the
        # rules do not depend on the state: the same create through the parent store is refused)
        for j, op in enumerate(ops):
            if op["kind"] != "C" or j >= len(a["results"]) or a["results"][j] != "ok":
                continue
            s0 = op["store"]
            r = sch.root(s0)
            if r not in fam:
                continue
            why = []
            for cns in sch.stores[r]["cons"]:
                if cns[0] in ("U", "FI", "FC") and not cns[-1] and op["fv"].get(cns[1], "N") in ("N", "-"):
                    why.append("%s.%s (non-nullable %s) is %s" % (r, cns[1], dict(U="unique index", FI="fk index", FC="fk constraint")[cns[0]],
                                                                 "nil" if op["fv"].get(cns[1], "N") == "N" else "empty"))
                elif cns[0] == "SY" and op["sys"] and not tsys:
                    why.append("system entity in an ordinary context under the system-entity constraint of %s" % r)
            if why:
                out.append(("C15:parent-constraint-not-applied" + ("-through-child" if s0 != r else ""),
                            "Create of %s through %s store %s reported success although %s"
                            % (op["id"], "child" if s0 != r else "parent", s0, "; ".join(why)), k))
        # ---- the persist-time validation of the PARENT's entity strategy (required strings, string-list elements the storage
        # refuses: errors raised on the persist context of the parent part) applies identically to a create / update / patch
        # that enters through a child store: an operation that reports success although a required field of the parent that
        # it writes is empty / nil, or a written string list of the parent holds an element bbolt cannot store (the rule does
        # not depend on the state: the same write through the parent store is refused)
        for key, desc in validation_oracle(sch, fam, ops, a, ents, child, fv, prev_view):
            out.append((key, desc, k))
        # ---- DeleteWhere through a store of the family deletes exactly what that store's query shows for the filter
        for key, desc in dw_oracle(sch, fam, ops, a["commit"], prev_view, (ents, child, fv, cfv, sets, a["facts"])):
            out.append((key, desc, k))
        if a["commit"]:
            # ---- parent (and child) indexes mirror the entities, child entities included
            probs = storefam.index_oracle(sch, [f for f in a["facts"] if f.split(":")[0] in ("E", "F", "CF", "C", "S", "U", "X", "XK")
                                                and f.split(":")[1] in fam])
            ci_probs, cfk_probs = child_level_oracle(sch, fam, a["facts"], ents, child, cfv, sets)
            probs = not_child_level(sch, fam, probs) + ci_probs
            if probs:
                out.append(("C15:parent-index", "after a committed transaction: " + "; ".join(probs[:3]), k))
            # ... and so do the fk indexes (back-reference sets in the target stores) of the family's stores: a create / update /
            # delete through either store leaves exactly the referrers in them
            famstores = set(fam) | set(c for cs in fam.values() for c in cs)
            fkp = [x for x in not_child_level(sch, fam, storefam.fk_oracle(sch, a["facts"])) if x.split(" ")[1].split(".")[0] in famstores]
            fkp += cfk_probs
            if fkp:
                out.append(("C15:parent-fk-index", "after the committed transaction [%s]: %s" % (
                    ", ".join("%s %s %s" % (dict(C="Create", UP="Update", D="DeleteById", DW="DeleteWhere").get(o["kind"], o["kind"]),
                                            o.get("store", ""), o.get("id", "") if o["kind"] != "DW" else
                                            ("true" if o["field"] is None else "%s = 0x%s" % (o["field"], o["val"])))
                              for o in ops), "; ".join(fkp[:3])), k))
            # ... and the link collections the PARENT store declares: both sides agree, no member without an entity
            lkp = link_oracle(sch, fam, ents, child, sets)
            if lkp:
                out.append(("C15:parent-links", "after the committed transaction [%s]: %s" % (
                    ", ".join("%s %s %s" % (dict(C="Create", UP="Update", D="DeleteById", DW="DeleteWhere", AL="AddLinks", RL="RemoveLinks").get(o["kind"], o["kind"]),
                                            o.get("store", ""), o.get("id", "") if o["kind"] != "DW" else "...") for o in ops), "; ".join(lkp[:3])), k))
            pents, pchild = prev_view[0], prev_view[1]
            for j, op in enumerate(ops):
                if op["kind"] not in ("C", "UP", "D"):
                    continue
                s0 = op["store"]
                r = sch.root(s0)
                if r not in fam:
                    continue
                i = op["id"]
                later = ops[j + 1:]
                touched = any(o.get("id") == i and sch.root(o.get("store", r)) == r for o in later) or any(o["kind"] in ("D", "DW") for o in later)
                is_child_store = sch.stores[s0]["parent"] is not None
                if op["kind"] == "C" and is_child_store and not touched:
                    if i not in ents.get(r, ()) or (r, i, s0) not in child:
                        out.append(("C15:child-create-not-in-both", "entity %s created through child store %s: parent entity %s, child data %s"
                                    % (i, s0, i in ents.get(r, ()), (r, i, s0) in child), k))
                if op["kind"] == "D" and not touched:
                    had_child = any((r, i, c) in pchild for c in fam[r])
                    earlier = any(o.get("id") == i for o in ops[:j])
                    plain_parent_via_child = is_child_store and (earlier or not had_child)
                    if not plain_parent_via_child:
                        left = [f for f in a["facts"] if f.split(":")[0] in ("E", "C", "CF", "F", "S") and f.split(":")[1] == r and f.split(":")[2] == i]
                        # ... and no index kept for the family - the parent's or ANY child store's own - still points at the id
                        for f in a["facts"]:
                            q = f.split(":")
                            if q[0] in ("U", "X") and q[1] == r and q[-1] == i:
                                owner = [c for c in [r] + fam[r] if any(cn[0] in ("U", "SI") and cn[1] == q[2] for cn in sch.stores[c]["cons"])]
                                left.append("%s (index of %s)" % (f, "/".join(owner) or r))
                        # ... and no entity of any store still lists the id on the other side of a link collection (links are
                        # facts of the parent part: they go with it, through whichever store the delete entered)
                        psets = prev_view[4]
                        if had_child and any(ms for (rr, ii, lf), ms in psets.items() if rr == r and ii == i and (rr, lf) in link_sets(sch, fam)):
                            LINK_STATS["deletes_of_linked_child_entities"] += 1
                            LINK_STATS["through_child" if is_child_store else "through_parent"] += 1
                        for f in peer_mentions(sch, fam, a["facts"], r, i):
                            left.append("%s (the other side of a link collection still lists the deleted id)" % f)
                        if left:
                            out.append(("C15:delete-left-parts", "after DeleteById of %s through %s (child stores of %s: %s; data of %s before): %s remain"
                                        % (i, s0, r, fam[r], [c for c in fam[r] if (r, i, c) in pchild] or "none", left[:4]), k))
                if op["kind"] in ("C", "UP") and not touched:
                    chk = op.get("checker") if op["kind"] == "UP" else None
                    for f, ptr in sch.stores[r]["fields"]:
                        if (chk is None or f in chk) and f in op["fv"]:
                            want = want_val(op["fv"][f], ptr)
                            got = fv.get((r, i, f), "absent")
                            if got != want:
                                out.append(("C15:shared-field-not-updated", "%s of %s through %s: shared field %s is %s, written %s"
                                            % ("create" if op["kind"] == "C" else "update", i, s0, f, got, want), k))
                    for sf in sch.stores[r]["sets"]:
                        if (chk is None or sf in chk) and sf in op["sv"]:
                            want = set(op["sv"][sf])
                            got = sets.get((r, i, sf), set())
                            if got != want:
                                out.append(("C15:shared-field-not-updated", "%s of %s through %s: shared set %s is %s, written %s"
                                            % ("create" if op["kind"] == "C" else "update", i, s0, sf, sorted(got), sorted(want)), k))
                    # a patch (update with a field checker) leaves every shared field / set / child field it does NOT name as it
                    # was stored before the transaction - whichever store it entered through or was delegated to
                    if op["kind"] == "UP" and chk is not None and not any(o["kind"] in ("D", "DW", "AL", "RL") for o in ops) \
                            and not any(o.get("id") == i and o is not op and sch.root(o.get("store", r)) == r for o in ops) \
                            and i in pents.get(r, ()):
                        pfv, pcfv, psets = prev_view[2], prev_view[3], prev_view[4]
                        for f, ptr in sch.stores[r]["fields"]:
                            if f not in chk and fv.get((r, i, f), "absent") != pfv.get((r, i, f), "absent"):
                                out.append(("C15:patch-changed-unchecked-field", "patch of %s through %s naming %s: shared field %s was %s "
                                            "and is now %s (submitted %s)" % (i, s0, sorted(chk), f, pfv.get((r, i, f), "absent"),
                                                                              fv.get((r, i, f), "absent"), op["fv"].get(f)), k))
                        for sf in sch.stores[r]["sets"]:
                            if sf not in chk and sets.get((r, i, sf), set()) != psets.get((r, i, sf), set()):
                                out.append(("C15:patch-changed-unchecked-field", "patch of %s through %s naming %s: shared set %s was %s "
                                            "and is now %s" % (i, s0, sorted(chk), sf, sorted(psets.get((r, i, sf), set())),
                                                               sorted(sets.get((r, i, sf), set()))), k))
                        for c in fam[r]:
                            if (r, i, c) in child and (r, i, c) in pchild:
                                for f, ptr in sch.stores[c]["fields"]:
                                    if f not in chk and cfv.get((r, i, c, f), "absent") != pcfv.get((r, i, c, f), "absent"):
                                        out.append(("C15:patch-changed-unchecked-field", "patch of %s through %s naming %s: child field "
                                                    "%s.%s was %s and is now %s" % (i, s0, sorted(chk), c, f,
                                                                                    pcfv.get((r, i, c, f), "absent"),
                                                                                    cfv.get((r, i, c, f), "absent")), k))
                    # the update of an entity with child data is handled by the child store, whichever store it entered through
                    for c in fam[r]:
                        if (r, i, c) in child and (op["kind"] == "UP" or s0 == c):
                            for f, ptr in sch.stores[c]["fields"]:
                                if (chk is None or f in chk) and f in op["fv"]:
                                    want = want_val(op["fv"][f], ptr)
                                    got = cfv.get((r, i, c, f), "absent")
                                    if got != want:
                                        out.append(("C15:update-not-routed-to-child", "%s of %s through %s: child field %s.%s is %s, written %s"
                                                    % ("create" if op["kind"] == "C" else "update", i, s0, c, f, got, want), k))
        else:
            if a["facts"] != (io[k - 1]["facts"] if k > 0 else []):
                out.append(("C15:rollback-changed-state", "a rolled-back transaction changed the database", k))
        if out:
            break
        prev_view = (ents, child, fv, cfv, sets)
    return out


def nontrivial(sch, txs, io):
    """mixed population (entities with and without child data in one family) and a successful update or delete of
    an entity with child data"""
    fam = families(sch)
    mixed = False
    acted = False
    prev_child = set()
    for t, a in zip(txs, io):
        _, _, _, ops = storefamx.parse_ops(t)
        ents, child, _, _, _ = view(a["facts"])
        for r, cs in fam.items():
            ids = ents.get(r, set())
            w = set(i for i in ids if any((r, i, c) in child for c in cs))
            if w and ids - w:
                mixed = True
        if a["commit"]:
            for op in ops:
                if op["kind"] in ("UP", "D") and any((sch.root(op["store"]), op["id"], c) in prev_child
                                                     for c in fam.get(sch.root(op["store"]), [])):
                    acted = True
        prev_child = child
    return mixed and acted


def main(argv):
    c = vlib.Check(PID, argv)
    c.assumptions = ["bbolt rollback restores the previous content (trusted; observed by the full traversal after every transaction)",
                     "the child store's update mapper (ChildStoreUpdateHandler.Mapper, supplied by the library's user) handles an entity iff "
                     "its child data exists and passes the new values on; the child's entity strategy persists the parent part through "
                     "PersistContext.GetParentContext - the conventions of the library's own test suite and users",
                     "one level of extension (a child store's parent is a root store), unique store names"]
    proof_ok = c.proof_step(FILES)
    storefamx.run_family_x(
        c, "c15", 1500, 20000, compare, oracle,
        "adaptive seeded histories (2-9 transactions x 1-3 ops) over a parent with a plain child store (idx: emp+mgr, parent carries unique, "
        "nullable unique, set, fk indexes and links; the child its own unique index) and a parent with an extended child store (casc: b+bx under "
        "cascade-delete fk indexes), plus C15np / C15nx (store_c15w3.go): parents with unique / set / fk indexes whose plain / extended child store "
        "declares nothing but fields, plus C15mxp / C15mpx / C15mpp / C15m3 (store_c15w6.go): ONE parent with SEVERAL child stores (extended registered "
        "before / after a plain one that owns a unique index and an fk index; two plain; three) - every child store keeps index entries of its own: "
        "create / full and field-checker update / DeleteById / DeleteWhere (filter true or <field> = <value an existing "
        "entity holds>, mostly one plain parents satisfy too) through EITHER store over mixed populations of plain-parent "
        "and child entities. After every transaction the bolt file is traversed and every store is read through QueryIds (unsorted and sorted), "
        "IterateIds, IterateValidIds, FindById and LoadById (field values), and through ~25 paged / sorted / counted queries per family store "
        "(QP tokens, c15_paging.go: QueryIds with a non-id sort asc/desc on parent and child fields x limit 1, 2, N-1 / skip 1, id-order QueryIds "
        "with the total, paged IterateIds, QueryWithCursorC; filter `true` and a selective filter on a parent field that plain parents match "
        "too). Compared with the extracted machine: results, entity / child-data / field / index facts of the families, all reads (QP: total and "
        "ordered page, answered by the transcribed scan loops of Store/Paging.v). Oracle on the implementation alone: child create exists in "
        "both; plain child reads = ids with child data, extended child reads = all parent ids (IterateValidIds: only those with extension data); "
        "totals and pages of the paged queries count / contain only the entities the store shows, pages hold min(limit, total - skip) rows; the "
        "child sees the parent's fields; shared fields, child fields and the parent's indexes reflect an update through either store; a patch "
        "leaves unnamed fields as stored; a delete through either store leaves no part; DeleteWhere through a store deletes exactly the entities "
        "that store's query shows for the filter (both parts) and nothing else; a create the parent's constraints refuse is refused through the "
        "child store too; parent unique / set / fk indexes mirror child entities (indexes declared on a child store: over the entities with data of "
        "that store). EVERY lookup variant of the store API through every store of a family, for the ids a..f and every stored id (LK / LKD / RE "
        "tokens): FindById, LoadById, LoadEntity, IsEntityPresent, GetEntityBucket, IterateValidIds.Seek agree with the entities per store kind and "
        "with one another (parent: all entities; plain child: entities with child data; extended child: loading variants all parent entities, "
        "bucket-level variants those with extension data), the entities the loading variants hand out are equal, GetRelatedEntitiesIdList / "
        "GetRelatedEntitiesCursor / IsEntityRelated show the stored string lists through the parent; after a DeleteById through ANY store of the family "
        "no entity / child data / field / set fact and no unique- or set-index entry of the parent's or ANY child store's index names the id. "
        "Seventh wave (store_c15w7.go): QueryWithCursorC through every store of a family over every cursor provider - IteratorMatchingAllOf / AnyOf of the "
        "parent's set indexes, GetRelatedEntitiesCursor of link collections and fk back-reference sets, tree sets of ids (QC tokens, answered by the scan "
        "loops of Store/PagingCursor.v over the candidate list): a plain child store returns / counts only candidates with child data, an extended one and "
        "the parent every candidate; wirings C15lp / C15lx / C15lm whose PARENT declares link collections (to a peer store and to itself), links aimed at "
        "entities with child data: both sides of those collections are compared with the machine, agree after every committed transaction "
        "(C15:parent-links), and no peer lists an id after its DeleteById / DeleteWhere through any store of the family. Non-trivial: mixed population and a committed update/delete of an entity with child data.",
        nontrivial=nontrivial)
    c.cov["paged_queries"] = dict(QP_STATS)
    c.cov["delete_where"] = dict(DW_STATS)
    c.cov["lookups"] = dict(LK_STATS)
    c.cov["cursor_queries"] = dict(QC_STATS)
    c.cov["parent_links"] = dict(LINK_STATS)
    c.cov["persist_validation"] = dict(VAL_STATS)
    if not proof_ok:
        c.violation(PID + ":proof", "proof obligation no longer checks: %s" % json.dumps(c.proof_broken)[:600],
                    dict(broken=c.proof_broken), no_input=True)
    return c.finish()
