(* C02 / C19 - the row comparison built from a sort specification is a total preorder on
   rows without NaN sort keys, and a strict total order on rows with distinct ids.
   Everything is derived from the comparator definitions of Query/Compare.v. *)
From Coq Require Import List ZArith NArith Bool Lia.
From Storage Require Import Base.Bytes Query.Compare.
Import ListNotations.

(* ---- three-valued comparators that behave like an order ---------------------------------- *)
Section Good.
  Context {A : Type}.

  (* on the domain P:  antisymmetric in the sense c b a = - c a b,  Lt transitive,
     Eq a congruence.  Together: c is the comparison of a total preorder. *)
  Record good_on (P : A -> Prop) (c : A -> A -> comparison) : Prop := {
    g_sym : forall a b, P a -> P b -> c b a = CompOpp (c a b);
    g_trans : forall a b d, P a -> P b -> P d -> c a b = Lt -> c b d = Lt -> c a d = Lt;
    g_eq : forall a b d, P a -> P b -> P d -> c a b = Eq -> c a d = c b d
  }.

  Variable P : A -> Prop.

  Lemma good_refl c a : good_on P c -> P a -> c a a = Eq.
  Proof.
    intros G Ha. pose proof (g_sym P c G a a Ha Ha) as H.
    destruct (c a a); simpl in H; congruence.
  Qed.

  Lemma good_eq_r c a b d : good_on P c -> P a -> P b -> P d -> c b d = Eq -> c a b = c a d.
  Proof.
    intros G Ha Hb Hd E.
    pose proof (g_eq P c G b d a Hb Hd Ha E) as H.
    rewrite (g_sym P c G a b Ha Hb), (g_sym P c G a d Ha Hd) in H.
    destruct (c a b), (c a d); simpl in H; congruence.
  Qed.

  Lemma good_gt_lt c a b : good_on P c -> P a -> P b -> c a b = Gt -> c b a = Lt.
  Proof. intros G Ha Hb H. rewrite (g_sym P c G a b Ha Hb), H. reflexivity. Qed.

  Lemma good_lt_gt c a b : good_on P c -> P a -> P b -> c a b = Lt -> c b a = Gt.
  Proof. intros G Ha Hb H. rewrite (g_sym P c G a b Ha Hb), H. reflexivity. Qed.

  (* "not greater" is transitive *)
  Lemma good_le_trans c a b d : good_on P c -> P a -> P b -> P d ->
    c a b <> Gt -> c b d <> Gt -> c a d <> Gt.
  Proof.
    intros G Ha Hb Hd H1 H2.
    destruct (c a b) eqn:E1; [ | | congruence].
    - rewrite (g_eq P c G a b d Ha Hb Hd E1). exact H2.
    - destruct (c b d) eqn:E2; [ | | congruence].
      + rewrite <- (good_eq_r c a b d G Ha Hb Hd E2), E1. discriminate.
      + rewrite (g_trans P c G a b d Ha Hb Hd E1 E2). discriminate.
  Qed.

  Lemma good_ext c c' : (forall a b, P a -> P b -> c a b = c' a b) -> good_on P c' -> good_on P c.
  Proof.
    intros E G. constructor.
    - intros a b Ha Hb. rewrite !E by assumption. apply (g_sym P c' G); assumption.
    - intros a b d Ha Hb Hd. rewrite !E by assumption. apply (g_trans P c' G); assumption.
    - intros a b d Ha Hb Hd. rewrite !E by assumption. apply (g_eq P c' G); assumption.
  Qed.

  Lemma good_opp c : good_on P c -> good_on P (fun a b => CompOpp (c a b)).
  Proof.
    intros G. constructor.
    - intros a b Ha Hb. rewrite (g_sym P c G a b Ha Hb). reflexivity.
    - intros a b d Ha Hb Hd H1 H2.
      assert (E1 : c b a = Lt).
      { rewrite (g_sym P c G a b Ha Hb). destruct (c a b); simpl in *; congruence. }
      assert (E2 : c d b = Lt).
      { rewrite (g_sym P c G b d Hb Hd). destruct (c b d); simpl in *; congruence. }
      pose proof (g_trans P c G d b a Hd Hb Ha E2 E1) as E3.
      rewrite (g_sym P c G d a Hd Ha), E3. reflexivity.
    - intros a b d Ha Hb Hd H.
      assert (E : c a b = Eq) by (destruct (c a b); simpl in *; congruence).
      rewrite (g_eq P c G a b d Ha Hb Hd E). reflexivity.
  Qed.

  Definition lex (c1 c2 : A -> A -> comparison) (a b : A) : comparison :=
    match c1 a b with Eq => c2 a b | r => r end.

  Lemma good_lex c1 c2 : good_on P c1 -> good_on P c2 -> good_on P (lex c1 c2).
  Proof.
    intros G1 G2. unfold lex. constructor.
    - intros a b Ha Hb.
      rewrite (g_sym P c1 G1 a b Ha Hb), (g_sym P c2 G2 a b Ha Hb).
      destruct (c1 a b); reflexivity.
    - intros a b d Ha Hb Hd H1 H2.
      destruct (c1 a b) eqn:E1; [ | | discriminate].
      + rewrite (g_eq P c1 G1 a b d Ha Hb Hd E1).
        destruct (c1 b d) eqn:E2; [ | reflexivity | discriminate].
        apply (g_trans P c2 G2 a b d); assumption.
      + destruct (c1 b d) eqn:E2; [ | | discriminate].
        * rewrite <- (good_eq_r c1 a b d G1 Ha Hb Hd E2), E1. reflexivity.
        * rewrite (g_trans P c1 G1 a b d Ha Hb Hd E1 E2). reflexivity.
    - intros a b d Ha Hb Hd H.
      destruct (c1 a b) eqn:E1; try discriminate.
      rewrite (g_eq P c1 G1 a b d Ha Hb Hd E1), (g_eq P c2 G2 a b d Ha Hb Hd H). reflexivity.
  Qed.
End Good.

Lemma good_pull {A B : Type} (f : B -> A) (P : A -> Prop) (Q : B -> Prop) c :
  (forall b, Q b -> P (f b)) -> good_on P c -> good_on Q (fun a b => c (f a) (f b)).
Proof.
  intros I G. constructor.
  - intros a b Ha Hb. apply (g_sym P c G); auto.
  - intros a b d Ha Hb Hd. apply (g_trans P c G); auto.
  - intros a b d Ha Hb Hd. apply (g_eq P c G); auto.
Qed.

Lemma good_weaken {A : Type} (P Q : A -> Prop) c :
  (forall a, Q a -> P a) -> good_on P c -> good_on Q c.
Proof. intros I G. exact (good_pull (fun x => x) P Q c I G). Qed.

(* ---- base orders ----------------------------------------------------------------------------- *)
Definition anyP {A : Type} (_ : A) : Prop := True.

Lemma good_Z : good_on anyP Z.compare.
Proof.
  constructor.
  - intros a b _ _. apply Z.compare_antisym.
  - intros a b d _ _ _ H1 H2. rewrite Z.compare_lt_iff in *. lia.
  - intros a b d _ _ _ H. apply Z.compare_eq in H. subst. reflexivity.
Qed.

Lemma good_N : good_on anyP N.compare.
Proof.
  constructor.
  - intros a b _ _. apply N.compare_antisym.
  - intros a b d _ _ _ H1 H2. rewrite N.compare_lt_iff in *. lia.
  - intros a b d _ _ _ H. apply N.compare_eq in H. subst. reflexivity.
Qed.

Lemma str_cmp_eq a : forall b, str_cmp a b = Eq -> a = b.
Proof.
  induction a as [|x a IH]; intros [|y b] H; simpl in H; try discriminate; try reflexivity.
  destruct (N.compare x y) eqn:E; try discriminate.
  apply N.compare_eq in E. subst. f_equal. apply IH. exact H.
Qed.

Lemma str_cmp_refl a : str_cmp a a = Eq.
Proof. induction a as [|x a IH]; simpl; [reflexivity|]. rewrite N.compare_refl. exact IH. Qed.

Lemma str_cmp_sym a : forall b, str_cmp b a = CompOpp (str_cmp a b).
Proof.
  induction a as [|x a IH]; intros [|y b]; simpl; try reflexivity.
  rewrite (N.compare_antisym x y). destruct (N.compare x y); simpl; auto.
Qed.

Lemma str_cmp_trans a : forall b d, str_cmp a b = Lt -> str_cmp b d = Lt -> str_cmp a d = Lt.
Proof.
  induction a as [|x a IH]; intros [|y b] [|z d] H1 H2; simpl in *; try discriminate; try reflexivity.
  destruct (N.compare x y) eqn:E1; try discriminate.
  - apply N.compare_eq in E1. subst y.
    destruct (N.compare x z) eqn:E2; try discriminate; try reflexivity.
    eapply IH; eassumption.
  - destruct (N.compare y z) eqn:E2; try discriminate.
    + apply N.compare_eq in E2. subst z. rewrite E1. reflexivity.
    + rewrite N.compare_lt_iff in *. assert (E3 : (x < z)%N) by lia.
      apply N.compare_lt_iff in E3. rewrite E3. reflexivity.
Qed.

Lemma good_str : good_on anyP str_cmp.
Proof.
  constructor.
  - intros a b _ _. apply str_cmp_sym.
  - intros a b d _ _ _. apply str_cmp_trans.
  - intros a b d _ _ _ H. apply str_cmp_eq in H. subst. reflexivity.
Qed.

(* ---- the nil-first lift and cmp3 --------------------------------------------------------- *)
Definition optP {A : Type} (P : A -> Prop) (o : option A) : Prop :=
  match o with None => True | Some x => P x end.

Definition lift {A : Type} (k : A -> A -> comparison) (a b : option A) : comparison :=
  match a, b with
  | None, None => Eq
  | None, Some _ => Lt
  | Some _, None => Gt
  | Some x, Some y => k x y
  end.

Lemma good_lift {A : Type} (P : A -> Prop) k : good_on P k -> good_on (optP P) (lift k).
Proof.
  intros G. constructor.
  - intros [a|] [b|] Ha Hb; simpl in *; try reflexivity. apply (g_sym P k G); assumption.
  - intros [a|] [b|] [d|] Ha Hb Hd; simpl in *; try discriminate; try reflexivity.
    apply (g_trans P k G); assumption.
  - intros [a|] [b|] [d|] Ha Hb Hd; simpl in *; try discriminate; try reflexivity.
    apply (g_eq P k G); assumption.
Qed.

(* the Go pattern  if a < b {-1} else if a > b {1} else {0}  computes k when  <  is k's Lt *)
Lemma cmp3_is_lift {A : Type} (P : A -> Prop) (lt : A -> A -> bool) k :
  good_on P k ->
  (forall x y, P x -> P y -> (lt x y = true <-> k x y = Lt)) ->
  forall a b, optP P a -> optP P b -> cmp3 lt a b = lift k a b.
Proof.
  intros G L [x|] [y|] Hx Hy; simpl in *; try reflexivity.
  destruct (lt x y) eqn:E1.
  - symmetry. apply L; assumption.
  - destruct (lt y x) eqn:E2.
    + apply L in E2; try assumption. symmetry. apply (good_lt_gt P k y x G Hy Hx E2).
    + destruct (k x y) eqn:E3; try reflexivity.
      * apply L in E3; try assumption. congruence.
      * apply (good_gt_lt P k x y G Hx Hy) in E3. apply L in E3; try assumption. congruence.
Qed.

Lemma good_cmp3 {A : Type} (P : A -> Prop) (lt : A -> A -> bool) k :
  good_on P k ->
  (forall x y, P x -> P y -> (lt x y = true <-> k x y = Lt)) ->
  good_on (optP P) (cmp3 lt).
Proof.
  intros G L. apply (good_ext (optP P) (cmp3 lt) (lift k)).
  - intros a b Ha Hb. apply (cmp3_is_lift P lt k G L); assumption.
  - apply good_lift. exact G.
Qed.

(* ---- the five typed comparators ------------------------------------------------------------ *)
Lemma good_cmp3_int : good_on (optP anyP) (cmp3 Z.ltb).
Proof.
  apply (good_cmp3 anyP Z.ltb Z.compare good_Z).
  intros x y _ _. rewrite Z.ltb_lt, Z.compare_lt_iff. tauto.
Qed.

Lemma good_cmp3_str : good_on (optP anyP) (cmp3 str_ltb).
Proof.
  apply (good_cmp3 anyP str_ltb str_cmp good_str).
  intros x y _ _. unfold str_ltb. destruct (str_cmp x y); split; congruence.
Qed.

Lemma good_cmp3_bool : good_on (optP anyP) (cmp3 bool_lt).
Proof.
  apply (good_cmp3 anyP bool_lt (fun a b => Z.compare (Z.b2z a) (Z.b2z b))).
  - exact (good_pull Z.b2z anyP anyP Z.compare (fun _ _ => I) good_Z).
  - intros [|] [|] _ _; unfold bool_lt; cbv; split; congruence.
Qed.

Definition time_cmp : Z * N -> Z * N -> comparison :=
  lex (fun a b => Z.compare (fst a) (fst b)) (fun a b => N.compare (snd a) (snd b)).

Lemma good_time_cmp : good_on anyP time_cmp.
Proof.
  apply good_lex.
  - exact (good_pull fst anyP anyP Z.compare (fun _ _ => I) good_Z).
  - exact (good_pull snd anyP anyP N.compare (fun _ _ => I) good_N).
Qed.

Lemma good_cmp3_time : good_on (optP anyP) (cmp3 time_lt).
Proof.
  apply (good_cmp3 anyP time_lt time_cmp good_time_cmp).
  intros [s1 n1] [s2 n2] _ _. unfold time_lt, time_cmp, lex. simpl.
  destruct (Z.compare s1 s2) eqn:E.
  - apply Z.compare_eq in E. subst. rewrite Z.ltb_irrefl, Z.eqb_refl. simpl.
    rewrite N.ltb_lt, N.compare_lt_iff. tauto.
  - rewrite Z.compare_lt_iff in E. apply Z.ltb_lt in E. rewrite E. simpl. tauto.
  - rewrite Z.compare_gt_iff in E.
    assert (H1 : Z.ltb s1 s2 = false) by (apply Z.ltb_ge; lia).
    assert (H2 : Z.eqb s1 s2 = false) by (apply Z.eqb_neq; lia).
    rewrite H1, H2. simpl. split; discriminate.
Qed.

Definition notnan (b : N) : Prop := f_is_nan b = false.

Lemma good_cmp3_float : good_on (optP notnan) (cmp3 f_lt).
Proof.
  apply (good_cmp3 notnan f_lt (fun a b => Z.compare (f_ord a) (f_ord b))).
  - exact (good_pull f_ord anyP notnan Z.compare (fun _ _ => I) good_Z).
  - intros x y Hx Hy. unfold f_lt. unfold notnan in *. rewrite Hx, Hy. simpl.
    rewrite Z.ltb_lt, Z.compare_lt_iff. tauto.
Qed.

Definition cell_ok (c : cell) : Prop := cell_no_nan c = true.

Lemma good_typed_cmp t : good_on cell_ok (typed_cmp t).
Proof.
  destruct t; unfold typed_cmp.
  - apply (good_pull to_bool (optP anyP) cell_ok (cmp3 bool_lt)); [|exact good_cmp3_bool].
    intros [] _; simpl; exact I.
  - apply (good_pull to_int (optP anyP) cell_ok (cmp3 Z.ltb)); [|exact good_cmp3_int].
    intros [] _; simpl; exact I.
  - apply (good_pull to_float (optP notnan) cell_ok (cmp3 f_lt)); [|exact good_cmp3_float].
    intros [] H; simpl; try exact I. unfold cell_ok in H. simpl in H. unfold notnan.
    destruct (f_is_nan bits); simpl in H; congruence.
  - apply (good_pull to_str (optP anyP) cell_ok (cmp3 str_ltb)); [|exact good_cmp3_str].
    intros [] _; simpl; exact I.
  - apply (good_pull to_time (optP anyP) cell_ok (cmp3 time_lt)); [|exact good_cmp3_time].
    intros [] _; simpl; exact I.
Qed.

(* ---- rows -------------------------------------------------------------------------------- *)
Definition row_ok (r : row) : Prop := row_no_nan r = true.

Lemma cell_of_ok r c : row_ok r -> cell_ok (cell_of r c).
Proof.
  intros H. destruct c as [|i t]; simpl; [reflexivity|].
  unfold row_ok, row_no_nan in H. rewrite forallb_forall in H.
  destruct (nth_in_or_default i (r_cells r) CNull) as [Hin|Hd].
  - apply H. exact Hin.
  - rewrite Hd. reflexivity.
Qed.

Lemma good_field_cmp f : good_on row_ok (field_cmp f).
Proof.
  unfold field_cmp, dir. destruct (sf_asc f).
  - apply (good_pull (fun r => cell_of r (sf_col f)) cell_ok row_ok (typed_cmp (col_type (sf_col f)))).
    + intros r. apply cell_of_ok.
    + apply good_typed_cmp.
  - apply (good_opp row_ok (fun a b => typed_cmp (col_type (sf_col f)) (cell_of a (sf_col f)) (cell_of b (sf_col f)))).
    apply (good_pull (fun r => cell_of r (sf_col f)) cell_ok row_ok (typed_cmp (col_type (sf_col f)))).
    + intros r. apply cell_of_ok.
    + apply good_typed_cmp.
Qed.

Lemma fields_cmp_cons f fs a b : fields_cmp (f :: fs) a b = lex (field_cmp f) (fields_cmp fs) a b.
Proof. reflexivity. Qed.

Lemma good_fields_cmp fs : good_on row_ok (fields_cmp fs).
Proof.
  induction fs as [|f fs IH].
  - constructor; intros; simpl; try reflexivity; discriminate.
  - apply (good_ext row_ok _ (lex (field_cmp f) (fields_cmp fs))).
    + intros a b _ _. apply fields_cmp_cons.
    + apply good_lex; [apply good_field_cmp | exact IH].
Qed.

(* the comparator of every sort specification is a total preorder on NaN-free rows *)
Lemma good_row_cmp fs : good_on row_ok (row_cmp fs).
Proof. unfold row_cmp. apply good_fields_cmp. Qed.

(* ... and the appended id key separates rows with different ids *)
Lemma fields_cmp_app_eq fs gs a b :
  fields_cmp (fs ++ gs) a b = Eq -> fields_cmp gs a b = Eq.
Proof.
  induction fs as [|f fs IH]; simpl; [auto|].
  destruct (field_cmp f a b); try discriminate. exact IH.
Qed.

Lemma row_cmp_eq_id fs a b : row_cmp fs a b = Eq -> r_id a = r_id b.
Proof.
  unfold row_cmp. intros H. apply fields_cmp_app_eq in H. simpl in H.
  unfold field_cmp, id_field in H. simpl in H.
  unfold str_ltb in H.
  rewrite (str_cmp_sym (r_id a) (r_id b)) in H.
  destruct (str_cmp (r_id a) (r_id b)) eqn:E; simpl in H; try discriminate.
  apply str_cmp_eq. exact E.
Qed.

(* first key = id: the id order decides *)
Lemma row_cmp_id_first asc rest a b :
  row_cmp ({| sf_col := ColId; sf_asc := asc |} :: rest) a b =
  match dir asc (cmp3 str_ltb (Some (r_id a)) (Some (r_id b))) with
  | Eq => row_cmp rest a b
  | c => c
  end.
Proof. reflexivity. Qed.

Lemma cmp3_str_lt a b : str_cmp a b = Lt -> cmp3 str_ltb (Some a) (Some b) = Lt.
Proof. intros H. simpl. unfold str_ltb. rewrite H. reflexivity. Qed.

Lemma row_cmp_nil_lt a b : str_cmp (r_id a) (r_id b) = Lt -> row_cmp [] a b = Lt.
Proof.
  intros H. unfold row_cmp. simpl. unfold field_cmp. simpl. unfold str_ltb. rewrite H. reflexivity.
Qed.
