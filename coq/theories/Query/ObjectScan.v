(* C19 - the in-memory object store.
   Model of objectz/object_cursor.go (ObjectCursor.Eval*, IsNil), objectz/object_store.go
   (QueryEntitiesC, memSortingScanner.Scan, scanner.setPaging, newRowComparator) and
   objectz/object_store_sort.go.  No proofs in this file.

   objectz is a copy of the bolt sorting scan: the comparators of object_store_sort.go are the
   comparators of boltz/query_sort.go with the typed reader replaced by the symbol's accessor
   (model: Query/Compare.v row_cmp, accessor = cell of the row), memSortingScanner.Scan is
   sortingScanner.ScanCursor over the store's iterator (model: Query/ScanSort.v
   scan_sorting_with), scanner.setPaging is the same function (Query/Paging.v).  What is
   specific to objectz: it ALWAYS uses the sorting scan, the iterator delivers the objects in
   an arbitrary order, and the null test of its cursor. *)
From Coq Require Import List ZArith NArith Bool.
From Storage Require Import Base.Bytes Query.Compare Query.Paging Query.ScanUnique Query.ScanSort
  Query.ScalarFilter.
Import ListNotations.
Open Scope Z_scope.

(* ObjectCursor.Eval<T>(name):  if val, ok := self.eval(name).(pointer to T); ok { return val }; return nil
   - the accessor's pointer, nil for an absent value: the typed readers to_bool ... to_time of
   Compare.v applied to the object's cell. *)

(* ObjectCursor.IsNil after the repair (fixes/C19-isnil-typed-nil.patch): the pointer inside the
   interface value is tested *)
Definition obj_is_nil : row -> colref -> bool := cell_is_null.

(* the pinned tree:  return nil == self.eval(name)  - symbol.Eval returns the typed pointer
   wrapped in an `any`, which is never equal to the untyped nil *)
Definition obj_is_nil_legacy (_ : row) (_ : colref) : bool := false.

(* ObjectStore.QueryEntitiesC: always memSortingScanner; [objs] in iterator order *)
Definition objectz_query (f : sfilter) (fs : list sort_field) (p : paging) (objs : list row) : list str * Z :=
  scan_sorting_with (eval_filter obj_is_nil f) (row_cmp fs) max_results (set_paging p) objs.

Definition objectz_query_legacy (f : sfilter) (fs : list sort_field) (p : paging) (objs : list row) : list str * Z :=
  scan_sorting_with (eval_filter obj_is_nil_legacy f) (row_cmp fs) max_results_legacy (set_paging_legacy p) objs.

(* the bolt store on the same values: rowCursorImpl.IsNil is  fieldType == TypeNil *)
Definition bolt_is_nil : row -> colref -> bool := cell_is_null.
Definition boltz_query (f : sfilter) (fs : list sort_field) (p : paging) (rows : list row) : list str * Z :=
  query_ids (eval_filter bolt_is_nil f) fs p rows.
