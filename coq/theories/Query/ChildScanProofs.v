(* C02 - proofs about Query/ChildScan.v: the scans of a child store are the scans of the root
   store for the predicate "belongs to the store and matches", hence exact for the entities of the
   child store; executing a compiled query does not change what the query means. *)
From Coq Require Import List ZArith NArith Bool Lia Sorted Permutation.
From Storage Require Import Base.Bytes Query.Compare Query.CompareProofs Query.Paging Query.PagingProofs
  Query.ScanUnique Query.ScanUniqueProofs Query.ScanSort Query.ScanSortProofs Query.ChildScan.
Import ListNotations.
Open Scope Z_scope.

Lemma fold_left_ext2 {A B : Type} (f g : A -> B -> A) (l : list B) :
  (forall a b, f a b = g a b) -> forall a, fold_left f l a = fold_left g l a.
Proof. intros H. induction l as [|x l IH]; intros a; simpl; [reflexivity|]. rewrite H. apply IH. Qed.

Lemma filter_all_true {A : Type} (p : A -> bool) (l : list A) : (forall x, p x = true) -> filter p l = l.
Proof. intros H. induction l as [|x l IH]; simpl; [reflexivity|]. rewrite H, IH. reflexivity. Qed.

Section ChildProofs.
  Variable sv : store_view.
  Variable present : row -> bool.
  Variable matches : row -> bool.

  (* the predicate the loops effectively apply to a row of the root store *)
  Definition store_matches (r : row) : bool := in_store sv present r && matches r.

  Lemma cu_step_eq off lim st r :
    cu_step sv present matches off lim st r = ustep store_matches off lim st r.
  Proof.
    unfold cu_step, ustep, store_matches, in_store.
    destruct (not_in_store sv present r); simpl; reflexivity.
  Qed.

  Lemma child_scan_unique_with_eq offlim forward rows :
    child_scan_unique_with sv present matches offlim forward rows
    = scan_unique_with store_matches offlim forward rows.
  Proof.
    unfold child_scan_unique_with, scan_unique_with.
    rewrite (fold_left_ext2 _ _ _ (cu_step_eq (fst offlim) (snd offlim))). reflexivity.
  Qed.

  Lemma child_next_paged_eq off lim cur : forall o c,
    child_next_paged sv present matches off lim cur o c = next_paged store_matches off lim cur o c.
  Proof.
    induction cur as [|r cur IH]; intros o c; simpl; [reflexivity|].
    destruct (c >=? lim); [reflexivity|].
    unfold store_matches, in_store. destruct (not_in_store sv present r); simpl; [apply IH|].
    destruct (matches r); [|apply IH]. destruct (o <? off); [apply IH|reflexivity].
  Qed.

  Lemma child_drain_eq off lim : forall fuel cur o c,
    child_drain sv present matches fuel off lim cur o c = drain store_matches fuel off lim cur o c.
  Proof.
    induction fuel as [|f IH]; intros cur o c; simpl; [reflexivity|].
    rewrite child_next_paged_eq.
    destruct (next_paged store_matches off lim cur o c) as [[r|] [cur' [o' c']]]; [|reflexivity].
    f_equal. apply IH.
  Qed.

  Lemma child_iterate_ids_eq p rows :
    child_iterate_ids sv present matches p rows = iterate_ids store_matches p rows.
  Proof. unfold child_iterate_ids, child_iterate_ids_with, iterate_ids, iterate_ids_with. apply child_drain_eq. Qed.

  Lemma cs_step_eq cmp maxr st r :
    cs_step sv present matches cmp maxr st r = sstep store_matches cmp maxr st r.
  Proof.
    unfold cs_step, sstep, store_matches, in_store.
    destruct (not_in_store sv present r); simpl; reflexivity.
  Qed.

  Lemma child_scan_sorting_eq fs p rows :
    child_scan_sorting sv present matches fs p rows = scan_sorting store_matches fs p rows.
  Proof.
    unfold child_scan_sorting, child_scan_sorting_with, scan_sorting, scan_sorting_with.
    rewrite (fold_left_ext2 _ _ _ (cs_step_eq (row_cmp fs) _)). reflexivity.
  Qed.

  Lemma child_query_ids_eq fs p rows :
    child_query_ids sv present matches fs p rows = query_ids store_matches fs p rows.
  Proof.
    unfold child_query_ids, query_ids, child_scan_unique, scan_unique.
    destruct (new_scanner fs).
    - apply child_scan_unique_with_eq.
    - apply child_scan_unique_with_eq.
    - apply child_scan_sorting_eq.
  Qed.

  Lemma filter_store_matches rows :
    filter store_matches rows = filter matches (store_rows sv present rows).
  Proof.
    unfold store_rows, store_matches. induction rows as [|r rows IH]; simpl; [reflexivity|].
    destruct (in_store sv present r); simpl; [|exact IH].
    destruct (matches r); rewrite IH; reflexivity.
  Qed.

  Lemma query_spec_store fs p rows :
    query_spec fs p store_matches rows = query_spec fs p matches (store_rows sv present rows).
  Proof. unfold query_spec. rewrite filter_store_matches. reflexivity. Qed.

  (* ---- exactness for the entities of the queried store ------------------------------------------ *)

  Lemma child_query_exact_lemma fs p rows :
    wf_paging p -> id_sorted rows -> rows_ok rows -> Z.of_nat (length rows) <= max_int64 ->
    child_query_ids sv present matches fs p rows = query_spec fs p matches (store_rows sv present rows).
  Proof.
    intros. rewrite child_query_ids_eq, query_ids_exact_lemma by assumption. apply query_spec_store.
  Qed.

  Lemma child_sorting_exact_lemma fs p rows :
    wf_paging p -> NoDup (map r_id rows) -> Z.of_nat (length rows) <= max_int64 ->
    child_scan_sorting sv present matches fs p rows = query_spec fs p matches (store_rows sv present rows).
  Proof.
    intros. rewrite child_scan_sorting_eq, scan_sorting_exact_lemma by assumption. apply query_spec_store.
  Qed.

  Lemma child_iterate_exact_lemma p rows :
    Z.of_nat (length rows) <= max_int64 ->
    child_iterate_ids sv present matches p rows
    = map r_id (page p (filter matches (store_rows sv present rows))).
  Proof.
    intros. rewrite child_iterate_ids_eq, iterate_paged_exact_lemma by assumption.
    rewrite filter_store_matches. reflexivity.
  Qed.

  Lemma child_count_lemma fs p p' rows :
    wf_paging p -> wf_paging p' -> id_sorted rows -> rows_ok rows -> Z.of_nat (length rows) <= max_int64 ->
    snd (child_query_ids sv present matches fs p rows)
      = Z.of_nat (length (filter matches (store_rows sv present rows))) /\
    snd (child_query_ids sv present matches fs p rows) = snd (child_query_ids sv present matches fs p' rows).
  Proof.
    intros. rewrite !child_query_exact_lemma by assumption. split; reflexivity.
  Qed.

  Lemma child_strategies_agree_lemma fs p (forward : bool) rows :
    (if forward then fs = [] \/ id_first true fs else id_first false fs) ->
    wf_paging p -> id_sorted rows -> rows_ok rows -> Z.of_nat (length rows) <= max_int64 ->
    child_scan_unique sv present matches p forward rows = child_scan_sorting sv present matches fs p rows.
  Proof.
    intros. unfold child_scan_unique. rewrite child_scan_unique_with_eq, child_scan_sorting_eq.
    apply scanners_agree_lemma; assumption.
  Qed.
End ChildProofs.

(* which rows are entities of the store *)
Lemma store_rows_root present rows : store_rows root_view present rows = rows.
Proof. unfold store_rows. apply filter_all_true. intros x. reflexivity. Qed.

Lemma store_rows_extended present rows :
  store_rows {| sv_child := true; sv_extended := true |} present rows = rows.
Proof.
  unfold store_rows. apply filter_all_true. intros x. unfold in_store, not_in_store. simpl.
  rewrite andb_false_r. reflexivity.
Qed.

Lemma store_rows_child present rows :
  store_rows {| sv_child := true; sv_extended := false |} present rows = filter present rows.
Proof.
  unfold store_rows. induction rows as [|r rows IH]; simpl; [reflexivity|].
  unfold in_store at 1, not_in_store. simpl. rewrite andb_true_r, negb_involutive.
  destruct (present r); rewrite IH; reflexivity.
Qed.

Lemma store_rows_cases_lemma : forall (present : row -> bool) (rows : list row),
  store_rows root_view present rows = rows /\
  store_rows {| sv_child := true; sv_extended := true |} present rows = rows /\
  store_rows {| sv_child := true; sv_extended := false |} present rows = filter present rows.
Proof.
  intros. split; [apply store_rows_root|split; [apply store_rows_extended|apply store_rows_child]].
Qed.

Lemma child_store_exact_lemma : forall (sv : store_view) (present matches : row -> bool)
    (fs : list sort_field) (p : paging) (rows : list row),
  wf_paging p -> id_sorted rows -> rows_ok rows -> Z.of_nat (length rows) <= max_int64 ->
  child_query_ids sv present matches fs p rows = query_spec fs p matches (store_rows sv present rows) /\
  child_scan_sorting sv present matches fs p rows = query_spec fs p matches (store_rows sv present rows) /\
  child_iterate_ids sv present matches p rows = map r_id (page p (filter matches (store_rows sv present rows))).
Proof.
  intros. split; [|split].
  - apply child_query_exact_lemma; assumption.
  - apply child_sorting_exact_lemma; try assumption. apply id_sorted_nodup. assumption.
  - apply child_iterate_exact_lemma; assumption.
Qed.

(* ---- re-execution of a compiled query ----------------------------------------------------------- *)

Definition eff_skip (s : option Z) : Z := match s with None => 0 | Some s => if s <? 0 then 0 else s end.
Definition eff_limit (l : option Z) : Z :=
  match l with None => max_int64 | Some l => if l <? 0 then max_int64 else l end.

Lemma set_paging_components p : set_paging p = (eff_skip (pg_skip p), eff_limit (pg_limit p)).
Proof. reflexivity. Qed.

Lemma eff_skip_idem s : eff_skip (Some (eff_skip s)) = eff_skip s.
Proof.
  unfold eff_skip. destruct s as [s|]; [|reflexivity].
  destruct (s <? 0) eqn:E; [reflexivity|]. rewrite E. reflexivity.
Qed.

Lemma eff_limit_idem l : eff_limit (Some (eff_limit l)) = eff_limit l.
Proof.
  unfold eff_limit. destruct l as [l|]; [|reflexivity].
  destruct (l <? 0) eqn:E; [reflexivity|]. rewrite E. reflexivity.
Qed.

(* the write-back of setPaging is idempotent: the normalised query asks for the same page *)
Lemma normalize_paging_idem p : set_paging (normalize_paging p) = set_paging p.
Proof.
  unfold normalize_paging. rewrite !set_paging_components. cbn [pg_skip pg_limit fst snd].
  rewrite eff_skip_idem, eff_limit_idem. reflexivity.
Qed.

Lemma normalize_paging_wf p : wf_paging p -> wf_paging (normalize_paging p).
Proof.
  intros Hwf. pose proof (set_paging_fst_range p Hwf) as Ho.
  pose proof (set_paging_snd_range p (wf_limit p Hwf)) as Hl.
  constructor; unfold normalize_paging; cbn [pg_skip pg_limit]; intros x E.
  - assert (Hx : x = fst (set_paging p)) by congruence. rewrite Hx.
    unfold in_int64, min_int64, max_int64 in *. lia.
  - assert (Hx : x = snd (set_paging p)) by congruence. rewrite Hx.
    unfold in_int64, min_int64, max_int64 in *. lia.
Qed.

(* two query objects that mean the same: same predicate, same sort fields, same effective paging *)
Definition qeq (q q' : cquery) : Prop :=
  cq_match q = cq_match q' /\ cq_sort q = cq_sort q' /\ effective_paging q = effective_paging q'.

Lemma qeq_refl q : qeq q q.
Proof. repeat split. Qed.

Section RerunProofs.
  Variable sv : store_view.
  Variable present : row -> bool.
  Variable rows : list row.

  (* an answer depends on the query object only through predicate, sort fields and effective paging *)
  Lemma answer_of_qeq e q q' : qeq q q' -> answer_of sv present rows e q = answer_of sv present rows e q'.
  Proof.
    destruct q as [m fs p], q' as [m' fs' p']. unfold qeq, effective_paging. simpl.
    intros [-> [-> H]].
    destruct e; unfold answer_of; simpl;
      unfold child_query_ids, child_scan_unique, child_iterate_ids, child_scan_sorting; rewrite H; reflexivity.
  Qed.

  Lemma mutate_qeq o q q' : qeq q q' -> qeq (mutate o q) (mutate o q').
  Proof.
    destruct q as [m fs p], q' as [m' fs' p']. unfold qeq, effective_paging. simpl.
    intros [Hm [Hf H]]. rewrite !set_paging_components in H. injection H as Hs Hl.
    destruct o; simpl; rewrite ?set_paging_components; simpl; repeat split; congruence.
  Qed.

  Lemma exec_qeq e q : qeq (snd (exec sv present rows e q)) q.
  Proof.
    unfold exec, qeq, effective_paging. simpl. repeat split. apply normalize_paging_idem.
  Qed.

  Lemma qeq_trans a b c : qeq a b -> qeq b c -> qeq a c.
  Proof. unfold qeq. intros [? [? ?]] [? [? ?]]. repeat split; congruence. Qed.

  Lemma rerun_pure_gen : forall ops q q', qeq q q' ->
    run_prog sv present rows q ops = pure_prog sv present rows q' ops.
  Proof.
    induction ops as [|o ops IH]; intros q q' H; [reflexivity|].
    destruct o; simpl;
      try (apply IH; apply (mutate_qeq (SetSkip z)) || apply (mutate_qeq (SetLimit z))
                     || apply (mutate_qeq (AdoptSort fs)) || apply (mutate_qeq (SetPred m)); exact H).
    f_equal.
    - apply answer_of_qeq. exact H.
    - apply IH. eapply qeq_trans; [|exact H]. apply (exec_qeq e q).
  Qed.

  Lemma rerun_pure_lemma q ops : run_prog sv present rows q ops = pure_prog sv present rows q ops.
  Proof. apply rerun_pure_gen. apply qeq_refl. Qed.

  (* ---- ... and each answer is the specified one ------------------------------------------------ *)
  Definition qop_wf (o : qop) : Prop :=
    match o with SetSkip z | SetLimit z => in_int64 z | _ => True end.

  Lemma mutate_wf o q : qop_wf o -> wf_paging (cq_paging q) -> wf_paging (cq_paging (mutate o q)).
  Proof.
    intros Ho [Hs Hl]. destruct o; simpl in *; try (constructor; assumption);
      constructor; simpl; intros x E; try (inversion E; subst; exact Ho); auto.
  Qed.

  Hypothesis Hsorted : id_sorted rows.
  Hypothesis Hok : rows_ok rows.
  Hypothesis Hlen : Z.of_nat (length rows) <= max_int64.

  Lemma answer_of_exact e q : wf_paging (cq_paging q) ->
    answer_of sv present rows e q = answer_spec sv present rows e q.
  Proof.
    intros Hwf. destruct e; unfold answer_of, answer_spec.
    - rewrite child_query_exact_lemma by assumption. reflexivity.
    - rewrite child_query_exact_lemma by assumption. reflexivity.
    - rewrite child_iterate_exact_lemma by assumption. reflexivity.
    - rewrite child_sorting_exact_lemma; try assumption; [reflexivity|]. apply id_sorted_nodup. exact Hsorted.
  Qed.

  Lemma pure_prog_exact : forall ops q, Forall qop_wf ops -> wf_paging (cq_paging q) ->
    pure_prog sv present rows q ops = spec_prog sv present rows q ops.
  Proof.
    induction ops as [|o ops IH]; intros q Hops Hwf; [reflexivity|].
    inversion Hops as [|? ? Ho Hrest]; subst.
    destruct o; simpl;
      try (apply IH; [exact Hrest|]; apply (mutate_wf (SetSkip z)) || apply (mutate_wf (SetLimit z))
                     || apply (mutate_wf (AdoptSort fs)) || apply (mutate_wf (SetPred m)); assumption).
    f_equal; [apply answer_of_exact; exact Hwf|]. apply IH; assumption.
  Qed.

  Lemma rerun_exact_lemma q ops : Forall qop_wf ops -> wf_paging (cq_paging q) ->
    run_prog sv present rows q ops = spec_prog sv present rows q ops.
  Proof. intros. rewrite rerun_pure_lemma. apply pure_prog_exact; assumption. Qed.
End RerunProofs.
