(* C02 - the id-ordered scan and the paged cursor return exactly the specified page and count. *)
From Coq Require Import List ZArith NArith Bool Lia Sorted Permutation.
From Storage Require Import Base.Bytes Query.Compare Query.CompareProofs Query.Paging Query.PagingProofs
  Query.ScanUnique.
Import ListNotations.
Open Scope Z_scope.

(* ---- ordered lists --------------------------------------------------------------------------- *)
Section SortedFacts.
  Context {A : Type}.

  Lemma ssorted_app (R : A -> A -> Prop) l1 : forall l2,
    StronglySorted R l1 -> StronglySorted R l2 ->
    (forall x y, In x l1 -> In y l2 -> R x y) -> StronglySorted R (l1 ++ l2).
  Proof.
    induction l1 as [|a l1 IH]; intros l2 H1 H2 H; simpl; [exact H2|].
    inversion H1 as [|? ? H1' Ha]; subst. constructor.
    - apply IH; try assumption. intros x y Hx Hy. apply H; [right; exact Hx | exact Hy].
    - apply Forall_app. split; [exact Ha|].
      rewrite Forall_forall. intros y Hy. apply H; [left; reflexivity | exact Hy].
  Qed.

  Lemma ssorted_rev (R : A -> A -> Prop) l :
    StronglySorted R l -> StronglySorted (fun a b => R b a) (rev l).
  Proof.
    induction l as [|a l IH]; intros H; simpl; [constructor|].
    inversion H as [|? ? H' Ha]; subst.
    apply ssorted_app.
    - apply IH. exact H'.
    - constructor; constructor.
    - intros x y Hx Hy. destruct Hy as [Hy|[]]. subst y.
      rewrite Forall_forall in Ha. apply Ha. apply in_rev. exact Hx.
  Qed.

  Lemma ssorted_filter (R : A -> A -> Prop) (p : A -> bool) l :
    StronglySorted R l -> StronglySorted R (filter p l).
  Proof.
    induction l as [|a l IH]; intros H; simpl; [constructor|].
    inversion H as [|? ? H' Ha]; subst.
    destruct (p a); [|apply IH; exact H'].
    constructor; [apply IH; exact H'|].
    rewrite Forall_forall in *. intros x Hx. apply filter_In in Hx. apply Ha. tauto.
  Qed.

  Lemma ssorted_impl (R R' : A -> A -> Prop) l :
    (forall a b, R a b -> R' a b) -> StronglySorted R l -> StronglySorted R' l.
  Proof.
    intros I. induction l as [|a l IH]; intros H; [constructor|].
    inversion H as [|? ? H' Ha]; subst. constructor; [apply IH; exact H'|].
    rewrite Forall_forall in *. intros x Hx. apply I. apply Ha. exact Hx.
  Qed.

  Lemma filter_rev' (p : A -> bool) l : filter p (rev l) = rev (filter p l).
  Proof.
    induction l as [|a l IH]; simpl; [reflexivity|].
    rewrite filter_app, IH. simpl. destruct (p a); simpl; [reflexivity|]. apply app_nil_r.
  Qed.
End SortedFacts.

(* the entities bucket: rows in strictly ascending id order *)
Definition id_lt (a b : row) : Prop := str_cmp (r_id a) (r_id b) = Lt.
Definition id_sorted (rows : list row) : Prop := StronglySorted id_lt rows.

Lemma id_sorted_nodup rows : id_sorted rows -> NoDup (map r_id rows).
Proof.
  induction rows as [|a l IH]; intros H; simpl; [constructor|].
  inversion H as [|? ? H' Ha]; subst. constructor; [|apply IH; exact H'].
  intros Hin. apply in_map_iff in Hin. destruct Hin as [b [E Hb]].
  rewrite Forall_forall in Ha. specialize (Ha b Hb). unfold id_lt in Ha.
  rewrite E, str_cmp_refl in Ha. discriminate.
Qed.

Section Proofs.
  Variable matches : row -> bool.

  (* ---- the counter machine of ScanCursor ---------------------------------------------------- *)
  Lemma ufold off lim (cur : list row) : forall st,
    0 <= u_offset st -> 0 <= u_collected st -> 0 <= u_count st ->
    u_offset st + Z.of_nat (length cur) <= max_int64 ->
    u_collected st + Z.of_nat (length cur) <= max_int64 ->
    u_count st + Z.of_nat (length cur) <= max_int64 ->
    let st' := fold_left (ustep matches off lim) cur st in
    u_result st' = u_result st ++
        map r_id (takeZ (lim - u_collected st) (dropZ (off - u_offset st) (filter matches cur)))
    /\ u_count st' = u_count st + Z.of_nat (length (filter matches cur)).
  Proof.
    induction cur as [|r cur IH]; intros st Ho Hc Hn Bo Bc Bn.
    - simpl. rewrite app_nil_r. split; [reflexivity | lia].
    - simpl length in Bo, Bc, Bn. rewrite Nat2Z.inj_succ in Bo, Bc, Bn.
      simpl fold_left. simpl filter.
      remember (ustep matches off lim st r) as st1 eqn:Est.
      specialize (IH st1). simpl in IH.
      unfold ustep in Est. destruct (matches r) eqn:Hm.
      + destruct (u_offset st <? off) eqn:E1.
        * apply Z.ltb_lt in E1. rewrite !incr64_small in Est by lia. subst st1. simpl in IH.
          destruct IH as [R1 R2]; try lia.
          split.
          -- rewrite R1. rewrite (dropZ_cons (off - u_offset st)).
             assert (E : (off - u_offset st <=? 0) = false) by (apply Z.leb_gt; lia). rewrite E.
             replace (off - (u_offset st + 1)) with (off - u_offset st - 1) by lia. reflexivity.
          -- rewrite R2. simpl length. lia.
        * apply Z.ltb_ge in E1. destruct (u_collected st <? lim) eqn:E2.
          -- apply Z.ltb_lt in E2. rewrite !incr64_small in Est by lia. subst st1. simpl in IH.
             destruct IH as [R1 R2]; try lia.
             split.
             ++ rewrite R1. rewrite <- app_assoc. f_equal.
                rewrite !(dropZ_nonpos (off - u_offset st)) by lia.
                rewrite (takeZ_cons (lim - u_collected st)).
                assert (E : (lim - u_collected st <=? 0) = false) by (apply Z.leb_gt; lia). rewrite E.
                replace (lim - (u_collected st + 1)) with (lim - u_collected st - 1) by lia. reflexivity.
             ++ rewrite R2. simpl length. lia.
          -- apply Z.ltb_ge in E2. rewrite !incr64_small in Est by lia. subst st1. simpl in IH.
             destruct IH as [R1 R2]; try lia.
             split.
             ++ rewrite R1. rewrite !(takeZ_nonpos (lim - u_collected st)) by lia. reflexivity.
             ++ rewrite R2. simpl length. lia.
      + subst st1. apply IH; lia.
  Qed.

  Lemma scan_unique_with_spec off lim (forward : bool) (rows : list row) :
    Z.of_nat (length rows) <= max_int64 ->
    let cursor := if forward then rows else rev rows in
    scan_unique_with matches (off, lim) forward rows =
      (map r_id (takeZ lim (dropZ off (filter matches cursor))),
       Z.of_nat (length (filter matches rows))).
  Proof.
    intros Hlen cursor. unfold scan_unique_with. simpl fst. simpl snd. fold cursor.
    assert (Hl : length cursor = length rows).
    { unfold cursor. destruct forward; [reflexivity | apply rev_length]. }
    destruct (ufold off lim cursor ustate0) as [R1 R2]; simpl; try lia.
    simpl in R1, R2. rewrite R1, R2. rewrite !Z.sub_0_r. f_equal.
    unfold cursor. destruct forward; [reflexivity|].
    rewrite filter_rev', rev_length. reflexivity.
  Qed.

  (* ---- which sort specifications the id cursor serves ---------------------------------------- *)
  Definition id_first (asc : bool) (fs : list sort_field) : Prop :=
    exists f rest, fs = f :: rest /\ sf_col f = ColId /\ sf_asc f = asc.

  Lemma id_first_lt asc fs a b : id_first asc fs ->
    (if asc then str_cmp (r_id a) (r_id b) else str_cmp (r_id b) (r_id a)) = Lt ->
    row_cmp fs a b = Lt.
  Proof.
    intros [f [rest [E [Hc Ha]]]] H. subst fs. destruct f as [c d]. simpl in Hc, Ha. subst c d.
    rewrite row_cmp_id_first. destruct asc; simpl.
    - unfold str_ltb. rewrite H. reflexivity.
    - unfold str_ltb. rewrite (str_cmp_sym (r_id b) (r_id a)), H. reflexivity.
  Qed.

  Lemma sorted_forward fs rows : fs = [] \/ id_first true fs ->
    id_sorted rows -> StronglySorted (cle (row_cmp fs)) rows.
  Proof.
    intros Hfs. apply ssorted_impl. intros a b H. unfold cle, id_lt in *.
    destruct Hfs as [E|Hf].
    - subst fs. rewrite (row_cmp_nil_lt a b H). discriminate.
    - rewrite (id_first_lt true fs a b Hf H). discriminate.
  Qed.

  Lemma sorted_reverse fs rows : id_first false fs ->
    id_sorted rows -> StronglySorted (cle (row_cmp fs)) (rev rows).
  Proof.
    intros Hf H. apply ssorted_rev in H. revert H. apply ssorted_impl.
    intros a b H. unfold cle, id_lt in *. rewrite (id_first_lt false fs a b Hf H). discriminate.
  Qed.

  (* ---- exactness of the id-ordered scan ------------------------------------------------------ *)
  Lemma scan_unique_exact_lemma fs p (forward : bool) rows :
    (if forward then fs = [] \/ id_first true fs else id_first false fs) ->
    id_sorted rows -> rows_ok rows -> Z.of_nat (length rows) <= max_int64 ->
    scan_unique matches p forward rows = query_spec fs p matches rows.
  Proof.
    intros Hfs Hsorted Hok Hlen.
    unfold scan_unique. destruct (set_paging p) as [off lim] eqn:Ep.
    rewrite (scan_unique_with_spec off lim forward rows Hlen).
    unfold query_spec. f_equal. f_equal.
    set (M := filter matches rows).
    assert (HM : Z.of_nat (length M) <= max_int64).
    { pose proof (filter_len_le matches rows) as H. fold M in H. lia. }
    assert (HMok : rows_ok M) by (apply rows_ok_filter; exact Hok).
    assert (HMsorted : id_sorted M) by (apply ssorted_filter; exact Hsorted).
    assert (HMsep : separated (row_cmp fs) M).
    { apply rows_separated. apply id_sorted_nodup. exact HMsorted. }
    assert (Esort : sort_by (row_cmp fs) M = if forward then M else rev M).
    { apply (sort_by_unique row (row_cmp fs) row_ok (good_row_cmp fs)); try assumption.
      - destruct forward; [apply Permutation_refl | apply Permutation_rev].
      - destruct forward; [apply sorted_forward | apply sorted_reverse]; assumption. }
    rewrite Esort.
    rewrite page_as_take_drop.
    - rewrite Ep. simpl fst. simpl snd. destruct forward; [reflexivity|].
      unfold M. rewrite filter_rev'. reflexivity.
    - destruct forward; [exact HM | rewrite rev_length; exact HM].
  Qed.

  (* ---- the paged cursor ----------------------------------------------------------------------- *)
  Lemma drain_S f off lim cur o c :
    drain matches (S f) off lim cur o c =
    match next_paged matches off lim cur o c with
    | (None, _) => []
    | (Some r, (cur', (o', c'))) => r_id r :: drain matches f off lim cur' o' c'
    end.
  Proof. reflexivity. Qed.

  Lemma next_cons off lim r cur o c :
    next_paged matches off lim (r :: cur) o c =
    if c >=? lim then (None, (r :: cur, (o, c)))
    else if matches r then
      if o <? off then next_paged matches off lim cur (incr64 o) c
      else (Some r, (cur, (o, incr64 c)))
    else next_paged matches off lim cur o c.
  Proof. reflexivity. Qed.

  Lemma drain_spec off lim (cur : list row) : forall f o c,
    (length cur <= f)%nat -> 0 <= o -> 0 <= c ->
    o + Z.of_nat (length cur) <= max_int64 -> c + Z.of_nat (length cur) <= max_int64 ->
    drain matches (S f) off lim cur o c =
      map r_id (takeZ (lim - c) (dropZ (off - o) (filter matches cur))).
  Proof.
    induction cur as [|r cur IH]; intros f o c Hf Ho Hc Bo Bc.
    - reflexivity.
    - simpl length in *. rewrite Nat2Z.inj_succ in Bo, Bc.
      rewrite drain_S, next_cons.
      destruct (c >=? lim) eqn:E0.
      + apply Z.geb_le in E0. rewrite takeZ_nonpos by lia. reflexivity.
      + rewrite Z.geb_leb in E0. apply Z.leb_gt in E0. simpl filter.
        destruct (matches r) eqn:Hm.
        * destruct (o <? off) eqn:E1.
          -- apply Z.ltb_lt in E1. rewrite <- drain_S.
             rewrite incr64_small by lia.
             rewrite IH; try lia.
             rewrite (dropZ_cons (off - o)).
             assert (E : (off - o <=? 0) = false) by (apply Z.leb_gt; lia). rewrite E.
             replace (off - (o + 1)) with (off - o - 1) by lia. reflexivity.
          -- apply Z.ltb_ge in E1.
             destruct f as [|f']; [lia|].
             rewrite incr64_small by lia.
             rewrite IH; try lia.
             rewrite !(dropZ_nonpos (off - o)) by lia.
             rewrite (takeZ_cons (lim - c)).
             assert (E : (lim - c <=? 0) = false) by (apply Z.leb_gt; lia). rewrite E.
             replace (lim - (c + 1)) with (lim - c - 1) by lia. reflexivity.
        * rewrite <- drain_S. apply IH; lia.
  Qed.

  Lemma iterate_paged_exact_lemma p rows :
    Z.of_nat (length rows) <= max_int64 ->
    iterate_ids matches p rows = map r_id (page p (filter matches rows)).
  Proof.
    intros Hlen. unfold iterate_ids, iterate_ids_with.
    rewrite drain_spec; try lia.
    rewrite !Z.sub_0_r. rewrite page_as_take_drop; [reflexivity|].
    pose proof (filter_len_le matches rows). lia.
  Qed.
End Proofs.
