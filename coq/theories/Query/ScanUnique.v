(* C02 - the id-ordered scan strategy and the paged cursor.
   Model of boltz/query_scanners.go uniqueIndexScanner.ScanCursor / nextUnpaged / Next and of
   boltz/store_query.go IterateIds -> newFilteredCursor.  No proofs in this file.

   The bolt cursor over the entities bucket enumerates the ids in ascending byte order
   (forward) or descending (reverse); the model receives the rows in ascending id order. *)
From Coq Require Import List ZArith NArith Bool.
From Storage Require Import Base.Bytes Query.Compare Query.Paging.
Import ListNotations.
Open Scope Z_scope.

Section ScanUnique.
  Variable matches : row -> bool.            (* query.EvalBool(rowCursor) *)

  (* counters of uniqueIndexScanner *)
  Record ustate := { u_offset : Z; u_collected : Z; u_count : Z; u_result : list str }.

  (* body of the loop in ScanCursor for one row delivered by nextUnpaged (= a matching row):
       if scanner.offset < scanner.targetOffset { scanner.offset++ }
       else if scanner.collected < scanner.targetLimit { result = append(result, id); scanner.collected++ }
       scanner.count++                                                                      *)
  Definition ustep (off lim : Z) (st : ustate) (r : row) : ustate :=
    if matches r then
      if u_offset st <? off then
        {| u_offset := incr64 (u_offset st); u_collected := u_collected st;
           u_count := incr64 (u_count st); u_result := u_result st |}
      else if u_collected st <? lim then
        {| u_offset := u_offset st; u_collected := incr64 (u_collected st);
           u_count := incr64 (u_count st); u_result := u_result st ++ [r_id r] |}
      else
        {| u_offset := u_offset st; u_collected := u_collected st;
           u_count := incr64 (u_count st); u_result := u_result st |}
    else st.                                   (* nextUnpaged skips rows that do not match *)

  Definition ustate0 : ustate := {| u_offset := 0; u_collected := 0; u_count := 0; u_result := [] |}.

  (* uniqueIndexScanner.ScanCursor; [rows] in ascending id order *)
  Definition scan_unique_with (offlim : Z * Z) (forward : bool) (rows : list row) : list str * Z :=
    let cursor := if forward then rows else rev rows in
    let st := fold_left (ustep (fst offlim) (snd offlim)) cursor ustate0 in
    (u_result st, u_count st).

  Definition scan_unique (p : paging) := scan_unique_with (set_paging p).
  Definition scan_unique_legacy (p : paging) := scan_unique_with (set_paging_legacy p).

  (* ---- paged cursor: uniqueIndexScanner.Next ------------------------------------------- *)
  (* one call of Next on the remaining cursor rows [cur] with counters (o, c):
       for { if !cursor.IsValid() { current = nil; return }
             if collected >= targetLimit { current = nil; return }
             current = cursor.Current(); cursor.Next()
             if filter.EvalBool(row) { if offset < targetOffset { offset++ } else { collected++; return } } }
     result: the new current row (None = invalid), remaining cursor, counters *)
  Fixpoint next_paged (off lim : Z) (cur : list row) (o c : Z) : option row * (list row * (Z * Z)) :=
    match cur with
    | [] => (None, ([], (o, c)))
    | r :: cur' =>
        if c >=? lim then (None, (cur, (o, c)))
        else if matches r then
          if o <? off then next_paged off lim cur' (incr64 o) c
          else (Some r, (cur', (o, incr64 c)))
        else next_paged off lim cur' o c
    end.

  (* the consumer:  for c := IterateIds(...); c.IsValid(); c.Next() { ids = append(ids, c.Current()) }
     (newFilteredCursor already called Next once) *)
  Fixpoint drain (fuel : nat) (off lim : Z) (cur : list row) (o c : Z) : list str :=
    match fuel with
    | O => []
    | S f =>
        match next_paged off lim cur o c with
        | (None, _) => []
        | (Some r, (cur', (o', c'))) => r_id r :: drain f off lim cur' o' c'
        end
    end.

  (* IterateIds with a query as filter: always the forward id cursor, the sort clause plays no
     part (the result is a SeekableSetCursor, which is id-ordered by contract) *)
  Definition iterate_ids_with (offlim : Z * Z) (rows : list row) : list str :=
    drain (S (length rows)) (fst offlim) (snd offlim) rows 0 0.
  Definition iterate_ids (p : paging) := iterate_ids_with (set_paging p).
  Definition iterate_ids_legacy (p : paging) := iterate_ids_with (set_paging_legacy p).
End ScanUnique.
