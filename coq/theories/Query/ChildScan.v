(* C02 - queries through child stores (plain and extended) and re-execution of a compiled query.
   Model of the child-store test that every scan loop of boltz/query_scanners.go performs on the
   row delivered by the cursor, and of what executing a compiled ast.Query does to the query
   object (scanner.setPaging writes the normalised skip / limit back with SetSkip / SetLimit).
   No proofs in this file.

   A child store (StoreDefinition.Parent != nil) has no entities bucket of its own:
   GetEntitiesBucket is the parent's, so the cursor enumerates EVERY row of the root store.  A row
   belongs to the child store when its entity bucket contains the child's sub-bucket
   (IsEntityPresent); an *extended* child store (Extended()) answers over all rows of the parent
   and reads its own fields as nil where the sub-bucket is missing.  [rows] are the rows of the
   root store in ascending id order with the cells as the queried store sees them. *)
From Coq Require Import List ZArith NArith Bool.
From Storage Require Import Base.Bytes Query.Compare Query.Paging Query.ScanUnique Query.ScanSort.
Import ListNotations.
Open Scope Z_scope.

Record store_view := { sv_child : bool;        (* store.IsChildStore() *)
                       sv_extended : bool }.   (* store.IsExtended()   *)
Definition root_view : store_view := {| sv_child := false; sv_extended := false |}.

Section ChildScan.
  Variable sv : store_view.
  Variable present : row -> bool.              (* store.IsEntityPresent(tx, id) *)
  Variable matches : row -> bool.              (* query.EvalBool(rowCursor) *)

  (* if store.IsChildStore() && !store.IsEntityPresent(tx, id) && !store.IsExtended() { continue } *)
  Definition not_in_store (r : row) : bool := sv_child sv && negb (present r) && negb (sv_extended sv).
  Definition in_store (r : row) : bool := negb (not_in_store r).

  (* uniqueIndexScanner.ScanCursor + nextUnpaged: the test precedes NextRow / EvalBool *)
  Definition cu_step (off lim : Z) (st : ustate) (r : row) : ustate :=
    if not_in_store r then st else ustep matches off lim st r.

  Definition child_scan_unique_with (offlim : Z * Z) (forward : bool) (rows : list row) : list str * Z :=
    let cursor := if forward then rows else rev rows in
    let st := fold_left (cu_step (fst offlim) (snd offlim)) cursor ustate0 in
    (u_result st, u_count st).

  (* uniqueIndexScanner.Next (the paged cursor): limit test, then the child-store test, then the filter *)
  Fixpoint child_next_paged (off lim : Z) (cur : list row) (o c : Z) : option row * (list row * (Z * Z)) :=
    match cur with
    | [] => (None, ([], (o, c)))
    | r :: cur' =>
        if c >=? lim then (None, (cur, (o, c)))
        else if not_in_store r then child_next_paged off lim cur' o c
        else if matches r then
          if o <? off then child_next_paged off lim cur' (incr64 o) c
          else (Some r, (cur', (o, incr64 c)))
        else child_next_paged off lim cur' o c
    end.

  Fixpoint child_drain (fuel : nat) (off lim : Z) (cur : list row) (o c : Z) : list str :=
    match fuel with
    | O => []
    | S f =>
        match child_next_paged off lim cur o c with
        | (None, _) => []
        | (Some r, (cur', (o', c'))) => r_id r :: child_drain f off lim cur' o' c'
        end
    end.

  Definition child_iterate_ids_with (offlim : Z * Z) (rows : list row) : list str :=
    child_drain (S (length rows)) (fst offlim) (snd offlim) rows 0 0.

  (* sortingScanner.ScanCursor: the test precedes NextRow / EvalBool / Insert / count++ *)
  Definition cs_step (cmp : row -> row -> comparison) (maxr : Z) (st : list row * Z) (r : row) : list row * Z :=
    if not_in_store r then st else sstep matches cmp maxr st r.

  Definition child_scan_sorting_with (cmp : row -> row -> comparison) (maxres : Z -> Z -> Z) (offlim : Z * Z)
             (cursor : list row) : list str * Z :=
    let off := fst offlim in
    let lim := snd offlim in
    let st := fold_left (cs_step cmp (maxres off lim)) cursor ([], 0) in
    (tree_do off (fst st) 0, snd st).

  Definition child_scan_unique (p : paging) := child_scan_unique_with (set_paging p).
  Definition child_iterate_ids (p : paging) := child_iterate_ids_with (set_paging p).
  Definition child_scan_sorting (fs : list sort_field) (p : paging) (rows : list row) :=
    child_scan_sorting_with (row_cmp fs) max_results (set_paging p) rows.

  (* Store.QueryIdsC / QueryWithCursorC of the (child) store *)
  Definition child_query_ids (fs : list sort_field) (p : paging) (rows : list row) : list str * Z :=
    match new_scanner fs with
    | UniqueForward => child_scan_unique p true rows
    | UniqueReverse => child_scan_unique p false rows
    | Sorting => child_scan_sorting fs p rows
    end.
End ChildScan.

(* the entities of the queried store among the rows of the root store *)
Definition store_rows (sv : store_view) (present : row -> bool) (rows : list row) : list row :=
  filter (in_store sv present) rows.

(* ---- a compiled query and what executing it does to it ------------------------------------------ *)

(* ast.Query after ast.Parse: predicate, sort fields, skip, limit *)
Record cquery := { cq_match : row -> bool; cq_sort : list sort_field; cq_paging : paging }.

(* scanner.setPaging writes back:  if GetSkip() == nil || *GetSkip() < 0 { SetSkip(0) }
                                   if GetLimit() == nil || *GetLimit() < 0 { SetLimit(MaxInt64) } *)
Definition normalize_paging (p : paging) : paging :=
  {| pg_skip := Some (fst (set_paging p)); pg_limit := Some (snd (set_paging p)) |}.

(* the ways a compiled query is executed *)
Inductive entry := EQueryIds        (* Store.QueryIdsC *)
                 | ECursorQuery     (* Store.QueryWithCursorC over the entities bucket *)
                 | EIterate         (* Store.IterateIds, drained *)
                 | EObjects.        (* objectz ObjectStore.QueryEntitiesC over the same entities *)

(* ids and, except for the iteration, the total count *)
Definition answer := (list str * option Z)%type.

(* what a caller does with the compiled query between executions *)
Inductive qop := Run (e : entry)
               | SetSkip (z : Z)                       (* query.SetSkip(z) *)
               | SetLimit (z : Z)                      (* query.SetLimit(z) *)
               | AdoptSort (fs : list sort_field)      (* query.AdoptSortFields(other) *)
               | SetPred (m : row -> bool).            (* query.SetPredicate(other.GetPredicate()) *)

Definition mutate (o : qop) (q : cquery) : cquery :=
  match o with
  | Run _ => q
  | SetSkip z => {| cq_match := cq_match q; cq_sort := cq_sort q;
                    cq_paging := {| pg_skip := Some z; pg_limit := pg_limit (cq_paging q) |} |}
  | SetLimit z => {| cq_match := cq_match q; cq_sort := cq_sort q;
                     cq_paging := {| pg_skip := pg_skip (cq_paging q); pg_limit := Some z |} |}
  | AdoptSort fs => {| cq_match := cq_match q; cq_sort := fs; cq_paging := cq_paging q |}
  | SetPred m => {| cq_match := m; cq_sort := cq_sort q; cq_paging := cq_paging q |}
  end.

Section Rerun.
  Variable sv : store_view.
  Variable present : row -> bool.
  Variable rows : list row.

  Definition with_count (r : list str * Z) : answer := (fst r, Some (snd r)).

  Definition answer_of (e : entry) (q : cquery) : answer :=
    match e with
    | EQueryIds | ECursorQuery =>
        with_count (child_query_ids sv present (cq_match q) (cq_sort q) (cq_paging q) rows)
    | EIterate => (child_iterate_ids sv present (cq_match q) (cq_paging q) rows, None)
    | EObjects =>      (* memSortingScanner over the entities of the store: always the sorting scan *)
        with_count (child_scan_sorting sv present (cq_match q) (cq_sort q) (cq_paging q) rows)
    end.

  (* one execution: the answer, and the query object as the execution leaves it *)
  Definition exec (e : entry) (q : cquery) : answer * cquery :=
    (answer_of e q,
     {| cq_match := cq_match q; cq_sort := cq_sort q; cq_paging := normalize_paging (cq_paging q) |}).

  (* the real thing: every execution hands the query object it leaves behind to the next step *)
  Fixpoint run_prog (q : cquery) (ops : list qop) : list answer :=
    match ops with
    | [] => []
    | Run e :: rest => let (a, q') := exec e q in a :: run_prog q' rest
    | o :: rest => run_prog (mutate o q) rest
    end.

  (* executions that leave the query alone: only the caller's mutators change it *)
  Fixpoint pure_prog (q : cquery) (ops : list qop) : list answer :=
    match ops with
    | [] => []
    | Run e :: rest => answer_of e q :: pure_prog q rest
    | o :: rest => pure_prog (mutate o q) rest
    end.

  (* the declarative answers *)
  Definition answer_spec (e : entry) (q : cquery) : answer :=
    let ents := store_rows sv present rows in
    match e with
    | EIterate => (map r_id (page (cq_paging q) (filter (cq_match q) ents)), None)
    | _ => with_count (query_spec (cq_sort q) (cq_paging q) (cq_match q) ents)
    end.

  Fixpoint spec_prog (q : cquery) (ops : list qop) : list answer :=
    match ops with
    | [] => []
    | Run e :: rest => answer_spec e q :: spec_prog q rest
    | o :: rest => spec_prog (mutate o q) rest
    end.
End Rerun.

(* the paging a query effectively asks for (what setPaging hands to the scanner) *)
Definition effective_paging (q : cquery) : Z * Z := set_paging (cq_paging q).
