(* C19 - a small evaluator for filters over non-set symbols (self-contained; the full filter
   language is property C01).  Model of the typed nodes the ast package builds for
       symbol (= != < <= > >=) literal | symbol (=|!=) null | symbol [not] [i]contains literal
       symbol [not] in [literals] | symbol [not] between a and b | boolSymbol | true | false
       not e | e and e | e or e
   over symbols of the five scalar types: ast/node_convert.go (which typed node is selected),
   ast/node_expr.go, ast/node_arrays.go (evaluation, nil rules).  No proofs in this file.

   The evaluator is parameterised by the store's  Symbols.IsNil  (the one thing the two stores
   implement differently); the typed readers Eval* are the FieldTo* readers of Query/Compare.v. *)
From Coq Require Import List ZArith NArith Bool.
From Storage Require Import Base.Bytes Query.Compare.
Import ListNotations.

Inductive lit :=
| LStr (s : str)
| LInt (z : Z)
| LFloat (bits : N)        (* a NUMBER literal used with a float symbol, as float64 bits *)
| LBool (b : bool)
| LTime (sec : Z) (nsec : N).

Inductive cmpop := OEq | ONeq | OLt | OLte | OGt | OGte.

Inductive atom :=
| ACmp (c : colref) (op : cmpop) (l : lit)
| AIsNull (c : colref) (neq : bool)                       (* c = null / c != null *)
| AContains (c : colref) (neg icase : bool) (l : lit)
| AIn (c : colref) (ls : list lit)                        (* `not in` is FNot (FAtom (AIn ..)), as the listener builds it *)
| ABetween (c : colref) (lo hi : lit)                     (* likewise `not between` *)
| ASym (c : colref).                                      (* a bool symbol used as an expression *)

Inductive sfilter :=
| FTrue
| FFalse
| FAtom (a : atom)
| FNot (f : sfilter)
| FAnd (f g : sfilter)
| FOr (f g : sfilter).

(* ---- which combinations the typer accepts (BinaryExprNode.getTypedExpr etc.) ---------------- *)
Definition is_eq_op (op : cmpop) : bool := match op with OEq | ONeq => true | _ => false end.

Definition lit_is (t : ktype) (l : lit) : bool :=
  match t, l with
  | TStr, LStr _ | TInt, LInt _ | TFloat, LFloat _ | TBool, LBool _ | TTime, LTime _ _ => true
  | _, _ => false
  end.

Definition atom_ok (a : atom) : bool :=
  match a with
  | ACmp c op l =>
      match col_type c, l with
      | TStr, LStr _ => true
      | TStr, LInt _ => true                       (* Int64ConstNode is a StringNode: compared as decimal text *)
      | TInt, LInt _ => true
      | TFloat, LFloat _ => true
      | TBool, LBool _ => is_eq_op op              (* handleBoolOps: only = and != *)
      | TTime, LTime _ _ => true
      | _, _ => false
      end
  | AIsNull _ _ => true
  | AContains c neg icase l =>
      match col_type c, l with
      | TStr, LStr _ => true
      | TStr, LInt _ => negb icase                 (* grammar: icontains takes a STRING only *)
      | TInt, LStr _ => negb icase                 (* Int64SymbolNode is a StringNode (decimal text) *)
      | TInt, LInt _ => negb icase
      | _, _ => false
      end
  | AIn c ls =>
      match ls with
      | [] => false                                (* the grammar has no empty list *)
      | _ => match col_type c with
             | TBool => false
             | t => forallb (lit_is t) ls
             end
      end
  | ABetween c lo hi =>
      match col_type c with
      | TInt | TFloat | TTime => lit_is (col_type c) lo && lit_is (col_type c) hi
      | _ => false
      end
  | ASym c => match col_type c with TBool => true | _ => false end
  end.

Fixpoint filter_ok (f : sfilter) : bool :=
  match f with
  | FTrue | FFalse => true
  | FAtom a => atom_ok a
  | FNot g => filter_ok g
  | FAnd g h | FOr g h => filter_ok g && filter_ok h
  end.

(* ---- text --------------------------------------------------------------------------------------- *)
(* strconv.FormatInt(v, 10) *)
Fixpoint pos_digits (fuel : nat) (n : N) (acc : str) : str :=
  match fuel with
  | O => acc
  | S f => let d := N.modulo n 10 in
           let q := N.div n 10 in
           let acc' := (48 + d)%N :: acc in
           if N.eqb q 0 then acc' else pos_digits f q acc'
  end.
Definition dec_of_Z (z : Z) : str :=
  match z with
  | Z0 => [48%N]
  | Zpos _ => pos_digits 70 (Z.to_N z) []
  | Zneg _ => 45%N :: pos_digits 70 (Z.to_N (Z.opp z)) []
  end.

(* strings.Contains *)
Fixpoint str_contains (needle hay : str) : bool :=
  if has_prefix needle hay then true
  else match hay with
       | [] => false
       | _ :: rest => str_contains needle rest
       end.

(* strings.ToUpper restricted to ASCII (other bytes unchanged; see design/C19.md) *)
Definition upper_byte (b : byte) : byte := if (N.leb 97 b && N.leb b 122)%bool then (b - 32)%N else b.
Definition to_upper (s : str) : str := map upper_byte s.

(* ---- comparisons of the typed binary nodes --------------------------------------------------- *)
Definition f_eq (a b : N) : bool :=
  negb (f_is_nan a) && negb (f_is_nan b) && Z.eqb (f_ord a) (f_ord b).
Definition time_eq (x y : Z * N) : bool := Z.eqb (fst x) (fst y) && N.eqb (snd x) (snd y).

(* the switch over node.op of a Binary<T>ExprNode, from that type's  ==  and  <  *)
Definition by_op {A : Type} (eq lt : A -> A -> bool) (op : cmpop) (x y : A) : bool :=
  match op with
  | OEq => eq x y
  | ONeq => negb (eq x y)
  | OLt => lt x y
  | OLte => lt x y || eq x y
  | OGt => lt y x
  | OGte => lt y x || eq x y
  end.

(* if leftResult == nil || rightResult == nil { if op == NEQ { return leftResult != rightResult }; return false } *)
Definition nil_rule {A : Type} (op : cmpop) (v : option A) (k : A -> bool) : bool :=
  match v with
  | None => match op with ONeq => true | _ => false end
  | Some x => k x
  end.

(* EvalString of a string or int64 symbol node *)
Definition text_of (t : ktype) (c : cell) : option str :=
  match t with
  | TStr => to_str c
  | TInt => match to_int c with Some z => Some (dec_of_Z z) | None => None end
  | _ => None
  end.
Definition lit_text (l : lit) : str :=
  match l with
  | LStr s => s
  | LInt z => dec_of_Z z
  | _ => []
  end.

Section Eval.
  Variable is_nil : row -> colref -> bool.        (* Symbols.IsNil of the store *)

  Definition eval_atom (r : row) (a : atom) : bool :=
    match a with
    | ACmp c op l =>
        let v := cell_of r c in
        match col_type c, l with
        | TStr, (LStr _ | LInt _) => nil_rule op (to_str v) (fun x => by_op str_eqb str_ltb op x (lit_text l))
        | TInt, LInt z => nil_rule op (to_int v) (fun x => by_op Z.eqb Z.ltb op x z)
        | TFloat, LFloat b => nil_rule op (to_float v) (fun x => by_op f_eq f_lt op x b)
        | TTime, LTime s n => nil_rule op (to_time v) (fun x => by_op time_eq time_lt op x (s, n))
        | TBool, LBool b =>
            (* BoolSymbolNode.EvalBool: result != nil && *result *)
            let x := match to_bool v with Some true => true | _ => false end in
            match op with OEq => Bool.eqb x b | ONeq => negb (Bool.eqb x b) | _ => false end
        | _, _ => false
        end
    | AIsNull c neq => if neq then negb (is_nil r c) else is_nil r c
    | AContains c neg icase l =>
        match text_of (col_type c) (cell_of r c) with
        | None => neg                               (* nil operand: only the negated forms hold *)
        | Some hay =>
            let hit := if icase then str_contains (to_upper (lit_text l)) (to_upper hay)
                       else str_contains (lit_text l) hay in
            if neg then negb hit else hit
        end
    | AIn c ls =>
        let v := cell_of r c in
        match col_type c with
        | TStr => match to_str v with Some x => existsb (fun l => match l with LStr s => str_eqb x s | _ => false end) ls | None => false end
        | TInt => match to_int v with Some x => existsb (fun l => match l with LInt z => Z.eqb x z | _ => false end) ls | None => false end
        | TFloat => match to_float v with Some x => existsb (fun l => match l with LFloat b => f_eq x b | _ => false end) ls | None => false end
        | TTime => match to_time v with Some x => existsb (fun l => match l with LTime s n => time_eq x (s, n) | _ => false end) ls | None => false end
        | TBool => false
        end
    | ABetween c lo hi =>
        (* left >= lower && left < upper ; false when the symbol is nil *)
        let v := cell_of r c in
        match col_type c, lo, hi with
        | TInt, LInt a, LInt b => match to_int v with Some x => Z.leb a x && Z.ltb x b | None => false end
        | TFloat, LFloat a, LFloat b =>
            match to_float v with Some x => (f_lt a x || f_eq a x) && f_lt x b | None => false end
        | TTime, LTime s1 n1, LTime s2 n2 =>
            match to_time v with
            | Some x => (time_eq x (s1, n1) || time_lt (s1, n1) x) && time_lt x (s2, n2)
            | None => false
            end
        | _, _, _ => false
        end
    | ASym c => match to_bool (cell_of r c) with Some true => true | _ => false end
    end.

  (* NotExprNode / AndExprNode / OrExprNode (short-circuit evaluation has no observable effect:
     evaluation is pure) *)
  Fixpoint eval_filter (f : sfilter) (r : row) : bool :=
    match f with
    | FTrue => true
    | FFalse => false
    | FAtom a => eval_atom r a
    | FNot g => negb (eval_filter g r)
    | FAnd g h => if eval_filter g r then eval_filter h r else false
    | FOr g h => if eval_filter g r then true else eval_filter h r
    end.
End Eval.

(* the null test every store has to implement: the field holds no value *)
Definition cell_is_null (r : row) (c : colref) : bool :=
  match cell_of r c with CNull => true | _ => false end.

(* the documented meaning of a filter on a row *)
Definition filter_spec (f : sfilter) (r : row) : bool := eval_filter cell_is_null f r.
