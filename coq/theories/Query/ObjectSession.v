(* C19 - sessions on one object store: sequences of queries answered by the SAME ObjectStore value, while the
   collection behind its iterator may change between two queries (objects added, the map emptied and populated
   again).  No proofs in this file.

   objectz.ObjectStore holds the symbol table and the iterator factory and nothing else: QueryEntities parses the
   text it is given, QueryEntitiesC builds a new scanner, Scan asks the factory for a new iterator.  Nothing of a
   query outlives it - like BaseStore.QueryIds, which parses its text and opens a cursor per call.  The model of
   a session is therefore the list of the pointwise answers: no state is threaded through. *)
From Coq Require Import List ZArith.
From Storage Require Import Base.Bytes Query.Compare Query.Paging Query.ScalarFilter Query.ObjectScan.
Import ListNotations.

(* what a query text denotes: the parsed filter, sort specification and paging clause *)
Record oquery : Type := { oq_filter : sfilter; oq_sort : list sort_field; oq_paging : paging }.

(* one step: the objects as the iterator delivers them at that moment, and the query *)
Definition ostep : Type := (list row * oquery)%type.

Definition objectz_answer (s : ostep) : list str * Z :=
  objectz_query (oq_filter (snd s)) (oq_sort (snd s)) (oq_paging (snd s)) (fst s).

Definition objectz_session (steps : list ostep) : list (list str * Z) := map objectz_answer steps.

(* the same sequence of texts on a bolt store that holds, at every step, the same values (ascending ids) *)
Definition bstep : Type := (list row * oquery)%type.
Definition boltz_answer (s : bstep) : list str * Z :=
  boltz_query (oq_filter (snd s)) (oq_sort (snd s)) (oq_paging (snd s)) (fst s).
Definition boltz_session (steps : list bstep) : list (list str * Z) := map boltz_answer steps.
