(* C02 - the sorting scan strategy and the choice between the two strategies.
   Model of boltz/query_scanners.go sortingScanner.ScanCursor and boltz/store_query.go
   NewScanner / QueryIdsC.  No proofs in this file.

   The llrb.Tree of matching rows is modelled by the list of its elements in comparator order:
   Insert = ordered insertion that replaces an element comparing equal, DeleteMax = drop the
   last element, Do = left-to-right traversal. *)
From Coq Require Import List ZArith NArith Bool.
From Storage Require Import Base.Bytes Query.Compare Query.Paging Query.ScanUnique.
Import ListNotations.
Open Scope Z_scope.

Section Tree.
  Variable A : Type.
  Variable cmp : A -> A -> comparison.

  (* llrb Node.insert: c == 0 -> n.Elem = e ; c < 0 -> left ; else right *)
  Fixpoint tree_insert (x : A) (t : list A) : list A :=
    match t with
    | [] => [x]
    | y :: r => match cmp x y with
                | Lt => x :: t
                | Eq => x :: r
                | Gt => y :: tree_insert x r
                end
    end.

  Definition tree_delete_max (t : list A) : list A := removelast t.   (* no-op on an empty tree *)
End Tree.
Arguments tree_insert {A}.
Arguments tree_delete_max {A}.

(* maxResults after the repair (fixes/C02-sorting-maxresults-overflow.patch):
     maxResults := scanner.targetOffset + scanner.targetLimit
     if scanner.targetOffset > 0 && maxResults < scanner.targetLimit { maxResults = math.MaxInt64 }   // overflow *)
Definition max_results (off lim : Z) : Z :=
  let s := wrap64 (off + lim) in if (0 <? off) && (s <? lim) then max_int64 else s.
(* the pinned tree *)
Definition max_results_legacy (off lim : Z) : Z := wrap64 (off + lim).

Section ScanSort.
  Variable matches : row -> bool.
  Variable cmp : row -> row -> comparison.      (* comparator built by newRowComparator *)

  (* loop body:  if query.EvalBool(rowCursor) { results.Insert(row); scanner.count++
                                                if scanner.count > maxResults { results.DeleteMax() } } *)
  Definition sstep (maxr : Z) (st : list row * Z) (r : row) : list row * Z :=
    if matches r then
      let t := tree_insert cmp r (fst st) in
      let n := incr64 (snd st) in
      (if n >? maxr then tree_delete_max t else t, n)
    else st.

  (* results.Do(func(row) { if scanner.offset < scanner.targetOffset { scanner.offset++ }
                            else { result = append(result, row.id) } })                    *)
  Fixpoint tree_do (off : Z) (t : list row) (o : Z) : list str :=
    match t with
    | [] => []
    | r :: t' => if o <? off then tree_do off t' (incr64 o) else r_id r :: tree_do off t' o
    end.

  Definition scan_sorting_with (maxres : Z -> Z -> Z) (offlim : Z * Z) (cursor : list row) : list str * Z :=
    let off := fst offlim in
    let lim := snd offlim in
    let st := fold_left (sstep (maxres off lim)) cursor ([], 0) in
    (tree_do off (fst st) 0, snd st).
End ScanSort.

Definition scan_sorting (matches : row -> bool) (fs : list sort_field) (p : paging) (rows : list row) :=
  scan_sorting_with matches (row_cmp fs) max_results (set_paging p) rows.
Definition scan_sorting_legacy (matches : row -> bool) (fs : list sort_field) (p : paging) (rows : list row) :=
  scan_sorting_with matches (row_cmp fs) max_results_legacy (set_paging_legacy p) rows.

(* ---- BaseStore.NewScanner ------------------------------------------------------------------ *)
Definition sort_max : nat := 5.
Inductive strategy := UniqueForward | UniqueReverse | Sorting.

Definition is_id_col (c : colref) : bool := match c with ColId => true | Col _ _ => false end.

(*  if len(sort) > SortMax { sort = sort[:SortMax] }
    if len(sort) == 0 || sort[0].Symbol() == "id" {
        if len(sort) < 1 || sort[0].IsAscending() { forward } else { reverse } }
    else sortingScanner                                                                     *)
Definition new_scanner (fs : list sort_field) : strategy :=
  match firstn sort_max fs with
  | [] => UniqueForward
  | f :: _ => if is_id_col (sf_col f) then (if sf_asc f then UniqueForward else UniqueReverse) else Sorting
  end.

(* BaseStore.QueryIdsC; [rows] = the entities bucket in ascending id order *)
Definition query_ids (matches : row -> bool) (fs : list sort_field) (p : paging) (rows : list row) : list str * Z :=
  match new_scanner fs with
  | UniqueForward => scan_unique matches p true rows
  | UniqueReverse => scan_unique matches p false rows
  | Sorting => scan_sorting matches fs p rows
  end.

Definition query_ids_legacy (matches : row -> bool) (fs : list sort_field) (p : paging) (rows : list row) : list str * Z :=
  match new_scanner fs with
  | UniqueForward => scan_unique_legacy matches p true rows
  | UniqueReverse => scan_unique_legacy matches p false rows
  | Sorting => scan_sorting_legacy matches fs p rows
  end.
