(* C02 - QueryWithCursorC(tx, cursorProvider, query): the scan runs over the ids a CURSOR PROVIDER hands out
   instead of the entities bucket (boltz/store_query.go QueryWithCursorC -> scanner.ScanCursor).

   The providers of the library - TypedBucket.OpenCursor (the entities bucket), SetReadIndex.OpenValueCursor,
   BaseStore.IteratorMatchingAllOf / IteratorMatchingAnyOf (value cursor, filtered value cursor, ast.TreeSet cursor),
   BaseStore.GetRelatedEntitiesCursor, ast.NewTreeSet(forward).ToCursor(), ast.NewUnionSetCursor,
   ast.NewFilteredCursor - are SET cursors: whatever way the candidate ids were collected (several index values
   naming the same entity, the insertion order of a tree set, the two sides of a union), the cursor hands out each
   candidate id once, in ascending id order for forward = true and in descending id order for forward = false
   (that contract is property C14's; here it is the modelled behaviour of the provider).

   [cand] is the RAW list of candidate ids as the provider's sources name them: any order, repetitions allowed.
   What reaches the scan loop is [provider_rows cand rows]: the rows whose id is a candidate, in bucket order - the
   scan functions of ScanUnique.v / ScanSort.v / ChildScan.v take the rows in ascending id order together with the
   direction flag, exactly as for the entities bucket. *)
From Coq Require Import List ZArith Bool.
From Storage Require Import Base.Bytes Query.Compare Query.Paging Query.ScanUnique Query.ScanSort Query.ChildScan.
Import ListNotations.
Open Scope Z_scope.

(* is the row one of the candidates *)
Definition cand_mem (cand : list str) (r : row) : bool := existsb (str_eqb (r_id r)) cand.

(* the rows the provider's cursor walks over (forward: in this order; reverse: in the opposite order) *)
Definition provider_rows (cand : list str) (rows : list row) : list row := filter (cand_mem cand) rows.

(* Store.QueryWithCursorC(tx, provider, query) of any store of a parent / child chain: NewScanner picks the
   strategy from the sort fields, ScanCursor runs it over the provider's cursor *)
Definition provider_query_ids (sv : store_view) (present : row -> bool) (cand : list str)
    (matches : row -> bool) (fs : list sort_field) (p : paging) (rows : list row) : list str * Z :=
  child_query_ids sv present matches fs p (provider_rows cand rows).

(* the sorting strategy on its own *)
Definition provider_scan_sorting (sv : store_view) (present : row -> bool) (cand : list str)
    (matches : row -> bool) (fs : list sort_field) (p : paging) (rows : list row) : list str * Z :=
  child_scan_sorting sv present matches fs p (provider_rows cand rows).

(* the specification: the provider denotes the SET of candidate ids; the answer is the specified answer
   (sorted page, count) for the predicate "is a candidate and matches the filter" over the entities of the store *)
Definition provider_query_spec (sv : store_view) (present : row -> bool) (cand : list str)
    (matches : row -> bool) (fs : list sort_field) (p : paging) (rows : list row) : list str * Z :=
  query_spec fs p (fun r => cand_mem cand r && matches r) (store_rows sv present rows).
