(* C02 - QueryWithCursorC over a cursor provider (Query/Provider.v): exactness, and the answer depends on the
   SET of candidate ids only. *)
From Coq Require Import List ZArith Bool Sorted.
From Storage Require Import Base.Bytes Base.BytesFacts Query.Compare Query.CompareProofs Query.Paging Query.PagingProofs
  Query.ScanUnique Query.ScanUniqueProofs Query.ScanSort Query.ScanSortProofs
  Query.ChildScan Query.ChildScanProofs Query.Provider.
Import ListNotations.
Open Scope Z_scope.

Lemma cand_mem_iff cand r : cand_mem cand r = true <-> In (r_id r) cand.
Proof.
  unfold cand_mem. rewrite existsb_exists. split.
  - intros [x [Hx E]]. apply str_eqb_eq in E. subst x. exact Hx.
  - intros H. exists (r_id r). split; [exact H|apply str_eqb_refl].
Qed.

Lemma cand_mem_ext c1 c2 r : (forall id, In id c1 <-> In id c2) -> cand_mem c1 r = cand_mem c2 r.
Proof.
  intros E. destruct (cand_mem c1 r) eqn:H1; destruct (cand_mem c2 r) eqn:H2; try reflexivity.
  - apply cand_mem_iff in H1. apply E in H1. apply cand_mem_iff in H1. congruence.
  - apply cand_mem_iff in H2. apply E in H2. apply cand_mem_iff in H2. congruence.
Qed.

Lemma provider_rows_ext c1 c2 rows :
  (forall id, In id c1 <-> In id c2) -> provider_rows c1 rows = provider_rows c2 rows.
Proof. intros E. unfold provider_rows. apply filter_ext. intros r. apply cand_mem_ext. exact E. Qed.

Lemma filter_filter_andb {A : Type} (f g : A -> bool) (l : list A) :
  filter g (filter f l) = filter (fun x => f x && g x) l.
Proof.
  induction l as [|a l IH]; simpl; [reflexivity|].
  destruct (f a); simpl; [destruct (g a); rewrite IH; reflexivity|exact IH].
Qed.

Lemma filter_comm' {A : Type} (f g : A -> bool) (l : list A) : filter g (filter f l) = filter f (filter g l).
Proof.
  rewrite !filter_filter_andb. apply filter_ext. intros x. apply andb_comm.
Qed.

(* the candidates among the entities of the store = the entities of the store among the candidates *)
Lemma store_rows_provider sv present cand rows :
  store_rows sv present (provider_rows cand rows) = provider_rows cand (store_rows sv present rows).
Proof. unfold store_rows, provider_rows. apply filter_comm'. Qed.

Lemma provider_spec_unfold sv present cand matches fs p rows :
  query_spec fs p matches (store_rows sv present (provider_rows cand rows))
  = provider_query_spec sv present cand matches fs p rows.
Proof.
  unfold provider_query_spec, query_spec. rewrite store_rows_provider. unfold provider_rows.
  rewrite filter_filter_andb. reflexivity.
Qed.

Lemma provider_rows_len cand rows : Z.of_nat (length (provider_rows cand rows)) <= Z.of_nat (length rows).
Proof. apply filter_len_le. Qed.

(* QueryWithCursorC over a provider = the specification over the candidate set, for every store view, every sort
   specification (every scan strategy), every int64 skip / limit *)
Lemma provider_query_exact_lemma : forall (sv : store_view) (present : row -> bool) (cand : list str)
    (matches : row -> bool) (fs : list sort_field) (p : paging) (rows : list row),
  wf_paging p -> id_sorted rows -> rows_ok rows -> Z.of_nat (length rows) <= max_int64 ->
  provider_query_ids sv present cand matches fs p rows = provider_query_spec sv present cand matches fs p rows /\
  provider_scan_sorting sv present cand matches fs p rows = provider_query_spec sv present cand matches fs p rows.
Proof.
  intros sv present cand matches fs p rows Hp Hs Hok Hlen.
  assert (Hs' : id_sorted (provider_rows cand rows)) by (apply ssorted_filter; exact Hs).
  assert (Hok' : rows_ok (provider_rows cand rows)) by (apply rows_ok_filter; exact Hok).
  assert (Hlen' : Z.of_nat (length (provider_rows cand rows)) <= max_int64).
  { apply Z.le_trans with (Z.of_nat (length rows)); [apply provider_rows_len|exact Hlen]. }
  destruct (child_store_exact_lemma sv present matches fs p _ Hp Hs' Hok' Hlen') as [A [B _]].
  unfold provider_query_ids, provider_scan_sorting. rewrite A, B, provider_spec_unfold. split; reflexivity.
Qed.

(* NO hypotheses: two raw candidate lists naming the same set of ids - in any order, with any repetitions - give the
   same answer, in the implementation model and in the specification *)
Lemma provider_set_only_lemma : forall (sv : store_view) (present : row -> bool) (c1 c2 : list str)
    (matches : row -> bool) (fs : list sort_field) (p : paging) (rows : list row),
  (forall id, In id c1 <-> In id c2) ->
  provider_query_ids sv present c1 matches fs p rows = provider_query_ids sv present c2 matches fs p rows /\
  provider_scan_sorting sv present c1 matches fs p rows = provider_scan_sorting sv present c2 matches fs p rows /\
  provider_query_spec sv present c1 matches fs p rows = provider_query_spec sv present c2 matches fs p rows.
Proof.
  intros sv present c1 c2 matches fs p rows E.
  unfold provider_query_ids, provider_scan_sorting. rewrite (provider_rows_ext c1 c2 rows E).
  split; [reflexivity|split; [reflexivity|]].
  unfold provider_query_spec, query_spec.
  assert (F : forall l, filter (fun r => cand_mem c1 r && matches r) l = filter (fun r => cand_mem c2 r && matches r) l).
  { intros l. apply filter_ext. intros r. rewrite (cand_mem_ext c1 c2 r E). reflexivity. }
  rewrite F. reflexivity.
Qed.

(* the count is the number of DISTINCT matching candidates that are entities of the store (each row is counted once,
   however often the candidate list names it), for every sort specification and every skip / limit *)
Lemma provider_count_lemma : forall (sv : store_view) (present : row -> bool) (cand : list str)
    (matches : row -> bool) (fs fs' : list sort_field) (p p' : paging) (rows : list row),
  wf_paging p -> wf_paging p' -> id_sorted rows -> rows_ok rows -> Z.of_nat (length rows) <= max_int64 ->
  snd (provider_query_ids sv present cand matches fs p rows)
    = Z.of_nat (length (filter (fun r => cand_mem cand r && matches r) (store_rows sv present rows))) /\
  snd (provider_query_ids sv present cand matches fs p rows) = snd (provider_query_ids sv present cand matches fs' p' rows) /\
  NoDup (map r_id (filter (fun r => cand_mem cand r && matches r) (store_rows sv present rows))).
Proof.
  intros sv present cand matches fs fs' p p' rows Hp Hp' Hs Hok Hlen.
  destruct (provider_query_exact_lemma sv present cand matches fs p rows Hp Hs Hok Hlen) as [A _].
  destruct (provider_query_exact_lemma sv present cand matches fs' p' rows Hp' Hs Hok Hlen) as [A' _].
  rewrite A, A'. unfold provider_query_spec, query_spec. simpl.
  split; [reflexivity|split; [reflexivity|]].
  apply id_sorted_nodup. apply ssorted_filter. unfold store_rows. apply ssorted_filter. exact Hs.
Qed.

(* the entities bucket is one provider among the others: a candidate list that names every row changes nothing *)
Lemma provider_all_rows_lemma : forall (sv : store_view) (present : row -> bool) (cand : list str)
    (matches : row -> bool) (fs : list sort_field) (p : paging) (rows : list row),
  (forall r, In r rows -> In (r_id r) cand) ->
  provider_query_ids sv present cand matches fs p rows = child_query_ids sv present matches fs p rows.
Proof.
  intros sv present cand matches fs p rows H. unfold provider_query_ids, provider_rows.
  assert (E : filter (cand_mem cand) rows = rows).
  { clear -H. induction rows as [|a l IH]; simpl; [reflexivity|].
    assert (Ha : cand_mem cand a = true) by (apply cand_mem_iff; apply H; left; reflexivity).
    rewrite Ha, IH; [reflexivity|]. intros r Hr. apply H. right. exact Hr. }
  rewrite E. reflexivity.
Qed.
