(* C02 / C19 - row comparison from a sort specification.
   Model of boltz/query_sort.go (the five xxxSymbolComparator.Compare functions, rowComparatorImpl.Compare),
   boltz/store_query.go newRowComparator and of objectz/object_store_sort.go (same code shape).

   A Go comparator returns an int in {-1,0,1}; the model uses Coq's [comparison]
   (Lt = -1, Eq = 0, Gt = 1) and [CompOpp] for the unary minus of the descending case.
   No proofs in this file. *)
From Coq Require Import List ZArith NArith Bool.
From Storage Require Import Base.Bytes.
Import ListNotations.

(* ---- stored values --------------------------------------------------------------------- *)

(* a field of an entity as the typed FieldTo* readers see it; floats are IEEE-754 bit patterns,
   instants are (seconds, nanoseconds) of the UTC wall clock (time.Time without monotonic part) *)
Inductive cell :=
| CNull
| CBool (b : bool)
| CInt (z : Z)
| CFloat (bits : N)
| CStr (s : str)
| CTime (sec : Z) (nsec : N).

Inductive ktype := TBool | TInt | TFloat | TStr | TTime.

Record row := { r_id : str; r_cells : list cell }.

(* a sort symbol: the entity id (entityIdSymbol: a string symbol whose value is the row id) or
   field number i, declared with symbol type t *)
Inductive colref := ColId | Col (i : nat) (t : ktype).

Definition col_type (c : colref) : ktype := match c with ColId => TStr | Col _ t => t end.

Definition cell_of (r : row) (c : colref) : cell :=
  match c with
  | ColId => CStr (r_id r)
  | Col i _ => nth i (r_cells r) CNull
  end.

(* FieldToBool / FieldToInt64 / FieldToFloat64 / FieldToString / FieldToDatetime on a field
   whose stored type is the symbol's type; any other stored type reads as nil.
   (The cross-type conversions of FieldToString / FieldToFloat64 are not part of C02: the
   harness stores every field with the type of its symbol, int32 fields are given as CInt.) *)
Definition to_bool (c : cell) : option bool := match c with CBool b => Some b | _ => None end.
Definition to_int (c : cell) : option Z := match c with CInt z => Some z | _ => None end.
Definition to_float (c : cell) : option N := match c with CFloat b => Some b | _ => None end.
Definition to_str (c : cell) : option str := match c with CStr s => Some s | _ => None end.
Definition to_time (c : cell) : option (Z * N) := match c with CTime s n => Some (s, n) | _ => None end.

(* ---- IEEE-754 binary64 order on bit patterns ------------------------------------------- *)

Definition f_sign (b : N) : bool := N.testbit b 63.
Definition f_mag (b : N) : N := N.land b 9223372036854775807.          (* 2^63 - 1 *)
Definition f_inf_mag : N := 9218868437227405312.                        (* 0x7FF0000000000000 *)
Definition f_is_nan (b : N) : bool := N.ltb f_inf_mag (f_mag b).
(* sign-magnitude value; -0 and +0 both map to 0; monotone in the float value for non-NaN *)
Definition f_ord (b : N) : Z := if f_sign b then Z.opp (Z.of_N (f_mag b)) else Z.of_N (f_mag b).
(* Go's  a < b  on float64: false whenever a NaN is involved *)
Definition f_lt (a b : N) : bool :=
  negb (f_is_nan a) && negb (f_is_nan b) && Z.ltb (f_ord a) (f_ord b).

(* ---- the per-type comparators ---------------------------------------------------------- *)

(* the shape shared by all five xxxSymbolComparator.Compare functions:
     result := 0
     if s1 == nil { if s2 != nil { result = -1 } }
     else if s2 == nil { result = 1 }
     else if *s1 < *s2 { result = -1 } else if *s1 > *s2 { result = 1 }          *)
Definition cmp3 {A : Type} (lt : A -> A -> bool) (a b : option A) : comparison :=
  match a, b with
  | None, None => Eq
  | None, Some _ => Lt
  | Some _, None => Gt
  | Some x, Some y => if lt x y then Lt else if lt y x then Gt else Eq
  end.

Definition bool_lt (x y : bool) : bool := negb x && y.                  (* not s1 and s2 *)
Definition time_lt (x y : Z * N) : bool :=                              (* s1.Before(s2) *)
  Z.ltb (fst x) (fst y) || (Z.eqb (fst x) (fst y) && N.ltb (snd x) (snd y)).

Definition typed_cmp (t : ktype) (x y : cell) : comparison :=
  match t with
  | TBool => cmp3 bool_lt (to_bool x) (to_bool y)
  | TInt => cmp3 Z.ltb (to_int x) (to_int y)
  | TFloat => cmp3 f_lt (to_float x) (to_float y)
  | TStr => cmp3 str_ltb (to_str x) (to_str y)
  | TTime => cmp3 time_lt (to_time x) (to_time y)
  end.

(* if c.forward { return result } ; return -result *)
Definition dir (asc : bool) (c : comparison) : comparison := if asc then c else CompOpp c.

Record sort_field := { sf_col : colref; sf_asc : bool }.

Definition field_cmp (f : sort_field) (a b : row) : comparison :=
  dir (sf_asc f) (typed_cmp (col_type (sf_col f)) (cell_of a (sf_col f)) (cell_of b (sf_col f))).

(* rowComparatorImpl.Compare: first non-zero symbol comparison *)
Fixpoint fields_cmp (fs : list sort_field) (a b : row) : comparison :=
  match fs with
  | [] => Eq
  | f :: rest => match field_cmp f a b with Eq => fields_cmp rest a b | c => c end
  end.

(* newRowComparator: sort = append(sort, NewSortFieldNode("id", true)) *)
Definition id_field : sort_field := {| sf_col := ColId; sf_asc := true |}.
Definition row_cmp (fs : list sort_field) : row -> row -> comparison := fields_cmp (fs ++ [id_field]).

(* ---- the hypothesis of the ordering theorems ------------------------------------------- *)

Definition cell_no_nan (c : cell) : bool := match c with CFloat b => negb (f_is_nan b) | _ => true end.
Definition row_no_nan (r : row) : bool := forallb cell_no_nan (r_cells r).
