(* C02 / C19 - paging parameters and the specification of a paged, sorted query.
   Model of boltz/query_scanners.go scanner.setPaging (and its copy in objectz/object_store.go)
   and the declarative answer every scan strategy has to produce.  No proofs in this file. *)
From Coq Require Import List ZArith NArith Bool.
From Storage Require Import Base.Bytes Query.Compare.
Import ListNotations.
Open Scope Z_scope.

(* ---- int64 ------------------------------------------------------------------------------ *)

Definition wrap64 (z : Z) : Z := ((z + 2^63) mod 2^64) - 2^63.
Definition max_int64 : Z := 2^63 - 1.
Definition min_int64 : Z := - 2^63.
Definition in_int64 (z : Z) : Prop := min_int64 <= z <= max_int64.
Definition incr64 (z : Z) : Z := wrap64 (z + 1).                 (* x++ on an int64 *)

(* ---- what the query text says ----------------------------------------------------------- *)

(* skip: absent or a number; limit: absent, a number, or `none` which the listener turns into
   the marker value -1 (ast/bolt_listener.go, ZitiQlLexerNONE) *)
Record paging := { pg_skip : option Z; pg_limit : option Z }.
Definition limit_none : option Z := Some (-1).

(* scanner.setPaging after the repair (fixes/C02-negative-skip.patch):
     if query.GetSkip() == nil || *query.GetSkip() < 0 { query.SetSkip(0) }
     s.targetOffset = *query.GetSkip()
     if query.GetLimit() == nil || *query.GetLimit() < 0 { query.SetLimit(math.MaxInt64) }
     s.targetLimit = *query.GetLimit()                                                     *)
Definition set_paging (p : paging) : Z * Z :=
  let off := match pg_skip p with
             | None => 0
             | Some s => if s <? 0 then 0 else s
             end in
  let lim := match pg_limit p with
             | None => max_int64
             | Some l => if l <? 0 then max_int64 else l
             end in
  (off, lim).

(* the pinned tree: a negative skip is taken over as it is *)
Definition set_paging_legacy (p : paging) : Z * Z :=
  let off := match pg_skip p with None => 0 | Some s => s end in
  let lim := match pg_limit p with
             | None => max_int64
             | Some l => if l <? 0 then max_int64 else l
             end in
  (off, lim).

(* ---- list prefixes / suffixes with a Z counter ------------------------------------------ *)
(* executable counterparts of [firstn (Z.to_nat k)] / [skipn (Z.to_nat k)] that never build a
   unary number (k may be 2^63-1); PagingProofs.v proves them equal to firstn / skipn *)
Fixpoint takeZ {A : Type} (k : Z) (l : list A) : list A :=
  match l with
  | [] => []
  | x :: r => if k <=? 0 then [] else x :: takeZ (k - 1) r
  end.

Fixpoint dropZ {A : Type} (k : Z) (l : list A) : list A :=
  match l with
  | [] => []
  | x :: r => if k <=? 0 then l else dropZ (k - 1) r
  end.

(* ---- specification ---------------------------------------------------------------------- *)

Section Spec.
  Variable A : Type.
  Variable cmp : A -> A -> comparison.

  (* insertion into a list sorted by [cmp] (after the elements that are not greater) *)
  Fixpoint insert_by (x : A) (l : list A) : list A :=
    match l with
    | [] => [x]
    | y :: r => match cmp x y with
                | Lt => x :: l
                | _ => y :: insert_by x r
                end
    end.

  Definition sort_by (l : list A) : list A := fold_left (fun t x => insert_by x t) l [].
End Spec.
Arguments insert_by {A}.
Arguments sort_by {A}.

(* rows to drop: max(skip,0); absent = 0 *)
Definition spec_skip (p : paging) : Z :=
  match pg_skip p with None => 0 | Some s => Z.max s 0 end.
(* rows to keep: absent, negative and `none` (= -1) mean unbounded *)
Definition spec_limit (p : paging) : option Z :=
  match pg_limit p with
  | None => None
  | Some l => if l <? 0 then None else Some l
  end.

Definition page {A : Type} (p : paging) (l : list A) : list A :=
  let d := dropZ (spec_skip p) l in
  match spec_limit p with
  | None => d
  | Some k => takeZ k d
  end.

(* the same thing with the standard library functions - the form used in the theorems *)
Definition page_nat {A : Type} (p : paging) (l : list A) : list A :=
  let d := skipn (Z.to_nat (spec_skip p)) l in
  match spec_limit p with
  | None => d
  | Some k => firstn (Z.to_nat k) d
  end.

(* the answer to a query: ids of the matching rows in the requested order, paged, and the
   total number of matching rows *)
Definition query_spec (fs : list sort_field) (p : paging) (matches : row -> bool) (rows : list row)
  : list str * Z :=
  let m := filter matches rows in
  (map r_id (page p (sort_by (row_cmp fs) m)), Z.of_nat (length m)).
