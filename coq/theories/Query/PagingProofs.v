(* C02 / C19 - facts about the specification: Z-indexed prefixes/suffixes are firstn/skipn, the
   specification sort really sorts (ordered permutation), and an ordered permutation is unique
   when no two elements compare equal. *)
From Coq Require Import List ZArith NArith Bool Lia Sorted Permutation.
From Storage Require Import Base.Bytes Query.Compare Query.CompareProofs Query.Paging.
Import ListNotations.
Open Scope Z_scope.

(* ---- int64 ---------------------------------------------------------------------------------- *)
Lemma wrap64_id z : in_int64 z -> wrap64 z = z.
Proof.
  unfold in_int64, min_int64, max_int64, wrap64. intros H.
  rewrite Z.mod_small; lia.
Qed.

Lemma incr64_small z : 0 <= z < max_int64 -> incr64 z = z + 1.
Proof.
  intros H. unfold incr64. apply wrap64_id. unfold in_int64, min_int64, max_int64 in *. lia.
Qed.

Lemma wrap64_range z : in_int64 (wrap64 z).
Proof.
  unfold in_int64, min_int64, max_int64, wrap64.
  pose proof (Z.mod_pos_bound (z + 2 ^ 63) (2 ^ 64)). lia.
Qed.

(* the sum of two non-negative int64 values wraps negative exactly when it overflows *)
Lemma wrap64_sum_nonneg a b : 0 <= a <= max_int64 -> 0 <= b <= max_int64 ->
  (a + b <= max_int64 -> wrap64 (a + b) = a + b) /\
  (a + b > max_int64 -> wrap64 (a + b) < 0).
Proof.
  unfold max_int64, wrap64. intros Ha Hb. split; intros H.
  - rewrite Z.mod_small; lia.
  - replace (a + b + 2 ^ 63) with ((a + b - 2 ^ 63) + 1 * 2 ^ 64) by lia.
    rewrite Z.mod_add by lia. rewrite Z.mod_small; lia.
Qed.

(* ---- takeZ / dropZ ---------------------------------------------------------------------------- *)
Section TakeDrop.
  Context {A : Type}.

  Lemma takeZ_firstn (l : list A) : forall k, takeZ k l = firstn (Z.to_nat k) l.
  Proof.
    induction l as [|x r IH]; intros k; simpl.
    - destruct (Z.to_nat k); reflexivity.
    - destruct (k <=? 0) eqn:E.
      + apply Z.leb_le in E. replace (Z.to_nat k) with O by lia. reflexivity.
      + apply Z.leb_gt in E. replace (Z.to_nat k) with (S (Z.to_nat (k - 1))) by lia.
        simpl. f_equal. apply IH.
  Qed.

  Lemma dropZ_skipn (l : list A) : forall k, dropZ k l = skipn (Z.to_nat k) l.
  Proof.
    induction l as [|x r IH]; intros k; simpl.
    - destruct (Z.to_nat k); reflexivity.
    - destruct (k <=? 0) eqn:E.
      + apply Z.leb_le in E. replace (Z.to_nat k) with O by lia. reflexivity.
      + apply Z.leb_gt in E. replace (Z.to_nat k) with (S (Z.to_nat (k - 1))) by lia.
        simpl. apply IH.
  Qed.

  Lemma takeZ_nonpos k (l : list A) : k <= 0 -> takeZ k l = [].
  Proof. intros H. destruct l; simpl; [reflexivity|]. apply Z.leb_le in H. rewrite H. reflexivity. Qed.

  Lemma dropZ_nonpos k (l : list A) : k <= 0 -> dropZ k l = l.
  Proof. intros H. destruct l; simpl; [reflexivity|]. apply Z.leb_le in H. rewrite H. reflexivity. Qed.

  Lemma takeZ_all (l : list A) : forall k, Z.of_nat (length l) <= k -> takeZ k l = l.
  Proof.
    induction l as [|x r IH]; intros k H; simpl in *; [reflexivity|].
    assert (E : (k <=? 0) = false) by (apply Z.leb_gt; lia). rewrite E. f_equal. apply IH. lia.
  Qed.

  Lemma dropZ_all (l : list A) : forall k, Z.of_nat (length l) <= k -> dropZ k l = [].
  Proof.
    induction l as [|x r IH]; intros k H; simpl in *; [reflexivity|].
    assert (E : (k <=? 0) = false) by (apply Z.leb_gt; lia). rewrite E. apply IH. lia.
  Qed.

  Lemma takeZ_length_le (l : list A) : forall k, Z.of_nat (length (takeZ k l)) <= Z.of_nat (length l).
  Proof.
    induction l as [|x r IH]; intros k; simpl; [lia|].
    destruct (k <=? 0); simpl; [lia|]. specialize (IH (k - 1)). lia.
  Qed.

  Lemma takeZ_length (l : list A) : forall k, 0 <= k ->
    Z.of_nat (length (takeZ k l)) = Z.min k (Z.of_nat (length l)).
  Proof.
    induction l as [|x r IH]; intros k H; simpl; [lia|].
    destruct (k <=? 0) eqn:E.
    - apply Z.leb_le in E. simpl. lia.
    - apply Z.leb_gt in E. simpl length. rewrite !Nat2Z.inj_succ. rewrite IH by lia. lia.
  Qed.

  Lemma dropZ_length_le (l : list A) : forall k, Z.of_nat (length (dropZ k l)) <= Z.of_nat (length l).
  Proof.
    induction l as [|x r IH]; intros k; simpl; [lia|].
    destruct (k <=? 0); simpl; [lia|]. specialize (IH (k - 1)). lia.
  Qed.

  (* skip then limit = limit of (skip+limit) then skip: the identity the bounded tree relies on *)
  Lemma takeZ_cons k x (r : list A) : takeZ k (x :: r) = if k <=? 0 then [] else x :: takeZ (k - 1) r.
  Proof. reflexivity. Qed.
  Lemma dropZ_cons k x (r : list A) : dropZ k (x :: r) = if k <=? 0 then x :: r else dropZ (k - 1) r.
  Proof. reflexivity. Qed.

  Lemma takeZ_dropZ (l : list A) : forall o k, 0 <= o -> 0 <= k ->
    takeZ k (dropZ o l) = dropZ o (takeZ (o + k) l).
  Proof.
    induction l as [|x r IH]; intros o k Ho Hk; [reflexivity|].
    rewrite dropZ_cons, (takeZ_cons (o + k)).
    destruct (o <=? 0) eqn:E.
    - apply Z.leb_le in E. assert (o = 0) by lia. subst o. rewrite Z.add_0_l.
      rewrite takeZ_cons. destruct (k <=? 0) eqn:E2; [reflexivity|].
      rewrite dropZ_cons. reflexivity.
    - apply Z.leb_gt in E.
      assert (E2 : (o + k <=? 0) = false) by (apply Z.leb_gt; lia). rewrite E2.
      rewrite dropZ_cons. apply Z.leb_gt in E. rewrite E.
      replace (o + k - 1) with ((o - 1) + k) by lia. apply Z.leb_gt in E. apply IH; lia.
  Qed.

  Lemma takeZ_In (l : list A) : forall k x, In x (takeZ k l) -> In x l.
  Proof.
    induction l as [|y r IH]; intros k x H; [exact H|].
    rewrite takeZ_cons in H. destruct (k <=? 0); [destruct H|].
    destruct H as [H|H]; [left; exact H | right; eapply IH; exact H].
  Qed.

  Lemma takeZ_map {B : Type} (f : A -> B) (l : list A) : forall k, takeZ k (map f l) = map f (takeZ k l).
  Proof.
    induction l as [|x r IH]; intros k; simpl; [reflexivity|].
    destruct (k <=? 0); simpl; [reflexivity|]. f_equal. apply IH.
  Qed.

  Lemma dropZ_map {B : Type} (f : A -> B) (l : list A) : forall k, dropZ k (map f l) = map f (dropZ k l).
  Proof.
    induction l as [|x r IH]; intros k; simpl; [reflexivity|].
    destruct (k <=? 0); simpl; [reflexivity|]. apply IH.
  Qed.

  Lemma page_page_nat p (l : list A) : page p l = page_nat p l.
  Proof.
    unfold page, page_nat. rewrite dropZ_skipn. destruct (spec_limit p); [|reflexivity].
    apply takeZ_firstn.
  Qed.
End TakeDrop.

(* the page in terms of the effective offset/limit computed by set_paging *)
Lemma spec_skip_nonneg p : 0 <= spec_skip p.
Proof. unfold spec_skip. destruct (pg_skip p); lia. Qed.

Lemma set_paging_fst p : fst (set_paging p) = spec_skip p.
Proof.
  unfold set_paging, spec_skip. simpl. destruct (pg_skip p) as [s|]; [|reflexivity].
  destruct (s <? 0) eqn:E; [apply Z.ltb_lt in E | apply Z.ltb_ge in E]; lia.
Qed.

Lemma set_paging_snd_range p : (forall l, pg_limit p = Some l -> in_int64 l) ->
  0 <= snd (set_paging p) <= max_int64.
Proof.
  intros H. unfold set_paging. simpl. destruct (pg_limit p) as [l|]; [|unfold max_int64; lia].
  specialize (H l eq_refl). unfold in_int64 in H.
  destruct (l <? 0) eqn:E; [unfold max_int64; lia|]. apply Z.ltb_ge in E. lia.
Qed.

(* with fewer than 2^63 rows the limit value MaxInt64 used for "unbounded" keeps everything *)
Lemma page_as_take_drop {A : Type} p (l : list A) :
  Z.of_nat (length l) <= max_int64 ->
  page p l = takeZ (snd (set_paging p)) (dropZ (fst (set_paging p)) l).
Proof.
  intros Hlen. rewrite set_paging_fst. unfold page, spec_limit, set_paging. simpl.
  pose proof (dropZ_length_le l (spec_skip p)) as Hd.
  destruct (pg_limit p) as [k|].
  - destruct (k <? 0); [|reflexivity]. symmetry. apply takeZ_all. lia.
  - symmetry. apply takeZ_all. lia.
Qed.

(* ---- the specification sort ------------------------------------------------------------------ *)
Section Sorting.
  Variable A : Type.
  Variable cmp : A -> A -> comparison.
  Variable P : A -> Prop.
  Hypothesis G : good_on P cmp.

  Definition cle (a b : A) : Prop := cmp a b <> Gt.
  (* no two different elements of the list compare equal *)
  Definition separated (l : list A) : Prop := forall a b, In a l -> In b l -> cmp a b = Eq -> a = b.

  Lemma insert_by_perm x l : Permutation (x :: l) (insert_by cmp x l).
  Proof.
    induction l as [|y r IH]; simpl; [apply Permutation_refl|].
    destruct (cmp x y); try apply Permutation_refl.
    - eapply Permutation_trans; [apply perm_swap|]. apply perm_skip. exact IH.
    - eapply Permutation_trans; [apply perm_swap|]. apply perm_skip. exact IH.
  Qed.

  Lemma sort_by_snoc l x : sort_by cmp (l ++ [x]) = insert_by cmp x (sort_by cmp l).
  Proof. unfold sort_by. rewrite fold_left_app. reflexivity. Qed.

  Lemma sort_by_perm l : Permutation l (sort_by cmp l).
  Proof.
    induction l as [|x r IH] using rev_ind; [apply Permutation_refl|].
    rewrite sort_by_snoc.
    eapply Permutation_trans; [|apply insert_by_perm].
    eapply Permutation_trans; [apply Permutation_app_comm|]. simpl. apply perm_skip. exact IH.
  Qed.

  Lemma sort_by_length l : length (sort_by cmp l) = length l.
  Proof. symmetry. apply Permutation_length. apply sort_by_perm. Qed.

  Lemma insert_by_sorted x l : P x -> Forall P l ->
    StronglySorted cle l -> StronglySorted cle (insert_by cmp x l).
  Proof.
    intros Px. induction l as [|y r IH]; intros HP HS; simpl.
    - constructor; constructor.
    - inversion HP as [|? ? Py Pr]; subst. inversion HS as [|? ? HSr Hy]; subst.
      destruct (cmp x y) eqn:E.
      + constructor; [apply IH; assumption|].
        apply (Permutation_Forall (insert_by_perm x r)). constructor; [|exact Hy].
        unfold cle. rewrite (g_sym P cmp G x y Px Py), E. discriminate.
      + constructor; [exact HS|]. constructor.
        * unfold cle. rewrite E. discriminate.
        * rewrite Forall_forall in *. intros z Hz.
          apply (good_le_trans P cmp x y z G Px Py (Pr z Hz)).
          -- rewrite E. discriminate.
          -- apply Hy. exact Hz.
      + constructor; [apply IH; assumption|].
        apply (Permutation_Forall (insert_by_perm x r)). constructor; [|exact Hy].
        unfold cle. rewrite (g_sym P cmp G x y Px Py), E. discriminate.
  Qed.

  Lemma sort_by_sorted l : Forall P l -> StronglySorted cle (sort_by cmp l).
  Proof.
    induction l as [|x r IH] using rev_ind; intros HP; [constructor|].
    rewrite sort_by_snoc. apply Forall_app in HP. destruct HP as [HPr HPx].
    inversion HPx; subst.
    apply insert_by_sorted; try assumption.
    - apply (Permutation_Forall (sort_by_perm r)). exact HPr.
    - apply IH. exact HPr.
  Qed.

  (* an ordered list is determined by its elements *)
  Lemma sorted_perm_unique l : forall l', Forall P l -> separated l -> Permutation l l' ->
    StronglySorted cle l -> StronglySorted cle l' -> l = l'.
  Proof.
    induction l as [|a r IH]; intros l' HP Hsep Hperm HS HS'.
    - apply Permutation_nil in Hperm. subst. reflexivity.
    - destruct l' as [|b r'].
      + apply Permutation_sym, Permutation_nil in Hperm. discriminate.
      + inversion HP as [|? ? Pa Pr]; subst.
        inversion HS as [|? ? HSr Ha]; subst. inversion HS' as [|? ? HSr' Hb]; subst.
        assert (Hb_in : In b (a :: r)).
        { apply (Permutation_in b (Permutation_sym Hperm)). left. reflexivity. }
        assert (Ha_in : In a (b :: r')).
        { apply (Permutation_in a Hperm). left. reflexivity. }
        assert (Pb : P b).
        { rewrite Forall_forall in HP. apply HP. exact Hb_in. }
        assert (Hab : a = b).
        { destruct Hb_in as [E|Hbr]; [exact E|].
          destruct Ha_in as [E|Har']; [symmetry; exact E|].
          rewrite Forall_forall in Ha, Hb.
          pose proof (Ha b Hbr) as L1. pose proof (Hb a Har') as L2. unfold cle in L1, L2.
          rewrite (g_sym P cmp G a b Pa Pb) in L2.
          apply Hsep; [left; reflexivity | right; exact Hbr |].
          destruct (cmp a b); simpl in *; congruence. }
        subst b. f_equal. apply IH; try assumption.
        * intros x y Hx Hy. apply Hsep; right; assumption.
        * apply (Permutation_cons_inv Hperm).
  Qed.

  (* the specification sort is THE ordered arrangement: any ordered permutation equals it *)
  Lemma sort_by_unique l l' : Forall P l -> separated l -> Permutation l l' ->
    StronglySorted cle l' -> sort_by cmp l = l'.
  Proof.
    intros HP Hsep Hperm HS'.
    apply sorted_perm_unique.
    - apply (Permutation_Forall (sort_by_perm l)). exact HP.
    - intros a b Ha Hb. apply Hsep; apply (Permutation_in _ (Permutation_sym (sort_by_perm l))); assumption.
    - eapply Permutation_trans; [apply Permutation_sym, sort_by_perm | exact Hperm].
    - apply sort_by_sorted. exact HP.
    - exact HS'.
  Qed.

  (* the order of the input does not matter *)
  Lemma sort_by_perm_invariant l l' : Forall P l -> separated l -> Permutation l l' ->
    sort_by cmp l = sort_by cmp l'.
  Proof.
    intros HP Hsep Hperm. apply sort_by_unique; try assumption.
    - eapply Permutation_trans; [exact Hperm | apply sort_by_perm].
    - apply sort_by_sorted. apply (Permutation_Forall Hperm). exact HP.
  Qed.
End Sorting.
Arguments cle {A}.
Arguments separated {A}.

(* ---- rows: distinct ids separate ------------------------------------------------------------- *)
Lemma nodup_map_inj {A B : Type} (f : A -> B) (l : list A) :
  NoDup (map f l) -> forall a b, In a l -> In b l -> f a = f b -> a = b.
Proof.
  induction l as [|x r IH]; intros HN a b Ha Hb E; [destruct Ha|].
  simpl in HN. inversion HN as [|? ? Hnot HN']; subst.
  destruct Ha as [Ha|Ha], Hb as [Hb|Hb]; subst.
  - reflexivity.
  - exfalso. apply Hnot. rewrite E. apply in_map. exact Hb.
  - exfalso. apply Hnot. rewrite <- E. apply in_map. exact Ha.
  - apply IH; assumption.
Qed.

Lemma rows_separated fs (l : list row) : NoDup (map r_id l) -> separated (row_cmp fs) l.
Proof.
  intros HN a b Ha Hb E. apply (nodup_map_inj r_id l HN a b Ha Hb).
  apply (row_cmp_eq_id fs). exact E.
Qed.

Lemma nodup_filter_map {A B : Type} (f : A -> B) (p : A -> bool) (l : list A) :
  NoDup (map f l) -> NoDup (map f (filter p l)).
Proof.
  induction l as [|x r IH]; intros HN; simpl; [constructor|].
  simpl in HN. inversion HN as [|? ? Hnot HN']; subst.
  destruct (p x); simpl; [|apply IH; exact HN'].
  constructor; [|apply IH; exact HN'].
  intros Hin. apply Hnot. apply in_map_iff in Hin. destruct Hin as [y [E Hy]].
  apply filter_In in Hy. destruct Hy as [Hy _]. rewrite <- E. apply in_map. exact Hy.
Qed.

Lemma filter_len_le {A : Type} (p : A -> bool) (l : list A) :
  Z.of_nat (length (filter p l)) <= Z.of_nat (length l).
Proof.
  induction l as [|x r IH]; simpl; [lia|]. destruct (p x); simpl length; lia.
Qed.

Definition rows_ok (l : list row) : Prop := Forall row_ok l.

Lemma rows_ok_filter p l : rows_ok l -> rows_ok (filter p l).
Proof.
  unfold rows_ok. rewrite !Forall_forall. intros H x Hx. apply filter_In in Hx. apply H. tauto.
Qed.
