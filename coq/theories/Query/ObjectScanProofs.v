(* C19 - the object store returns the specified answer, hence the bolt store's answer. *)
From Coq Require Import List ZArith NArith Bool Lia Sorted Permutation.
From Storage Require Import Base.Bytes Query.Compare Query.CompareProofs Query.Paging Query.PagingProofs
  Query.ScanUnique Query.ScanUniqueProofs Query.ScanSort Query.ScanSortProofs Query.ScalarFilter Query.ObjectScan.
Import ListNotations.
Open Scope Z_scope.

(* the object store against the specification, on the objects in iterator order *)
Lemma objectz_eq_spec_lemma f fs p objs :
  wf_paging p -> NoDup (map r_id objs) -> Z.of_nat (length objs) <= max_int64 ->
  objectz_query f fs p objs = query_spec fs p (filter_spec f) objs.
Proof.
  intros Hwf HN Hlen. unfold objectz_query, filter_spec, obj_is_nil.
  exact (scan_sorting_exact_lemma (eval_filter cell_is_null f) fs p objs Hwf HN Hlen).
Qed.

Lemma filter_perm {A : Type} (p : A -> bool) (l l' : list A) :
  Permutation l l' -> Permutation (filter p l) (filter p l').
Proof.
  induction 1 as [|x l l' H IH|x y l|l l' l'' H1 IH1 H2 IH2]; simpl.
  - constructor.
  - destruct (p x); [apply perm_skip|]; exact IH.
  - destruct (p x), (p y); try apply Permutation_refl. apply perm_swap.
  - eapply Permutation_trans; eassumption.
Qed.

(* the specification does not depend on the order in which the rows are delivered *)
Lemma query_spec_perm_invariant fs p m (l l' : list row) :
  rows_ok l -> NoDup (map r_id l) -> Permutation l l' ->
  query_spec fs p m l = query_spec fs p m l'.
Proof.
  intros Hok HN Hperm. unfold query_spec.
  pose proof (filter_perm m l l' Hperm) as HpM.
  rewrite (sort_by_perm_invariant row (row_cmp fs) row_ok (good_row_cmp fs) (filter m l) (filter m l')).
  - rewrite (Permutation_length HpM). reflexivity.
  - apply rows_ok_filter. exact Hok.
  - apply rows_separated. apply nodup_filter_map. exact HN.
  - exact HpM.
Qed.

(* same values in a bolt store (ascending id order) and in an object store (any order) *)
Lemma objectz_eq_boltz_lemma f fs p rows objs :
  wf_paging p -> id_sorted rows -> rows_ok rows -> Z.of_nat (length rows) <= max_int64 ->
  Permutation rows objs ->
  objectz_query f fs p objs = boltz_query f fs p rows.
Proof.
  intros Hwf Hs Hok Hlen Hperm.
  assert (HNo : NoDup (map r_id objs)).
  { apply (Permutation_NoDup (Permutation_map r_id Hperm)). apply id_sorted_nodup. exact Hs. }
  assert (Hlo : Z.of_nat (length objs) <= max_int64).
  { rewrite <- (Permutation_length Hperm). exact Hlen. }
  rewrite (objectz_eq_spec_lemma f fs p objs Hwf HNo Hlo).
  unfold boltz_query, bolt_is_nil.
  rewrite (query_ids_exact_lemma (eval_filter cell_is_null f) fs p rows Hwf Hs Hok Hlen).
  unfold filter_spec. symmetry.
  apply query_spec_perm_invariant; try assumption. apply id_sorted_nodup. exact Hs.
Qed.

(* the null tests mean what they say *)
Lemma null_test_exact_lemma (r : row) (c : colref) :
  (filter_spec (FAtom (AIsNull c false)) r = true <-> cell_of r c = CNull) /\
  (filter_spec (FAtom (AIsNull c true)) r = true <-> cell_of r c <> CNull).
Proof.
  unfold filter_spec. simpl. unfold cell_is_null.
  destruct (cell_of r c); simpl; split; split; intros H; try discriminate; try reflexivity; try congruence.
Qed.

(* boolean structure *)
Lemma filter_spec_bool_lemma (f g : sfilter) (r : row) :
  filter_spec (FNot f) r = negb (filter_spec f r) /\
  filter_spec (FAnd f g) r = (filter_spec f r && filter_spec g r)%bool /\
  filter_spec (FOr f g) r = (filter_spec f r || filter_spec g r)%bool.
Proof.
  unfold filter_spec. simpl. destruct (eval_filter cell_is_null f r); repeat split; reflexivity.
Qed.

(* Go map iteration order (IterateMap) has no influence on the answer *)
Lemma objectz_order_irrelevant_lemma f fs p objs objs' :
  wf_paging p -> rows_ok objs -> NoDup (map r_id objs) -> Z.of_nat (length objs) <= max_int64 ->
  Permutation objs objs' ->
  objectz_query f fs p objs = objectz_query f fs p objs'.
Proof.
  intros Hwf Hok HN Hlen Hperm.
  rewrite (objectz_eq_spec_lemma f fs p objs Hwf HN Hlen).
  rewrite (objectz_eq_spec_lemma f fs p objs' Hwf).
  - apply query_spec_perm_invariant; assumption.
  - apply (Permutation_NoDup (Permutation_map r_id Hperm)). exact HN.
  - rewrite <- (Permutation_length Hperm). exact Hlen.
Qed.
