(* C02 - the sorting scan (bounded ordered tree) returns exactly the specified page and count,
   the strategy chosen by NewScanner is exact for every sort specification, and the strategies
   agree wherever both apply. *)
From Coq Require Import List ZArith NArith Bool Lia Sorted Permutation.
From Storage Require Import Base.Bytes Query.Compare Query.CompareProofs Query.Paging Query.PagingProofs
  Query.ScanUnique Query.ScanUniqueProofs Query.ScanSort.
Import ListNotations.
Open Scope Z_scope.

(* ---- the bounded tree ------------------------------------------------------------------------- *)
Section TreeFacts.
  Variable A : Type.
  Variable cmp : A -> A -> comparison.

  (* llrb insertion never replaces when nothing compares equal: it is the ordered insertion *)
  Lemma tree_insert_is_insert_by x t :
    Forall (fun y => cmp x y <> Eq) t -> tree_insert cmp x t = insert_by cmp x t.
  Proof.
    induction t as [|y r IH]; intros H; simpl; [reflexivity|].
    inversion H as [|? ? Hy Hr]; subst.
    destruct (cmp x y) eqn:E; try reflexivity; [congruence|].
    f_equal. apply IH. exact Hr.
  Qed.

  Lemma insert_by_nonempty x l : insert_by cmp x l <> [].
  Proof. destruct l as [|y r]; simpl; [discriminate|]. destruct (cmp x y); discriminate. Qed.

  Lemma removelast_cons (a : A) l : l <> [] -> removelast (a :: l) = a :: removelast l.
  Proof. destruct l; [congruence | reflexivity]. Qed.

  Lemma takeZ_nonempty (l : list A) k : 0 < k -> l <> [] -> takeZ k l <> [].
  Proof.
    intros Hk Hl. destruct l as [|y r]; [congruence|]. rewrite takeZ_cons.
    assert (E : (k <=? 0) = false) by (apply Z.leb_gt; lia). rewrite E. discriminate.
  Qed.

  Lemma removelast_takeZ (l : list A) : forall k, 0 <= k -> k + 1 <= Z.of_nat (length l) ->
    removelast (takeZ (k + 1) l) = takeZ k l.
  Proof.
    induction l as [|y r IH]; intros k Hk Hlen; [simpl in Hlen; lia|].
    simpl length in Hlen. rewrite Nat2Z.inj_succ in Hlen.
    rewrite (takeZ_cons (k + 1)).
    assert (E : (k + 1 <=? 0) = false) by (apply Z.leb_gt; lia). rewrite E.
    replace (k + 1 - 1) with k by lia.
    rewrite (takeZ_cons k). destruct (k <=? 0) eqn:E2.
    - apply Z.leb_le in E2. rewrite takeZ_nonpos by lia. reflexivity.
    - apply Z.leb_gt in E2. rewrite removelast_cons.
      + f_equal. replace k with ((k - 1) + 1) at 1 by lia. apply IH; lia.
      + apply takeZ_nonempty; [lia|]. destruct r; [simpl in Hlen; lia | discriminate].
  Qed.

  (* the key lemma: insert into the k smallest, then drop the largest = the k smallest of the
     list with the element inserted *)
  Lemma insert_then_trim x (s : list A) : forall k, 0 <= k -> k <= Z.of_nat (length s) ->
    removelast (insert_by cmp x (takeZ k s)) = takeZ k (insert_by cmp x s).
  Proof.
    induction s as [|y r IH]; intros k Hk Hlen.
    - simpl in Hlen. assert (k = 0) by lia. subst k. reflexivity.
    - simpl length in Hlen. rewrite Nat2Z.inj_succ in Hlen.
      rewrite (takeZ_cons k). destruct (k <=? 0) eqn:E.
      + apply Z.leb_le in E. rewrite takeZ_nonpos by lia. reflexivity.
      + apply Z.leb_gt in E. simpl insert_by. destruct (cmp x y) eqn:Ec.
        * rewrite removelast_cons by apply insert_by_nonempty.
          rewrite (takeZ_cons k), (proj2 (Z.leb_gt k 0) E). f_equal. apply IH; lia.
        * rewrite removelast_cons by discriminate.
          rewrite (takeZ_cons k), (proj2 (Z.leb_gt k 0) E). f_equal.
          replace (y :: takeZ (k - 1) r) with (takeZ ((k - 1) + 1) (y :: r)).
          -- apply removelast_takeZ; [lia|]. simpl length. rewrite Nat2Z.inj_succ. lia.
          -- rewrite takeZ_cons. assert (E2 : (k - 1 + 1 <=? 0) = false) by (apply Z.leb_gt; lia).
             rewrite E2. replace (k - 1 + 1 - 1) with (k - 1) by lia. reflexivity.
        * rewrite removelast_cons by apply insert_by_nonempty.
          rewrite (takeZ_cons k), (proj2 (Z.leb_gt k 0) E). f_equal. apply IH; lia.
  Qed.

  Lemma dropZ_length (l : list A) : forall o, 0 <= o ->
    Z.of_nat (length (dropZ o l)) = Z.max 0 (Z.of_nat (length l) - o).
  Proof.
    induction l as [|y r IH]; intros o Ho; [simpl; lia|].
    rewrite dropZ_cons. destruct (o <=? 0) eqn:E.
    - apply Z.leb_le in E. lia.
    - apply Z.leb_gt in E. rewrite IH by lia. simpl length. rewrite Nat2Z.inj_succ. lia.
  Qed.
End TreeFacts.

Lemma nodup_mid (done : list row) r todo y :
  NoDup (map r_id ((done ++ [r]) ++ todo)) -> In y done -> r_id r = r_id y -> False.
Proof.
  intros HN Hy E. rewrite <- app_assoc in HN. rewrite map_app in HN. simpl in HN.
  apply NoDup_remove_2 in HN. apply HN. apply in_or_app. left. rewrite E. apply in_map. exact Hy.
Qed.

(* ---- the scan ---------------------------------------------------------------------------------- *)
Section ScanProofs.
  Variable matches : row -> bool.
  Variable cmp : row -> row -> comparison.
  (* the comparator separates rows with different ids (the id key appended by newRowComparator) *)
  Hypothesis cmp_eq_id : forall a b, cmp a b = Eq -> r_id a = r_id b.

  Lemma sfold_filter maxr cur : forall st,
    fold_left (sstep matches cmp maxr) cur st =
    fold_left (sstep (fun _ => true) cmp maxr) (filter matches cur) st.
  Proof.
    induction cur as [|r cur IH]; intros st; simpl; [reflexivity|].
    unfold sstep at 2. destruct (matches r) eqn:Hm; simpl; rewrite IH; [|reflexivity].
    unfold sstep at 3. reflexivity.
  Qed.

  Lemma sfold_invariant maxr (Hmax : 0 <= maxr) (todo : list row) : forall done,
    NoDup (map r_id (done ++ todo)) ->
    Z.of_nat (length (done ++ todo)) <= max_int64 ->
    fold_left (sstep (fun _ => true) cmp maxr) todo
              (takeZ maxr (sort_by cmp done), Z.of_nat (length done)) =
    (takeZ maxr (sort_by cmp (done ++ todo)), Z.of_nat (length (done ++ todo))).
  Proof.
    induction todo as [|r todo IH]; intros done HN Hlen.
    - rewrite app_nil_r. reflexivity.
    - simpl fold_left.
      assert (Eapp : done ++ r :: todo = (done ++ [r]) ++ todo) by (rewrite <- app_assoc; reflexivity).
      rewrite Eapp in HN, Hlen |- *.
      rewrite <- IH; try assumption. f_equal.
      unfold sstep. simpl fst. simpl snd.
      assert (Hlen' : Z.of_nat (length done) + 1 <= max_int64).
      { rewrite !app_length in Hlen. simpl length in Hlen. lia. }
      rewrite incr64_small by lia.
      assert (Elen : Z.of_nat (length (done ++ [r])) = Z.of_nat (length done) + 1).
      { rewrite app_length. simpl length. lia. }
      rewrite Elen.
      set (S := sort_by cmp done).
      assert (HS : length S = length done) by apply sort_by_length.
      (* nothing already in the tree compares equal to r *)
      assert (Hneq : Forall (fun y => cmp r y <> Eq) (takeZ maxr S)).
      { rewrite Forall_forall. intros y Hy E.
        apply cmp_eq_id in E.
        assert (HyS : In y S).
        { eapply takeZ_In; exact Hy. }
        assert (Hyd : In y done).
        { apply (Permutation_in y (Permutation_sym (sort_by_perm row cmp done))). exact HyS. }
        exact (nodup_mid done r todo y HN Hyd E). }
      rewrite (tree_insert_is_insert_by row cmp r (takeZ maxr S) Hneq).
      rewrite (sort_by_snoc row cmp done r). fold S.
      f_equal.
      destruct (Z.of_nat (length done) + 1 >? maxr) eqn:E.
      + rewrite Z.gtb_ltb in E. apply Z.ltb_lt in E.
        unfold tree_delete_max. apply insert_then_trim; [exact Hmax | rewrite HS; lia].
      + rewrite Z.gtb_ltb in E. apply Z.ltb_ge in E.
        rewrite (takeZ_all S) by (rewrite HS; lia).
        rewrite takeZ_all; [reflexivity|].
        pose proof (Permutation_length (insert_by_perm row cmp r S)) as Hl. simpl length in Hl.
        rewrite <- Hl, HS. rewrite Nat2Z.inj_succ. lia.
  Qed.

  Lemma sfold_all maxr (M : list row) : 0 <= maxr ->
    NoDup (map r_id M) -> Z.of_nat (length M) <= max_int64 ->
    fold_left (sstep (fun _ => true) cmp maxr) M ([], 0) =
    (takeZ maxr (sort_by cmp M), Z.of_nat (length M)).
  Proof. intros Hmax HN Hlen. exact (sfold_invariant maxr Hmax M [] HN Hlen). Qed.

  Lemma tree_do_spec off (t : list row) : forall o, 0 <= o -> o + Z.of_nat (length t) <= max_int64 ->
    tree_do off t o = map r_id (dropZ (off - o) t).
  Proof.
    induction t as [|r t IH]; intros o Ho Hlen; [reflexivity|].
    simpl length in Hlen. rewrite Nat2Z.inj_succ in Hlen.
    simpl tree_do. rewrite (dropZ_cons (off - o)).
    destruct (o <? off) eqn:E.
    - apply Z.ltb_lt in E. assert (E2 : (off - o <=? 0) = false) by (apply Z.leb_gt; lia). rewrite E2.
      rewrite incr64_small by lia. rewrite IH by lia.
      replace (off - (o + 1)) with (off - o - 1) by lia. reflexivity.
    - apply Z.ltb_ge in E. assert (E2 : (off - o <=? 0) = true) by (apply Z.leb_le; lia). rewrite E2.
      simpl map. f_equal. rewrite IH by lia. rewrite dropZ_nonpos by lia. reflexivity.
  Qed.

  Lemma scan_sorting_with_spec maxres off lim (cursor : list row) :
    0 <= maxres off lim ->
    NoDup (map r_id cursor) -> Z.of_nat (length cursor) <= max_int64 ->
    let M := filter matches cursor in
    scan_sorting_with matches cmp maxres (off, lim) cursor =
      (map r_id (dropZ off (takeZ (maxres off lim) (sort_by cmp M))), Z.of_nat (length M)).
  Proof.
    intros Hmax HN Hlen M. unfold scan_sorting_with. simpl fst. simpl snd.
    rewrite sfold_filter. fold M.
    assert (HNM : NoDup (map r_id M)) by (apply nodup_filter_map; exact HN).
    assert (HlenM : Z.of_nat (length M) <= max_int64).
    { pose proof (filter_len_le matches cursor) as H. fold M in H. lia. }
    rewrite (sfold_all (maxres off lim) M Hmax HNM HlenM). simpl fst. simpl snd. f_equal.
    rewrite tree_do_spec; [rewrite Z.sub_0_r; reflexivity | lia |].
    pose proof (takeZ_length_le (sort_by cmp M) (maxres off lim)) as H1.
    rewrite sort_by_length in H1. lia.
  Qed.
End ScanProofs.

(* ---- exactness of the sorting scan -------------------------------------------------------------- *)
(* the numbers in the query text are int64 values (strconv.ParseInt in the listener) *)
Record wf_paging (p : paging) : Prop := {
  wf_skip : forall s, pg_skip p = Some s -> in_int64 s;
  wf_limit : forall l, pg_limit p = Some l -> in_int64 l
}.

Lemma set_paging_fst_range p : wf_paging p -> 0 <= fst (set_paging p) <= max_int64.
Proof.
  intros [Hs _]. rewrite set_paging_fst. unfold spec_skip. destruct (pg_skip p) as [s|].
  - specialize (Hs s eq_refl). unfold in_int64, max_int64, min_int64 in *. lia.
  - unfold max_int64. lia.
Qed.

Lemma max_results_spec off lim : 0 <= off <= max_int64 -> 0 <= lim <= max_int64 ->
  max_results off lim = Z.min (off + lim) max_int64.
Proof.
  intros Ho Hl. unfold max_results.
  destruct (wrap64_sum_nonneg off lim Ho Hl) as [H1 H2].
  destruct (Z_le_gt_dec (off + lim) max_int64) as [Hle|Hgt].
  - rewrite (H1 Hle).
    assert (E : ((0 <? off) && (off + lim <? lim)) = false).
    { apply andb_false_iff. destruct (Z.ltb_spec 0 off); [right; apply Z.ltb_ge; lia | left; reflexivity]. }
    rewrite E. lia.
  - specialize (H2 Hgt).
    assert (E1 : (0 <? off) = true) by (apply Z.ltb_lt; unfold max_int64 in *; lia).
    assert (E2 : (wrap64 (off + lim) <? lim) = true) by (apply Z.ltb_lt; lia).
    rewrite E1, E2. simpl. lia.
Qed.

Lemma bounded_tree_page {A : Type} (S : list A) off lim :
  0 <= off <= max_int64 -> 0 <= lim <= max_int64 -> Z.of_nat (length S) <= max_int64 ->
  dropZ off (takeZ (Z.min (off + lim) max_int64) S) = takeZ lim (dropZ off S).
Proof.
  intros Ho Hl Hlen.
  destruct (Z_le_gt_dec (off + lim) max_int64) as [Hle|Hgt].
  - rewrite Z.min_l by lia. symmetry. apply takeZ_dropZ; lia.
  - rewrite Z.min_r by lia. rewrite (takeZ_all S) by lia.
    symmetry. apply takeZ_all. rewrite dropZ_length by lia. lia.
Qed.

Lemma scan_sorting_exact_lemma matches fs p rows :
  wf_paging p -> NoDup (map r_id rows) -> Z.of_nat (length rows) <= max_int64 ->
  scan_sorting matches fs p rows = query_spec fs p matches rows.
Proof.
  intros Hwf HN Hlen. unfold scan_sorting.
  pose proof (set_paging_fst_range p Hwf) as Ho.
  pose proof (set_paging_snd_range p (wf_limit p Hwf)) as Hl.
  destruct (set_paging p) as [off lim] eqn:Ep. simpl fst in Ho. simpl snd in Hl.
  rewrite (scan_sorting_with_spec matches (row_cmp fs) (row_cmp_eq_id fs) max_results off lim rows);
    try assumption.
  - unfold query_spec. f_equal. f_equal.
    set (M := filter matches rows).
    assert (HlenM : Z.of_nat (length (sort_by (row_cmp fs) M)) <= max_int64).
    { rewrite sort_by_length. pose proof (filter_len_le matches rows) as H. fold M in H. lia. }
    rewrite page_as_take_drop by exact HlenM. rewrite Ep. simpl fst. simpl snd.
    rewrite max_results_spec by assumption.
    apply bounded_tree_page; assumption.
  - rewrite max_results_spec by assumption. lia.
Qed.

(* ---- the strategy chosen by NewScanner ------------------------------------------------------------ *)
Lemma new_scanner_forward fs : new_scanner fs = UniqueForward -> fs = [] \/ id_first true fs.
Proof.
  unfold new_scanner. destruct fs as [|f rest]; [left; reflexivity|]. simpl.
  destruct f as [c asc]. simpl. destruct c; simpl; [|discriminate].
  destruct asc; [|discriminate]. intros _. right. exists {| sf_col := ColId; sf_asc := true |}, rest. auto.
Qed.

Lemma new_scanner_reverse fs : new_scanner fs = UniqueReverse -> id_first false fs.
Proof.
  unfold new_scanner. destruct fs as [|f rest]; [discriminate|]. simpl.
  destruct f as [c asc]. simpl. destruct c; simpl; [|discriminate].
  destruct asc; [discriminate|]. intros _. exists {| sf_col := ColId; sf_asc := false |}, rest. auto.
Qed.

Lemma query_ids_exact_lemma matches fs p rows :
  wf_paging p -> id_sorted rows -> rows_ok rows -> Z.of_nat (length rows) <= max_int64 ->
  query_ids matches fs p rows = query_spec fs p matches rows.
Proof.
  intros Hwf Hs Hok Hlen. unfold query_ids. destruct (new_scanner fs) eqn:E.
  - apply scan_unique_exact_lemma; try assumption. apply new_scanner_forward. exact E.
  - apply scan_unique_exact_lemma; try assumption. apply new_scanner_reverse. exact E.
  - apply scan_sorting_exact_lemma; try assumption. apply id_sorted_nodup. exact Hs.
Qed.

(* both strategies compute the same answer whenever the id cursor is applicable *)
Lemma scanners_agree_lemma matches fs p (forward : bool) rows :
  (if forward then fs = [] \/ id_first true fs else id_first false fs) ->
  wf_paging p -> id_sorted rows -> rows_ok rows -> Z.of_nat (length rows) <= max_int64 ->
  scan_unique matches p forward rows = scan_sorting matches fs p rows.
Proof.
  intros Hfs Hwf Hs Hok Hlen.
  rewrite (scan_unique_exact_lemma matches fs p forward rows) by assumption.
  symmetry. apply scan_sorting_exact_lemma; try assumption. apply id_sorted_nodup. exact Hs.
Qed.

Lemma count_exact_lemma matches fs p rows :
  wf_paging p -> id_sorted rows -> rows_ok rows -> Z.of_nat (length rows) <= max_int64 ->
  snd (query_ids matches fs p rows) = Z.of_nat (length (filter matches rows)).
Proof.
  intros Hwf Hs Hok Hlen. rewrite query_ids_exact_lemma by assumption. reflexivity.
Qed.

Lemma count_independent_of_paging_lemma matches fs p p' rows :
  wf_paging p -> wf_paging p' -> id_sorted rows -> rows_ok rows -> Z.of_nat (length rows) <= max_int64 ->
  snd (query_ids matches fs p rows) = snd (query_ids matches fs p' rows).
Proof.
  intros. rewrite !count_exact_lemma by assumption. reflexivity.
Qed.

(* the cursor-style iteration serves the default (id ascending) order *)
Lemma iterate_matches_query_lemma matches p rows :
  wf_paging p -> id_sorted rows -> rows_ok rows -> Z.of_nat (length rows) <= max_int64 ->
  iterate_ids matches p rows = fst (query_ids matches [] p rows).
Proof.
  intros Hwf Hs Hok Hlen. rewrite iterate_paged_exact_lemma by assumption.
  rewrite query_ids_exact_lemma by assumption. unfold query_spec. simpl fst.
  f_equal. f_equal. symmetry.
  set (M := filter matches rows).
  apply (sort_by_unique row (row_cmp []) row_ok (good_row_cmp [])).
  - apply rows_ok_filter. exact Hok.
  - apply rows_separated. apply id_sorted_nodup. apply ssorted_filter. exact Hs.
  - apply Permutation_refl.
  - apply sorted_forward; [left; reflexivity|]. apply ssorted_filter. exact Hs.
Qed.

(* ---- what the specification means ----------------------------------------------------------------- *)
(* on rows without NaN keys and with distinct ids the specification's order is the unique
   arrangement of the matching rows that is ordered by the comparator *)
Lemma spec_sort_characterised_lemma fs (l l' : list row) :
  rows_ok l -> NoDup (map r_id l) ->
  (sort_by (row_cmp fs) l = l' <-> Permutation l l' /\ StronglySorted (cle (row_cmp fs)) l').
Proof.
  intros Hok HN. split.
  - intros E. subst l'. split; [apply sort_by_perm|].
    apply (sort_by_sorted row (row_cmp fs) row_ok (good_row_cmp fs)). exact Hok.
  - intros [Hp Hs]. apply (sort_by_unique row (row_cmp fs) row_ok (good_row_cmp fs)); try assumption.
    apply rows_separated. exact HN.
Qed.

(* ---- statements quoted by Properties/C02.v ---------------------------------------------------------- *)
Lemma row_order_total_preorder_lemma : forall (fs : list sort_field) (a b c : row),
  row_ok a -> row_ok b -> row_ok c ->
  row_cmp fs b a = CompOpp (row_cmp fs a b) /\
  (row_cmp fs a b <> Gt -> row_cmp fs b c <> Gt -> row_cmp fs a c <> Gt) /\
  (row_cmp fs a b = Eq -> r_id a = r_id b).
Proof.
  intros fs a b c Ha Hb Hc. split; [|split].
  - exact (g_sym row_ok (row_cmp fs) (good_row_cmp fs) a b Ha Hb).
  - exact (good_le_trans row_ok (row_cmp fs) a b c (good_row_cmp fs) Ha Hb Hc).
  - exact (row_cmp_eq_id fs a b).
Qed.

Lemma spec_page_meaning_lemma : forall (A : Type) (p : paging) (l : list A),
  page p l =
  let d := skipn (Z.to_nat (match pg_skip p with None => 0 | Some s => Z.max s 0 end)) l in
  match pg_limit p with
  | None => d
  | Some k => if k <? 0 then d else firstn (Z.to_nat k) d
  end.
Proof.
  intros A p l. rewrite page_page_nat. unfold page_nat, spec_limit, spec_skip.
  destruct (pg_limit p) as [k|]; [|reflexivity]. destruct (k <? 0); reflexivity.
Qed.

Lemma insert_then_trim_is_firstn_lemma : forall (A : Type) (cmp : A -> A -> comparison) (x : A)
                                            (s : list A) (k : Z),
  0 <= k -> k <= Z.of_nat (length s) ->
  removelast (insert_by cmp x (firstn (Z.to_nat k) s)) = firstn (Z.to_nat k) (insert_by cmp x s).
Proof.
  intros A cmp x s k H0 H1. rewrite <- !takeZ_firstn. apply insert_then_trim; assumption.
Qed.

Lemma count_independent_lemma : forall (matches : row -> bool) (fs : list sort_field)
                                             (p p' : paging) (rows : list row),
  wf_paging p -> wf_paging p' -> id_sorted rows -> rows_ok rows ->
  Z.of_nat (length rows) <= max_int64 ->
  snd (query_ids matches fs p rows) = Z.of_nat (length (filter matches rows)) /\
  snd (query_ids matches fs p rows) = snd (query_ids matches fs p' rows).
Proof.
  intros matches fs p p' rows H1 H2 H3 H4 H5. split.
  - exact (count_exact_lemma matches fs p rows H1 H3 H4 H5).
  - exact (count_independent_of_paging_lemma matches fs p p' rows H1 H2 H3 H4 H5).
Qed.

(* ---- paging parameters at the numeric extremes ---------------------------------------------------- *)
(* clamp: a limit that is at least the number of rows left after the skip keeps all of them, i.e. it
   is the same as no limit - whatever the size of the number (MaxInt64 - 1 as well as n) *)
Lemma page_limit_clamp {A : Type} (sk : option Z) (k : Z) (l : list A) :
  Z.of_nat (length l) - spec_skip {| pg_skip := sk; pg_limit := Some k |} <= k ->
  page {| pg_skip := sk; pg_limit := Some k |} l = page {| pg_skip := sk; pg_limit := limit_none |} l.
Proof.
  intros H. unfold page.
  change (spec_skip {| pg_skip := sk; pg_limit := limit_none |})
    with (spec_skip {| pg_skip := sk; pg_limit := Some k |}).
  pose proof (spec_skip_nonneg {| pg_skip := sk; pg_limit := Some k |}) as Ho.
  set (o := spec_skip {| pg_skip := sk; pg_limit := Some k |}) in *.
  unfold spec_limit, limit_none. simpl.
  destruct (k <? 0) eqn:E; [reflexivity|]. apply Z.ltb_ge in E.
  apply takeZ_all. rewrite dropZ_length by exact Ho. lia.
Qed.

(* a skip that is at least the number of rows leaves nothing, whatever the limit *)
Lemma page_skip_beyond {A : Type} (p : paging) (l : list A) :
  Z.of_nat (length l) <= spec_skip p -> page p l = [].
Proof.
  intros H. unfold page. rewrite (dropZ_all l) by exact H.
  destruct (spec_limit p); reflexivity.
Qed.

Lemma wf_paging_limit_none sk k :
  wf_paging {| pg_skip := sk; pg_limit := Some k |} -> wf_paging {| pg_skip := sk; pg_limit := limit_none |}.
Proof.
  intros [Hs _]. constructor; [exact Hs|]. simpl. intros l E. inversion E; subst.
  unfold in_int64, min_int64, max_int64. lia.
Qed.

(* QueryIds and the paged iteration: an explicit limit that is at least the number of matching rows
   (however close to MaxInt64, with whatever skip) answers exactly like `limit none` *)
Lemma huge_limit_is_unbounded_lemma : forall (matches : row -> bool) (fs : list sort_field)
                                             (sk : option Z) (k : Z) (rows : list row),
  wf_paging {| pg_skip := sk; pg_limit := Some k |} -> id_sorted rows -> rows_ok rows ->
  Z.of_nat (length rows) <= max_int64 ->
  Z.of_nat (length (filter matches rows)) <= k ->
  query_ids matches fs {| pg_skip := sk; pg_limit := Some k |} rows
    = query_ids matches fs {| pg_skip := sk; pg_limit := limit_none |} rows /\
  iterate_ids matches {| pg_skip := sk; pg_limit := Some k |} rows
    = iterate_ids matches {| pg_skip := sk; pg_limit := limit_none |} rows.
Proof.
  intros matches fs sk k rows Hwf Hs Hok Hlen Hk.
  pose proof (wf_paging_limit_none sk k Hwf) as Hwf'.
  pose proof (spec_skip_nonneg {| pg_skip := sk; pg_limit := Some k |}) as Hsk.
  split.
  - rewrite !query_ids_exact_lemma by assumption. unfold query_spec. f_equal. f_equal.
    apply page_limit_clamp. rewrite sort_by_length. lia.
  - rewrite !iterate_paged_exact_lemma by assumption. f_equal.
    apply page_limit_clamp. lia.
Qed.

(* a skip that reaches the number of matching rows returns no ids and still the full count *)
Lemma skip_beyond_count_lemma : forall (matches : row -> bool) (fs : list sort_field)
                                       (p : paging) (rows : list row),
  wf_paging p -> id_sorted rows -> rows_ok rows -> Z.of_nat (length rows) <= max_int64 ->
  Z.of_nat (length (filter matches rows)) <= spec_skip p ->
  query_ids matches fs p rows = ([], Z.of_nat (length (filter matches rows))) /\
  iterate_ids matches p rows = [].
Proof.
  intros matches fs p rows Hwf Hs Hok Hlen Hk. split.
  - rewrite query_ids_exact_lemma by assumption. unfold query_spec.
    rewrite page_skip_beyond; [reflexivity|]. rewrite sort_by_length. exact Hk.
  - rewrite iterate_paged_exact_lemma by assumption. rewrite page_skip_beyond; [reflexivity | exact Hk].
Qed.
