(* C19 - proofs about sessions (Query/ObjectSession.v) *)
From Coq Require Import List ZArith NArith Bool Sorted Permutation.
From Storage Require Import Base.Bytes Query.Compare Query.CompareProofs Query.Paging Query.PagingProofs
  Query.ScanUnique Query.ScanUniqueProofs Query.ScanSort Query.ScanSortProofs
  Query.ScalarFilter Query.ObjectScan Query.ObjectScanProofs Query.ObjectSession.
Import ListNotations.
Open Scope Z_scope.

Lemma objectz_session_pointwise_lemma (pre post : list ostep) (s : ostep) :
  nth_error (objectz_session (pre ++ s :: post)) (length pre) = Some (objectz_answer s).
Proof.
  unfold objectz_session. rewrite map_app. simpl.
  rewrite nth_error_app2; rewrite map_length; [| apply Nat.le_refl ].
  rewrite Nat.sub_diag. reflexivity.
Qed.

Lemma objectz_session_independent_lemma (pre pre' post post' : list ostep) (s : ostep) :
  nth_error (objectz_session (pre ++ s :: post)) (length pre) =
  nth_error (objectz_session (pre' ++ s :: post')) (length pre').
Proof. now rewrite !objectz_session_pointwise_lemma. Qed.

(* a step of the object store and the step of the bolt store hold the same values *)
Definition same_values (b : bstep) (o : ostep) : Prop :=
  snd b = snd o /\ wf_paging (oq_paging (snd b)) /\ id_sorted (fst b) /\ rows_ok (fst b) /\
  Z.of_nat (length (fst b)) <= max_int64 /\ Permutation (fst b) (fst o).

Lemma objectz_session_eq_boltz_lemma (bs : list bstep) (os : list ostep) :
  Forall2 same_values bs os -> objectz_session os = boltz_session bs.
Proof.
  induction 1 as [| b o bs os Hs _ IH]; [ reflexivity |].
  unfold objectz_session, boltz_session in *. simpl. rewrite IH. f_equal.
  destruct Hs as (Hq & Hwf & Hsorted & Hok & Hlen & Hperm).
  unfold objectz_answer, boltz_answer. rewrite <- Hq.
  apply objectz_eq_boltz_lemma; assumption.
Qed.
