(* Proofs for the statements added to Properties/C12.v after seeded change C12-w5-2: a chain of one connective is
   the disjunction / conjunction of the values of its clauses in EVERY grouping, on every row of a table. *)
From Coq Require Import List NArith Bool Arith Lia.
From Storage Require Import Base.Bytes Lang.Tokens Lang.Lexer Lang.BoolGrammar Lang.Listener Lang.BoolSurface
  Lang.BoolGrammarProofs Lang.LexerProofs Lang.C12Proofs Lang.BoolRows Lang.C12W3Proofs Lang.ChainGroupings.
Import ListNotations.

Lemma or_grouping_sem : forall l e rho, or_grouping l e -> sem e rho = existsb (fun p => semP p rho) l.
Proof.
  intros l e rho H. unfold sem. induction H; simpl.
  - rewrite orb_false_r. reflexivity.
  - rewrite IHor_grouping. reflexivity.
  - rewrite IHor_grouping. reflexivity.
  - rewrite existsb_app, IHor_grouping1, IHor_grouping2. reflexivity.
Qed.

Lemma and_grouping_semE : forall l e rho, and_grouping l e ->
  forall acc, semE acc e rho = acc && forallb (fun p => semP p rho) l.
Proof.
  intros l e rho H. induction H; intros acc; simpl.
  - rewrite andb_true_r. reflexivity.
  - rewrite IHand_grouping. reflexivity.
  - rewrite IHand_grouping, andb_assoc. reflexivity.
  - rewrite forallb_app, IHand_grouping2, IHand_grouping1. simpl. rewrite andb_assoc. reflexivity.
Qed.

Lemma chain_grouping_lemma : forall (Row : Type) (rows : list Row) (val : Row -> str -> bool) l e ts,
  spells_filter e ts ->
  exists b, compile fixed_prec ts = Some b /\
    (or_grouping l e ->
       (forall rho, eval b rho = existsb (fun p => semP p rho) l) /\
       select rows (fun r => eval b (val r)) = select rows (fun r => existsb (fun p => semP p (val r)) l)) /\
    (and_grouping l e ->
       (forall rho, eval b rho = forallb (fun p => semP p rho) l) /\
       select rows (fun r => eval b (val r)) = select rows (fun r => forallb (fun p => semP p (val r)) l)).
Proof.
  intros Row rows val l e ts Hs. destruct (compile_correct _ _ Hs) as [b [Hc He]].
  exists b. split; [exact Hc|]. split; intros Hg.
  - assert (Hv : forall rho, eval b rho = existsb (fun p => semP p rho) l).
    { intros rho. rewrite He. apply or_grouping_sem. exact Hg. }
    split; [exact Hv|]. unfold select. apply filter_ext_all. intros r. apply Hv.
  - assert (Hv : forall rho, eval b rho = forallb (fun p => semP p rho) l).
    { intros rho. rewrite He. unfold sem. rewrite (and_grouping_semE _ _ _ Hg). reflexivity. }
    split; [exact Hv|]. unfold select. apply filter_ext_all. intros r. apply Hv.
Qed.

(* two groupings of the same clauses *)
Lemma regrouping_lemma : forall l e1 e2 ts1 ts2 b1 b2 rho,
  (or_grouping l e1 /\ or_grouping l e2) \/ (and_grouping l e1 /\ and_grouping l e2) ->
  spells_filter e1 ts1 -> spells_filter e2 ts2 ->
  compile fixed_prec ts1 = Some b1 -> compile fixed_prec ts2 = Some b2 ->
  eval b1 rho = eval b2 rho.
Proof.
  intros l e1 e2 ts1 ts2 b1 b2 rho Hg Hs1 Hs2 Hc1 Hc2.
  destruct (compile_correct _ _ Hs1) as [b1' [Hc1' He1]]. destruct (compile_correct _ _ Hs2) as [b2' [Hc2' He2]].
  rewrite Hc1 in Hc1'. rewrite Hc2 in Hc2'. inversion Hc1'. inversion Hc2'. subst b1' b2'.
  rewrite He1, He2. destruct Hg as [[H1 H2] | [H1 H2]].
  - rewrite (or_grouping_sem _ _ _ H1), (or_grouping_sem _ _ _ H2). reflexivity.
  - unfold sem. rewrite (and_grouping_semE _ _ _ H1), (and_grouping_semE _ _ _ H2). reflexivity.
Qed.

(* a row on which ONE clause of an or-chain holds is selected, a row on which one clause of an and-chain fails is
   not - whichever clause it is, wherever it stands, whatever its neighbours look like *)
Lemma one_clause_lemma : forall (Row : Type) (val : Row -> str -> bool) l e ts b p r,
  spells_filter e ts -> compile fixed_prec ts = Some b -> In p l ->
  (or_grouping l e -> semP p (val r) = true -> eval b (val r) = true) /\
  (and_grouping l e -> semP p (val r) = false -> eval b (val r) = false).
Proof.
  intros Row val l e ts b p r Hs Hc Hin.
  destruct (compile_correct _ _ Hs) as [b' [Hc' He]]. rewrite Hc in Hc'. inversion Hc'. subst b'.
  split; intros Hg Hp; rewrite He.
  - rewrite (or_grouping_sem _ _ _ Hg). apply existsb_exists. exists p. split; assumption.
  - unfold sem. rewrite (and_grouping_semE _ _ _ Hg). simpl.
    destruct (forallb (fun p0 => semP p0 (val r)) l) eqn:Hf; [|reflexivity].
    rewrite forallb_forall in Hf. rewrite (Hf p Hin) in Hp. discriminate.
Qed.
