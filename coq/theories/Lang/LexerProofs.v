(* Proofs about the lexer model: the segments partition the input (nothing is lost or invented
   except what is reported as dropped), and every spelling of a separated skeleton token sequence -
   any letter case of the connectives, any white-space character - is lexed back to exactly that
   sequence, without errors. *)
From Coq Require Import List NArith Bool Arith Lia.
From Storage Require Import Base.Bytes Lang.Tokens Lang.Lexer Lang.BoolSurface.
Import ListNotations.

(* ------------------------------------------------------------------------------------------ *)
(* generic: partition *)
Definition acc_ok (acc : option (nat * nat)) : Prop :=
  match acc with Some (_, l) => 1 <= l | None => True end.

Lemma best_pos : forall rs s acc via k l v,
  acc_ok acc -> best rs s acc via = (Some (k, l), v) -> 1 <= l.
Proof.
  induction rs as [|r rs IH]; intros s acc via k l v Hacc H; simpl in H.
  - inversion H; subst. exact Hacc.
  - destruct (rscan r s) as [a v0]. eapply IH; [|exact H].
    destruct a as [l1|]; auto. destruct (Nat.eqb l1 0) eqn:E; auto.
    apply Nat.eqb_neq in E. destruct acc as [[k0 l0]|]; simpl.
    + destruct (Nat.ltb l0 l1); simpl; auto. lia.
    + lia.
Qed.

Lemma skipn_length_le : forall (A : Type) n (l : list A), length (skipn n l) <= length l - n.
Proof. intros. rewrite skipn_length. lia. Qed.

Theorem lex_fuel_partition : forall rs f s, length s <= f -> concat (map seg_text (lex_fuel rs f s)) = s.
Proof.
  induction f as [|f IH]; intros s Hf.
  - destruct s; simpl in *; [reflexivity|lia].
  - destruct s as [|c s']; [reflexivity|].
    cbn [lex_fuel]. destruct (best rs (c :: s') None 0) as [[[k l]|] v] eqn:Hb.
    + assert (1 <= l) by (eapply best_pos; [|exact Hb]; exact I).
      cbn [map concat seg_text]. rewrite IH.
      * apply firstn_skipn.
      * pose proof (skipn_length_le _ l (c :: s')). simpl length in *. lia.
    + cbn [map concat seg_text]. rewrite IH.
      * apply firstn_skipn.
      * pose proof (skipn_length_le _ (S v) (c :: s')). simpl length in *. lia.
Qed.

Theorem lex_partition : forall rs s, concat (map seg_text (lex rs s)) = s.
Proof. intros. apply lex_fuel_partition. auto. Qed.

(* ------------------------------------------------------------------------------------------ *)
(* generic: which rule wins *)
Lemma best_skip : forall r rs s acc via,
  fst (rscan r s) = None -> best (r :: rs) s acc via = best rs s acc (Nat.max via (snd (rscan r s))).
Proof. intros. simpl. destruct (rscan r s) as [a v]. simpl in *. subst. reflexivity. Qed.

(* once a rule has accepted L characters, later rules that accept at most L do not replace it *)
Lemma best_keep : forall rs s k L via,
  (forall r l, In r rs -> fst (rscan r s) = Some l -> l <= L) ->
  fst (best rs s (Some (k, L)) via) = Some (k, L).
Proof.
  induction rs as [|r rs IH]; intros s k L via H; simpl.
  - reflexivity.
  - destruct (rscan r s) as [a v] eqn:E.
    assert (Ha : forall l, a = Some l -> l <= L).
    { intros l Hl. apply (H r l); [left; reflexivity|]. rewrite E. exact Hl. }
    destruct a as [l|].
    + specialize (Ha l eq_refl). destruct (Nat.eqb l 0).
      * apply IH. intros; eapply H; eauto. right; auto.
      * replace (Nat.ltb L l) with false by (symmetry; apply Nat.ltb_ge; lia).
        apply IH. intros; eapply H; eauto. right; auto.
    + apply IH. intros; eapply H; eauto. right; auto.
Qed.

(* a rule accepting L >= 1 characters after rules that accept strictly less wins, whatever the
   accumulator (below L) *)
Lemma best_take : forall r rs s acc via L,
  fst (rscan r s) = Some L -> 1 <= L ->
  match acc with Some (_, l0) => l0 < L | None => True end ->
  (forall r' l, In r' rs -> fst (rscan r' s) = Some l -> l <= L) ->
  fst (best (r :: rs) s acc via) = Some (rkind r, L).
Proof.
  intros r rs s acc via L Hr HL Hacc Hrs. simpl.
  destruct (rscan r s) as [a v]. simpl in Hr. subst a.
  replace (Nat.eqb L 0) with false by (symmetry; apply Nat.eqb_neq; lia).
  destruct acc as [[k0 l0]|].
  - replace (Nat.ltb l0 L) with true by (symmetry; apply Nat.ltb_lt; lia). apply best_keep. auto.
  - apply best_keep. auto.
Qed.

(* rules accepting strictly less than L leave an accumulator below L *)
Lemma best_below : forall r rs s acc via L,
  (forall l, fst (rscan r s) = Some l -> l < L) ->
  match acc with Some (_, l0) => l0 < L | None => True end ->
  exists acc' via', best (r :: rs) s acc via = best rs s acc' via' /\
                    match acc' with Some (_, l0) => l0 < L | None => True end.
Proof.
  intros r rs s acc via L Hr Hacc. simpl. destruct (rscan r s) as [a v]. simpl in Hr.
  destruct a as [l|].
  - specialize (Hr l eq_refl). destruct (Nat.eqb l 0).
    + eexists; eexists; split; [reflexivity|auto].
    + destruct acc as [[k0 l0]|].
      * destruct (Nat.ltb l0 l); eexists; eexists; split; try reflexivity; auto.
      * eexists; eexists; split; [reflexivity|auto].
  - eexists; eexists; split; [reflexivity|auto].
Qed.

(* ------------------------------------------------------------------------------------------ *)
(* character facts *)
Open Scope N_scope.

Ltac chars :=
  unfold is_ident_char, ci_is, to_lower, is_letter, is_upper, is_lower, is_ws in *;
  repeat match goal with
         | H : _ = false |- _ => apply not_true_iff_false in H
         | |- _ = false => apply not_true_iff_false; intro
         end;
  repeat rewrite ?orb_true_iff, ?andb_true_iff, ?N.leb_le, ?N.eqb_eq in *.

Lemma letter_not_ws : forall c, is_letter c = true -> is_ws c = false.
Proof. intros c H. chars. lia. Qed.

Lemma letter_not_paren : forall c, is_letter c = true -> (40 =? c) = false /\ (41 =? c) = false.
Proof. intros c H. split; chars; lia. Qed.

Lemma letter_ident : forall c, is_letter c = true -> is_ident_char c = true.
Proof. intros c H. unfold is_ident_char. rewrite H. reflexivity. Qed.

Lemma ws_not_ident : forall c, is_ws c = true -> is_ident_char c = false.
Proof. intros c H. chars. lia. Qed.

Lemma ci_is_letter : forall l c, is_lower l = true -> ci_is l c = true -> is_letter c = true.
Proof.
  intros l c Hl H. unfold ci_is, to_lower in H.
  destruct (is_upper c) eqn:Hu.
  - unfold is_letter. rewrite Hu. reflexivity.
  - apply N.eqb_eq in H. subst. unfold is_letter. rewrite Hl. apply orb_true_r.
Qed.

Lemma case_of_ci : forall l c, is_lower l = true -> case_of l c -> ci_is l c = true.
Proof.
  intros l c Hl [H|H]; subst; unfold ci_is, to_lower.
  - replace (is_upper l) with false; [apply N.eqb_refl|].
    symmetry. chars. lia.
  - replace (is_upper (l - 32)) with true; [apply N.eqb_eq; chars; lia|].
    symmetry. chars. lia.
Qed.
Close Scope N_scope.

(* ------------------------------------------------------------------------------------------ *)
(* scanners *)
Definition next_stop (cs : str) : Prop :=
  match cs with d :: _ => is_ident_char d = false | [] => True end.

Lemma span_app_stop : forall w cs, forallb is_ident_char w = true -> next_stop cs ->
  span is_ident_char (w ++ cs) = length w.
Proof.
  induction w as [|c w IH]; intros cs Hw Hcs; simpl in *.
  - destruct cs; simpl in *; [reflexivity|]. rewrite Hcs. reflexivity.
  - apply andb_true_iff in Hw. destruct Hw as [Hc Hw]. rewrite Hc. rewrite IH; auto.
Qed.

Definition word_shape (w : str) : Prop :=
  match w with c :: r => is_letter c = true /\ forallb is_ident_char r = true | [] => False end.

Lemma scan_ident_word : forall w cs, word_shape w -> next_stop cs ->
  scan_ident (w ++ cs) = (Some (length w), length w).
Proof.
  intros [|c r] cs H Hcs; [contradiction|]. destruct H as [Hc Hr]. simpl. rewrite Hc.
  rewrite span_app_stop; auto.
Qed.

Lemma word_shape_ident : forall w, word_shape w -> forallb is_ident_char w = true.
Proof. intros [|c r] H; [contradiction|]. destruct H. simpl. rewrite (letter_ident c); auto. Qed.

Lemma kw_prefix_le_span : forall letters s, forallb is_lower letters = true ->
  kw_prefix letters s <= span is_ident_char s.
Proof.
  induction letters as [|l ls IH]; intros s Hl; simpl.
  - lia.
  - destruct s as [|c s']; [lia|]. simpl in Hl. apply andb_true_iff in Hl. destruct Hl as [Hl Hls].
    destruct (ci_is l c) eqn:E; [|lia]. simpl.
    rewrite (letter_ident c (ci_is_letter l c Hl E)). specialize (IH s' Hls). lia.
Qed.

Lemma kw_prefix_le_len : forall letters s, kw_prefix letters s <= length letters.
Proof.
  induction letters as [|l ls IH]; intros s; simpl; [lia|].
  destruct s as [|c s']; [lia|]. destruct (ci_is l c); [|lia]. specialize (IH s'). lia.
Qed.

Lemma kw_prefix_full_eq : forall letters w cs,
  kw_prefix letters (w ++ cs) = length letters -> length w = length letters -> ci_eqb letters w = true.
Proof.
  induction letters as [|l ls IH]; intros w cs H Hlen; destruct w as [|c w']; simpl in *; try lia; auto.
  destruct (ci_is l c); [|lia]. simpl. apply (IH w' cs); lia.
Qed.

(* the accepted length of a keyword rule is the length of the keyword, at most the identifier run *)
Lemma scan_kw_accept : forall letters w cs l, forallb is_lower letters = true ->
  forallb is_ident_char w = true -> next_stop cs ->
  fst (scan_kw letters (w ++ cs)) = Some l ->
  l = length letters /\ l <= length w /\ (l = length w -> ci_eqb letters w = true).
Proof.
  intros letters w cs l Hl Hw Hcs H. unfold scan_kw in H. simpl in H.
  destruct (Nat.eqb (kw_prefix letters (w ++ cs)) (length letters)) eqn:E; [|discriminate].
  inversion H; subst. apply Nat.eqb_eq in E.
  pose proof (kw_prefix_le_span letters (w ++ cs) Hl) as Hs. rewrite span_app_stop in Hs; auto.
  repeat split; try lia. intros. apply (kw_prefix_full_eq letters w cs); lia.
Qed.

Lemma kw_lower : forallb is_lower kw_and = true /\ forallb is_lower kw_or = true /\ forallb is_lower kw_not = true.
Proof. repeat split; reflexivity. Qed.


(* ------------------------------------------------------------------------------------------ *)
(* one token of the skeleton *)
Lemma atom_ok_shape : forall n, atom_ok n = true ->
  word_shape n /\ ci_eqb kw_and n = false /\ ci_eqb kw_or n = false /\ ci_eqb kw_not n = false.
Proof.
  intros n H. unfold atom_ok in H.
  repeat (apply andb_true_iff in H; destruct H as [H ?]).
  repeat match goal with Hx : negb _ = true |- _ => apply negb_true_iff in Hx end.
  repeat split; auto. destruct n as [|c r]; [discriminate|]. apply andb_true_iff in H. exact H.
Qed.

Lemma scan_kw_len : forall letters s l, fst (scan_kw letters s) = Some l -> l = length letters.
Proof.
  intros letters s l H. unfold scan_kw in H. simpl in H.
  destruct (Nat.eqb (kw_prefix letters s) (length letters)) eqn:E; [|discriminate].
  inversion H; subst. apply Nat.eqb_eq in E. exact E.
Qed.

Lemma best_ident : forall n cs, atom_ok n = true -> next_stop cs ->
  fst (best skeleton_rules (n ++ cs) None 0) = Some (K_IDENTIFIER, length n).
Proof.
  intros n cs Hok Hcs. destruct (atom_ok_shape n Hok) as [Hshape [Ha [Ho Hn]]].
  pose proof (word_shape_ident n Hshape) as Hid.
  destruct kw_lower as [La [Lo Ln]].
  assert (Hlen : 1 <= length n) by (destruct n; [contradiction|simpl; lia]).
  assert (Hchar : forall p, (forall c, is_letter c = true -> p c = false) ->
                  forall l, fst (scan_char p (n ++ cs)) = Some l -> l < length n).
  { intros p Hp l H. destruct n as [|c r]; [contradiction|]. destruct Hshape as [Hc _].
    simpl in H. rewrite (Hp c Hc) in H. discriminate. }
  assert (Hkw : forall letters, forallb is_lower letters = true -> ci_eqb letters n = false ->
                forall l, fst (scan_kw letters (n ++ cs)) = Some l -> l < length n).
  { intros letters Hl Hne l H.
    destruct (scan_kw_accept letters n cs l Hl Hid Hcs H) as [_ [Hle Heq]].
    destruct (Nat.eq_dec l (length n)) as [E|E]; [|lia]. rewrite (Heq E) in Hne. discriminate. }
  unfold skeleton_rules.
  edestruct (best_below (mkRule K_WS (scan_char is_ws))) as [a1 [v1 [E1 H1]]];
    [apply (Hchar is_ws letter_not_ws)| |rewrite E1; clear E1]; [exact I|].
  edestruct (best_below (mkRule K_LPAREN (scan_char (N.eqb 40)))) as [a2 [v2 [E2 H2]]];
    [apply (Hchar (N.eqb 40)); intros c Hc; apply (letter_not_paren c Hc)|exact H1|rewrite E2; clear E2].
  edestruct (best_below (mkRule K_RPAREN (scan_char (N.eqb 41)))) as [a3 [v3 [E3 H3]]];
    [apply (Hchar (N.eqb 41)); intros c Hc; apply (letter_not_paren c Hc)|exact H2|rewrite E3; clear E3].
  edestruct (best_below (mkRule K_AND (scan_kw kw_and))) as [a4 [v4 [E4 H4]]];
    [apply (Hkw kw_and La Ha)|exact H3|rewrite E4; clear E4].
  edestruct (best_below (mkRule K_OR (scan_kw kw_or))) as [a5 [v5 [E5 H5]]];
    [apply (Hkw kw_or Lo Ho)|exact H4|rewrite E5; clear E5].
  edestruct (best_below (mkRule K_NOT (scan_kw kw_not))) as [a6 [v6 [E6 H6]]];
    [apply (Hkw kw_not Ln Hn)|exact H5|rewrite E6; clear E6].
  apply (best_take (mkRule K_IDENTIFIER scan_ident) [] (n ++ cs) a6 v6 (length n)); auto.
  - simpl. rewrite scan_ident_word; auto.
  - intros r' l [].
Qed.

(* a connective in one concrete letter case *)
Ltac kw_case w :=
  intros cs Hcs; unfold skeleton_rules; cbn [best rkind rscan];
  rewrite (scan_ident_word w cs); [reflexivity|split; reflexivity|exact Hcs].

Lemma spells_word_cases3 : forall a b c cs, spells_word [a; b; c] cs ->
  exists x y z, cs = [x; y; z] /\ case_of a x /\ case_of b y /\ case_of c z.
Proof.
  intros a b c cs H. inversion H as [|? ? x r1 Hx H1]; subst.
  inversion H1 as [|? ? y r2 Hy H2]; subst. inversion H2 as [|? ? z r3 Hz H3]; subst.
  inversion H3; subst. exists x, y, z. auto.
Qed.

Lemma spells_word_cases2 : forall a b cs, spells_word [a; b] cs ->
  exists x y, cs = [x; y] /\ case_of a x /\ case_of b y.
Proof.
  intros a b cs H. inversion H as [|? ? x r1 Hx H1]; subst.
  inversion H1 as [|? ? y r2 Hy H2]; subst. inversion H2; subst. exists x, y. auto.
Qed.

Lemma best_and : forall w cs, spells_word kw_and w -> next_stop cs ->
  fst (best skeleton_rules (w ++ cs) None 0) = Some (K_AND, 3) /\ length w = 3.
Proof.
  intros w cs H. apply spells_word_cases3 in H. destruct H as [x [y [z [-> [Hx [Hy Hz]]]]]].
  revert cs. unfold case_of in *.
  destruct Hx as [-> | ->], Hy as [-> | ->], Hz as [-> | ->]; intros cs Hcs; (split; [|reflexivity]); revert cs Hcs.
  all: match goal with |- forall cs, _ -> fst (best _ (?w ++ cs) _ _) = _ => kw_case w end.
Qed.

Lemma best_or : forall w cs, spells_word kw_or w -> next_stop cs ->
  fst (best skeleton_rules (w ++ cs) None 0) = Some (K_OR, 2) /\ length w = 2.
Proof.
  intros w cs H. apply spells_word_cases2 in H. destruct H as [x [y [-> [Hx Hy]]]].
  revert cs. unfold case_of in *.
  destruct Hx as [-> | ->], Hy as [-> | ->]; intros cs Hcs; (split; [|reflexivity]); revert cs Hcs.
  all: match goal with |- forall cs, _ -> fst (best _ (?w ++ cs) _ _) = _ => kw_case w end.
Qed.

Lemma best_not : forall w cs, spells_word kw_not w -> next_stop cs ->
  fst (best skeleton_rules (w ++ cs) None 0) = Some (K_NOT, 3) /\ length w = 3.
Proof.
  intros w cs H. apply spells_word_cases3 in H. destruct H as [x [y [z [-> [Hx [Hy Hz]]]]]].
  revert cs. unfold case_of in *.
  destruct Hx as [-> | ->], Hy as [-> | ->], Hz as [-> | ->]; intros cs Hcs; (split; [|reflexivity]); revert cs Hcs.
  all: match goal with |- forall cs, _ -> fst (best _ (?w ++ cs) _ _) = _ => kw_case w end.
Qed.

Lemma is_ws_cases : forall c, is_ws c = true -> c = 32%N \/ c = 10%N \/ c = 9%N \/ c = 13%N.
Proof. intros c H. chars. tauto. Qed.

Lemma best_token : forall t c cs, spells_tok t c -> (is_word t = true -> next_stop cs) ->
  exists k, fst (best skeleton_rules (c ++ cs) None 0) = Some (k, length c) /\ tok_of_kind k c = t /\ 1 <= length c.
Proof.
  intros t c cs H Hn. inversion H; subst.
  - exists K_IDENTIFIER. split; [apply best_ident; auto|]. split; [reflexivity|].
    destruct (atom_ok_shape c H0) as [Hs _]. destruct c; [contradiction|simpl; lia].
  - destruct (best_and c cs H0 (Hn eq_refl)) as [Hb Hl]. exists K_AND. rewrite Hl. repeat split; auto.
  - destruct (best_or c cs H0 (Hn eq_refl)) as [Hb Hl]. exists K_OR. rewrite Hl. repeat split; auto.
  - destruct (best_not c cs H0 (Hn eq_refl)) as [Hb Hl]. exists K_NOT. rewrite Hl. repeat split; auto.
  - exists K_LPAREN. repeat split; auto.
  - exists K_RPAREN. repeat split; auto.
  - exists K_WS. destruct (is_ws_cases c0 H0) as [-> | [-> | [-> | ->]]]; repeat split; auto.
Qed.

(* ------------------------------------------------------------------------------------------ *)
(* a whole spelled token sequence *)
Lemma firstn_app_len : forall (A : Type) (a b : list A), firstn (length a) (a ++ b) = a.
Proof. induction a; intros; simpl; [reflexivity|f_equal; auto]. Qed.

Lemma skipn_app_len : forall (A : Type) (a b : list A), skipn (length a) (a ++ b) = b.
Proof. induction a; intros; simpl; auto. Qed.

Lemma spelled_nonword_starts : forall t c cs, spells_tok t c -> is_word t = false -> next_stop (c ++ cs).
Proof.
  intros t c cs H Hw. inversion H; subst; try discriminate; simpl; try reflexivity.
  apply ws_not_ident; auto.
Qed.

Theorem lex_fuel_spelled : forall ts cs, spells_toks ts cs -> separated ts = true ->
  forall f, length cs <= f ->
    toks_of (lex_fuel skeleton_rules f cs) = ts /\ drops_of (lex_fuel skeleton_rules f cs) = [].
Proof.
  intros ts cs H. induction H as [|t ts c cs Ht Hts IH]; intros Hsep f Hf.
  - destruct f; simpl; auto.
  - assert (Hnext : is_word t = true -> next_stop cs).
    { intros Hw. inversion Hts as [|t2 ts2 c2 cs2 Ht2 Hts2]; subst; [exact I|].
      simpl in Hsep. rewrite Hw in Hsep. simpl in Hsep.
      apply andb_true_iff in Hsep. destruct Hsep as [Hsep _]. apply negb_true_iff in Hsep.
      apply (spelled_nonword_starts t2 c2 cs2 Ht2 Hsep). }
    destruct (best_token t c cs Ht Hnext) as [k [Hb [Hk Hlen]]].
    assert (Hsep' : separated ts = true).
    { destruct ts as [|t2 ts2]; [reflexivity|]. simpl in Hsep. apply andb_true_iff in Hsep. tauto. }
    rewrite app_length in Hf.
    destruct f as [|f]; [lia|].
    remember (c ++ cs) as s eqn:E.
    destruct s as [|x rest]; [destruct c; simpl in *; [lia|discriminate]|].
    cbn [lex_fuel].
    destruct (best skeleton_rules (x :: rest) None 0) as [o v]. simpl in Hb. subst o.
    rewrite E. rewrite firstn_app_len, skipn_app_len.
    destruct (IH Hsep' f) as [IH1 IH2]; [lia|].
    cbn [toks_of drops_of flat_map app]. rewrite Hk. rewrite IH1. split; [reflexivity|exact IH2].
Qed.

Theorem lex_spelled : forall ts cs, spells_toks ts cs -> separated ts = true ->
  toks_of (lex_skeleton cs) = ts /\ drops_of (lex_skeleton cs) = [].
Proof. intros. apply lex_fuel_spelled; auto. Qed.

(* spelled skeletons are separated token sequences *)
Lemma separated_nonword_cons : forall t l, is_word t = false -> separated (t :: l) = separated l.
Proof. intros t [|b l] H; simpl; [reflexivity|]. rewrite H. reflexivity. Qed.

Lemma separated_app_nonword : forall l1 t l2, is_word t = false ->
  separated (l1 ++ t :: l2) = separated l1 && separated l2.
Proof.
  induction l1 as [|a l1 IH]; intros t l2 Ht.
  - simpl app. rewrite separated_nonword_cons; auto.
  - destruct l1 as [|b l1].
    + simpl app. cbn [separated]. rewrite Ht. rewrite andb_false_r. simpl.
      destruct l2; reflexivity.
    + specialize (IH t l2 Ht). simpl app in *. cbn [separated] in *. rewrite IH. rewrite andb_assoc. reflexivity.
Qed.

Lemma separated_blanks_app : forall a l, separated (blanks a ++ l) = separated l.
Proof. induction a; intros; simpl app; [reflexivity|]. rewrite separated_nonword_cons; auto. Qed.

Lemma separated_cons_blanks : forall t a l, separated (t :: blanks (S a) ++ l) = separated l.
Proof.
  intros. change (blanks (S a) ++ l) with (TWs :: (blanks a ++ l)).
  change (separated (t :: TWs :: blanks a ++ l)) with
    (negb (is_word t && is_word TWs) && separated (TWs :: blanks a ++ l)).
  simpl is_word. rewrite andb_false_r. simpl negb. rewrite andb_true_l.
  rewrite separated_nonword_cons by reflexivity. apply separated_blanks_app.
Qed.

Lemma spells_separated :
  (forall p w, spellsP p w -> separated w = true) /\ (forall e w, spellsE e w -> separated w = true).
Proof.
  apply prim_expr_ind; intros.
  - inversion H; subst. reflexivity.
  - inversion H0; subst. rewrite separated_nonword_cons by reflexivity.
    rewrite separated_blanks_app. destruct b.
    + simpl app. rewrite separated_app_nonword by reflexivity. rewrite (H _ H2). reflexivity.
    + simpl app. rewrite separated_app_nonword by reflexivity. rewrite (H _ H2).
      rewrite separated_blanks_app. reflexivity.
  - inversion H0; subst. auto.
  - inversion H0; subst. rewrite separated_cons_blanks. auto.
  - inversion H1; subst. change (blanks (S a) ++ TAnd :: blanks (S b) ++ we) with (TWs :: (blanks a ++ TAnd :: blanks (S b) ++ we)).
    rewrite separated_app_nonword by reflexivity.
    rewrite (H _ H4). rewrite separated_blanks_app. rewrite separated_cons_blanks. simpl. auto.
  - inversion H1; subst. change (blanks (S a) ++ TOr :: blanks (S b) ++ we) with (TWs :: (blanks a ++ TOr :: blanks (S b) ++ we)).
    rewrite separated_app_nonword by reflexivity.
    rewrite (H _ H4). rewrite separated_blanks_app. rewrite separated_cons_blanks. simpl. auto.
Qed.

Lemma spells_filter_separated : forall e ts, spells_filter e ts -> separated ts = true.
Proof.
  intros e ts [w [a [b [Hs ->]]]]. rewrite separated_blanks_app.
  destruct b; [rewrite app_nil_r; apply (proj2 spells_separated e w Hs)|].
  change (blanks (S b)) with (TWs :: blanks b). rewrite separated_app_nonword by reflexivity.
  rewrite (proj2 spells_separated e w Hs). replace (blanks b) with (blanks b ++ []) by apply app_nil_r.
  rewrite separated_blanks_app. reflexivity.
Qed.
