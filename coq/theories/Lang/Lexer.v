(* Model of the ANTLR lexer loop (antlr4-go v4.13.1 BaseLexer.NextToken / LexerATNSimulator.execATN /
   BaseLexer.Recover) and of the boolean-skeleton part of the ZitiQl token rules.  Model only.

   At each position every token rule is run on the rest of the input.  The token is the LONGEST
   accepted prefix; among rules accepting the same longest prefix the FIRST rule of the grammar
   wins.  When no rule accepts any prefix the simulator has consumed the characters on which at
   least one rule was still alive; the lexer reports them together with the character that
   killed the last rule ("token recognition error"), Recover() skips that character, and lexing
   continues behind it: the region is DROPPED from the token stream.

   A rule is given by its scanner: [rscan s = (a, v)] where [a] is the length of the longest
   prefix of [s] the rule accepts (if any) and [v] the number of characters of [s] after which
   the rule is still alive. *)
From Coq Require Import List NArith Bool Arith.
From Storage Require Import Base.Bytes Lang.Tokens.
Import ListNotations.

Record rule := mkRule { rkind : nat; rscan : str -> option nat * nat }.

Fixpoint best (rs : list rule) (s : str) (acc : option (nat * nat)) (via : nat) : option (nat * nat) * nat :=
  match rs with
  | [] => (acc, via)
  | r :: rs' =>
      let '(a, v) := rscan r s in
      let acc' := match a with
                  | Some l =>
                      if Nat.eqb l 0 then acc
                      else match acc with
                           | Some (_, l0) => if Nat.ltb l0 l then Some (rkind r, l) else acc
                           | None => Some (rkind r, l)
                           end
                  | None => acc
                  end in
      best rs' s acc' (Nat.max via v)
  end.

Fixpoint lex_fuel (rs : list rule) (f : nat) (s : str) : list seg :=
  match f with
  | O => []
  | S f' =>
      match s with
      | [] => []
      | _ :: _ =>
          match best rs s None 0 with
          | (Some (k, l), _) => Tok k (firstn l s) :: lex_fuel rs f' (skipn l s)
          | (None, v) => Drop (firstn (S v) s) :: lex_fuel rs f' (skipn (S v) s)
          end
      end
  end.

Definition lex (rs : list rule) (s : str) : list seg := lex_fuel rs (length s) s.

(* ---- scanners of the skeleton rules ---- *)
(* a single character of a class:  WS: [ \n\t\r];  LPAREN: '(';  RPAREN: ')' *)
Definition scan_char (p : byte -> bool) (s : str) : option nat * nat :=
  match s with
  | c :: _ => if p c then (Some 1, 1) else (None, 0)
  | [] => (None, 0)
  end.

(* a case-insensitive keyword  AND: A N D;  - the number of leading characters that match *)
Fixpoint kw_prefix (letters s : str) : nat :=
  match letters, s with
  | l :: ls, c :: s' => if ci_is l c then S (kw_prefix ls s') else 0
  | _, _ => 0
  end.
Definition scan_kw (letters : str) (s : str) : option nat * nat :=
  let n := kw_prefix letters s in
  (if Nat.eqb n (length letters) then Some n else None, n).

(* IDENTIFIER restricted to its first form without separators:  [A-Za-z] [A-Za-z_]*  *)
Fixpoint span (p : byte -> bool) (s : str) : nat :=
  match s with
  | c :: s' => if p c then S (span p s') else 0
  | [] => 0
  end.
Definition scan_ident (s : str) : option nat * nat :=
  match s with
  | c :: s' => if is_letter c then let n := S (span is_ident_char s') in (Some n, n) else (None, 0)
  | [] => (None, 0)
  end.

(* the skeleton rules in grammar order (WS LPAREN RPAREN ... AND OR ... NOT ... IDENTIFIER) *)
Definition skeleton_rules : list rule :=
  [ mkRule K_WS (scan_char is_ws);
    mkRule K_LPAREN (scan_char (N.eqb 40));
    mkRule K_RPAREN (scan_char (N.eqb 41));
    mkRule K_AND (scan_kw kw_and);
    mkRule K_OR (scan_kw kw_or);
    mkRule K_NOT (scan_kw kw_not);
    mkRule K_IDENTIFIER scan_ident ].

Definition lex_skeleton (s : str) : list seg := lex skeleton_rules s.
