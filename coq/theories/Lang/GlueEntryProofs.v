(* Proofs about the parsing entry points (Lang/GlueEntry.v) for Properties/C10.v. *)
From Coq Require Import List NArith Bool Arith Lia.
From Storage Require Import Base.Bytes Lang.Tokens Lang.Lexer Lang.Regex Lang.LexerFull Lang.LexerProofs Lang.Glue
  Lang.C10Proofs Lang.GlueEntry.
Import ListNotations.

Lemma heard_last : forall me ls, heard me (ls ++ [Collector me]) = true.
Proof.
  intros me ls. unfold heard. rewrite existsb_app. simpl. rewrite Nat.eqb_refl.
  rewrite orb_true_r. reflexivity.
Qed.

Lemma heard_single : forall me, heard me [Collector me] = true.
Proof. intros me. exact (heard_last me []). Qed.

Section WithParser.
  Variable Q : Type.
  Variable parser : list (nat * str) -> nat * option Q.

  (* whatever the entry point, whatever the pooled instances carry: the caller gets what the glue model of
     Lang/Glue.v says - a function of the text *)
  Lemma run_entry_is_glue : forall e me inst s,
    run_entry Q parser LexerAlways e me inst s = parse_glue Q parser fixed_glue s.
  Proof.
    intros e me inst s. unfold run_entry, parse_call, parse_glue. simpl.
    destruct (parser (tokens_of (lex_full s))) as [pe q]. simpl.
    rewrite Nat.eqb_refl. simpl.
    replace (heard me ((if entry_debug e then parser_ls inst ++ [Diagnostic] else []) ++ [Collector me])) with true
      by (symmetry; apply heard_last).
    reflexivity.
  Qed.

  Lemma entry_points_agree_lemma : forall e1 e2 me1 me2 inst1 inst2 s,
    run_entry Q parser LexerAlways e1 me1 inst1 s = run_entry Q parser LexerAlways e2 me2 inst2 s.
  Proof. intros. rewrite !run_entry_is_glue. reflexivity. Qed.

  Lemma entry_history_irrelevant_lemma : forall e1 e2 h1 h2 s,
    run_entry Q parser LexerAlways e1 (length h1) (pool_after Q parser LexerAlways 0 fresh_instances h1) s =
    run_entry Q parser LexerAlways e2 (length h2) (pool_after Q parser LexerAlways 0 fresh_instances h2) s.
  Proof. intros. apply entry_points_agree_lemma. Qed.

  Lemma every_entry_rejects_lexer_errors_lemma : forall e me inst s,
    drops_of (lex_full s) <> [] -> run_entry Q parser LexerAlways e me inst s = Rejected.
  Proof. intros. rewrite run_entry_is_glue. apply lexer_error_rejects_lemma. assumption. Qed.
End WithParser.
