(* Model of the evaluation of a string comparison  <field> <op> <literal>  against a STORED value,
   from the literal's token text to the boolean - the path a filter takes through
       ast/bolt_listener.go   VisitTerminal   STRING  -> StringConstNode{ParseZqlString(text)}
                                              IN / CONTAINS / ICONTAINS -> operator or its negation,
                                              decided by  strings.Contains(strings.ToLower(TOKEN text), "not")
       ast/node_expr.go       BinaryStringExprNode.EvalBool
       ast/node_arrays.go     InStringArrayExprNode.EvalBool   (wrapped in NotExprNode for `not in`)
       ast/node_set.go        AnyOfSetExprNode / AllOfSetExprNode (with the seek short-cut for  anyOf(x) = c)
       boltz/query_cursor.go  rowCursorImpl.EvalString = FieldToString(symbol.Eval(tx, row))
       boltz/typed_bucket.go  getTyped / GetTypeAndValue / FieldToString / BytesToString
   Model only: no proofs in this file, so that it extracts and runs when a proof elsewhere breaks.

   What a stored string looks like: TypedBucket.setTyped writes  type byte :: value ; the empty string is the
   type byte alone.  getTyped on an absent key yields (TypeNil, nil); on the type byte alone it yields
   (TypeString, <empty>) and FieldToString / BytesToString turn that into a pointer to "" - NOT nil. *)
From Coq Require Import List NArith Bool.
From Storage Require Import Base.Bytes Lang.Tokens Lang.Unescape Lang.WordOps.
Import ListNotations.
Open Scope N_scope.

(* ---- the stored side ---- *)
Inductive ftype := TNil | TString.            (* boltz.TypeNil, boltz.TypeString *)
Definition stored := option str.              (* None: nothing stored under the key / no such row *)

Definition get_typed (c : stored) : ftype * str :=
  match c with Some v => (TString, v) | None => (TNil, []) end.

Definition field_to_string (t : ftype) (v : str) : option str :=
  match t with TString => Some v | TNil => None end.

(* rowCursorImpl.EvalString *)
Definition row_eval_string (c : stored) : option str :=
  let (t, v) := get_typed c in field_to_string t v.

(* ---- BinaryStringExprNode.EvalBool ---- *)
Inductive sop := SEq | SNeq | SLt | SLe | SGt | SGe | SContains | SNotContains.

Definition is_none {A} (o : option A) : bool := match o with None => true | Some _ => false end.

Definition binary_string_eval (op : sop) (l r : option str) : bool :=
  match l, r with
  | Some a, Some b =>
      match op with
      | SEq => str_eqb a b
      | SNeq => negb (str_eqb a b)
      | SLt => str_ltb a b
      | SLe => str_leb a b
      | SGt => str_ltb b a
      | SGe => str_leb b a
      | SContains => contains_sub b a
      | SNotContains => negb (contains_sub b a)
      end
  | _, _ =>
      match op with
      | SNeq => negb (is_none l && is_none r)     (* leftResult != rightResult on the pointers *)
      | SNotContains => true
      | _ => false
      end
  end.

(* InStringArrayExprNode.EvalBool (the array holds constants, never nil) *)
Definition in_string_array_eval (l : option str) (rs : list str) : bool :=
  match l with
  | Some a => existsb (fun b => str_eqb a b) rs
  | None => false
  end.

(* ---- the three shapes of a comparison with literals, from token texts ---- *)
Definition cmp_query (op : sop) (lit : str) (c : stored) : bool :=
  binary_string_eval op (row_eval_string c) (Some (parse_zql_string lit)).

(* `contains` / `not contains`: the operator token [tok] carries the optional not *)
Definition contains_query (tok lit : str) (c : stored) : bool :=
  cmp_query (if op_negated tok then SNotContains else SContains) lit c.

(* `in` / `not in` *)
Definition in_query (tok : str) (lits : list str) (c : stored) : bool :=
  let r := in_string_array_eval (row_eval_string c) (map parse_zql_string lits) in
  if op_negated tok then negb r else r.

(* `icontains`: handleCaseInsensitive upper-cases both sides (strings.ToUpper) and uses contains.
   The model upper-cases ASCII letters only; it is used on ASCII strings only (driver abstains otherwise). *)
Definition to_upper (c : byte) : byte := if is_lower c then c - 32 else c.
Definition icontains_query (tok lit : str) (c : stored) : bool :=
  binary_string_eval (if op_negated tok then SNotContains else SContains)
    (option_map (map to_upper) (row_eval_string c)) (Some (map to_upper (parse_zql_string lit))).

(* ---- set functions: the predicate is evaluated on every element (elements are stored values) ---- *)
Definition any_of (p : stored -> bool) (elems : list str) : bool := existsb (fun e => p (Some e)) elems.
Definition all_of (p : stored -> bool) (elems : list str) : bool := forallb (fun e => p (Some e)) elems.

(* anyOf(x) = c  is answered from the seek position of the (ascending, duplicate-free) element cursor:
   cursor.SeekToString(c); valid -> evaluate the comparison on the element found *)
Fixpoint seek (target : str) (keys : list str) : option str :=
  match keys with
  | [] => None
  | k :: r => if str_ltb k target then seek target r else Some k
  end.

Definition any_of_eq_seek (lit : str) (keys : list str) : bool :=
  match seek (parse_zql_string lit) keys with
  | Some k => cmp_query SEq lit (Some k)
  | None => false
  end.

(* ascending and duplicate-free, as a bbolt bucket enumerates its keys *)
Fixpoint ascending (keys : list str) : bool :=
  match keys with
  | [] => true
  | k :: r => match r with [] => true | k' :: _ => str_ltb k k' end && ascending r
  end.

(* ---- what the property demands: the comparison as if the operand were the string s itself ---- *)
Definition spec_cmp (op : sop) (x s : str) : bool :=
  match op with
  | SEq => str_eqb x s
  | SNeq => negb (str_eqb x s)
  | SLt => str_ltb x s
  | SLe => str_leb x s
  | SGt => str_ltb s x
  | SGe => str_leb s x
  | SContains => contains_sub s x
  | SNotContains => negb (contains_sub s x)
  end.
