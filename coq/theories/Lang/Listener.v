(* Model of what ast.ToBoltListener does with a boolExpr parse tree (ast/bolt_listener.go), of the
   typing of the connectives (ast/node_convert.go BooleanLogicExprNode / UntypedNotExprNode
   .TypeTransformBool - structure preserving) and of their evaluation (ast/node_expr.go
   AndExprNode / OrExprNode / NotExprNode .EvalBool).  Model only, no proofs.

   antlr.ParseTreeWalkerDefault.Walk visits children left to right and calls Exit<Rule> after
   them.  VisitTerminal pushes an UntypedSymbolNode for an IDENTIFIER; ExitAndExpr / ExitOrExpr pop
   exactly TWO operands (right, then left) whatever the number of children of the context;
   ExitNotExpr pops one; Group has no listener action.  ExitQueryStmt takes the TOP of the stack
   as the predicate and ignores whatever lies below it. *)
From Coq Require Import List NArith Bool Arith.
From Storage Require Import Base.Bytes Lang.Tokens Lang.BoolGrammar.
Import ListNotations.

Inductive bexp :=
| BSym (name : str)
| BNot (e : bexp)
| BAnd (l r : bexp)
| BOr (l r : bexp).

(* the operand stack, top first; None = the listener's error latch is set (pop from an empty stack) *)
Definition stack := option (list bexp).

Definition push (b : bexp) (s : stack) : stack :=
  match s with Some l => Some (b :: l) | None => None end.

Definition exit_binary (mk : bexp -> bexp -> bexp) (s : stack) : stack :=
  match s with
  | Some (r :: l :: rest) => Some (mk l r :: rest)
  | _ => None
  end.

Definition exit_not (s : stack) : stack :=
  match s with
  | Some (e :: rest) => Some (BNot e :: rest)
  | _ => None
  end.

Fixpoint walk (t : ptree) (s : stack) : stack :=
  match t with
  | PSym n => push (BSym n) s
  | PGroup t' => walk t' s
  | PNot t' => exit_not (walk t' s)
  | PAnd l rs => exit_binary BAnd (fold_left (fun s' r => walk r s') rs (walk l s))
  | POr l rs => exit_binary BOr (fold_left (fun s' r => walk r s') rs (walk l s))
  end.

(* ExitQueryStmt + getQuery: the predicate is the top of the stack *)
Definition listener (t : ptree) : option bexp :=
  match walk t (Some []) with
  | Some (b :: _) => Some b
  | _ => None
  end.

Fixpoint eval (b : bexp) (rho : str -> bool) : bool :=
  match b with
  | BSym n => rho n
  | BNot e => negb (eval e rho)
  | BAnd l r => if eval l rho then eval r rho else false
  | BOr l r => if eval l rho then true else eval r rho
  end.

(* tokens -> typed predicate, as ast.Parse does for a skeleton query over boolean symbols *)
Definition compile (P : prec) (ts : list tok) : option bexp :=
  match parse_start P ts with
  | Some t => listener t
  | None => None
  end.
