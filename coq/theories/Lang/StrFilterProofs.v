(* Proofs about Lang/StrFilter.v: in a filter with any number of comparisons every literal occurrence denotes
   its own string - the constant nodes are allocated per occurrence and never written to afterwards, so the
   filter is the boolean combination of its comparisons, each evaluated as if it stood alone. *)
From Coq Require Import List NArith Bool Arith Lia.
From Storage Require Import Base.Bytes Base.BytesFacts Lang.Tokens Lang.Unescape Lang.UnescapeProofs
  Lang.BoolSurface Lang.WordOps Lang.WordOpsProofs Lang.StrCompare Lang.StrCompareProofs Lang.StrFilter.
Import ListNotations.
Open Scope N_scope.

(* ---- filters of the same shape whose comparisons are related ---- *)
Inductive filter_rel {A B} (R : A -> B -> Prop) : filter A -> filter B -> Prop :=
| FrConst : forall b, filter_rel R (FConst b) (FConst b)
| FrAtom : forall l a b, R a b -> filter_rel R (FAtom l a) (FAtom l b)
| FrAnd : forall f1 f2 g1 g2, filter_rel R f1 g1 -> filter_rel R f2 g2 -> filter_rel R (FAnd f1 f2) (FAnd g1 g2)
| FrOr : forall f1 f2 g1 g2, filter_rel R f1 g1 -> filter_rel R f2 g2 -> filter_rel R (FOr f1 f2) (FOr g1 g2)
| FrNot : forall f1 g1, filter_rel R f1 g1 -> filter_rel R (FNot f1) (FNot g1)
| FrSub : forall fn f1 g1, filter_rel R f1 g1 -> filter_rel R (FSub fn f1) (FSub fn g1).

Lemma filter_rel_mono {A B} (R R' : A -> B -> Prop) :
  (forall a b, R a b -> R' a b) -> forall f g, filter_rel R f g -> filter_rel R' f g.
Proof. intros H f g Hr. induction Hr; constructor; auto. Qed.

Lemma filter_rel_refl {A} (f : filter A) : filter_rel eq f f.
Proof. induction f; constructor; auto. Qed.

Lemma filter_rel_fmap {A B} (R : A -> B -> Prop) (g : A -> B) :
  (forall a, R a (g a)) -> forall f, filter_rel R f (fmap g f).
Proof. intros H f. induction f; cbn [fmap]; constructor; auto. Qed.

Lemma existsb_ext_all {A} (p q : A -> bool) l : (forall x, p x = q x) -> existsb p l = existsb q l.
Proof. intros H. induction l as [|x l IH]; cbn [existsb]; [reflexivity|]. rewrite H, IH. reflexivity. Qed.

Lemma forallb_ext_all {A} (p q : A -> bool) l : (forall x, p x = q x) -> forallb p l = forallb q l.
Proof. intros H. induction l as [|x l IH]; cbn [forallb]; [reflexivity|]. rewrite H, IH. reflexivity. Qed.

(* related comparisons that agree on every stored value (and on their seek target) give equal filters *)
Lemma eval_filter_rel {A B} (R : A -> B -> Prop) pa ta pb tb :
  (forall a b, R a b -> (forall x, pa a x = pb b x) /\ ta a = tb b) ->
  forall f g, filter_rel R f g -> forall r, eval_filter pa ta f r = eval_filter pb tb g r.
Proof.
  intros H f g Hr. induction Hr as [b | l a b Hab | f1 f2 g1 g2 _ IH1 _ IH2 | f1 f2 g1 g2 _ IH1 _ IH2 | f1 g1 _ IH1
                                   | fn f1 g1 _ IH1]; intros r; cbn [eval_filter].
  - reflexivity.
  - destruct (H a b Hab) as [Hp Ht]. unfold lhs_eval. rewrite <- Ht.
    destruct l.
    + apply Hp.
    + destruct (ta a); [destruct (seek s (r_tags r)); [apply Hp | reflexivity]|].
      unfold any_of. apply existsb_ext_all. intros e. apply Hp.
    + unfold all_of. apply forallb_ext_all. intros e. apply Hp.
    + unfold any_of. apply existsb_ext_all. intros e. apply Hp.
  - rewrite IH1, IH2. reflexivity.
  - rewrite IH1, IH2. reflexivity.
  - rewrite IH1. reflexivity.
  - rewrite (existsb_ext_all _ (fun n => eval_filter pb tb g1 (peer_row n)) (r_peers r)); [reflexivity|].
    intros n. apply IH1.
Qed.

(* a state-threading pass whose step extends the state and establishes a relation that later extensions keep *)
Lemma fmap_st_rel {A B C S} (g : B -> S -> C * S) (ext : S -> S -> Prop)
      (R1 : S -> A -> B -> Prop) (R2 : S -> A -> C -> Prop) :
  (forall s, ext s s) ->
  (forall s1 s2 s3, ext s1 s2 -> ext s2 s3 -> ext s1 s3) ->
  (forall s s' a b, ext s s' -> R1 s a b -> R1 s' a b) ->
  (forall s s' a c, ext s s' -> R2 s a c -> R2 s' a c) ->
  (forall s a b c s', R1 s a b -> g b s = (c, s') -> ext s s' /\ R2 s' a c) ->
  forall fa fb, forall s fc s', filter_rel (R1 s) fa fb -> fmap_st g fb s = (fc, s') ->
  ext s s' /\ filter_rel (R2 s') fa fc.
Proof.
  intros Hrefl Htrans Hm1 Hm2 Hstep fa.
  induction fa as [b | l a | f1 IH1 f2 IH2 | f1 IH1 f2 IH2 | f1 IH1 | fn f1 IH1]; intros fb s fc s' Hr He;
    inversion Hr; subst; cbn [fmap_st] in He.
  - inversion He; subst. split; [apply Hrefl | constructor].
  - match goal with H : R1 s a ?b |- _ => destruct (g b s) as [c s1] eqn:Eg; destruct (Hstep s a b c s1 H Eg) as [Hx Hc] end.
    inversion He; subst. split; [exact Hx | constructor; exact Hc].
  - match goal with H1 : filter_rel (R1 s) f1 ?g1, H2 : filter_rel (R1 s) f2 ?g2 |- _ =>
      destruct (fmap_st g g1 s) as [t1 s1] eqn:E1; destruct (fmap_st g g2 s1) as [t2 s2] eqn:E2;
      destruct (IH1 g1 s t1 s1 H1 E1) as [X1 Q1];
      destruct (IH2 g2 s1 t2 s2 (filter_rel_mono _ _ (fun a b => Hm1 s s1 a b X1) _ _ H2) E2) as [X2 Q2] end.
    inversion He; subst. split; [eapply Htrans; eauto|].
    constructor; [|exact Q2]. eapply filter_rel_mono; [|exact Q1]. intros a c. apply Hm2. exact X2.
  - match goal with H1 : filter_rel (R1 s) f1 ?g1, H2 : filter_rel (R1 s) f2 ?g2 |- _ =>
      destruct (fmap_st g g1 s) as [t1 s1] eqn:E1; destruct (fmap_st g g2 s1) as [t2 s2] eqn:E2;
      destruct (IH1 g1 s t1 s1 H1 E1) as [X1 Q1];
      destruct (IH2 g2 s1 t2 s2 (filter_rel_mono _ _ (fun a b => Hm1 s s1 a b X1) _ _ H2) E2) as [X2 Q2] end.
    inversion He; subst. split; [eapply Htrans; eauto|].
    constructor; [|exact Q2]. eapply filter_rel_mono; [|exact Q1]. intros a c. apply Hm2. exact X2.
  - match goal with H1 : filter_rel (R1 s) f1 ?g1 |- _ =>
      destruct (fmap_st g g1 s) as [t1 s1] eqn:E1; destruct (IH1 g1 s t1 s1 H1 E1) as [X1 Q1] end.
    inversion He; subst. split; [exact X1 | constructor; exact Q1].
  - match goal with H1 : filter_rel (R1 s) f1 ?g1 |- _ =>
      destruct (fmap_st g g1 s) as [t1 s1] eqn:E1; destruct (IH1 g1 s t1 s1 H1 E1) as [X1 Q1] end.
    inversion He; subst. split; [exact X1 | constructor; exact Q1].
Qed.

(* ---- heaps only grow ---- *)
Definition heap_ext (h h' : heap) : Prop := exists e, h' = h ++ e.

Lemma heap_ext_refl h : heap_ext h h.
Proof. exists []. symmetry. apply app_nil_r. Qed.

Lemma heap_ext_trans h1 h2 h3 : heap_ext h1 h2 -> heap_ext h2 h3 -> heap_ext h1 h3.
Proof. intros [e1 ->] [e2 ->]. exists (e1 ++ e2). symmetry. apply app_assoc. Qed.

Lemma deref_ext h e c : (c < length h)%nat -> deref (h ++ e) c = deref h c.
Proof. intros H. unfold deref. apply app_nth1. exact H. Qed.

Lemma deref_alloc h v e : deref ((h ++ [v]) ++ e) (length h) = v.
Proof.
  rewrite deref_ext; [|rewrite app_length; cbn; lia].
  unfold deref. apply nth_middle.
Qed.

(* the node of a literal occurrence: allocated, and holding the value of the literal *)
Definition holds (h : heap) (c : cref) (v : str) : Prop := (c < length h)%nat /\ deref h c = v.

Lemma holds_ext h h' c v : heap_ext h h' -> holds h c v -> holds h' c v.
Proof.
  intros [e ->] [Hc Hv]. split; [rewrite app_length; lia|]. rewrite deref_ext; assumption.
Qed.

Lemma alloc_holds v h c h' : alloc v h = (c, h') -> heap_ext h h' /\ holds h' c v.
Proof.
  unfold alloc. intros E. inversion E; subst. split; [exists [v]; reflexivity|].
  split; [rewrite app_length; cbn; lia|].
  rewrite <- (app_nil_r (h ++ [v])). apply deref_alloc.
Qed.

(* the nodes of a list of literals: all allocated, holding the values in order *)
Definition hold_all (h : heap) (cs : list cref) (vs : list str) : Prop :=
  Forall (fun c => (c < length h)%nat) cs /\ map (deref h) cs = vs.

Lemma hold_all_ext h h' cs vs : heap_ext h h' -> hold_all h cs vs -> hold_all h' cs vs.
Proof.
  intros [e ->] [Hc Hv]. split.
  - eapply Forall_impl; [|exact Hc]. cbn. intros c H. rewrite app_length. lia.
  - rewrite <- Hv. apply map_ext_in. intros c Hin. apply deref_ext.
    rewrite Forall_forall in Hc. apply Hc, Hin.
Qed.

Lemma alloc_all_holds vs : forall h cs h', alloc_all vs h = (cs, h') -> heap_ext h h' /\ hold_all h' cs vs.
Proof.
  induction vs as [|v vs IH]; intros h cs h' E; cbn [alloc_all] in E.
  - inversion E; subst. split; [apply heap_ext_refl | split; [constructor | reflexivity]].
  - destruct (alloc v h) as [c h1] eqn:Ea. destruct (alloc_all vs h1) as [cs1 h2] eqn:Eb.
    inversion E; subst. destruct (alloc_holds _ _ _ _ Ea) as [X1 Hc]. destruct (IH _ _ _ Eb) as [X2 [Hf Hm]].
    split; [eapply heap_ext_trans; eauto|].
    destruct (holds_ext _ _ _ _ X2 Hc) as [Hlt Hv].
    split; [constructor; assumption|]. cbn [map]. rewrite Hm, Hv. reflexivity.
Qed.

Lemma hold_all_rev h cs vs : hold_all h cs vs -> hold_all h (rev cs) (rev vs).
Proof.
  intros [Hc Hv]. split; [apply Forall_rev; exact Hc|]. rewrite map_rev, Hv. reflexivity.
Qed.

(* membership does not depend on the order of the list *)
Lemma existsb_rev_eq {A} (p : A -> bool) l : existsb p (rev l) = existsb p l.
Proof.
  induction l as [|x l IH]; [reflexivity|]. cbn [rev existsb]. rewrite existsb_app, IH. cbn. rewrite orb_false_r. apply orb_comm.
Qed.

Lemma in_string_array_eval_rev l vs : in_string_array_eval l (rev vs) = in_string_array_eval l vs.
Proof. destruct l; [apply existsb_rev_eq | reflexivity]. Qed.

(* ---- the listener pass ---- *)
Definition listened (h : heap) (a : atom) (u : uatom) : Prop :=
  match a, u with
  | ACmp op lit, UCmp op' c => op = op' /\ holds h c (parse_zql_string lit)
  | AContains tok lit, UContains tok' c => tok = tok' /\ holds h c (parse_zql_string lit)
  | AIContains tok lit, UIContains tok' c => tok = tok' /\ holds h c (parse_zql_string lit)
  | AIn tok lits, UIn tok' cs => tok = tok' /\ hold_all h cs (rev (map parse_zql_string lits))
  | _, _ => False
  end.

Lemma listened_ext h h' a u : heap_ext h h' -> listened h a u -> listened h' a u.
Proof.
  intros X. destruct a, u; cbn; try tauto; intros [E H]; (split; [exact E|]);
    solve [eapply holds_ext; eauto | eapply hold_all_ext; eauto].
Qed.

Lemma listen_atom_step h a b u h' : a = b -> listen_atom b h = (u, h') -> heap_ext h h' /\ listened h' a u.
Proof.
  intros <- E. destruct a as [op lit | tok lit | tok lit | tok lits]; cbn [listen_atom] in E.
  - destruct (alloc (parse_zql_string lit) h) as [c h1] eqn:Ea. inversion E; subst.
    destruct (alloc_holds _ _ _ _ Ea). cbn. auto.
  - destruct (alloc (parse_zql_string lit) h) as [c h1] eqn:Ea. inversion E; subst.
    destruct (alloc_holds _ _ _ _ Ea). cbn. auto.
  - destruct (alloc (parse_zql_string lit) h) as [c h1] eqn:Ea. inversion E; subst.
    destruct (alloc_holds _ _ _ _ Ea). cbn. auto.
  - destruct (alloc_all (map parse_zql_string lits) h) as [cs h1] eqn:Ea. inversion E; subst.
    destruct (alloc_all_holds _ _ _ _ Ea) as [X Hm]. cbn. split; [exact X|]. split; [reflexivity|].
    apply hold_all_rev. exact Hm.
Qed.

(* ---- the typing pass: the typed comparison behaves, under every later heap, as the comparison alone ---- *)
Definition typed (h : heap) (a : atom) (t : tatom) : Prop :=
  forall e, (forall x, tatom_pred (h ++ e) t x = atom_pred a x) /\ tatom_target (h ++ e) t = atom_target a.

Lemma typed_ext h h' a t : heap_ext h h' -> typed h a t -> typed h' a t.
Proof. intros [e ->] H e'. rewrite <- app_assoc. apply H. Qed.

Lemma type_atom_step h a u t h' : listened h a u -> type_atom u h = (t, h') -> heap_ext h h' /\ typed h' a t.
Proof.
  intros Hl E. destruct a as [op lit | tok lit | tok lit | tok lits], u as [op' c | tok' c | tok' c | tok' cs];
    cbn in Hl; try contradiction; cbn [type_atom] in E.
  - destruct Hl as [<- [Hc Hv]]. inversion E; subst. split; [apply heap_ext_refl|]. intros e.
    cbn [tatom_pred tatom_target atom_pred atom_target]. rewrite deref_ext by exact Hc. rewrite Hv.
    split; [intros x; reflexivity | destruct op; reflexivity].
  - destruct Hl as [<- [Hc Hv]]. inversion E; subst. split; [apply heap_ext_refl|]. intros e.
    cbn [tatom_pred tatom_target atom_pred atom_target]. rewrite deref_ext by exact Hc. rewrite Hv.
    split; [intros x; reflexivity | destruct (op_negated tok); reflexivity].
  - destruct Hl as [<- [Hc Hv]].
    destruct (alloc (map to_upper (deref h c)) h) as [c1 h1] eqn:Ea. inversion E; subst.
    destruct (alloc_holds _ _ _ _ Ea) as [X [Hc1 Hv1]]. split; [exact X|]. intros e.
    cbn [tatom_pred tatom_target atom_pred atom_target]. rewrite deref_ext by exact Hc1. rewrite Hv1, Hv.
    split; [intros x; reflexivity | destruct (op_negated tok); reflexivity].
  - destruct Hl as [<- Hh]. inversion E; subst. split; [apply heap_ext_refl|]. intros e.
    destruct (hold_all_ext _ (h' ++ e) _ _ (ex_intro _ e eq_refl) Hh) as [_ Hv].
    cbn [tatom_pred tatom_target atom_pred atom_target]. rewrite Hv.
    split; [intros x; unfold in_query; rewrite in_string_array_eval_rev; reflexivity | reflexivity].
Qed.

(* ---- compositionality: the filter is the boolean combination of its comparisons, each as if alone ---- *)
Lemma filter_query_compositional_lemma (f : filter atom) (r : row) :
  filter_query f r = eval_filter atom_pred atom_target f r.
Proof.
  unfold filter_query.
  destruct (fmap_st listen_atom f []) as [u h1] eqn:E1.
  destruct (fmap_st type_atom u h1) as [t h2] eqn:E2.
  destruct (fmap_st_rel listen_atom heap_ext (fun _ a b => a = b) listened heap_ext_refl heap_ext_trans
              (fun _ _ _ _ _ H => H) listened_ext (fun s a b c s' H => listen_atom_step s a b c s' H)
              f f [] u h1 (filter_rel_refl f) E1) as [_ Q1].
  destruct (fmap_st_rel type_atom heap_ext listened typed heap_ext_refl heap_ext_trans
              listened_ext typed_ext (fun s a b c s' H => type_atom_step s a b c s' H)
              f u h1 t h2 Q1 E2) as [_ Q2].
  symmetry. apply (eval_filter_rel (typed h2)); [|exact Q2].
  intros a c H. specialize (H []). rewrite app_nil_r in H. destruct H as [Hp Ht]. split; [intros x; symmetry; apply Hp | symmetry; exact Ht].
Qed.

(* ---- every literal occurrence denotes its own string ---- *)
(* the token-level comparison [a] is a spelling of the comparison [v] with strings: the operator token spells
   the operator (with or without not), each literal token has the corresponding string as its value *)
Inductive spells : vatom -> atom -> Prop :=
| SpCmp : forall op s lit, parse_zql_string lit = s -> spells (VCmp op s) (ACmp op lit)
| SpContains : forall neg tok s lit, spells_wordop wo_contains neg tok -> parse_zql_string lit = s ->
    spells (VContains neg s) (AContains tok lit)
| SpIContains : forall neg tok s lit, spells_wordop wo_icontains neg tok -> parse_zql_string lit = s ->
    spells (VIContains neg s) (AIContains tok lit)
| SpIn : forall neg tok vals lits, spells_wordop wo_in neg tok -> map parse_zql_string lits = vals ->
    spells (VIn neg vals) (AIn tok lits).

Lemma spells_sound v a : spells v a -> (forall x, vatom_pred v x = atom_pred a x) /\ no_target v = None.
Proof.
  intros H. split; [|reflexivity]. intros x.
  destruct H as [op s lit Hl | neg tok s lit Ht Hl | neg tok s lit Ht Hl | neg tok vals lits Ht Hl]; cbn [atom_pred].
  - destruct x as [x|]; cbn [vatom_pred].
    + symmetry. apply cmp_query_denotes. exact Hl.
    + rewrite cmp_absent_lemma. destruct op; reflexivity.
  - destruct (wordop_spelling_lemma wo_contains neg tok wo_contains_in Ht) as [_ [_ [Hneg _]]].
    unfold contains_query. rewrite Hneg. destruct x as [x|]; cbn [vatom_pred].
    + rewrite (cmp_query_denotes _ lit s x Hl). destruct neg; cbn; destruct (contains_sub s x); reflexivity.
    + rewrite cmp_absent_lemma. destruct neg; reflexivity.
  - destruct (wordop_spelling_lemma wo_icontains neg tok wo_icontains_in Ht) as [_ [_ [Hneg _]]].
    unfold icontains_query. rewrite Hneg, Hl. destruct x as [x|]; cbn [vatom_pred].
    + rewrite row_eval_string_stored. cbn [option_map binary_string_eval].
      destruct neg, (contains_sub (map to_upper s) (map to_upper x)); reflexivity.
    + rewrite row_eval_string_absent. destruct neg; reflexivity.
  - destruct (wordop_spelling_lemma wo_in neg tok wo_in_in Ht) as [_ [_ [Hneg _]]].
    unfold in_query. rewrite Hneg, Hl. destruct x as [x|]; cbn [vatom_pred].
    + rewrite row_eval_string_stored. cbn [in_string_array_eval].
      change (fun b : str => str_eqb x b) with (str_eqb x). destruct neg, (existsb (str_eqb x) vals); reflexivity.
    + rewrite row_eval_string_absent. destruct neg; reflexivity.
Qed.

(* the seek short-cut of  anyOf(set) = const  over an ascending cursor answers as the element-wise evaluation *)
Definition vatom_target (v : vatom) : option str := match v with VCmp SEq s => Some s | _ => None end.

Lemma spells_target v a : spells v a -> vatom_target v = atom_target a.
Proof.
  intros H. destruct H as [op s lit Hl | | |]; try reflexivity. cbn. destruct op; try reflexivity. rewrite Hl. reflexivity.
Qed.

Lemma seek_elim (vf : filter vatom) : forall r, ascending (r_tags r) = true ->
  eval_filter vatom_pred vatom_target vf r = eval_filter vatom_pred no_target vf r.
Proof.
  induction vf as [b | l v | f1 IH1 f2 IH2 | f1 IH1 f2 IH2 | f1 IH1 | fn f1 IH1]; intros r Hasc; cbn [eval_filter].
  - reflexivity.
  - unfold lhs_eval. destruct l; try reflexivity. unfold no_target.
    destruct (vatom_target v) as [s|] eqn:Et; [|reflexivity].
    assert (Hv : v = VCmp SEq s).
    { destruct v as [op s' | | |]; try discriminate. destruct op; try discriminate. inversion Et. reflexivity. }
    subst v. unfold any_of. cbn [vatom_pred spec_cmp].
    rewrite <- (seek_eq_lemma s (r_tags r) Hasc). destruct (seek s (r_tags r)); reflexivity.
  - rewrite IH1, IH2 by exact Hasc. reflexivity.
  - rewrite IH1, IH2 by exact Hasc. reflexivity.
  - rewrite IH1 by exact Hasc. reflexivity.
  - rewrite (existsb_ext_all _ (fun n => eval_filter vatom_pred no_target f1 (peer_row n)) (r_peers r)); [reflexivity|].
    intros n. apply IH1. reflexivity.
Qed.

Lemma filter_literals_independent_lemma (vf : filter vatom) (f : filter atom) (r : row) :
  filter_rel spells vf f -> ascending (r_tags r) = true ->
  filter_query f r = spec_filter vf r.
Proof.
  intros Hs Hasc. rewrite filter_query_compositional_lemma. unfold spec_filter. rewrite <- (seek_elim vf r Hasc).
  symmetry. apply (eval_filter_rel spells); [|exact Hs].
  intros v a H. split; [apply (spells_sound v a H) | apply (spells_target v a H)].
Qed.

(* writing each string as its literal gives such a spelling *)
Lemma spells_word_refl w : spells_word w w.
Proof. induction w; constructor; [left; reflexivity | assumption]. Qed.

Lemma word_tok_spells o neg : spells_wordop o neg (word_tok o neg).
Proof.
  destruct neg; cbn [word_tok].
  - apply SwoNeg; [apply spells_word_refl | constructor; reflexivity | apply spells_word_refl].
  - apply SwoPlain. apply spells_word_refl.
Qed.

Lemma write_atom_spells (lit : str -> str) :
  (forall s, parse_zql_string (lit s) = s) -> forall v, spells v (write_atom lit v).
Proof.
  intros Hl v. destruct v as [op s | neg s | neg s | neg vals]; cbn [write_atom].
  - constructor. apply Hl.
  - constructor; [apply word_tok_spells | apply Hl].
  - constructor; [apply word_tok_spells | apply Hl].
  - constructor; [apply word_tok_spells|].
    induction vals as [|v vals IH]; cbn [map]; [reflexivity|]. rewrite Hl, IH. reflexivity.
Qed.

Lemma written_filter_exact_lemma (vf : filter vatom) (r : row) :
  ascending (r_tags r) = true ->
  filter_query (fmap (write_atom literal_full) vf) r = spec_filter vf r /\
  filter_query (fmap (write_atom literal_min) vf) r = spec_filter vf r.
Proof.
  intros Hasc. split; apply filter_literals_independent_lemma; try exact Hasc; apply filter_rel_fmap; apply write_atom_spells.
  - apply parse_literal_full.
  - apply parse_literal_min.
Qed.
