(* Proofs about the parser model (BoolGrammar.v), the listener model (Listener.v) and the surface
   semantics (BoolSurface.v): for the repaired precedences the pipeline
   tokens -> parse tree -> listener stack machine -> typed tree -> EvalBool
   computes the or-of-ands meaning of every skeleton, in every spelling. *)
From Coq Require Import List NArith Bool Arith Lia.
From Storage Require Import Base.Bytes Lang.Tokens Lang.BoolGrammar Lang.Listener Lang.BoolSurface.
Import ListNotations.


(* ------------------------------------------------------------------------------------------ *)
(* the parse tree the repaired parser builds for a chain: the tree of its first and-run, and the
   tree of what follows the first top-level `or` *)
Definition join (x : ptree * option ptree) : ptree :=
  match x with (t, None) => t | (t, Some u) => POr t [u] end.

Definition joinl (left : ptree) (k : option ptree) : ptree :=
  match k with None => left | Some u => POr left [u] end.

Fixpoint treesP (p : prim) : ptree :=
  match p with
  | XAtom n => PSym n
  | XParen e => PGroup (join (treesE e))
  end
with treesE (e : expr) : ptree * option ptree :=
  match e with
  | ELast p => (treesP p, None)
  | ENot e' => (PNot (join (treesE e')), None)
  | EAnd p e' => let (t, k) := treesE e' in (PAnd (treesP p) [t], k)
  | EOr p e' => (treesP p, Some (join (treesE e')))
  end.

Definition full (e : expr) : ptree := join (treesE e).

Lemma fst_trees_and : forall p e, fst (treesE (EAnd p e)) = PAnd (treesP p) [fst (treesE e)].
Proof. intros. simpl. destruct (treesE e). reflexivity. Qed.
Lemma snd_trees_and : forall p e, snd (treesE (EAnd p e)) = snd (treesE e).
Proof. intros. simpl. destruct (treesE e). reflexivity. Qed.
Lemma full_and : forall p e, full (EAnd p e) = joinl (PAnd (treesP p) [fst (treesE e)]) (snd (treesE e)).
Proof. intros. unfold full. simpl. destruct (treesE e) as [t [u|]]; reflexivity. Qed.

(* fuel that suffices *)
Fixpoint needP (p : prim) : nat :=
  match p with
  | XAtom _ => 0
  | XParen e => needE e
  end
with needE (e : expr) : nat :=
  match e with
  | ELast p => 2 + needP p
  | ENot e' => 2 + needE e'
  | EAnd p e' => 2 + Nat.max (needP p) (needE e')
  | EOr p e' => 2 + Nat.max (needP p) (needE e')
  end.

(* ------------------------------------------------------------------------------------------ *)
(* white space *)
Definition nws (ts : list tok) : Prop := match ts with TWs :: _ => False | _ => True end.

Lemma skip_ws_nws : forall ts, nws ts -> skip_ws ts = ts.
Proof. intros [|t r]; simpl; auto. destruct t; simpl; tauto. Qed.

Lemma skip_ws_blanks : forall a r, skip_ws (blanks a ++ r) = skip_ws r.
Proof. induction a; simpl; auto. Qed.

Lemma ws_plus_blanks : forall a r, ws_plus (blanks (S a) ++ r) = Some (skip_ws r).
Proof. intros. simpl. f_equal. apply skip_ws_blanks. Qed.

Lemma nws_skip : forall ts, nws (skip_ws ts).
Proof. induction ts as [|t r IH]; simpl; auto. destruct t; simpl; auto. Qed.

(* a spelled skeleton starts with a token that is not white space *)
Lemma spells_nws :
  (forall p w, spellsP p w -> forall r, nws (w ++ r)) /\
  (forall e w, spellsE e w -> forall r, nws (w ++ r)).
Proof.
  apply prim_expr_ind; intros.
  - inversion H; subst. simpl. exact I.
  - inversion H0; subst. simpl. exact I.
  - inversion H0; subst. eauto.
  - inversion H0; subst. simpl. exact I.
  - inversion H1; subst. rewrite <- app_assoc. eauto.
  - inversion H1; subst. rewrite <- app_assoc. eauto.
Qed.

Lemma skip_ws_spelled : forall e w r, spellsE e w -> skip_ws (w ++ r) = w ++ r.
Proof. intros. apply skip_ws_nws. eapply (proj2 spells_nws); eauto. Qed.

(* ------------------------------------------------------------------------------------------ *)
(* what may follow a complete operand: neither `and` nor `or` *)
Definition stop (ts : list tok) : Prop :=
  match ws_plus ts with
  | Some (TAnd :: _) => False
  | Some (TOr :: _) => False
  | _ => True
  end.

Lemma stop_nil : stop [].
Proof. exact I. Qed.

Lemma stop_blanks : forall b, stop (blanks b).
Proof.
  intros [|b]; [exact I|]. unfold stop.
  replace (blanks (S b)) with (blanks (S b) ++ []) by apply app_nil_r.
  rewrite ws_plus_blanks. simpl. exact I.
Qed.

Lemma stop_close : forall b r, stop (blanks b ++ TRp :: r).
Proof.
  intros [|b] r; unfold stop.
  - simpl. exact I.
  - rewrite ws_plus_blanks. simpl. exact I.
Qed.

(* ------------------------------------------------------------------------------------------ *)
(* unfolding equations of the parser model *)
Section Equations.
  Variable P : prec.

  Lemma boolExpr_id : forall f p n r, boolExpr P (S f) p (TId n :: r) = op_loop P f p (PSym n) r.
  Proof. reflexivity. Qed.

  Lemma boolExpr_lp : forall f p r,
    boolExpr P (S f) p (TLp :: r) =
      match boolExpr P f 0 (skip_ws r) with
      | Some (t, r1) =>
          match skip_ws r1 with
          | TRp :: r2 => op_loop P f p (PGroup t) r2
          | _ => None
          end
      | None => None
      end.
  Proof. reflexivity. Qed.

  Lemma boolExpr_not : forall f p r,
    boolExpr P (S f) p (TNot :: r) =
      match ws_plus r with
      | Some r1 =>
          match boolExpr P f 1 r1 with
          | Some (t, r2) => op_loop P f p (PNot t) r2
          | None => None
          end
      | None => None
      end.
  Proof. reflexivity. Qed.

  Lemma op_loop_eq : forall f p left ts,
    op_loop P (S f) p left ts =
      match ws_plus ts with
      | Some (TAnd :: r) =>
          if Nat.leb p 6 then
            match ws_plus r with
            | Some r1 =>
                match boolExpr P f (ra P) r1 with
                | Some (t, r2) =>
                    match more_operands P f TAnd (ra P) r2 with
                    | Some (rs, r3) => op_loop P f p (PAnd left (t :: rs)) r3
                    | None => None
                    end
                | None => None
                end
            | None => None
            end
          else Some (left, ts)
      | Some (TOr :: r) =>
          if Nat.leb p 5 then
            match ws_plus r with
            | Some r1 =>
                match boolExpr P f (ro P) r1 with
                | Some (t, r2) =>
                    match more_operands P f TOr (ro P) r2 with
                    | Some (rs, r3) => op_loop P f p (POr left (t :: rs)) r3
                    | None => None
                    end
                | None => None
                end
            | None => None
            end
          else Some (left, ts)
      | _ => Some (left, ts)
      end.
  Proof. reflexivity. Qed.

  Lemma more_operands_eq : forall f op q ts,
    more_operands P (S f) op q ts =
      match ws_plus ts with
      | Some (o :: r) =>
          if (match op, o with TAnd, TAnd => true | TOr, TOr => true | _, _ => false end) then
            match ws_plus r with
            | Some r1 =>
                match boolExpr P f q r1 with
                | Some (t, r2) =>
                    match more_operands P f op q r2 with
                    | Some (rs, r3) => Some (t :: rs, r3)
                    | None => None
                    end
                | None => None
                end
            | None => None
            end
          else Some ([], ts)
      | _ => Some ([], ts)
      end.
  Proof. reflexivity. Qed.
End Equations.

Section Fixed.
  Let P := fixed_prec.

  Lemma op_loop_stop : forall f p left ts, stop ts -> op_loop P (S f) p left ts = Some (left, ts).
  Proof.
    intros f p left ts H. unfold stop in H. rewrite op_loop_eq.
    destruct (ws_plus ts) as [[|t r]|]; auto.
    destruct t; auto; contradiction.
  Qed.

  Lemma more_operands_stop : forall f op q ts, stop ts -> more_operands P (S f) op q ts = Some ([], ts).
  Proof.
    intros f op q ts H. unfold stop in H. rewrite more_operands_eq.
    destruct (ws_plus ts) as [[|t r]|]; auto.
    destruct t; try contradiction; destruct op; auto.
  Qed.

  (* the remainder left by an operand parsed at precedence 6: it is inert for the `and` loops and
     the low-precedence loop turns it into the `or` node *)
  Definition remainder_ok (e : expr) (r rest : list tok) : Prop :=
    (forall f q, more_operands P (S f) TAnd q r = Some ([], r)) /\
    (forall f left, op_loop P (S f) 6 left r = Some (left, r)) /\
    (forall f p left, needE e <= f -> p <= 5 ->
        op_loop P f p left r = Some (joinl left (snd (treesE e)), rest)).

  Definition primary_ok (p0 : prim) : Prop :=
    forall w rest f p, spellsP p0 w -> needP p0 <= f ->
      boolExpr P (S f) p (w ++ rest) = op_loop P f p (treesP p0) rest.

  Definition chain_ok (e : expr) : Prop :=
    forall w rest, spellsE e w -> stop rest ->
      (forall f, needE e <= f ->
         exists r, boolExpr P f 6 (w ++ rest) = Some (fst (treesE e), r) /\ remainder_ok e r rest) /\
      (forall f p, needE e <= f -> p <= 5 -> boolExpr P f p (w ++ rest) = Some (full e, rest)).

  Lemma remainder_ok_stop : forall e rest, snd (treesE e) = None -> stop rest -> remainder_ok e rest rest.
  Proof.
    intros e rest Hs Hstop. repeat split; intros.
    - apply more_operands_stop; auto.
    - apply op_loop_stop; auto.
    - rewrite Hs. simpl. destruct f as [|f]; [destruct e; simpl in H; lia|]. apply op_loop_stop; auto.
  Qed.

  Lemma needE_pos : forall e, 2 <= needE e.
  Proof. destruct e; simpl; lia. Qed.

  Lemma ra_fixed : ra P = 6. Proof. reflexivity. Qed.
  Lemma ro_fixed : ro P = 5. Proof. reflexivity. Qed.

  (* one step of the operator loop on  WS+ AND WS+ <operand> ... *)
  Lemma op_loop_and : forall f p left a b ts, p <= 6 -> nws ts ->
    op_loop P (S f) p left (blanks (S a) ++ TAnd :: blanks (S b) ++ ts) =
      match boolExpr P f 6 ts with
      | Some (t, r2) =>
          match more_operands P f TAnd 6 r2 with
          | Some (rs, r3) => op_loop P f p (PAnd left (t :: rs)) r3
          | None => None
          end
      | None => None
      end.
  Proof.
    intros. rewrite op_loop_eq. rewrite ws_plus_blanks. cbn [skip_ws].
    apply Nat.leb_le in H. rewrite H. rewrite ws_plus_blanks. rewrite (skip_ws_nws ts H0). reflexivity.
  Qed.

  Lemma op_loop_or : forall f p left a b ts, p <= 5 -> nws ts ->
    op_loop P (S f) p left (blanks (S a) ++ TOr :: blanks (S b) ++ ts) =
      match boolExpr P f 5 ts with
      | Some (t, r2) =>
          match more_operands P f TOr 5 r2 with
          | Some (rs, r3) => op_loop P f p (POr left (t :: rs)) r3
          | None => None
          end
      | None => None
      end.
  Proof.
    intros. rewrite op_loop_eq. rewrite ws_plus_blanks. cbn [skip_ws].
    apply Nat.leb_le in H. rewrite H. rewrite ws_plus_blanks. rewrite (skip_ws_nws ts H0). reflexivity.
  Qed.

  Lemma op_loop_or_refused : forall f left a ts,
    op_loop P (S f) 6 left (blanks (S a) ++ TOr :: ts) = Some (left, blanks (S a) ++ TOr :: ts).
  Proof. intros. rewrite op_loop_eq. rewrite ws_plus_blanks. cbn [skip_ws]. reflexivity. Qed.

  Lemma more_and_at_or : forall f q a ts,
    more_operands P (S f) TAnd q (blanks (S a) ++ TOr :: ts) = Some ([], blanks (S a) ++ TOr :: ts).
  Proof. intros. rewrite more_operands_eq. rewrite ws_plus_blanks. cbn [skip_ws]. reflexivity. Qed.

  Theorem parser_correct : (forall p, primary_ok p) /\ (forall e, chain_ok e).
  Proof.
    apply prim_expr_ind.
    - (* atom *)
      intros n w rest f p Hs _. inversion Hs; subst. reflexivity.
    - (* parenthesis *)
      intros e IH w rest f p Hs Hf. inversion Hs; subst. simpl in Hf.
      cbn [app]. rewrite boolExpr_lp. repeat rewrite <- app_assoc. rewrite skip_ws_blanks.
      rewrite (skip_ws_spelled e w0 _ H0).
      destruct (IH w0 (blanks b ++ [TRp] ++ rest) H0 (stop_close b rest)) as [_ Hlo].
      rewrite (Hlo f 0 Hf (Nat.le_0_l 5)).
      rewrite skip_ws_blanks. reflexivity.
    - (* ELast *)
      intros p0 IHp w rest Hs Hstop. inversion Hs; subst. simpl needE. split.
      + intros f Hf. destruct f as [|f]; [lia|]. destruct f as [|f]; [lia|].
        exists rest. split.
        * rewrite (IHp w rest (S f) 6 H0) by lia. simpl treesE. simpl fst. apply op_loop_stop; auto.
        * apply remainder_ok_stop; auto.
      + intros f p Hf Hp. destruct f as [|f]; [lia|]. destruct f as [|f]; [lia|].
        rewrite (IHp w rest (S f) p H0) by lia. apply op_loop_stop; auto.
    - (* ENot *)
      intros e IH w rest Hs Hstop. inversion Hs; subst. simpl needE.
      assert (Hcore : forall f p, 2 + needE e <= f ->
                boolExpr P f p ((TNot :: blanks (S a) ++ w0) ++ rest) = Some (PNot (full e), rest)).
      { intros f p Hf. destruct f as [|f]; [lia|]. destruct f as [|f]; [lia|].
        cbn [app]. rewrite boolExpr_not. rewrite <- app_assoc. rewrite ws_plus_blanks.
        rewrite (skip_ws_spelled e w0 _ H0).
        destruct (IH w0 rest H0 Hstop) as [_ Hlo].
        rewrite (Hlo (S f) 1) by lia. apply op_loop_stop; auto. }
      split.
      + intros f Hf. exists rest. split; [apply Hcore; auto|apply remainder_ok_stop; auto].
      + intros f p Hf _. apply Hcore; auto.
    - (* EAnd *)
      intros p0 IHp e IH w rest Hs Hstop. inversion Hs; subst. simpl needE.
      destruct (IH we rest H3 Hstop) as [Hhi _].
      assert (Hn : nws (we ++ rest)) by (eapply (proj2 spells_nws); eauto).
      split.
      + intros f Hf. destruct f as [|f]; [lia|]. destruct f as [|f]; [lia|].
        destruct (Hhi f) as [r [Hr [Hm [H6 Hl]]]]; [lia|].
        exists r. split.
        * repeat rewrite <- app_assoc. rewrite (IHp wp _ (S f) 6 H1) by lia.
          cbn [app]. rewrite <- app_assoc. rewrite op_loop_and by auto.
          rewrite Hr. destruct f as [|f]; [pose proof (needE_pos e); lia|].
          rewrite Hm. rewrite H6. rewrite fst_trees_and. reflexivity.
        * repeat split; auto. intros f0 p left Hf0 Hp. rewrite snd_trees_and. apply Hl; auto. simpl in Hf0. lia.
      + intros f p Hf Hp. destruct f as [|f]; [lia|]. destruct f as [|f]; [lia|].
        destruct (Hhi f) as [r [Hr [Hm [H6 Hl]]]]; [lia|].
        repeat rewrite <- app_assoc. rewrite (IHp wp _ (S f) p H1) by lia.
        cbn [app]. rewrite <- app_assoc. rewrite op_loop_and by (auto; lia).
        rewrite Hr. destruct f as [|f]; [pose proof (needE_pos e); lia|].
        rewrite Hm. rewrite (Hl (S f) p) by lia. rewrite full_and. reflexivity.
    - (* EOr *)
      intros p0 IHp e IH w rest Hs Hstop. inversion Hs; subst. simpl needE.
      destruct (IH we rest H3 Hstop) as [_ Hlo].
      assert (Hn : nws (we ++ rest)) by (eapply (proj2 spells_nws); eauto).
      assert (Hloop : forall f p left, needE e < f -> p <= 5 ->
                op_loop P f p left (blanks (S a) ++ TOr :: blanks (S b) ++ we ++ rest) = Some (POr left [full e], rest)).
      { intros f p left Hf Hp. destruct f as [|f]; [lia|].
        rewrite op_loop_or by auto. rewrite (Hlo f 5) by lia.
        destruct f as [|f]; [pose proof (needE_pos e); lia|].
        rewrite more_operands_stop by auto. apply op_loop_stop; auto. }
      split.
      + intros f Hf. destruct f as [|f]; [lia|]. destruct f as [|f]; [lia|].
        exists (blanks (S a) ++ TOr :: blanks (S b) ++ we ++ rest). split.
        * repeat rewrite <- app_assoc. rewrite (IHp wp _ (S f) 6 H1) by lia.
          cbn [app]. rewrite <- app_assoc. apply op_loop_or_refused.
        * repeat split.
          -- intros. apply more_and_at_or.
          -- intros. apply op_loop_or_refused.
          -- intros f0 p left Hf0 Hp. simpl treesE. simpl snd. simpl joinl. apply Hloop; auto. simpl in Hf0. lia.
      + intros f p Hf Hp. destruct f as [|f]; [lia|]. destruct f as [|f]; [lia|].
        repeat rewrite <- app_assoc. rewrite (IHp wp _ (S f) p H1) by lia.
        cbn [app]. rewrite <- app_assoc. rewrite Hloop by (auto; lia). reflexivity.
  Qed.
End Fixed.

(* ------------------------------------------------------------------------------------------ *)
(* fuel of parse_start suffices *)
Lemma blanks_length : forall a, length (blanks a) = a.
Proof. intros. apply repeat_length. Qed.

Lemma need_le_length :
  (forall p w, spellsP p w -> needP p + 2 <= 2 * length w) /\
  (forall e w, spellsE e w -> needE e <= 2 * length w /\ 1 <= length w).
Proof.
  apply prim_expr_ind; intros.
  - inversion H; subst. simpl. lia.
  - inversion H0; subst. destruct (H _ H2). simpl. repeat rewrite app_length. simpl. lia.
  - inversion H0; subst. pose proof (H _ H2). simpl needE. lia.
  - inversion H0; subst. destruct (H _ H2). simpl needE. simpl length. rewrite app_length. lia.
  - inversion H1; subst. pose proof (H _ H4). destruct (H0 _ H6). simpl needE.
    repeat (rewrite app_length; simpl length). lia.
  - inversion H1; subst. pose proof (H _ H4). destruct (H0 _ H6). simpl needE.
    repeat (rewrite app_length; simpl length). lia.
Qed.

Theorem parse_start_correct : forall e ts, spells_filter e ts -> parse_start fixed_prec ts = Some (full e).
Proof.
  intros e ts [w [a [b [Hs Hts]]]]. subst ts. unfold parse_start.
  rewrite skip_ws_blanks. rewrite (skip_ws_spelled e w _ Hs).
  destruct (proj2 parser_correct e w (blanks b) Hs (stop_blanks b)) as [_ Hlo].
  destruct (proj2 need_le_length e w Hs) as [Hn _].
  rewrite Hlo.
  - replace (blanks b) with (blanks b ++ []) by apply app_nil_r. rewrite skip_ws_blanks. reflexivity.
  - repeat rewrite app_length. lia.
  - lia.
Qed.

(* ------------------------------------------------------------------------------------------ *)
(* the listener on these trees *)
Definition joinb (x : bexp * option bexp) : bexp :=
  match x with (t, None) => t | (t, Some u) => BOr t u end.

Fixpoint bexpP (p : prim) : bexp :=
  match p with
  | XAtom n => BSym n
  | XParen e => joinb (bexpE e)
  end
with bexpE (e : expr) : bexp * option bexp :=
  match e with
  | ELast p => (bexpP p, None)
  | ENot e' => (BNot (joinb (bexpE e')), None)
  | EAnd p e' => let (t, k) := bexpE e' in (BAnd (bexpP p) t, k)
  | EOr p e' => (bexpP p, Some (joinb (bexpE e')))
  end.

Definition bfull (e : expr) : bexp := joinb (bexpE e).

Definition walks (t : ptree) (b : bexp) : Prop := forall st, walk t (Some st) = Some (b :: st).

Lemma walks_join : forall t k b kb,
  walks t b -> match k, kb with Some u, Some ub => walks u ub | None, None => True | _, _ => False end ->
  walks (join (t, k)) (joinb (b, kb)).
Proof.
  intros t k b kb Ht Hk st. destruct k as [u|], kb as [ub|]; try contradiction; simpl.
  - rewrite Ht. rewrite Hk. reflexivity.
  - apply Ht.
Qed.

Lemma walk_trees :
  (forall p, walks (treesP p) (bexpP p)) /\
  (forall e, walks (fst (treesE e)) (fst (bexpE e)) /\
             match snd (treesE e), snd (bexpE e) with
             | Some u, Some ub => walks u ub
             | None, None => True
             | _, _ => False
             end).
Proof.
  apply prim_expr_ind.
  - intros n st. reflexivity.
  - intros e [H1 H2]. simpl. intros st. simpl.
    destruct (treesE e) as [t k], (bexpE e) as [b kb]. simpl in *.
    apply (walks_join t k b kb H1 H2).
  - intros p H. simpl. split; auto.
  - intros e [H1 H2]. simpl. split; auto. intros st. simpl.
    destruct (treesE e) as [t k], (bexpE e) as [b kb]. simpl in *.
    rewrite (walks_join t k b kb H1 H2). reflexivity.
  - intros p Hp e [H1 H2]. simpl.
    destruct (treesE e) as [t k], (bexpE e) as [b kb]. simpl in *. split; auto.
    intros st. simpl. rewrite Hp. rewrite H1. reflexivity.
  - intros p Hp e [H1 H2]. simpl. split; auto.
    destruct (treesE e) as [t k], (bexpE e) as [b kb]. simpl in *.
    apply (walks_join t k b kb H1 H2).
Qed.

Lemma listener_full : forall e, listener (full e) = Some (bfull e).
Proof.
  intros e. unfold listener, full, bfull.
  destruct (proj2 walk_trees e) as [H1 H2].
  destruct (treesE e) as [t k], (bexpE e) as [b kb]. simpl in *.
  rewrite (walks_join t k b kb H1 H2). reflexivity.
Qed.

(* ------------------------------------------------------------------------------------------ *)
(* evaluation of the typed tree = the surface semantics *)
Definition evalk (k : option bexp) (rho : str -> bool) : bool :=
  match k with Some u => eval u rho | None => false end.

Lemma eval_joinb : forall x rho, eval (joinb x) rho = eval (fst x) rho || evalk (snd x) rho.
Proof.
  intros [t [u|]] rho; simpl.
  - destruct (eval t rho); reflexivity.
  - rewrite orb_false_r. reflexivity.
Qed.

Lemma eval_sem :
  (forall p rho, eval (bexpP p) rho = semP p rho) /\
  (forall e rho acc, semE acc e rho = (acc && eval (fst (bexpE e)) rho) || evalk (snd (bexpE e)) rho).
Proof.
  apply prim_expr_ind.
  - reflexivity.
  - intros e IH rho. simpl. rewrite eval_joinb. rewrite IH. reflexivity.
  - intros p IH rho acc. simpl. rewrite IH. rewrite orb_false_r. reflexivity.
  - intros e IH rho acc. simpl. rewrite eval_joinb. rewrite IH. simpl. rewrite orb_false_r. reflexivity.
  - intros p IHp e IH rho acc. simpl. rewrite IH. rewrite <- IHp.
    destruct (bexpE e) as [b kb]. simpl.
    destruct (eval (bexpP p) rho); simpl; rewrite ?andb_true_r, ?andb_false_r; reflexivity.
  - intros p IHp e IH rho acc. simpl. rewrite IHp. rewrite eval_joinb. rewrite IH. reflexivity.
Qed.

Lemma eval_bfull : forall e rho, eval (bfull e) rho = sem e rho.
Proof.
  intros. unfold bfull, sem. rewrite eval_joinb. rewrite (proj2 eval_sem). reflexivity.
Qed.

(* ------------------------------------------------------------------------------------------ *)
(* the main statement on tokens *)
Theorem compile_correct : forall e ts, spells_filter e ts ->
  exists b, compile fixed_prec ts = Some b /\ forall rho, eval b rho = sem e rho.
Proof.
  intros e ts H. exists (bfull e). split.
  - unfold compile. rewrite (parse_start_correct e ts H). apply listener_full.
  - apply eval_bfull.
Qed.

Lemma printP_spells : (forall p, spellsP p (printP p)) /\ (forall e, spellsE e (printE e)).
Proof.
  apply prim_expr_ind; intros; simpl.
  - constructor.
  - apply (SpParen e (printE e) 0 0 H).
  - constructor. auto.
  - apply (SpNot e (printE e) 0 H).
  - apply (SpAnd p e (printP p) (printE e) 0 0 H H0).
  - apply (SpOr p e (printP p) (printE e) 0 0 H H0).
Qed.

Lemma print_spells_filter : forall e, spells_filter e (printE e).
Proof.
  intros e. exists (printE e), 0, 0. split; [apply printP_spells|]. simpl. rewrite app_nil_r. reflexivity.
Qed.

(* ------------------------------------------------------------------------------------------ *)
(* the surface semantics is "or of ands" *)
Lemma sem_disjuncts : forall e rho acc,
  semE acc e rho =
    match disjuncts e with
    | c :: r => (acc && forallb (sem_lit rho) c) || existsb (forallb (sem_lit rho)) r
    | [] => false
    end /\ disjuncts e <> [].
Proof.
  induction e; intros rho acc; simpl.
  - split; [|discriminate]. rewrite andb_true_r, orb_false_r. reflexivity.
  - split; [|discriminate]. unfold sem. rewrite andb_true_r, orb_false_r. reflexivity.
  - destruct (IHe rho (acc && semP p rho)) as [H Hne]. rewrite H.
    destruct (disjuncts e) as [|c r]; [contradiction|]. split; [|discriminate].
    simpl. rewrite andb_assoc. reflexivity.
  - destruct (IHe rho true) as [H Hne]. rewrite H. split; [|discriminate].
    destruct (disjuncts e) as [|c r]; [contradiction|]. simpl. rewrite andb_true_r. reflexivity.
Qed.

Theorem sem_is_or_of_ands : forall e rho, sem e rho = sem_dnf e rho.
Proof.
  intros. unfold sem, sem_dnf. destruct (sem_disjuncts e rho true) as [H Hne]. rewrite H.
  destruct (disjuncts e); [contradiction|]. reflexivity.
Qed.

(* ------------------------------------------------------------------------------------------ *)
(* chains of one connective, redundant parentheses (on the surface semantics) *)
Lemma sem_and_run : forall ps last k rho acc,
  semE acc (and_run ps last k) rho = semE (acc && forallb (fun p => semP p rho) ps) (k last) rho.
Proof.
  induction ps as [|p r IH]; intros; simpl.
  - rewrite andb_true_r. reflexivity.
  - rewrite IH. rewrite andb_assoc. reflexivity.
Qed.

Lemma sem_and_chain : forall ps last rho,
  sem (and_run ps last ELast) rho = forallb (fun p => semP p rho) (ps ++ [last]).
Proof.
  intros. unfold sem. rewrite sem_and_run. simpl. rewrite forallb_app. simpl. rewrite andb_true_r. reflexivity.
Qed.

Lemma sem_or_chain : forall ps last rho,
  sem (or_run ps last) rho = existsb (fun p => semP p rho) (ps ++ [last]).
Proof.
  induction ps as [|p r IH]; intros; unfold sem in *; simpl.
  - rewrite orb_false_r. reflexivity.
  - rewrite IH. reflexivity.
Qed.

Scheme wrapP_mind := Induction for wrapP Sort Prop
  with wrapE_mind := Induction for wrapE Sort Prop.
Combined Scheme wrap_ind from wrapP_mind, wrapE_mind.

Lemma wrap_sem : forall rho,
  (forall p p', wrapP p p' -> semP p rho = semP p' rho) /\
  (forall b e e', wrapE b e e' -> forall acc, (b = true -> acc = true) -> semE acc e rho = semE acc e' rho).
Proof.
  intros rho. apply wrap_ind; intros; simpl.
  - reflexivity.
  - apply H; auto.
  - rewrite (H eq_refl). reflexivity.
  - rewrite (H eq_refl). rewrite sem_and_run. simpl. rewrite sem_and_run. simpl. reflexivity.
  - rewrite H. reflexivity.
  - rewrite (H true); auto.
  - rewrite H. reflexivity.
  - apply H. discriminate.
  - rewrite H. reflexivity.
  - rewrite (H true); auto.
Qed.

Theorem wrap_preserves_sem : forall e e' rho, wrapE true e e' -> sem e rho = sem e' rho.
Proof. intros. unfold sem. apply (proj2 (wrap_sem rho) true e e' H). auto. Qed.
