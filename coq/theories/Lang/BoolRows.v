(* C12, third strengthening (design/C12.md): what the harness streams d / l / n of c12w3.go need on the
   specification side.  Model only, no proofs.

   - renaming of atoms: a skeleton whose atoms REPEAT is the image of a skeleton over distinct atoms under a
     non-injective renaming;
   - the reading of a token list with its parentheses dropped (what a printer that does not print parentheses
     shows of a filter);
   - several redundant pairs of parentheses at once (the reflexive-transitive closure of [wrapE true]);
   - row-wise selection: the rows of a table selected by a predicate when the value of an atom on a row is given
     by an arbitrary function [val] (for the harness: what the code itself answers for the atom alone on that
     row - whatever it does with nil / unset fields). *)
From Coq Require Import List NArith Bool Arith.
From Storage Require Import Base.Bytes Lang.Tokens Lang.BoolSurface.
Import ListNotations.

Fixpoint renameP (f : str -> str) (p : prim) : prim :=
  match p with
  | XAtom n => XAtom (f n)
  | XParen e => XParen (renameE f e)
  end
with renameE (f : str -> str) (e : expr) : expr :=
  match e with
  | ELast p => ELast (renameP f p)
  | ENot e' => ENot (renameE f e')
  | EAnd p e' => EAnd (renameP f p) (renameE f e')
  | EOr p e' => EOr (renameP f p) (renameE f e')
  end.

Definition is_paren (t : tok) : bool := match t with TLp | TRp => true | _ => false end.

(* the token list as it reads without its parentheses *)
Definition strip_parens (ts : list tok) : list tok := filter (fun t => negb (is_paren t)) ts.

(* any number of redundant pairs of parentheses *)
Inductive wrap_many : expr -> expr -> Prop :=
| WmNone : forall e, wrap_many e e
| WmStep : forall e e' e'', wrapE true e e' -> wrap_many e' e'' -> wrap_many e e''.

(* the rows a predicate selects *)
Definition select {Row : Type} (rows : list Row) (holds : Row -> bool) : list Row := filter holds rows.
