(* Proofs for the statements added to Properties/C12.v by the third strengthening: repeated atoms, several
   redundant parentheses at once, row-wise selection with `not` as the exact complement. *)
From Coq Require Import List NArith Bool Arith Lia.
From Storage Require Import Base.Bytes Lang.Tokens Lang.Lexer Lang.BoolGrammar Lang.Listener Lang.BoolSurface
  Lang.BoolGrammarProofs Lang.LexerProofs Lang.C12Proofs Lang.BoolRows.
Import ListNotations.

(* ---- renaming ---- *)
Lemma rename_semPE : forall f rho,
  (forall p, semP (renameP f p) rho = semP p (fun n => rho (f n))) /\
  (forall e acc, semE acc (renameE f e) rho = semE acc e (fun n => rho (f n))).
Proof.
  intros f rho. apply prim_expr_ind; intros; simpl.
  - reflexivity.
  - apply H.
  - rewrite H. reflexivity.
  - rewrite H. reflexivity.
  - rewrite H, H0. reflexivity.
  - rewrite H, H0. reflexivity.
Qed.

Lemma rename_sem : forall f e rho, sem (renameE f e) rho = sem e (fun n => rho (f n)).
Proof. intros. unfold sem. apply (proj2 (rename_semPE f rho)). Qed.

(* a skeleton in which atoms repeat - the image of [e] under any renaming [f], injective or not - is accepted in
   every spelling and has, under every assignment, the value of [e] under the assignment pulled back along [f] *)
Lemma repeated_atoms_lemma : forall f e ts, spells_filter (renameE f e) ts ->
  exists b, compile fixed_prec ts = Some b /\ forall rho, eval b rho = sem e (fun n => rho (f n)).
Proof.
  intros f e ts Hs. destruct (compile_correct _ _ Hs) as [b [Hc He]].
  exists b. split; [exact Hc|]. intros rho. rewrite He. apply rename_sem.
Qed.

(* a connective whose two operands are the same expression has the value of that expression *)
Lemma same_operand_lemma : forall e ts1 ts2 b1 b2 rho,
  spells_filter (EAnd (XParen e) (ELast (XParen e))) ts1 ->
  spells_filter (EOr (XParen e) (ELast (XParen e))) ts2 ->
  compile fixed_prec ts1 = Some b1 -> compile fixed_prec ts2 = Some b2 ->
  eval b1 rho = sem e rho /\ eval b2 rho = sem e rho.
Proof.
  intros. rewrite (compile_value _ _ _ H H1), (compile_value _ _ _ H0 H2). unfold sem. simpl.
  split; [apply andb_diag|apply orb_diag].
Qed.

(* ---- several redundant pairs of parentheses ---- *)
Lemma wrap_many_sem : forall e e' rho, wrap_many e e' -> sem e rho = sem e' rho.
Proof.
  intros e e' rho H. induction H; [reflexivity|].
  rewrite (wrap_preserves_sem e e' rho H). exact IHwrap_many.
Qed.

Lemma redundant_parens_many_lemma : forall e e' ts ts' b b' rho,
  wrap_many e e' -> spells_filter e ts -> spells_filter e' ts' ->
  compile fixed_prec ts = Some b -> compile fixed_prec ts' = Some b' -> eval b rho = eval b' rho.
Proof.
  intros. rewrite (compile_value _ _ _ H0 H2), (compile_value _ _ _ H1 H3). apply wrap_many_sem; auto.
Qed.

(* a re-spelled filter (white space, redundant parentheses, any number of either) is accepted whenever it is a
   spelling at all: acceptance does not depend on the length of the token list *)
Lemma respelling_accepted_lemma : forall e e' ts ts',
  wrap_many e e' -> spells_filter e ts -> spells_filter e' ts' ->
  exists b b', compile fixed_prec ts = Some b /\ compile fixed_prec ts' = Some b' /\
               forall rho, eval b rho = eval b' rho.
Proof.
  intros e e' ts ts' Hw Hs Hs'.
  destruct (compile_correct _ _ Hs) as [b [Hc He]]. destruct (compile_correct _ _ Hs') as [b' [Hc' He']].
  exists b, b'. repeat split; auto. intros rho. rewrite He, He'. apply wrap_many_sem; auto.
Qed.

(* ---- row-wise selection ---- *)
Lemma filter_ext_all : forall (A : Type) (f g : A -> bool) l, (forall x, f x = g x) -> filter f l = filter g l.
Proof. intros A f g l H. induction l as [|x r IH]; simpl; [reflexivity|]. rewrite H, IH. reflexivity. Qed.

Lemma selection_lemma : forall (Row : Type) (rows : list Row) (val : Row -> str -> bool) e ts,
  spells_filter e ts ->
  exists b, compile fixed_prec ts = Some b /\
            select rows (fun r => eval b (val r)) = select rows (fun r => sem e (val r)).
Proof.
  intros Row rows val e ts Hs. destruct (compile_correct _ _ Hs) as [b [Hc He]].
  exists b. split; [exact Hc|]. unfold select. apply filter_ext_all. intros r. apply He.
Qed.

(* `not (e)` and `not e` select exactly the rows that e does not select - whatever e evaluates to on a row *)
Lemma not_complement_lemma : forall (Row : Type) (rows : list Row) (val : Row -> str -> bool) e ts tn tp b bn bp,
  spells_filter e ts -> spells_filter (ENot e) tn -> spells_filter (ENot (ELast (XParen e))) tp ->
  compile fixed_prec ts = Some b -> compile fixed_prec tn = Some bn -> compile fixed_prec tp = Some bp ->
  (forall r, eval bn (val r) = negb (eval b (val r)) /\ eval bp (val r) = negb (eval b (val r))) /\
  select rows (fun r => eval bn (val r)) = select rows (fun r => negb (eval b (val r))) /\
  select rows (fun r => eval bp (val r)) = select rows (fun r => negb (eval b (val r))).
Proof.
  intros Row rows val e ts tn tp b bn bp Hs Hn Hp Hc Hcn Hcp.
  assert (Hr : forall r, eval bn (val r) = negb (eval b (val r)) /\ eval bp (val r) = negb (eval b (val r))).
  { intros r. rewrite (compile_value _ _ _ Hs Hc), (compile_value _ _ _ Hn Hcn), (compile_value _ _ _ Hp Hcp).
    unfold sem. simpl. split; reflexivity. }
  split; [exact Hr|]. unfold select. split; apply filter_ext_all; intros r; apply Hr.
Qed.

(* every row is selected by exactly one of e and not (e) *)
Lemma not_partition_lemma : forall (Row : Type) (val : Row -> str -> bool) e ts tp b bp r,
  spells_filter e ts -> spells_filter (ENot (ELast (XParen e))) tp ->
  compile fixed_prec ts = Some b -> compile fixed_prec tp = Some bp ->
  xorb (eval b (val r)) (eval bp (val r)) = true.
Proof.
  intros. rewrite (compile_value _ _ _ H H1), (compile_value _ _ _ H0 H2). unfold sem. simpl.
  destruct (semE true e (val r)); reflexivity.
Qed.
