(* Regular expressions over character classes with Brzozowski derivatives: the executable form in
   which the token rules of ZitiQl.g4 are transcribed (LexerFull.v).  A rule's scanner runs the
   derivative over the input and reports the longest accepted prefix and the number of characters
   after which the rule is still alive - exactly what ANTLR's lexer simulation needs to know about
   a rule (see Lexer.v).  Model only, no proofs. *)
From Coq Require Import List NArith Bool Arith.
From Storage Require Import Base.Bytes.
Import ListNotations.

Record cls := mkCls { cneg : bool; cranges : list (N * N) }.

Definition in_ranges (rs : list (N * N)) (x : N) : bool :=
  existsb (fun r => (fst r <=? x)%N && (x <=? snd r)%N) rs.
Definition in_cls (c : cls) (x : N) : bool := xorb (cneg c) (in_ranges (cranges c) x).

Inductive re :=
| Nul                    (* no string *)
| Eps                    (* the empty string *)
| Chr (c : cls)
| Seq (a b : re)
| Alt (a b : re)
| Star (a : re).

Definition opt (r : re) : re := Alt Eps r.
Definition plus (r : re) : re := Seq r (Star r).
Definition ch (x : N) : re := Chr (mkCls false [(x, x)]).
Definition rng (a b : N) : re := Chr (mkCls false [(a, b)]).
Definition set (rs : list (N * N)) : re := Chr (mkCls false rs).
Definition nset (rs : list (N * N)) : re := Chr (mkCls true rs).
(* a letter fragment  A : [aA]  given by the lower-case code *)
Definition ci (l : N) : re := Chr (mkCls false [(l, l); ((l - 32)%N, (l - 32)%N)]).
Fixpoint seqs (l : list re) : re := match l with [] => Eps | [r] => r | r :: t => Seq r (seqs t) end.
Fixpoint alts (l : list re) : re := match l with [] => Nul | [r] => r | r :: t => Alt r (alts t) end.
(* a literal, character by character (case sensitive) / a keyword of letter fragments *)
Definition lit (s : str) : re := seqs (map ch s).
Definition kw (s : str) : re := seqs (map ci s).

Fixpoint nullable (r : re) : bool :=
  match r with
  | Nul => false
  | Eps => true
  | Chr _ => false
  | Seq a b => nullable a && nullable b
  | Alt a b => nullable a || nullable b
  | Star _ => true
  end.

(* no string at all is matched (character classes are assumed non-empty) *)
Fixpoint dead (r : re) : bool :=
  match r with
  | Nul => true
  | Eps => false
  | Chr _ => false
  | Seq a b => dead a || dead b
  | Alt a b => dead a && dead b
  | Star _ => false
  end.

(* syntactic equality, used only to keep derivatives small (idempotence of Alt) *)
Fixpoint ranges_eqb (a b : list (N * N)) : bool :=
  match a, b with
  | [], [] => true
  | (x1, y1) :: a', (x2, y2) :: b' => (x1 =? x2)%N && (y1 =? y2)%N && ranges_eqb a' b'
  | _, _ => false
  end.
Definition cls_eqb (a b : cls) : bool := Bool.eqb (cneg a) (cneg b) && ranges_eqb (cranges a) (cranges b).
Fixpoint re_eqb (a b : re) : bool :=
  match a, b with
  | Nul, Nul => true
  | Eps, Eps => true
  | Chr c, Chr d => cls_eqb c d
  | Seq a1 a2, Seq b1 b2 => re_eqb a1 b1 && re_eqb a2 b2
  | Alt a1 a2, Alt b1 b2 => re_eqb a1 b1 && re_eqb a2 b2
  | Star a1, Star b1 => re_eqb a1 b1
  | _, _ => false
  end.

Fixpoint alt_mem (a : re) (b : re) : bool :=
  match b with
  | Alt b1 b2 => re_eqb a b1 || alt_mem a b2
  | _ => re_eqb a b
  end.

Definition sseq (a b : re) : re :=
  match a, b with
  | Nul, _ => Nul
  | _, Nul => Nul
  | Eps, _ => b
  | _, Eps => a
  | _, _ => Seq a b
  end.

Definition salt (a b : re) : re :=
  match a, b with
  | Nul, _ => b
  | _, Nul => a
  | _, _ => if alt_mem a b then b else Alt a b
  end.

Fixpoint deriv (x : N) (r : re) : re :=
  match r with
  | Nul => Nul
  | Eps => Nul
  | Chr c => if in_cls c x then Eps else Nul
  | Seq a b => salt (sseq (deriv x a) b) (if nullable a then deriv x b else Nul)
  | Alt a b => salt (deriv x a) (deriv x b)
  | Star a => sseq (deriv x a) (Star a)
  end.

(* [n] characters consumed so far with the rule alive, [last] the longest accepted prefix so far *)
Fixpoint scan_re (r : re) (s : str) (n : nat) (last : option nat) : option nat * nat :=
  match s with
  | [] => (last, n)
  | c :: s' =>
      let r' := deriv c r in
      if dead r' then (last, n)
      else scan_re r' s' (S n) (if nullable r' then Some (S n) else last)
  end.

Definition scan_regex (r : re) (s : str) : option nat * nat := scan_re r s 0 None.

(* reference semantics, for the examples: does r match exactly s *)
Fixpoint matches (r : re) (s : str) : bool :=
  match s with
  | [] => nullable r
  | c :: s' => matches (deriv c r) s'
  end.
