(* Proofs about the two-word operators (Lang/WordOps.v): every spelling of an operator token - any
   letter case, any white space the token rule allows between `not` and the operator word - is
   accepted by the token rule as transcribed in LexerFull.full_table, and the listener's test
   [op_negated] answers exactly "the spelling has the `not`".  The letter-case part is a finite
   domain (2^length spellings, enumerated by [spellings] and checked by computation); the white
   space part is by induction on the run. *)
From Coq Require Import List NArith Bool Arith Lia.
From Storage Require Import Base.Bytes Lang.Tokens Lang.Regex Lang.LexerFull Lang.BoolSurface Lang.LexerProofs Lang.WordOps.
Import ListNotations.

(* ---- spellings enumerates spells_word ---- *)
Lemma spells_word_in : forall ls w, spells_word ls w -> In w (spellings ls).
Proof.
  intros ls w H. induction H as [|l ls c cs Hc Hs IH]; simpl.
  - left; reflexivity.
  - apply in_or_app. destruct Hc as [-> | ->]; [left|right]; apply in_map; exact IH.
Qed.

Lemma forallb_spellings : forall (p : str -> bool) ls w,
  forallb p (spellings ls) = true -> spells_word ls w -> p w = true.
Proof.
  intros p ls w H Hs. rewrite forallb_forall in H. apply H. apply spells_word_in. exact Hs.
Qed.

(* ---- white-space runs ---- *)
Definition ws_chars : list byte := [32; 10; 9; 13]%N.

Lemma is_ws_in : forall c, is_ws c = true -> In c ws_chars.
Proof. intros c H. destruct (is_ws_cases c H) as [-> | [-> | [-> | ->]]]; simpl; tauto. Qed.

Lemma ws_run_shape : forall m r, ws_run m r ->
  exists c r', r = c :: r' /\ is_ws c = true /\ forallb is_ws r' = true /\ (m = false -> r' = []).
Proof.
  intros m r H. induction H as [many c Hc | c r Hc Hr IH].
  - exists c, []. repeat split; auto.
  - destruct IH as [c' [r' [-> [Hc' [Hr' _]]]]]. exists c, (c' :: r'). repeat split; auto.
    + simpl. rewrite Hc', Hr'. reflexivity.
    + discriminate.
Qed.

(* ---- derivatives along a string ---- *)
Definition derivs (s : str) (r : re) : re := fold_left (fun r c => deriv c r) s r.

Lemma matches_derivs : forall a b r, matches r (a ++ b) = matches (derivs a r) b.
Proof. induction a as [|c a IH]; intros b r; simpl; [reflexivity|]. apply IH. Qed.

Lemma derivs_app : forall a b r, derivs (a ++ b) r = derivs b (derivs a r).
Proof. intros. unfold derivs. apply fold_left_app. Qed.

Lemma derivs_loop : forall L r, (forall c, In c ws_chars -> deriv c L = L) ->
  forallb is_ws r = true -> derivs r L = L.
Proof.
  intros L r HL. induction r as [|c r IH]; intros H; [reflexivity|].
  simpl in H. apply andb_true_iff in H. destruct H as [Hc Hr].
  simpl. rewrite (HL c (is_ws_in c Hc)). apply IH. exact Hr.
Qed.

(* the generic step: R the token rule, L its state after `not` and one WS character *)
Lemma matches_negated : forall R L letters many,
  (forall n c, In n (spellings kw_not) -> In c ws_chars -> derivs (n ++ [c]) R = L) ->
  (many = true -> forall c, In c ws_chars -> deriv c L = L) ->
  forallb (matches L) (spellings letters) = true ->
  forall n r w, spells_word kw_not n -> ws_run many r -> spells_word letters w ->
    matches R (n ++ r ++ w) = true.
Proof.
  intros R L letters many H1 H2 H3 n r w Hn Hr Hw.
  destruct (ws_run_shape many r Hr) as [c [r' [-> [Hc [Hr' Hone]]]]].
  replace (n ++ (c :: r') ++ w) with ((n ++ [c]) ++ r' ++ w) by (rewrite <- app_assoc; reflexivity).
  rewrite matches_derivs. rewrite (H1 n c (spells_word_in _ _ Hn) (is_ws_in c Hc)).
  rewrite matches_derivs.
  destruct many.
  - rewrite (derivs_loop L r' (H2 eq_refl) Hr'). apply (forallb_spellings _ _ _ H3 Hw).
  - rewrite (Hone eq_refl). simpl. apply (forallb_spellings _ _ _ H3 Hw).
Qed.

(* the state of a rule after  not<blank> *)
Definition after_not (o : wordop) : re := derivs [110; 111; 116; 32]%N (wordop_re o).

Ltac all_not_ws :=
  intros n c Hn Hc; simpl in Hn, Hc;
  repeat (destruct Hn as [<- | Hn]; [repeat (destruct Hc as [<- | Hc]; [vm_compute; reflexivity|]); contradiction|]);
  contradiction.

Ltac all_ws :=
  intros _ c Hc; simpl in Hc;
  repeat (destruct Hc as [<- | Hc]; [vm_compute; reflexivity|]); contradiction.

Lemma negated_matches : forall o n r w, In o word_ops ->
  spells_word kw_not n -> ws_run (wo_many o) r -> spells_word (wo_letters o) w ->
  matches (wordop_re o) (n ++ r ++ w) = true.
Proof.
  intros o n r w Ho. revert n r w. simpl in Ho. destruct Ho as [<- | [<- | [<- | [<- | []]]]].
  - apply (matches_negated _ (after_not wo_contains) _ true); [all_not_ws|all_ws|vm_compute; reflexivity].
  - apply (matches_negated _ (after_not wo_icontains) _ true); [all_not_ws|all_ws|vm_compute; reflexivity].
  - apply (matches_negated _ (after_not wo_in) _ false); [all_not_ws|discriminate|vm_compute; reflexivity].
  - apply (matches_negated _ (after_not wo_between) _ true); [all_not_ws|all_ws|vm_compute; reflexivity].
Qed.

Lemma plain_matches : forall o w, In o word_ops -> spells_word (wo_letters o) w -> matches (wordop_re o) w = true.
Proof.
  intros o w Ho. simpl in Ho.
  destruct Ho as [<- | [<- | [<- | [<- | []]]]]; apply forallb_spellings; vm_compute; reflexivity.
Qed.

(* ---- the listener's test ---- *)
Lemma has_prefix_app_self : forall p x, has_prefix p (p ++ x) = true.
Proof. induction p as [|c p IH]; intros x; simpl; [reflexivity|]. rewrite N.eqb_refl. apply IH. Qed.

Lemma contains_sub_prefix : forall p s, has_prefix p s = true -> contains_sub p s = true.
Proof. intros p s H. destruct s; simpl; simpl in H; rewrite H; reflexivity. Qed.

Lemma lower_of_not : forall n, spells_word kw_not n -> map to_lower n = kw_not.
Proof.
  intros n H. apply spells_word_cases3 in H. destruct H as [x [y [z [-> [Hx [Hy Hz]]]]]].
  destruct Hx as [-> | ->], Hy as [-> | ->], Hz as [-> | ->]; vm_compute; reflexivity.
Qed.

Lemma negated_detected : forall n rest, spells_word kw_not n -> op_negated (n ++ rest) = true.
Proof.
  intros n rest H. unfold op_negated. rewrite map_app, (lower_of_not n H).
  apply contains_sub_prefix. apply has_prefix_app_self.
Qed.

Lemma plain_not_detected : forall o w, In o word_ops -> spells_word (wo_letters o) w -> op_negated w = false.
Proof.
  intros o w Ho Hw. apply negb_true_iff. revert Hw. simpl in Ho.
  destruct Ho as [<- | [<- | [<- | [<- | []]]]];
    apply (forallb_spellings (fun w => negb (op_negated w))); vm_compute; reflexivity.
Qed.

Lemma wordop_rule_in_table : forall o, In o word_ops -> In (wo_kind o, wordop_re o) full_table.
Proof.
  intros o Ho. simpl in Ho. unfold full_table.
  destruct Ho as [<- | [<- | [<- | [<- | []]]]]; repeat (try (left; reflexivity); right).
Qed.

Lemma wordop_norm : forall o text, In o word_ops ->
  norm_tok (wo_kind o) text = Some (wo_kind o, [], op_negated text).
Proof.
  intros o text Ho. simpl in Ho. destruct Ho as [<- | [<- | [<- | [<- | []]]]]; reflexivity.
Qed.

Lemma wordop_spelling_lemma : forall o neg cs, In o word_ops -> spells_wordop o neg cs ->
  In (wo_kind o, wordop_re o) full_table /\ matches (wordop_re o) cs = true /\
  op_negated cs = neg /\ norm_tok (wo_kind o) cs = Some (wo_kind o, [], neg).
Proof.
  intros o neg cs Ho H. split; [apply wordop_rule_in_table; exact Ho|].
  rewrite (wordop_norm o cs Ho).
  inversion H as [w Hw | n r w Hn Hr Hw]; subst.
  - rewrite (plain_matches o cs Ho Hw), (plain_not_detected o cs Ho Hw). auto.
  - rewrite (negated_matches o n r w Ho Hn Hr Hw), (negated_detected n (r ++ w) Hn). auto.
Qed.

(* any two spellings of one operator (same negation) are the same token to the listener *)
Lemma wordop_respelling_lemma : forall o neg cs cs', In o word_ops ->
  spells_wordop o neg cs -> spells_wordop o neg cs' ->
  norm_tok (wo_kind o) cs = norm_tok (wo_kind o) cs' /\ op_negated cs = op_negated cs'.
Proof.
  intros o neg cs cs' Ho H H'.
  destruct (wordop_spelling_lemma o neg cs Ho H) as [_ [_ [E1 E2]]].
  destruct (wordop_spelling_lemma o neg cs' Ho H') as [_ [_ [E1' E2']]].
  rewrite E1, E1', E2, E2'. auto.
Qed.

(* ---- plain keywords: the normal form is the lower-case word ---- *)
Lemma to_lower_case_of : forall l c, is_lower l = true -> case_of l c -> to_lower c = l.
Proof. intros l c Hl H. apply N.eqb_eq. apply (case_of_ci l c Hl H). Qed.

Lemma lower_of_spelling : forall ls cs, forallb is_lower ls = true -> spells_word ls cs -> map to_lower cs = ls.
Proof.
  intros ls cs Hl H. induction H as [|l ls c cs Hc Hs IH]; [reflexivity|].
  simpl in Hl. apply andb_true_iff in Hl. destruct Hl as [Hl Hls].
  simpl. rewrite (to_lower_case_of l c Hl Hc), (IH Hls). reflexivity.
Qed.

Lemma keyword_norm_lemma : forall k letters cs, kind_in k keyword_kinds = true ->
  forallb is_lower letters = true -> spells_word letters cs -> norm_tok k cs = Some (k, letters, false).
Proof.
  intros k letters cs Hk Hl Hs. unfold kind_in in Hk. apply existsb_exists in Hk.
  destruct Hk as [k' [Hin Hk]]. apply Nat.eqb_eq in Hk. subst k'.
  rewrite <- (lower_of_spelling letters cs Hl Hs).
  simpl in Hin. repeat (destruct Hin as [<- | Hin]; [reflexivity|]). contradiction.
Qed.
