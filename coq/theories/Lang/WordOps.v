(* The two-word operators of ZitiQl (not in / not between / not contains / not icontains) and the
   normal form of a token stream up to spelling.  Model only, no proofs.

   The four token rules
       CONTAINS: (N O T WS+)? C O N T A I N S;     ICONTAINS: (N O T WS+)? I C O N T A I N S;
       IN: (N O T WS)? I N;                        BETWEEN: (N O T WS+)? B E T W E E N;
   make the optional `not` PART OF THE OPERATOR TOKEN, together with the white space that follows it.
   ast/bolt_listener.go ToBoltListener.VisitTerminal decides between the operator and its negation
   by looking at the token text:
       case zitiql.ZitiQlLexerBETWEEN:
           if strings.Contains(strings.ToLower(node.GetText()), "not") { push(BinaryOpNotBetween) } else { push(BinaryOpBetween) }
   (the same four times).  [op_negated] is that test.  The text of these tokens consists of ASCII
   letters and the four WS characters only, so ASCII lower-casing is what strings.ToLower does. *)
From Coq Require Import List NArith Bool Arith.
From Storage Require Import Base.Bytes Lang.Tokens Lang.Regex Lang.LexerFull Lang.BoolSurface.
Import ListNotations.

(* strings.Contains *)
Fixpoint contains_sub (p s : str) : bool :=
  has_prefix p s || match s with [] => false | _ :: s' => contains_sub p s' end.

Definition op_negated (text : str) : bool := contains_sub kw_not (map to_lower text).

(* a reading that is NOT the code's: "the text is  not <one blank> <operator>  in any letter case"
   (strings.EqualFold(text, "not "+op)); kept for the refutation example *)
Definition op_negated_one_blank (letters text : str) : bool := ci_eqb (kw_not ++ [32%N] ++ letters) text.

(* ---- the four operators ---- *)
Record wordop := mkWo { wo_kind : nat; wo_letters : str; wo_many : bool (* WS+ after not (else exactly one WS) *) }.

Definition wo_contains := mkWo K_CONTAINS [99; 111; 110; 116; 97; 105; 110; 115]%N true.
Definition wo_icontains := mkWo K_ICONTAINS [105; 99; 111; 110; 116; 97; 105; 110; 115]%N true.
Definition wo_in := mkWo K_IN [105; 110]%N false.
Definition wo_between := mkWo K_BETWEEN [98; 101; 116; 119; 101; 101; 110]%N true.
Definition word_ops : list wordop := [wo_contains; wo_icontains; wo_in; wo_between].

(* the token rule of the operator, as transcribed in LexerFull.full_table *)
Definition wordop_re (o : wordop) : re :=
  Seq (opt (Seq (kw kw_not) (if wo_many o then plus WSc else WSc))) (kw (wo_letters o)).

(* ---- every spelling of an operator token ----
   plain:    the operator word in any letter case;
   negated:  `not` in any letter case, then white space - any positive number of any of the four WS
             characters, for `in` exactly one - then the operator word in any letter case *)
Inductive ws_run : bool -> str -> Prop :=
| WrOne : forall many c, is_ws c = true -> ws_run many [c]
| WrMore : forall c r, is_ws c = true -> ws_run true r -> ws_run true (c :: r).

Inductive spells_wordop (o : wordop) : bool -> str -> Prop :=
| SwoPlain : forall w, spells_word (wo_letters o) w -> spells_wordop o false w
| SwoNeg : forall n r w, spells_word kw_not n -> ws_run (wo_many o) r -> spells_word (wo_letters o) w ->
    spells_wordop o true (n ++ r ++ w).

(* all letter-case spellings of a lower-case word (finite: 2^length) *)
Fixpoint spellings (letters : str) : list str :=
  match letters with
  | [] => [[]]
  | l :: ls => let r := spellings ls in map (cons l) r ++ map (cons (l - 32)%N) r
  end.

(* ---- normal form of a token up to spelling ----
   what the parser and the listener can depend on when keywords are case-insensitive and white
   space is only a separator:  WS tokens vanish; a word operator keeps its kind and whether it is
   negated; a keyword keeps its kind and its lower-case text (BOOL: true / false); a DATETIME keeps
   its lower-cased text without the optional blanks inside the parentheses; every other token
   (identifier, string, number, punctuation, comparison operator) keeps its exact text. *)
Definition kind_in (k : nat) (ks : list nat) : bool := existsb (Nat.eqb k) ks.

Definition wordop_kinds : list nat := [K_CONTAINS; K_ICONTAINS; K_IN; K_BETWEEN].
Definition keyword_kinds : list nat :=
  [K_AND; K_OR; K_BOOL; K_ALL_OF; K_ANY_OF; K_COUNT; K_ISEMPTY; K_NULL; K_NOT; K_ASC; K_DESC; K_SORT; K_BY;
   K_SKIP_ROWS; K_LIMIT_ROWS; K_NONE; K_WHERE; K_FROM].

Definition norm_tok (k : nat) (text : str) : option (nat * str * bool) :=
  if Nat.eqb k K_WS then None
  else if kind_in k wordop_kinds then Some (k, [], op_negated text)
  else if kind_in k keyword_kinds then Some (k, map to_lower text, false)
  else if Nat.eqb k K_DATETIME then Some (k, filter (fun c => negb (is_ws c)) (map to_lower text), false)
  else Some (k, text, false).

Fixpoint norm (l : list seg) : list (nat * str * bool) :=
  match l with
  | [] => []
  | Tok k t :: r => match norm_tok k t with Some x => x :: norm r | None => norm r end
  | Drop _ :: r => norm r
  end.

(* the negation flags of the word-operator tokens, in order *)
Fixpoint neg_flags (l : list seg) : list bool :=
  match l with
  | [] => []
  | Tok k t :: r => if kind_in k wordop_kinds then op_negated t :: neg_flags r else neg_flags r
  | Drop _ :: r => neg_flags r
  end.

Definition norm_full (s : str) : list (nat * str * bool) := norm (lex_full s).
