(* Model of the evaluation of a filter with SEVERAL string comparisons - joined by and / or / not, over plain
   fields, string sets (anyOf / allOf) and inside sub-queries (isEmpty / count over `from <set> where <filter>`) -
   from the token texts to the boolean, with the identity of the constant nodes made explicit:

       ast/bolt_listener.go  VisitTerminal, STRING:  bl.pushStack(&StringConstNode{value: ParseZqlString(text)})
                                                     - a NEW node for every literal occurrence;
                             ExitStringArray:        pops the nodes of the list literals into
                                                     StringArrayNode.values (the nodes themselves, last first)
       ast/node_convert.go   getTypedExpr / handleStringOps / handleCaseInsensitive / toUpper:
                             icontains gets  &StringConstNode{value: strings.ToUpper(right.String())}
                             - a NEW node again; no existing node is written to
       ast/node_expr.go      BinaryStringExprNode.EvalBool / EvalBoolWithSeek, InStringArrayExprNode.EvalBool
       ast/node_set.go       AnyOfSetExprNode (seek short-cut for  anyOf(set) = const), AllOfSetExprNode,
                             IsEmptySetExprNode / CountSetExprNode with a sub-query

   [heap] is the list of the StringConstNode values in allocation order, a [cref] the index of a node.  The
   listener pass ([listen_atom], in token order) and the typing pass ([type_atom], afterwards, over the whole
   tree) thread the heap; evaluation reads it.  That no pass writes to an existing node is what makes a literal
   occurrence denote its own string whatever else the filter contains (Lang/StrFilterProofs.v).
   Model only: no proofs in this file. *)
From Coq Require Import List NArith Bool.
From Storage Require Import Base.Bytes Lang.Tokens Lang.Unescape Lang.BoolSurface Lang.WordOps Lang.StrCompare.
Import ListNotations.
Open Scope N_scope.

(* ---- rows ---- *)
Inductive sfield := FName | FDescr.
Record row := mkRow {
  r_name : stored;
  r_descr : stored;
  r_tags : list str;      (* elements of a string set, in the order of its cursor (ascending, no duplicates) *)
  r_peers : list str      (* the `name` of each entity of an fk set *)
}.
Definition field_value (f : sfield) (r : row) : stored := match f with FName => r_name r | FDescr => r_descr r end.
(* the row a sub-query  from peers where ..  evaluates its filter on *)
Definition peer_row (n : str) : row := mkRow (Some n) None [] [].

(* ---- filters ---- *)
Inductive lhs := LField (f : sfield) | LAnyTags | LAllTags | LAnyPeerNames.
Inductive subfn := SubNotEmpty | SubEmpty | SubCountPos.
    (* not isEmpty(from peers where F) | isEmpty(from peers where F) | count(from peers where F) > 0 *)

Inductive filter (A : Type) : Type :=
| FConst (b : bool)
| FAtom (l : lhs) (a : A)
| FAnd (f g : filter A)
| FOr (f g : filter A)
| FNot (f : filter A)
| FSub (fn : subfn) (f : filter A).
Arguments FConst {A}. Arguments FAtom {A}. Arguments FAnd {A}. Arguments FOr {A}. Arguments FNot {A}. Arguments FSub {A}.

Fixpoint fmap {A B} (g : A -> B) (f : filter A) : filter B :=
  match f with
  | FConst b => FConst b
  | FAtom l a => FAtom l (g a)
  | FAnd f1 f2 => FAnd (fmap g f1) (fmap g f2)
  | FOr f1 f2 => FOr (fmap g f1) (fmap g f2)
  | FNot f1 => FNot (fmap g f1)
  | FSub fn f1 => FSub fn (fmap g f1)
  end.

(* a pass over the comparisons in token order (left to right) that threads a state *)
Fixpoint fmap_st {A B S} (g : A -> S -> B * S) (f : filter A) (s : S) : filter B * S :=
  match f with
  | FConst b => (FConst b, s)
  | FAtom l a => let (b, s1) := g a s in (FAtom l b, s1)
  | FAnd f1 f2 => let (t1, s1) := fmap_st g f1 s in let (t2, s2) := fmap_st g f2 s1 in (FAnd t1 t2, s2)
  | FOr f1 f2 => let (t1, s1) := fmap_st g f1 s in let (t2, s2) := fmap_st g f2 s1 in (FOr t1 t2, s2)
  | FNot f1 => let (t1, s1) := fmap_st g f1 s in (FNot t1, s1)
  | FSub fn f1 => let (t1, s1) := fmap_st g f1 s in (FSub fn t1, s1)
  end.

(* evaluation, given what a comparison does on one stored value ([pred]) and, when it is an equality with a
   constant, that constant ([target]: the seek short-cut of  anyOf(set) = const ) *)
Definition lhs_eval {A} (pred : A -> stored -> bool) (target : A -> option str) (l : lhs) (a : A) (r : row) : bool :=
  match l with
  | LField f => pred a (field_value f r)
  | LAnyTags =>
      match target a with
      | Some v => match seek v (r_tags r) with Some k => pred a (Some k) | None => false end
      | None => any_of (pred a) (r_tags r)
      end
  | LAllTags => all_of (pred a) (r_tags r)
  | LAnyPeerNames => any_of (pred a) (r_peers r)
  end.

Fixpoint eval_filter {A} (pred : A -> stored -> bool) (target : A -> option str) (f : filter A) (r : row) : bool :=
  match f with
  | FConst b => b
  | FAtom l a => lhs_eval pred target l a r
  | FAnd f1 f2 => eval_filter pred target f1 r && eval_filter pred target f2 r
  | FOr f1 f2 => eval_filter pred target f1 r || eval_filter pred target f2 r
  | FNot f1 => negb (eval_filter pred target f1 r)
  | FSub fn f1 =>
      let some := existsb (fun n => eval_filter pred target f1 (peer_row n)) (r_peers r) in
      match fn with SubEmpty => negb some | _ => some end
  end.

(* ---- comparisons as token texts ---- *)
Inductive atom :=
| ACmp (op : sop) (lit : str)            (* = != < <= > >= *)
| AContains (tok lit : str)              (* operator token (with its optional not), literal token *)
| AIContains (tok lit : str)
| AIn (tok : str) (lits : list str).

(* the comparison on its own: Lang/StrCompare.v *)
Definition atom_pred (a : atom) : stored -> bool :=
  match a with
  | ACmp op lit => cmp_query op lit
  | AContains tok lit => contains_query tok lit
  | AIContains tok lit => icontains_query tok lit
  | AIn tok lits => in_query tok lits
  end.
Definition atom_target (a : atom) : option str :=
  match a with ACmp SEq lit => Some (parse_zql_string lit) | _ => None end.

(* ---- constant nodes ---- *)
Definition heap := list str.
Definition cref := nat.
Definition deref (h : heap) (c : cref) : str := nth c h [].
Definition alloc (v : str) (h : heap) : cref * heap := (length h, h ++ [v]).
Fixpoint alloc_all (vs : list str) (h : heap) : list cref * heap :=
  match vs with
  | [] => ([], h)
  | v :: vs' => let (c, h1) := alloc v h in let (cs, h2) := alloc_all vs' h1 in (c :: cs, h2)
  end.

(* what the listener leaves for a comparison: the operator (token) and the node of the literal operand *)
Inductive uatom :=
| UCmp (op : sop) (c : cref)
| UContains (tok : str) (c : cref)
| UIContains (tok : str) (c : cref)
| UIn (tok : str) (cs : list cref).

Definition listen_atom (a : atom) (h : heap) : uatom * heap :=
  match a with
  | ACmp op lit => let (c, h1) := alloc (parse_zql_string lit) h in (UCmp op c, h1)
  | AContains tok lit => let (c, h1) := alloc (parse_zql_string lit) h in (UContains tok c, h1)
  | AIContains tok lit => let (c, h1) := alloc (parse_zql_string lit) h in (UIContains tok c, h1)
  | AIn tok lits => let (cs, h1) := alloc_all (map parse_zql_string lits) h in (UIn tok (rev cs), h1)
  end.

(* typed comparison: BinaryStringExprNode{left (wrapped in toUpper or not), right: constant node, op} or
   InStringArrayExprNode (under a NotExprNode for `not in`) *)
Inductive tatom :=
| TBin (op : sop) (upper_left : bool) (c : cref)
| TIn (neg : bool) (cs : list cref).

Definition type_atom (u : uatom) (h : heap) : tatom * heap :=
  match u with
  | UCmp op c => (TBin op false c, h)
  | UContains tok c => (TBin (if op_negated tok then SNotContains else SContains) false c, h)
  | UIContains tok c =>
      let (c1, h1) := alloc (map to_upper (deref h c)) h in
      (TBin (if op_negated tok then SNotContains else SContains) true c1, h1)
  | UIn tok cs => (TIn (op_negated tok) cs, h)
  end.

Definition tatom_pred (h : heap) (t : tatom) (x : stored) : bool :=
  match t with
  | TBin op up c =>
      let v := row_eval_string x in
      binary_string_eval op (if up then option_map (map to_upper) v else v) (Some (deref h c))
  | TIn neg cs =>      (* InStringArrayExprNode.EvalBool evaluates the nodes of the list on every row *)
      let r := in_string_array_eval (row_eval_string x) (map (deref h) cs) in if neg then negb r else r
  end.
Definition tatom_target (h : heap) (t : tatom) : option str :=
  match t with TBin SEq false c => Some (deref h c) | _ => None end.

(* ast.Parse (a fresh listener, hence an empty heap, per filter) followed by the evaluation on a row *)
Definition filter_query (f : filter atom) (r : row) : bool :=
  let (u, h1) := fmap_st listen_atom f [] in
  let (t, h2) := fmap_st type_atom u h1 in
  eval_filter (tatom_pred h2) (tatom_target h2) t r.

(* ---- what the property demands: every comparison with the string its literal was written for ---- *)
Inductive vatom :=
| VCmp (op : sop) (s : str)
| VContains (neg : bool) (s : str)
| VIContains (neg : bool) (s : str)
| VIn (neg : bool) (vals : list str).

Definition vatom_pred (v : vatom) (c : stored) : bool :=
  match c with
  | Some x =>
      match v with
      | VCmp op s => spec_cmp op x s
      | VContains neg s => xorb neg (contains_sub s x)
      | VIContains neg s => xorb neg (contains_sub (map to_upper s) (map to_upper x))
      | VIn neg vals => xorb neg (existsb (str_eqb x) vals)
      end
  | None =>       (* a row without a value: equals, contains, is in nothing *)
      match v with
      | VCmp SNeq _ | VCmp SNotContains _ => true
      | VCmp _ _ => false
      | VContains neg _ | VIContains neg _ | VIn neg _ => neg
      end
  end.
Definition no_target {A} (_ : A) : option str := None.
Definition spec_filter (vf : filter vatom) (r : row) : bool := eval_filter vatom_pred no_target vf r.

(* writing a filter: each string as a literal, the operators in their plain spelling *)
Definition word_tok (o : wordop) (neg : bool) : str :=
  if neg then kw_not ++ [32] ++ wo_letters o else wo_letters o.
Definition write_atom (lit : str -> str) (v : vatom) : atom :=
  match v with
  | VCmp op s => ACmp op (lit s)
  | VContains neg s => AContains (word_tok wo_contains neg) (lit s)
  | VIContains neg s => AIContains (word_tok wo_icontains neg) (lit s)
  | VIn neg vals => AIn (word_tok wo_in neg) (map lit vals)
  end.

(* ---- a reading that is NOT the code's (kept for the refutation example): the listener keeps one node per
   literal token text and the typing of icontains upper-cases the operand node in place ---- *)
Fixpoint find_const (text : str) (tbl : list (str * cref)) : option cref :=
  match tbl with
  | [] => None
  | (t, c) :: r => if str_eqb t text then Some c else find_const text r
  end.
Definition shared_state := (heap * list (str * cref))%type.
Definition intern (text : str) (s : shared_state) : cref * shared_state :=
  let (h, tbl) := s in
  match find_const text tbl with
  | Some c => (c, s)
  | None => let (c, h1) := alloc (parse_zql_string text) h in (c, (h1, (text, c) :: tbl))
  end.
Fixpoint intern_all (texts : list str) (s : shared_state) : list cref * shared_state :=
  match texts with
  | [] => ([], s)
  | t :: ts => let (c, s1) := intern t s in let (cs, s2) := intern_all ts s1 in (c :: cs, s2)
  end.
Definition listen_atom_shared (a : atom) (s : shared_state) : uatom * shared_state :=
  match a with
  | ACmp op lit => let (c, s1) := intern lit s in (UCmp op c, s1)
  | AContains tok lit => let (c, s1) := intern lit s in (UContains tok c, s1)
  | AIContains tok lit => let (c, s1) := intern lit s in (UIContains tok c, s1)
  | AIn tok lits => let (cs, s1) := intern_all lits s in (UIn tok (rev cs), s1)
  end.
Fixpoint set_nth (c : cref) (v : str) (h : heap) : heap :=
  match h, c with
  | [], _ => []
  | _ :: r, O => v :: r
  | x :: r, S c' => x :: set_nth c' v r
  end.
Definition type_atom_inplace (u : uatom) (h : heap) : tatom * heap :=
  match u with
  | UIContains tok c =>
      (TBin (if op_negated tok then SNotContains else SContains) true c, set_nth c (map to_upper (deref h c)) h)
  | _ => type_atom u h
  end.
Definition filter_query_shared_consts (f : filter atom) (r : row) : bool :=
  let (u, s1) := fmap_st listen_atom_shared f ([], []) in
  let (t, h2) := fmap_st type_atom_inplace u (fst s1) in
  eval_filter (tatom_pred h2) (tatom_target h2) t r.
