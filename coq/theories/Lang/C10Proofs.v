(* Proofs for Properties/C10.v (language / glue part). *)
From Coq Require Import List NArith Bool Arith Lia.
From Storage Require Import Base.Bytes Lang.Tokens Lang.Lexer Lang.Regex Lang.LexerFull Lang.LexerProofs Lang.Glue.
Import ListNotations.

Lemma drops_length_zero : forall (l : list seg), length (drops_of l) = 0 -> drops_of l = [].
Proof. intros l H. destruct (drops_of l); [reflexivity|discriminate]. Qed.

Lemma texts_without_drops : forall l, drops_of l = [] ->
  concat (map snd (tokens_of l)) = concat (map seg_text l).
Proof.
  induction l as [|s l IH]; intros H; [reflexivity|].
  destruct s as [k t|t]; simpl in *.
  - rewrite IH; auto.
  - discriminate.
Qed.

Section WithParser.
  Variable Q : Type.
  Variable parser : list (nat * str) -> nat * option Q.

  Lemma lexer_error_rejects_lemma : forall s,
    drops_of (lex_full s) <> [] -> parse_glue Q parser fixed_glue s = Rejected.
  Proof.
    intros s H. unfold parse_glue. simpl.
    destruct (parser (tokens_of (lex_full s))) as [pe q].
    destruct (length (drops_of (lex_full s))) eqn:E.
    - exfalso. apply H. apply drops_length_zero. exact E.
    - simpl. reflexivity.
  Qed.

  Lemma accepted_unaltered_lemma : forall s q,
    parse_glue Q parser fixed_glue s = Accepted q ->
    drops_of (lex_full s) = [] /\
    concat (map snd (tokens_of (lex_full s))) = s /\
    parser (tokens_of (lex_full s)) = (0, Some q).
  Proof.
    intros s q H. unfold parse_glue in H. simpl in H.
    destruct (parser (tokens_of (lex_full s))) as [pe r] eqn:Ep.
    destruct (length (drops_of (lex_full s))) eqn:E.
    - simpl in H. destruct pe; simpl in H; [|discriminate].
      destruct r; inversion H; subst.
      pose proof (drops_length_zero _ E) as Hd. repeat split; auto.
      rewrite texts_without_drops; auto. apply lex_partition.
    - simpl in H. discriminate.
  Qed.

  Lemma glue_no_panic_lemma : forall s, parse_glue Q parser fixed_glue s <> Panicked.
  Proof.
    intros s. unfold parse_glue. simpl.
    destruct (parser (tokens_of (lex_full s))) as [pe r].
    destruct (Nat.eqb _ 0); [destruct r|]; discriminate.
  Qed.
End WithParser.

Lemma lexer_partition_lemma : forall s, concat (map seg_text (lex_full s)) = s.
Proof. intros. apply lex_partition. Qed.

(* a dropped region is never empty: something of the input really vanished *)
Lemma lex_fuel_drops_nonempty : forall rs f s t, In (Drop t) (lex_fuel rs f s) -> t <> [].
Proof.
  induction f as [|f IH]; intros s t H; simpl in H; [contradiction|].
  destruct s as [|c s']; [contradiction|].
  destruct (best rs (c :: s') None 0) as [[[k l]|] v].
  - destruct H as [H|H]; [discriminate|]. eapply IH; eauto.
  - destruct H as [H|H]; [|eapply IH; eauto]. inversion H; subst. simpl. discriminate.
Qed.

Lemma drops_nonempty_lemma : forall s t, In t (drops_of (lex_full s)) -> t <> [].
Proof.
  intros s t H. unfold drops_of in H. apply in_flat_map in H. destruct H as [sg [Hin Ht]].
  destruct sg as [k x|x]; simpl in Ht; [contradiction|]. destruct Ht as [<-|[]].
  eapply lex_fuel_drops_nonempty. exact Hin.
Qed.
