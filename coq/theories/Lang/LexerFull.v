(* The complete token rule set of zitiql/ZitiQl.g4, transcribed rule by rule as regular
   expressions (fragments inlined), in grammar order - the order decides ties - and the model of
   the real lexer obtained by running the lexer loop of Lexer.v on it.  Model only, no proofs.
   Characters are Unicode code points (the Go runtime lexes []rune(input)). *)
From Coq Require Import List NArith Bool Arith.
From Storage Require Import Base.Bytes Lang.Tokens Lang.Lexer Lang.Regex.
Import ListNotations.
Open Scope N_scope.

(* fragments *)
Definition WSc : re := set [(32, 32); (10, 10); (9, 9); (13, 13)].          (* WS: [ \n\t\r]; *)
Definition DIGIT : re := rng 48 57.
Definition INT : re := Alt (ch 48) (Seq (rng 49 57) (Star DIGIT)).           (* '0' | [1-9] [0-9]* *)
Definition EXP : re := seqs [set [(69, 69); (101, 101)]; opt (set [(43, 43); (45, 45)]); INT].  (* [Ee] [+\-]? INT *)
Definition ESC : re := Seq (ch 92) (set [(34, 34); (92, 92); (102, 102); (110, 110); (114, 114); (116, 116)]).
Definition SAFECODEPOINT : re := nset [(34, 34); (92, 92); (0, 31)].         (* anything but dquote, backslash, U+0000-U+001F *)
Definition LETTER : re := set [(65, 90); (97, 122)].
Definition IDCH : re := set [(65, 90); (97, 122); (95, 95)].                  (* [A-Za-z_] *)
Definition IDCHD : re := set [(65, 90); (97, 122); (95, 95); (45, 45)].       (* [A-Za-z_\-] *)
Definition NOTWS_plus : re := Seq (kw [110; 111; 116]) (plus WSc).            (* N O T WS+ *)

Definition YEAR : re := plus INT.
Definition MONTH : re := Alt (Seq (ch 48) (rng 49 57)) (Seq (ch 49) (set [(48, 50)])).
Definition DAY : re := alts [Seq (ch 48) (rng 49 57); Seq (set [(49, 50)]) DIGIT; Seq (ch 51) (set [(48, 49)])].
Definition HOUR : re := Alt (Seq (set [(48, 49)]) DIGIT) (Seq (ch 50) (set [(48, 51)])).
Definition MINUTE : re := Seq (set [(48, 53)]) DIGIT.
Definition SECOND : re := Alt (Seq (set [(48, 53)]) DIGIT) (lit [54; 48]).
Definition TIME_NUM_OFFSET : re :=
  Alt (ci 122) (seqs [set [(43, 43); (45, 45)]; HOUR; ch 58; MINUTE]).
Definition FULL_DATE : re := seqs [YEAR; ch 45; MONTH; ch 45; DAY].
Definition FULL_TIME : re := seqs [HOUR; ch 58; MINUTE; ch 58; SECOND; opt (Seq (ch 46) (plus DIGIT)); TIME_NUM_OFFSET].
Definition RFC3339 : re := seqs [FULL_DATE; ci 116; FULL_TIME].

Definition IDENT_BODY : re :=
  seqs [LETTER; Star IDCH; Star (seqs [ch 46; LETTER; Star IDCHD])].

(* the token rules: (token type, rule) *)
Definition full_table : list (nat * re) :=
  [ (K_COMMA, ch 44);                                                         (* T__0: ',' *)
    (K_WS, WSc);
    (K_LPAREN, ch 40);
    (K_RPAREN, ch 41);
    (K_LBRACKET, ch 91);
    (K_RBRACKET, ch 93);
    (K_AND, kw [97; 110; 100]);
    (K_OR, kw [111; 114]);
    (K_LT, Seq (ch 60) (opt (ch 61)));                                        (* '<' '='? *)
    (K_GT, Seq (ch 62) (opt (ch 61)));
    (K_EQ, Seq (opt (ch 33)) (ch 61));                                        (* '!'? '=' *)
    (K_CONTAINS, Seq (opt NOTWS_plus) (kw [99; 111; 110; 116; 97; 105; 110; 115]));
    (K_ICONTAINS, Seq (opt NOTWS_plus) (kw [105; 99; 111; 110; 116; 97; 105; 110; 115]));
    (K_IN, Seq (opt (Seq (kw [110; 111; 116]) WSc)) (kw [105; 110]));         (* (N O T WS)? I N *)
    (K_BETWEEN, Seq (opt NOTWS_plus) (kw [98; 101; 116; 119; 101; 101; 110]));
    (K_BOOL, Alt (kw [116; 114; 117; 101]) (kw [102; 97; 108; 115; 101]));
    (K_DATETIME, seqs [lit [100; 97; 116; 101; 116; 105; 109; 101; 40]; Star WSc; RFC3339; Star WSc; ch 41]);
    (K_ALL_OF, kw [97; 108; 108; 111; 102]);
    (K_ANY_OF, kw [97; 110; 121; 111; 102]);
    (K_COUNT, kw [99; 111; 117; 110; 116]);
    (K_ISEMPTY, kw [105; 115; 101; 109; 112; 116; 121]);
    (K_STRING, seqs [ch 34; Star (Alt ESC SAFECODEPOINT); ch 34]);
    (K_NUMBER, seqs [opt (ch 45); INT; opt (Seq (ch 46) (plus DIGIT)); opt EXP]);
    (K_NULL, kw [110; 117; 108; 108]);
    (K_NOT, kw [110; 111; 116]);
    (K_ASC, kw [97; 115; 99]);
    (K_DESC, kw [100; 101; 115; 99]);
    (K_SORT, kw [115; 111; 114; 116]);
    (K_BY, kw [98; 121]);
    (K_SKIP_ROWS, kw [115; 107; 105; 112]);
    (K_LIMIT_ROWS, kw [108; 105; 109; 105; 116]);
    (K_NONE, kw [110; 111; 110; 101]);
    (K_WHERE, kw [119; 104; 101; 114; 101]);
    (K_FROM, kw [102; 114; 111; 109]);
    (K_IDENTIFIER, Alt IDENT_BODY (seqs [ch 39; IDENT_BODY; ch 39]));
    (K_RFC3339_DATE_TIME, RFC3339) ].
Close Scope N_scope.

Definition full_rules : list rule := map (fun kr => mkRule (fst kr) (scan_regex (snd kr))) full_table.

Definition lex_full (s : str) : list seg := lex full_rules s.
