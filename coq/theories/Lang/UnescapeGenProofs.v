(* The generic semantics instantiated with the pairs / body the model expects IS the model
   Lang/Unescape.parse_zql_string. *)
From Coq Require Import List NArith Bool Lia.
From Storage Require Import Base.Bytes Base.BytesFacts Lang.Unescape Lang.UnescapeGen.
Import ListNotations.
Open Scope N_scope.

Definition expected_pairs : list (str * str) :=
  [([BS; BS], [BS]); ([BS; DQ], [DQ]); ([BS; ch_f], [FF]); ([BS; ch_n], [LF]); ([BS; ch_r], [CR]); ([BS; ch_t], [TAB])].
Definition expected_body : list step := [STrimPrefix [DQ]; STrimSuffix [DQ]; SReplacer].

Lemma match_pair_expected c d rest :
  match_pair expected_pairs (c :: d :: rest) =
  if c =? BS then match esc_target d with Some x => Some ([x], rest) | None => None end else None.
Proof.
  unfold expected_pairs. cbn [match_pair has_prefix length skipn].
  destruct (c =? BS) eqn:Ec.
  - apply N.eqb_eq in Ec. subst c. replace (BS =? BS) with true by reflexivity. cbn [andb].
    unfold esc_target.
    destruct (d =? BS) eqn:E1; [apply N.eqb_eq in E1; subst d; reflexivity|].
    rewrite (N.eqb_sym BS d), E1. cbn [andb].
    destruct (d =? DQ) eqn:E2; [apply N.eqb_eq in E2; subst d; reflexivity|].
    rewrite (N.eqb_sym DQ d), E2. cbn [andb].
    destruct (d =? ch_f) eqn:E3; [apply N.eqb_eq in E3; subst d; reflexivity|].
    rewrite (N.eqb_sym ch_f d), E3. cbn [andb].
    destruct (d =? ch_n) eqn:E4; [apply N.eqb_eq in E4; subst d; reflexivity|].
    rewrite (N.eqb_sym ch_n d), E4. cbn [andb].
    destruct (d =? ch_r) eqn:E5; [apply N.eqb_eq in E5; subst d; reflexivity|].
    rewrite (N.eqb_sym ch_r d), E5. cbn [andb].
    destruct (d =? ch_t) eqn:E6; [apply N.eqb_eq in E6; subst d; reflexivity|].
    rewrite (N.eqb_sym ch_t d), E6. reflexivity.
  - rewrite (N.eqb_sym BS c), Ec. reflexivity.
Qed.

Lemma match_pair_expected_single c : match_pair expected_pairs [c] = None.
Proof.
  unfold expected_pairs. cbn [match_pair has_prefix]. destruct (BS =? c); reflexivity.
Qed.

Lemma replace_fuel_nil n pairs : replace_fuel n pairs [] = [].
Proof. destruct n; reflexivity. Qed.

Lemma replace_fuel_unescape : forall n s, (length s <= n)%nat -> replace_fuel n expected_pairs s = unescape s.
Proof.
  induction n as [|n IH]; intros s Hlen.
  - destruct s; [reflexivity | cbn in Hlen; lia].
  - destruct s as [|c rest]; [reflexivity|]. cbn [replace_fuel].
    destruct rest as [|d rest'].
    + rewrite match_pair_expected_single, replace_fuel_nil. cbn [unescape]. destruct (c =? BS); reflexivity.
    + rewrite match_pair_expected. cbn [unescape]. destruct (c =? BS) eqn:Ec.
      * destruct (esc_target d) as [x|] eqn:Ed.
        -- cbn [app]. f_equal. apply IH. cbn in Hlen. lia.
        -- f_equal. apply IH. cbn in Hlen. cbn. lia.
      * f_equal. apply IH. cbn in Hlen. cbn. lia.
Qed.

Lemma replace_pairs_unescape s : replace_pairs expected_pairs s = unescape s.
Proof. apply replace_fuel_unescape. lia. Qed.

Lemma trim_prefix_dq_gen s : trim_prefix [DQ] s = trim_prefix_dq s.
Proof.
  unfold trim_prefix, trim_prefix_dq. destruct s as [|c r]; [reflexivity|].
  cbn [has_prefix length skipn]. rewrite (N.eqb_sym DQ c). destruct (c =? DQ); reflexivity.
Qed.

Lemma trim_suffix_dq_snoc s c : s <> [] -> trim_suffix_dq (s ++ [c]) = s ++ trim_suffix_dq [c].
Proof.
  induction s as [|x s IH]; intros Hne; [congruence|].
  destruct s as [|y s'].
  - cbn. reflexivity.
  - change ((x :: y :: s') ++ [c]) with (x :: (y :: s') ++ [c]).
    assert (trim_suffix_dq (x :: (y :: s') ++ [c]) = x :: trim_suffix_dq ((y :: s') ++ [c])) as -> by reflexivity.
    rewrite IH by discriminate. reflexivity.
Qed.

Lemma trim_suffix_dq_gen s : trim_suffix [DQ] s = trim_suffix_dq s.
Proof.
  unfold trim_suffix. change (rev [DQ]) with [DQ]. change (length [DQ]) with 1%nat.
  destruct (rev s) as [|c r] eqn:Er.
  - assert (s = []) as -> by (rewrite <- (rev_involutive s), Er; reflexivity). reflexivity.
  - assert (s = rev r ++ [c]) as -> by (rewrite <- (rev_involutive s), Er; reflexivity).
    cbn [has_prefix skipn]. rewrite andb_true_r, (N.eqb_sym DQ c).
    destruct (rev r) as [|x l] eqn:Err.
    + cbn. destruct (c =? DQ); reflexivity.
    + rewrite trim_suffix_dq_snoc by discriminate. cbn [trim_suffix_dq].
      destruct (c =? DQ); [rewrite app_nil_r; reflexivity | reflexivity].
Qed.

Lemma expected_is_model s : run_body expected_pairs expected_body s = Some (parse_zql_string s).
Proof.
  unfold expected_body, parse_zql_string. cbn [run_body run_step].
  rewrite trim_prefix_dq_gen, trim_suffix_dq_gen, replace_pairs_unescape. reflexivity.
Qed.
