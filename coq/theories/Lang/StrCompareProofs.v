(* Proofs about Lang/StrCompare.v: a comparison with the literal of s behaves, on every stored value,
   as the comparison with s itself - whatever s spells. *)
From Coq Require Import List NArith Bool.
From Storage Require Import Base.Bytes Base.BytesFacts Lang.Tokens Lang.Unescape Lang.UnescapeProofs
  Lang.BoolSurface Lang.WordOps Lang.WordOpsProofs Lang.StrCompare.
Import ListNotations.
Open Scope N_scope.

(* a stored string - the empty one included - is seen by the filter as that string, never as null *)
Lemma row_eval_string_stored x : row_eval_string (Some x) = Some x.
Proof. reflexivity. Qed.

Lemma row_eval_string_absent : row_eval_string None = None.
Proof. reflexivity. Qed.

(* the operand of a comparison is the value of its literal, nothing else *)
Lemma cmp_query_denotes op lit s x :
  parse_zql_string lit = s -> cmp_query op lit (Some x) = spec_cmp op x s.
Proof. intros <-. destruct op; reflexivity. Qed.

Lemma cmp_literal_full_lemma op s x : cmp_query op (literal_full s) (Some x) = spec_cmp op x s.
Proof. apply cmp_query_denotes, parse_literal_full. Qed.

Lemma cmp_literal_min_lemma op s x : cmp_query op (literal_min s) (Some x) = spec_cmp op x s.
Proof. apply cmp_query_denotes, parse_literal_min. Qed.

Lemma eq_literal_full_iff s x : cmp_query SEq (literal_full s) (Some x) = true <-> x = s.
Proof. rewrite cmp_literal_full_lemma. apply str_eqb_eq. Qed.

Lemma neq_literal_full_iff s x : cmp_query SNeq (literal_full s) (Some x) = true <-> x <> s.
Proof. rewrite cmp_literal_full_lemma. cbn. rewrite negb_true_iff. apply str_eqb_neq. Qed.

(* an absent field equals no literal (the empty literal included), is below / above none, contains none *)
Lemma cmp_absent_lemma op lit :
  cmp_query op lit None = match op with SNeq | SNotContains => true | _ => false end.
Proof. destruct op; reflexivity. Qed.

(* ---- in / not in : the negation is a matter of the operator token alone ---- *)
Lemma map_parse_literal_full vals : map parse_zql_string (map literal_full vals) = vals.
Proof. induction vals as [|v vals IH]; cbn [map]; [reflexivity|]. rewrite parse_literal_full, IH. reflexivity. Qed.

Lemma map_parse_literal_min vals : map parse_zql_string (map literal_min vals) = vals.
Proof. induction vals as [|v vals IH]; cbn [map]; [reflexivity|]. rewrite parse_literal_min, IH. reflexivity. Qed.

Lemma wo_in_in : In wo_in word_ops.
Proof. cbn. auto. Qed.
Lemma wo_contains_in : In wo_contains word_ops.
Proof. cbn. auto. Qed.
Lemma wo_icontains_in : In wo_icontains word_ops.
Proof. cbn. auto. Qed.

Lemma in_query_literals_lemma neg tok (lit : str -> str) vals x :
  (forall v, parse_zql_string (lit v) = v) ->
  spells_wordop wo_in neg tok ->
  in_query tok (map lit vals) (Some x) = xorb neg (existsb (str_eqb x) vals).
Proof.
  intros Hl Htok.
  destruct (wordop_spelling_lemma wo_in neg tok wo_in_in Htok) as [_ [_ [Hneg _]]].
  unfold in_query. rewrite Hneg, row_eval_string_stored.
  assert (E : map parse_zql_string (map lit vals) = vals).
  { induction vals as [|v vals IH]; cbn [map]; [reflexivity|]. rewrite Hl, IH. reflexivity. }
  rewrite E. cbn [in_string_array_eval].
  change (fun b : str => str_eqb x b) with (str_eqb x).
  destruct neg, (existsb (str_eqb x) vals); reflexivity.
Qed.

Lemma in_query_full_lemma neg tok vals x :
  spells_wordop wo_in neg tok ->
  in_query tok (map literal_full vals) (Some x) = xorb neg (existsb (str_eqb x) vals).
Proof. apply in_query_literals_lemma, parse_literal_full. Qed.

Lemma in_query_min_lemma neg tok vals x :
  spells_wordop wo_in neg tok ->
  in_query tok (map literal_min vals) (Some x) = xorb neg (existsb (str_eqb x) vals).
Proof. apply in_query_literals_lemma, parse_literal_min. Qed.

Lemma in_query_absent_lemma neg tok lits :
  spells_wordop wo_in neg tok -> in_query tok lits None = neg.
Proof.
  intros Htok. destruct (wordop_spelling_lemma wo_in neg tok wo_in_in Htok) as [_ [_ [Hneg _]]].
  unfold in_query. rewrite Hneg. destruct neg; reflexivity.
Qed.

(* ---- contains / not contains ---- *)
Lemma contains_query_full_lemma neg tok s x :
  spells_wordop wo_contains neg tok ->
  contains_query tok (literal_full s) (Some x) = xorb neg (contains_sub s x).
Proof.
  intros Htok. destruct (wordop_spelling_lemma wo_contains neg tok wo_contains_in Htok) as [_ [_ [Hneg _]]].
  unfold contains_query. rewrite Hneg. destruct neg; rewrite cmp_literal_full_lemma; cbn; destruct (contains_sub s x); reflexivity.
Qed.

Lemma contains_query_min_lemma neg tok s x :
  spells_wordop wo_contains neg tok ->
  contains_query tok (literal_min s) (Some x) = xorb neg (contains_sub s x).
Proof.
  intros Htok. destruct (wordop_spelling_lemma wo_contains neg tok wo_contains_in Htok) as [_ [_ [Hneg _]]].
  unfold contains_query. rewrite Hneg. destruct neg; rewrite cmp_literal_min_lemma; cbn; destruct (contains_sub s x); reflexivity.
Qed.

Lemma icontains_query_full_lemma neg tok s x :
  spells_wordop wo_icontains neg tok ->
  icontains_query tok (literal_full s) (Some x) = xorb neg (contains_sub (map to_upper s) (map to_upper x)).
Proof.
  intros Htok. destruct (wordop_spelling_lemma wo_icontains neg tok wo_icontains_in Htok) as [_ [_ [Hneg _]]].
  unfold icontains_query. rewrite Hneg, parse_literal_full, row_eval_string_stored. cbn [option_map binary_string_eval].
  destruct neg, (contains_sub (map to_upper s) (map to_upper x)); reflexivity.
Qed.

(* ---- set functions ---- *)
Lemma any_of_literal_lemma op s elems :
  any_of (cmp_query op (literal_full s)) elems = existsb (fun e => spec_cmp op e s) elems.
Proof.
  unfold any_of. induction elems as [|e elems IH]; cbn [existsb]; [reflexivity|].
  rewrite cmp_literal_full_lemma, IH. reflexivity.
Qed.

Lemma all_of_literal_lemma op s elems :
  all_of (cmp_query op (literal_full s)) elems = forallb (fun e => spec_cmp op e s) elems.
Proof.
  unfold all_of. induction elems as [|e elems IH]; cbn [forallb]; [reflexivity|].
  rewrite cmp_literal_full_lemma, IH. reflexivity.
Qed.

(* the seek short-cut answers  anyOf(x) = c  exactly as the element-by-element evaluation *)
Lemma str_ltb_not_eq a b : str_ltb a b = true -> str_eqb a b = false.
Proof.
  unfold str_ltb. intros H. apply str_eqb_neq. intros ->. rewrite str_cmp_refl in H. discriminate.
Qed.

Lemma str_ltb_trans a b c : str_ltb a b = true -> str_ltb b c = true -> str_ltb a c = true.
Proof.
  unfold str_ltb. intros H1 H2.
  destruct (str_cmp a b) eqn:E1; try discriminate. destruct (str_cmp b c) eqn:E2; try discriminate.
  rewrite (str_cmp_lt_trans a b c E1 E2). reflexivity.
Qed.

Lemma ascending_all_above t k r :
  ascending (k :: r) = true -> str_ltb t k = true \/ t = k ->
  forall e, In e r -> str_ltb t e = true.
Proof.
  revert k. induction r as [|k' r IH]; intros k Hasc Ht e He; [destruct He|].
  cbn [ascending] in Hasc. apply andb_true_iff in Hasc. destruct Hasc as [Hk Hr].
  assert (Hk' : str_ltb t k' = true).
  { destruct Ht as [Ht | ->]; [eapply str_ltb_trans; eauto | exact Hk]. }
  destruct He as [<- | He]; [exact Hk'|].
  apply (IH k'); auto.
Qed.

Lemma seek_eq_lemma t keys :
  ascending keys = true ->
  match seek t keys with Some k => str_eqb k t | None => false end = existsb (fun e => str_eqb e t) keys.
Proof.
  induction keys as [|k r IH]; intros Hasc; [reflexivity|].
  cbn [seek existsb].
  assert (Hr : ascending r = true).
  { cbn [ascending] in Hasc. apply andb_true_iff in Hasc. apply Hasc. }
  destruct (str_ltb k t) eqn:Hlt.
  - rewrite (str_ltb_not_eq k t Hlt). cbn. apply IH, Hr.
  - destruct (str_eqb k t) eqn:He; [reflexivity|]. cbn.
    (* t < k : every later element is above t as well *)
    assert (Htk : str_ltb t k = true).
    { unfold str_ltb in *. rewrite (str_cmp_antisym k t). destruct (str_cmp k t) eqn:E; cbn; try discriminate; [|reflexivity].
      apply str_cmp_eq in E. subst. rewrite str_eqb_refl in He. discriminate. }
    symmetry. apply not_true_is_false. intros Hex. apply existsb_exists in Hex. destruct Hex as [e [Hin Hee]].
    apply str_eqb_eq in Hee. subst e.
    pose proof (ascending_all_above t k r Hasc (or_introl Htk) t Hin) as Habs.
    unfold str_ltb in Habs. rewrite str_cmp_refl in Habs. discriminate.
Qed.

Lemma any_of_eq_seek_lemma s keys :
  ascending keys = true ->
  any_of_eq_seek (literal_full s) keys = existsb (fun e => str_eqb e s) keys.
Proof.
  intros Hasc. unfold any_of_eq_seek. rewrite parse_literal_full.
  rewrite <- (seek_eq_lemma s keys Hasc).
  destruct (seek s keys); [|reflexivity]. rewrite cmp_literal_full_lemma. reflexivity.
Qed.

(* ---- the statements of Properties/C11.v ---- *)
Lemma stored_comparison_exact_lemma (op : sop) (s x : str) :
  expressible_full s = true ->
  is_string_token (literal_full s) /\
  row_eval_string (Some x) = Some x /\
  cmp_query op (literal_full s) (Some x) = spec_cmp op x s.
Proof.
  intros H. split; [apply (literal_roundtrip_full_lemma s H)|]. split; [reflexivity|].
  exact (cmp_literal_full_lemma op s x).
Qed.

Lemma stored_comparison_exact_min_lemma (op : sop) (s x : str) :
  expressible_min s = true ->
  is_string_token (literal_min s) /\ cmp_query op (literal_min s) (Some x) = spec_cmp op x s.
Proof.
  intros H. split; [apply (literal_roundtrip_min_lemma s H)|]. exact (cmp_literal_min_lemma op s x).
Qed.

Lemma stored_eq_matches_exactly_lemma (s x : str) :
  (cmp_query SEq (literal_full s) (Some x) = true <-> x = s) /\
  (cmp_query SNeq (literal_full s) (Some x) = true <-> x <> s).
Proof. split; [exact (eq_literal_full_iff s x) | exact (neq_literal_full_iff s x)]. Qed.

Lemma in_list_exact_lemma (neg : bool) (tok : str) (vals : list str) (x : str) :
  spells_wordop wo_in neg tok ->
  in_query tok (map literal_full vals) (Some x) = xorb neg (existsb (str_eqb x) vals) /\
  in_query tok (map literal_min vals) (Some x) = xorb neg (existsb (str_eqb x) vals).
Proof.
  intros H. split; [exact (in_query_full_lemma neg tok vals x H) | exact (in_query_min_lemma neg tok vals x H)].
Qed.

Lemma contains_exact_lemma (neg : bool) (tok s x : str) :
  spells_wordop wo_contains neg tok ->
  contains_query tok (literal_full s) (Some x) = xorb neg (contains_sub s x) /\
  contains_query tok (literal_min s) (Some x) = xorb neg (contains_sub s x).
Proof.
  intros H. split; [exact (contains_query_full_lemma neg tok s x H) | exact (contains_query_min_lemma neg tok s x H)].
Qed.

Lemma set_comparison_exact_lemma (op : sop) (s : str) (elems : list str) :
  any_of (cmp_query op (literal_full s)) elems = existsb (fun e => spec_cmp op e s) elems /\
  all_of (cmp_query op (literal_full s)) elems = forallb (fun e => spec_cmp op e s) elems /\
  (ascending elems = true -> any_of_eq_seek (literal_full s) elems = existsb (fun e => str_eqb e s) elems).
Proof.
  split; [exact (any_of_literal_lemma op s elems)|].
  split; [exact (all_of_literal_lemma op s elems) | exact (any_of_eq_seek_lemma s elems)].
Qed.

(* an in-list is its SET of denoted strings: the number of literals, the order in which they are written and repeated
   literals do not matter *)
From Storage Require Import Codec.StrOrderProofs.

Lemma existsb_str_eqb_set (x : str) (vals vals' : list str) :
  (forall v, In v vals <-> In v vals') -> existsb (str_eqb x) vals = existsb (str_eqb x) vals'.
Proof.
  intros H.
  assert (E : forall l, existsb (str_eqb x) l = true <-> In x l).
  { intro l. rewrite existsb_exists. split.
    - intros [v [Hin Heq]]. apply str_eqb_eq in Heq. subst v. exact Hin.
    - intros Hin. exists x. split; [exact Hin | apply str_eqb_refl]. }
  destruct (existsb (str_eqb x) vals) eqn:A; destruct (existsb (str_eqb x) vals') eqn:B; try reflexivity.
  - apply E in A. apply H in A. apply E in A. congruence.
  - apply E in B. apply H in B. apply E in B. congruence.
Qed.

Lemma in_list_set_lemma (neg : bool) (tok : str) (vals vals' : list str) (x : str) :
  spells_wordop wo_in neg tok ->
  (forall v, In v vals <-> In v vals') ->
  in_query tok (map literal_full vals) (Some x) = in_query tok (map literal_full vals') (Some x) /\
  in_query tok (map literal_min vals) (Some x) = in_query tok (map literal_min vals') (Some x).
Proof.
  intros Hs H.
  destruct (in_list_exact_lemma neg tok vals x Hs) as [A1 A2].
  destruct (in_list_exact_lemma neg tok vals' x Hs) as [B1 B2].
  rewrite A1, A2, B1, B2, (existsb_str_eqb_set x vals vals' H). split; reflexivity.
Qed.
