(* Generic semantics of what translators/unescape reads from zitiql/util.go: a list of steps
   (TrimPrefix / TrimSuffix / the strings.NewReplacer pass) and the replacement pairs.
   strings.NewReplacer: one left-to-right pass; at each position the first pair (in argument
   order) whose old string is a prefix of the remaining input is replaced and skipped, otherwise the
   byte is copied; matches never overlap and output is never re-read. *)
From Coq Require Import List NArith Bool.
From Storage Require Import Base.Bytes.
Import ListNotations.
Open Scope N_scope.

Inductive step :=
| STrimPrefix (p : str)
| STrimSuffix (p : str)
| SReplacer
| SUnknown (line : nat).

Fixpoint match_pair (pairs : list (str * str)) (s : str) : option (str * str) :=
  match pairs with
  | [] => None
  | (old, new) :: r =>
      match old with
      | [] => match_pair r s
      | _ => if has_prefix old s then Some (new, skipn (length old) s) else match_pair r s
      end
  end.

Fixpoint replace_fuel (fuel : nat) (pairs : list (str * str)) (s : str) : str :=
  match fuel with
  | O => s
  | S n =>
      match s with
      | [] => []
      | c :: rest =>
          match match_pair pairs s with
          | Some (new, rest') => new ++ replace_fuel n pairs rest'
          | None => c :: replace_fuel n pairs rest
          end
      end
  end.

Definition replace_pairs (pairs : list (str * str)) (s : str) : str := replace_fuel (length s) pairs s.

Definition trim_prefix (p s : str) : str := if has_prefix p s then skipn (length p) s else s.
Definition trim_suffix (p s : str) : str :=
  if has_prefix (rev p) (rev s) then rev (skipn (length p) (rev s)) else s.

Definition run_step (pairs : list (str * str)) (st : step) (s : str) : option str :=
  match st with
  | STrimPrefix p => Some (trim_prefix p s)
  | STrimSuffix p => Some (trim_suffix p s)
  | SReplacer => Some (replace_pairs pairs s)
  | SUnknown _ => None
  end.

Fixpoint run_body (pairs : list (str * str)) (b : list step) (s : str) : option str :=
  match b with
  | [] => Some s
  | st :: r => match run_step pairs st s with Some s' => run_body pairs r s' | None => None end
  end.
