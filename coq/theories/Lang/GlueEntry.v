(* Model of the public parsing entry points around zitiql.parse (zitiql/util.go): zitiql.Parse,
   zitiql.ParseWithDebug with debug false / true, and what is built on them (ast.Parse, the string variants of
   the store query APIs).  Model only, no proofs.

   zitiql.parse(str, l, el, debug) takes a POOLED lexer and parser - instances that carry the error listeners
   the previous caller left on them (a new instance carries antlr's ConsoleErrorListener) - and
     lexer.RemoveErrorListeners(); lexer.AddErrorListener(el)                    in both modes
     debug:      p.AddErrorListener(NewDiagnosticErrorListener(true))            the old listeners stay
     otherwise:  p.RemoveErrorListeners()
     p.AddErrorListener(el)
   The caller's verdict is what ITS collector [el] heard.  The diagnostic listener forwards ambiguity reports
   as syntax errors; the parser runs with SLL prediction, which never reports an ambiguity (no report is
   modelled).  [lexer_wiring] says in which mode the lexer's listeners are replaced by the caller's collector:
   the code has LexerAlways. *)
From Coq Require Import List NArith Bool Arith.
From Storage Require Import Base.Bytes Lang.Tokens Lang.Lexer Lang.Regex Lang.LexerFull Lang.Glue.
Import ListNotations.

Inductive listener :=
| Console                       (* antlr's default: prints to stderr *)
| Diagnostic                    (* antlr.DiagnosticErrorListener *)
| Collector (call : nat).       (* the zitiql.ErrorListener of call number [call] *)

(* the listeners on a pooled lexer / parser pair *)
Record instances := mkInst { lexer_ls : list listener; parser_ls : list listener }.
Definition fresh_instances := mkInst [Console] [Console].

Inductive lexer_wiring :=
| LexerAlways          (* the lexer's listeners are replaced by the collector in both modes (the code) *)
| LexerNonDebugOnly    (* ... only in the non-debug branch *)
| LexerNever.          (* the lexer keeps what it has (as originally shipped) *)

Definition heard (me : nat) (ls : list listener) : bool :=
  existsb (fun l => match l with Collector c => Nat.eqb c me | _ => false end) ls.

Section Entry.
  Variable Q : Type.
  Variable parser : list (nat * str) -> nat * option Q.

  (* one call of zitiql.parse: call number [me], on the instances [inst] *)
  Definition parse_call (w : lexer_wiring) (debug : bool) (me : nat) (inst : instances) (s : str)
    : outcome Q * instances :=
    let lexer_ls' := match w with
                     | LexerAlways => [Collector me]
                     | LexerNonDebugOnly => if debug then lexer_ls inst else [Collector me]
                     | LexerNever => lexer_ls inst
                     end in
    let parser_ls' := (if debug then parser_ls inst ++ [Diagnostic] else []) ++ [Collector me] in
    let segs := lex_full s in
    let lexer_errors := length (drops_of segs) in
    let (parser_errors, q) := parser (tokens_of segs) in
    let collected := (if heard me lexer_ls' then lexer_errors else 0)
                     + (if heard me parser_ls' then parser_errors else 0) in
    (if Nat.eqb collected 0 then match q with Some x => Accepted x | None => Rejected end else Rejected,
     mkInst lexer_ls' parser_ls').

  (* the public entry points; all but ParseWithDebug true run zitiql.parse with debug = false *)
  Inductive entry :=
  | EParse                           (* zitiql.Parse *)
  | EParseWithDebug (debug : bool)   (* zitiql.ParseWithDebug *)
  | EAstParse                        (* ast.Parse: zitiql.Parse, then typing *)
  | EQueryString.                    (* Store.QueryIds / ObjectStore.QueryEntities: ast.Parse, then the scan *)

  Definition entry_debug (e : entry) : bool :=
    match e with EParseWithDebug d => d | _ => false end.

  Definition run_entry (w : lexer_wiring) (e : entry) (me : nat) (inst : instances) (s : str) : outcome Q :=
    fst (parse_call w (entry_debug e) me inst s).

  (* the pooled instances after a history of calls (entry point, text), oldest first, numbered from [n] *)
  Fixpoint pool_after (w : lexer_wiring) (n : nat) (inst : instances) (hist : list (entry * str)) : instances :=
    match hist with
    | [] => inst
    | (e, s) :: rest => pool_after w (S n) (snd (parse_call w (entry_debug e) n inst s)) rest
    end.
End Entry.
