(* Proofs for the statements added to Properties/C12.v after seeded changes C12-w7-2 / C12-w7-3 (design/C12.md):
   stream q of the harness (c12w7.go) compares FAMILIES of filters - the same operands under one connective written in
   every ORDER, every grouping, with redundant parentheses.  What the specification says about such a family: every
   member is accepted, and all members have the same truth function - whatever the operands are (in the check: atoms
   that contain sub-queries nested several levels). *)
From Coq Require Import List NArith Bool Arith Permutation.
From Storage Require Import Base.Bytes Lang.Tokens Lang.Lexer Lang.BoolGrammar Lang.Listener Lang.BoolSurface
  Lang.BoolGrammarProofs Lang.LexerProofs Lang.C12Proofs Lang.BoolRows Lang.C12W3Proofs Lang.ChainGroupings Lang.C12W5Proofs.
Import ListNotations.

Lemma existsb_perm : forall (A : Type) (f : A -> bool) l1 l2, Permutation l1 l2 -> existsb f l1 = existsb f l2.
Proof.
  intros A f l1 l2 H. induction H; simpl.
  - reflexivity.
  - rewrite IHPermutation. reflexivity.
  - destruct (f x), (f y); reflexivity.
  - rewrite IHPermutation1. exact IHPermutation2.
Qed.

Lemma forallb_perm : forall (A : Type) (f : A -> bool) l1 l2, Permutation l1 l2 -> forallb f l1 = forallb f l2.
Proof.
  intros A f l1 l2 H. induction H; simpl.
  - reflexivity.
  - rewrite IHPermutation. reflexivity.
  - destruct (f x), (f y); reflexivity.
  - rewrite IHPermutation1. exact IHPermutation2.
Qed.

(* the operands of an or-chain (and-chain) in any order, each order in any grouping: both filters are accepted and
   have the same truth function; on every table they select the same rows *)
Lemma any_order_lemma : forall (Row : Type) (rows : list Row) (val : Row -> str -> bool) l1 l2 e1 e2 ts1 ts2,
  Permutation l1 l2 ->
  (or_grouping l1 e1 /\ or_grouping l2 e2) \/ (and_grouping l1 e1 /\ and_grouping l2 e2) ->
  spells_filter e1 ts1 -> spells_filter e2 ts2 ->
  exists b1 b2, compile fixed_prec ts1 = Some b1 /\ compile fixed_prec ts2 = Some b2 /\
    (forall rho, eval b1 rho = eval b2 rho) /\
    select rows (fun r => eval b1 (val r)) = select rows (fun r => eval b2 (val r)).
Proof.
  intros Row rows val l1 l2 e1 e2 ts1 ts2 Hp Hg Hs1 Hs2.
  destruct (compile_correct _ _ Hs1) as [b1 [Hc1 He1]]. destruct (compile_correct _ _ Hs2) as [b2 [Hc2 He2]].
  exists b1, b2. split; [exact Hc1|]. split; [exact Hc2|].
  assert (Hv : forall rho, eval b1 rho = eval b2 rho).
  { intros rho. rewrite He1, He2. destruct Hg as [[H1 H2] | [H1 H2]].
    - rewrite (or_grouping_sem _ _ _ H1), (or_grouping_sem _ _ _ H2). apply existsb_perm. exact Hp.
    - unfold sem. rewrite (and_grouping_semE _ _ _ H1), (and_grouping_semE _ _ _ H2). simpl. apply forallb_perm. exact Hp. }
  split; [exact Hv|]. unfold select. apply filter_ext_all. intros r. apply Hv.
Qed.

(* two operands: `X op Y` and `Y op X`, with or without parentheses around the operands *)
Lemma commute_lemma : forall p q ts1 ts2 ts3 ts4,
  spells_filter (EAnd p (ELast q)) ts1 -> spells_filter (EAnd q (ELast p)) ts2 ->
  spells_filter (EOr p (ELast q)) ts3 -> spells_filter (EOr q (ELast p)) ts4 ->
  exists b1 b2 b3 b4, compile fixed_prec ts1 = Some b1 /\ compile fixed_prec ts2 = Some b2 /\
    compile fixed_prec ts3 = Some b3 /\ compile fixed_prec ts4 = Some b4 /\
    forall rho, eval b1 rho = eval b2 rho /\ eval b3 rho = eval b4 rho /\
                eval b1 rho = semP p rho && semP q rho /\ eval b3 rho = semP p rho || semP q rho.
Proof.
  intros p q ts1 ts2 ts3 ts4 H1 H2 H3 H4.
  destruct (compile_correct _ _ H1) as [b1 [Hc1 He1]]. destruct (compile_correct _ _ H2) as [b2 [Hc2 He2]].
  destruct (compile_correct _ _ H3) as [b3 [Hc3 He3]]. destruct (compile_correct _ _ H4) as [b4 [Hc4 He4]].
  exists b1, b2, b3, b4. repeat (split; [assumption|]). intros rho.
  rewrite He1, He2, He3, He4. unfold sem. simpl.
  destruct (semP p rho), (semP q rho); repeat split; reflexivity.
Qed.
