(* Proofs for the foreign-blank part of Properties/C10.v: what the lexer model does with a character that no token
   rule can start with (first position, also behind grammar white space) or end with (last position); every token
   of the lexer model is a match of its rule. *)
From Coq Require Import List NArith Bool Arith Lia.
From Storage Require Import Base.Bytes Lang.Tokens Lang.Lexer Lang.Regex Lang.LexerFull Lang.LexerProofs
  Lang.Glue Lang.C10Proofs Lang.GlueEntry Lang.GlueEntryProofs Lang.ForeignBlank.
Import ListNotations.

(* ------------------------------------------------------------------------------------------ *)
(* the WS class is exactly the four characters *)
Lemma range1 : forall a c : N, ((a <=? c)%N && (c <=? a)%N) = (c =? a)%N.
Proof.
  intros a c. destruct (N.eqb_spec c a) as [->|Hne].
  - rewrite N.leb_refl. reflexivity.
  - destruct (N.leb_spec a c), (N.leb_spec c a); simpl; try reflexivity. exfalso. apply Hne. lia.
Qed.

Lemma ws_class_exact_lemma : forall c, matches WSc [c] = is_ws c.
Proof.
  intros c. unfold matches, WSc, set. cbn [deriv]. unfold in_cls, in_ranges. cbn [cneg cranges existsb fst snd xorb].
  rewrite !range1. rewrite orb_false_r. unfold is_ws.
  destruct (c =? 32)%N, (c =? 10)%N, (c =? 9)%N, (c =? 13)%N; reflexivity.
Qed.

Lemma ws_rule_in_table : In (K_WS, WSc) full_table.
Proof. unfold full_table. right. left. reflexivity. Qed.

(* ------------------------------------------------------------------------------------------ *)
(* first position *)
Definition rules_of (tbl : list (nat * re)) : list rule := map (fun kr => mkRule (fst kr) (scan_regex (snd kr))) tbl.

Lemma best_all_dead : forall tbl c s acc via,
  forallb (fun kr : nat * re => dead (deriv c (snd kr))) tbl = true ->
  best (rules_of tbl) (c :: s) acc via = (acc, via).
Proof.
  induction tbl as [|kr tbl IH]; intros c s acc via H.
  - reflexivity.
  - cbn [forallb] in H. apply andb_true_iff in H. destruct H as [H1 H2].
    cbn [rules_of map best rscan]. unfold scan_regex. cbn [scan_re]. rewrite H1.
    rewrite Nat.max_0_r. apply IH. exact H2.
Qed.

Lemma lex_cons_drop : forall rs c s,
  best rs (c :: s) None 0 = (None, 0) -> lex rs (c :: s) = Drop [c] :: lex rs s.
Proof. intros rs c s H. unfold lex. cbn [length lex_fuel]. rewrite H. reflexivity. Qed.

Lemma full_rules_table : full_rules = rules_of full_table.
Proof. reflexivity. Qed.

Lemma lex_full_leading_foreign : forall c s, starts_no_token c = true -> lex_full (c :: s) = Drop [c] :: lex_full s.
Proof.
  intros c s H. unfold lex_full. apply lex_cons_drop. rewrite full_rules_table.
  apply best_all_dead. exact H.
Qed.

(* grammar white space in first position is a WS token of one character *)
Definition table_rest : list (nat * re) := skipn 2 full_table.

Lemma table_split : full_table = (K_COMMA, ch 44) :: (K_WS, WSc) :: table_rest.
Proof. reflexivity. Qed.

Lemma scan_ws : forall (w : byte) (s : str), is_ws w = true -> scan_regex WSc (w :: s) = (Some 1, 1).
Proof.
  intros w s H. apply is_ws_cases in H.
  destruct H as [-> | [-> | [-> | ->]]]; destruct s as [|c' s']; reflexivity.
Qed.

Lemma rest_dead_on_ws : forall w, is_ws w = true ->
  forallb (fun kr : nat * re => dead (deriv w (snd kr))) table_rest = true /\ dead (deriv w (ch 44)) = true.
Proof.
  intros w H. apply is_ws_cases in H.
  destruct H as [-> | [-> | [-> | ->]]]; split; vm_compute; reflexivity.
Qed.

Lemma scan_dead : forall r (c : byte) (s : str), dead (deriv c r) = true -> scan_regex r (c :: s) = (None, 0).
Proof. intros r c s H. unfold scan_regex. cbn [scan_re]. rewrite H. reflexivity. Qed.

Lemma lex_cons_tok : forall rs c s k v,
  best rs (c :: s) None 0 = (Some (k, 1), v) -> lex rs (c :: s) = Tok k [c] :: lex rs s.
Proof. intros rs c s k v H. unfold lex. cbn [length lex_fuel]. rewrite H. reflexivity. Qed.

Lemma best_ws_generic : forall k0 r0 rest (w : byte) (s : str),
  dead (deriv w r0) = true ->
  forallb (fun kr : nat * re => dead (deriv w (snd kr))) rest = true ->
  is_ws w = true ->
  best (rules_of ((k0, r0) :: (K_WS, WSc) :: rest)) (w :: s) None 0 = (Some (K_WS, 1), 1).
Proof.
  intros k0 r0 rest w s H0 Hrest Hw.
  cbn [rules_of map best rscan fst snd].
  rewrite (scan_dead r0 w s H0).
  rewrite (scan_ws w s Hw).
  cbn [Nat.eqb Nat.max].
  change (map (fun kr : nat * re => mkRule (fst kr) (scan_regex (snd kr))) rest) with (rules_of rest).
  rewrite (best_all_dead rest w s _ _ Hrest).
  reflexivity.
Qed.

Lemma full_rules_split : full_rules = rules_of ((K_COMMA, ch 44) :: (K_WS, WSc) :: table_rest).
Proof. reflexivity. Qed.

Lemma lex_full_leading_ws : forall w s, is_ws w = true -> lex_full (w :: s) = Tok K_WS [w] :: lex_full s.
Proof.
  intros w s H. unfold lex_full.
  destruct (rest_dead_on_ws w H) as [Hrest Hcomma].
  apply (lex_cons_tok full_rules w s K_WS 1).
  rewrite full_rules_split.
  apply best_ws_generic; assumption.
Qed.

Lemma drop_in_drops : forall t l, In (Drop t) l -> drops_of l <> [].
Proof.
  intros t l H E. assert (In t (drops_of l)).
  { unfold drops_of. apply in_flat_map. exists (Drop t). split; [exact H|left; reflexivity]. }
  rewrite E in H0. contradiction.
Qed.

Lemma leading_foreign_drops : forall ws c s, forallb is_ws ws = true -> starts_no_token c = true ->
  drops_of (lex_full (ws ++ c :: s)) <> [].
Proof.
  induction ws as [|w ws IH]; intros c s Hws Hc.
  - cbn [app]. rewrite lex_full_leading_foreign by exact Hc. apply (drop_in_drops [c]). left. reflexivity.
  - cbn [forallb] in Hws. apply andb_true_iff in Hws. destruct Hws as [Hw Hws].
    cbn [app]. rewrite lex_full_leading_ws by exact Hw.
    intro E. apply (IH c s Hws Hc). unfold drops_of in *. cbn [flat_map app] in E. exact E.
Qed.

(* ------------------------------------------------------------------------------------------ *)
(* last position: every token is a match of its rule, and no match of a rule ends in the character *)
Lemma nullable_sseq_eq : forall a b, nullable (sseq a b) = nullable a && nullable b.
Proof.
  intros a b. destruct a; destruct b; cbn [sseq nullable];
    rewrite ?andb_true_r, ?andb_false_r, ?andb_true_l, ?andb_false_l; reflexivity.
Qed.

Lemma nullable_sseq : forall a b, nullable (sseq a b) = true -> nullable a = true /\ nullable b = true.
Proof. intros a b H. rewrite nullable_sseq_eq in H. apply andb_true_iff in H. exact H. Qed.

Lemma nullable_salt : forall a b, nullable (salt a b) = true -> nullable a = true \/ nullable b = true.
Proof.
  intros a b H. unfold salt in H.
  destruct a; try (left; exact H);
    destruct b; try (right; exact H); try (left; exact H);
    match type of H with
    | nullable (if ?g then _ else _) = true => destruct g; [right; exact H| cbn [nullable] in H; apply orb_true_iff in H; exact H]
    end.
Qed.

Lemma can_end_sseq : forall c a b, can_end c (sseq a b) = true ->
  can_end c b = true \/ (nullable b = true /\ can_end c a = true).
Proof.
  intros c a b H. destruct a; destruct b; cbn [sseq can_end nullable] in *; try discriminate;
    try (apply orb_true_iff in H; destruct H as [H|H]; [left; exact H|right; apply andb_true_iff in H; exact H]);
    try (left; exact H); try (right; split; [reflexivity|exact H]).
Qed.

Lemma can_end_salt : forall c a b, can_end c (salt a b) = true -> can_end c a = true \/ can_end c b = true.
Proof.
  intros c a b H. unfold salt in H.
  destruct a; try (left; exact H);
    destruct b; try (right; exact H); try (left; exact H);
    match type of H with
    | can_end c (if ?g then _ else _) = true => destruct g; [right; exact H| cbn [can_end] in H; apply orb_true_iff in H; exact H]
    end.
Qed.

Lemma nullable_deriv_can_end : forall c r, nullable (deriv c r) = true -> can_end c r = true.
Proof.
  intros c. induction r as [| |k|a IHa b IHb|a IHa b IHb|a IHa]; cbn [deriv can_end]; intros H.
  - discriminate.
  - discriminate.
  - destruct (in_cls k c); [reflexivity|discriminate].
  - apply nullable_salt in H. destruct H as [H|H].
    + apply nullable_sseq in H. destruct H as [H1 H2]. rewrite H2, (IHa H1). apply orb_true_r.
    + destruct (nullable a); [|discriminate]. rewrite (IHb H). reflexivity.
  - apply nullable_salt in H. destruct H as [H|H]; [rewrite (IHa H)|rewrite (IHb H)]; auto using orb_true_r.
  - apply nullable_sseq in H. destruct H as [H _]. exact (IHa H).
Qed.

Lemma can_end_deriv : forall c x r, can_end c (deriv x r) = true -> can_end c r = true.
Proof.
  intros c x. induction r as [| |k|a IHa b IHb|a IHa b IHb|a IHa]; cbn [deriv can_end]; intros H.
  - discriminate.
  - discriminate.
  - destruct (in_cls k x); discriminate.
  - apply can_end_salt in H. destruct H as [H|H].
    + apply can_end_sseq in H. destruct H as [H|[H1 H2]].
      * rewrite H. reflexivity.
      * rewrite H1, (IHa H2). apply orb_true_r.
    + destruct (nullable a); [|discriminate]. rewrite (IHb H). reflexivity.
  - apply can_end_salt in H. destruct H as [H|H]; [rewrite (IHa H)|rewrite (IHb H)]; auto using orb_true_r.
  - apply can_end_sseq in H. destruct H as [H|[_ H]]; [exact H|exact (IHa H)].
Qed.

Lemma matches_can_end : forall t r c, matches r (t ++ [c]) = true -> can_end c r = true.
Proof.
  induction t as [|x t IH]; intros r c H.
  - apply nullable_deriv_can_end. exact H.
  - cbn [app matches] in H. apply IH in H. eapply can_end_deriv. exact H.
Qed.

(* an accepted length reported by the scanner is a match of the rule *)
Lemma scan_re_sound : forall s r n last l v,
  scan_re r s n last = (Some l, v) ->
  last = Some l \/ exists m, l = n + m /\ 1 <= m /\ m <= length s /\ matches r (firstn m s) = true.
Proof.
  induction s as [|c s IH]; intros r n last l v H; cbn [scan_re] in H.
  - inversion H; subst. left. reflexivity.
  - destruct (dead (deriv c r)) eqn:Ed.
    + inversion H; subst. left. reflexivity.
    + apply IH in H. destruct H as [H|[m [Hl [Hm1 [Hm2 Hm]]]]].
      * destruct (nullable (deriv c r)) eqn:En.
        -- inversion H; subst. right. exists 1. repeat split; cbn [length]; try lia. cbn [firstn matches]. exact En.
        -- left. exact H.
      * right. exists (S m). repeat split; cbn [length]; try lia. cbn [firstn matches]. exact Hm.
Qed.

Lemma best_origin : forall rs s acc via k l v,
  best rs s acc via = (Some (k, l), v) ->
  acc = Some (k, l) \/ exists r, In r rs /\ rkind r = k /\ fst (rscan r s) = Some l.
Proof.
  induction rs as [|r rs IH]; intros s acc via k l v H; cbn [best] in H.
  - inversion H; subst. left. reflexivity.
  - destruct (rscan r s) as [a v0] eqn:Er.
    apply IH in H. destruct H as [H|[r' [Hin [Hk Hl]]]].
    + destruct a as [l1|].
      * destruct (Nat.eqb l1 0).
        -- left. exact H.
        -- destruct acc as [[k0 l0]|].
           ++ destruct (Nat.ltb l0 l1).
              ** inversion H; subst. right. exists r. split; [left; reflexivity|]. split; [reflexivity|]. rewrite Er. reflexivity.
              ** left. exact H.
           ++ inversion H; subst. right. exists r. split; [left; reflexivity|]. split; [reflexivity|]. rewrite Er. reflexivity.
      * left. exact H.
    + right. exists r'. split; [right; exact Hin|]. split; assumption.
Qed.

Lemma token_is_match_fuel : forall tbl f s k t,
  In (Tok k t) (lex_fuel (rules_of tbl) f s) -> exists r, In (k, r) tbl /\ matches r t = true.
Proof.
  intros tbl. induction f as [|f IH]; intros s k t H; cbn [lex_fuel] in H; [contradiction|].
  destruct s as [|c s']; [contradiction|].
  destruct (best (rules_of tbl) (c :: s') None 0) as [[[k0 l0]|] v] eqn:Hb.
  - destruct H as [H|H]; [|eapply IH; exact H].
    inversion H; subst k0 t. clear H.
    apply best_origin in Hb. destruct Hb as [Hb|[r [Hin [Hk Hl]]]]; [discriminate|].
    unfold rules_of in Hin. apply in_map_iff in Hin. destruct Hin as [[k1 r1] [Hr Hin]]. subst r.
    cbn [rkind rscan fst snd] in *. subst k1.
    exists r1. split; [exact Hin|].
    unfold scan_regex in Hl. destruct (scan_re r1 (c :: s') 0 None) as [a v1] eqn:Es. cbn [fst] in Hl. subst a.
    apply scan_re_sound in Es. destruct Es as [Es|[m [Hl [_ [_ Hm]]]]]; [discriminate|].
    cbn [Nat.add] in Hl. subst m. exact Hm.
  - destruct H as [H|H]; [discriminate|eapply IH; exact H].
Qed.

Lemma token_is_match : forall s k t, In (Tok k t) (lex_full s) -> exists r, In (k, r) full_table /\ matches r t = true.
Proof. intros s k t H. unfold lex_full, lex in H. change full_rules with (rules_of full_table) in H. eapply token_is_match_fuel. exact H. Qed.

(* the piece of a concatenation that holds the last character *)
Lemma concat_last : forall (L : list str) s c, concat L = s ++ [c] -> exists t', In (t' ++ [c]) L.
Proof.
  intros L. induction L as [|x L IH] using rev_ind; intros s c H.
  - cbn [concat] in H. destruct s; discriminate.
  - rewrite concat_app in H. cbn [concat] in H. rewrite app_nil_r in H.
    destruct x as [|y x0].
    + rewrite app_nil_r in H. destruct (IH s c H) as [t' Ht]. exists t'. apply in_or_app. left. exact Ht.
    + destruct (@exists_last _ (y :: x0)) as [x' [c' Hx]]; [discriminate|].
      rewrite Hx in *. rewrite app_assoc in H. apply app_inj_tail in H. destruct H as [_ ->].
      exists x'. apply in_or_app. right. left. reflexivity.
Qed.

Lemma trailing_foreign_drops : forall s c, ends_no_token c = true -> drops_of (lex_full (s ++ [c])) <> [].
Proof.
  intros s c Hc.
  pose proof (lexer_partition_lemma (s ++ [c])) as Hp.
  apply concat_last in Hp. destruct Hp as [t' Ht].
  apply in_map_iff in Ht. destruct Ht as [sg [Hsg Hin]].
  destruct sg as [k t|t].
  - cbn [seg_text] in Hsg. subst t. apply token_is_match in Hin. destruct Hin as [r [Hr Hm]].
    apply matches_can_end in Hm.
    unfold ends_no_token in Hc. rewrite forallb_forall in Hc. specialize (Hc _ Hr). cbn [snd] in Hc.
    rewrite Hm in Hc. discriminate.
  - eapply drop_in_drops. exact Hin.
Qed.

(* ------------------------------------------------------------------------------------------ *)
(* the table: every blank-like foreign character is no grammar white space, starts no token, ends no token *)
Lemma blank_table_facts :
  forallb (fun c => negb (is_ws c) && starts_no_token c && ends_no_token c) blank_like_foreign = true.
Proof. vm_compute. reflexivity. Qed.

Lemma blank_table_lemma : forall c, In c blank_like_foreign ->
  is_ws c = false /\ matches WSc [c] = false /\ starts_no_token c = true /\ ends_no_token c = true.
Proof.
  intros c H. pose proof blank_table_facts as F. rewrite forallb_forall in F. specialize (F c H).
  apply andb_true_iff in F. destruct F as [F F3]. apply andb_true_iff in F. destruct F as [F1 F2].
  apply negb_true_iff in F1. rewrite ws_class_exact_lemma. auto.
Qed.

Lemma go_space_in_table : forall c, In c go_space_foreign -> In c blank_like_foreign.
Proof. intros c H. unfold blank_like_foreign. apply in_or_app. left. exact H. Qed.

Section WithParser.
  Variable Q : Type.
  Variable parser : list (nat * str) -> nat * option Q.

  Lemma untokenizable_first_rejected_lemma : forall e me inst ws c s,
    forallb is_ws ws = true -> starts_no_token c = true ->
    run_entry Q parser LexerAlways e me inst (ws ++ c :: s) = Rejected.
  Proof.
    intros e me inst ws c s Hws Hc. apply every_entry_rejects_lexer_errors_lemma.
    apply leading_foreign_drops; assumption.
  Qed.

  Lemma untokenizable_last_rejected_lemma : forall e me inst s c,
    ends_no_token c = true ->
    run_entry Q parser LexerAlways e me inst (s ++ [c]) = Rejected.
  Proof.
    intros e me inst s c Hc. apply every_entry_rejects_lexer_errors_lemma.
    apply trailing_foreign_drops. exact Hc.
  Qed.

  (* what strings.TrimSpace-like normalisation would hide: a blank-like foreign character in front of the text (also
     behind grammar white space) or as its last character - whatever the rest of the text is *)
  Lemma foreign_blank_edges_rejected_lemma : forall e me inst c, In c blank_like_foreign ->
    (forall ws s, forallb is_ws ws = true -> run_entry Q parser LexerAlways e me inst (ws ++ c :: s) = Rejected) /\
    (forall s, run_entry Q parser LexerAlways e me inst (s ++ [c]) = Rejected).
  Proof.
    intros e me inst c Hc. destruct (blank_table_lemma c Hc) as [_ [_ [H1 H2]]]. split.
    - intros ws s Hws. apply untokenizable_first_rejected_lemma; assumption.
    - intros s. apply untokenizable_last_rejected_lemma. exact H2.
  Qed.
End WithParser.
