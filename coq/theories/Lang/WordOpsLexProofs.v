(* The lexer model (Lexer.v loop on the complete rule table LexerFull.full_table) on the two-word
   operators: wherever a spelling of an operator token - any letter case, any white space the rule
   allows after `not` - is followed by white space or by the end of the input, the lexer emits ONE
   token of the operator's kind whose text is the whole spelling.

   Structure: generic facts about the derivative scanner (a rule that has died within a prefix does
   not see what follows; a state that is a fixed point of WS skips a WS run; shifting the position
   counter), a generic "which rule wins" lemma, and then per rule of the table what it does on
     not <WS> <WS run> <operator word> <WS | end>
   The finite parts (8 letter cases of `not` x 4 WS characters, the 2^n letter cases of the operator
   words, the 36 rules) are checked by computation; the WS run is handled by the fixed-point lemma. *)
From Coq Require Import List NArith Bool Arith Lia.
From Storage Require Import Base.Bytes Lang.Tokens Lang.Lexer Lang.Regex Lang.LexerFull Lang.BoolSurface Lang.LexerProofs
  Lang.WordOps Lang.WordOpsProofs.
Import ListNotations.

(* ------------------------------------------------------------------------------------------ *)
(* the derivative scanner *)
Lemma scan_re_app_dead : forall p q r n last,
  snd (scan_re r p n last) < n + length p -> scan_re r (p ++ q) n last = scan_re r p n last.
Proof.
  induction p as [|c p IH]; intros q r n last H; simpl in *.
  - lia.
  - destruct (dead (deriv c r)); [reflexivity|]. apply IH. lia.
Qed.

Lemma scan_re_loop : forall L, (forall c, In c ws_chars -> deriv c L = L) -> dead L = false -> nullable L = false ->
  forall run tail n last, forallb is_ws run = true ->
    scan_re L (run ++ tail) n last = scan_re L tail (n + length run) last.
Proof.
  intros L HL Hd Hn. induction run as [|c run IH]; intros tail n last H; simpl.
  - rewrite Nat.add_0_r. reflexivity.
  - simpl in H. apply andb_true_iff in H. destruct H as [Hc Hr].
    rewrite (HL c (is_ws_in c Hc)), Hd, Hn. rewrite IH by exact Hr. f_equal. lia.
Qed.

(* the state after a prefix on which the rule stays alive *)
Fixpoint scan_pre (r : re) (a : str) (n : nat) (last : option nat) : option (re * nat * option nat) :=
  match a with
  | [] => Some (r, n, last)
  | c :: a' =>
      let r' := deriv c r in
      if dead r' then None else scan_pre r' a' (S n) (if nullable r' then Some (S n) else last)
  end.

Lemma scan_pre_app : forall a b r n last r' n' last',
  scan_pre r a n last = Some (r', n', last') -> scan_re r (a ++ b) n last = scan_re r' b n' last'.
Proof.
  induction a as [|c a IH]; intros b r n last r' n' last' H; simpl in *.
  - inversion H; subst. reflexivity.
  - destruct (dead (deriv c r)); [discriminate|]. apply IH. exact H.
Qed.

Lemma scan_pre_none : forall a r n last, scan_pre r a n last = None -> snd (scan_re r a n last) < n + length a.
Proof.
  induction a as [|c a IH]; intros r n last H; simpl in *.
  - discriminate.
  - destruct (dead (deriv c r)); [simpl; lia|]. specialize (IH _ _ _ H). lia.
Qed.

Definition shift (m : nat) (x : option nat * nat) : option nat * nat :=
  (option_map (fun a => a + m) (fst x), snd x + m).

Lemma scan_re_shift : forall s r n m last,
  scan_re r s (n + m) (option_map (fun a => a + m) last) = shift m (scan_re r s n last).
Proof.
  induction s as [|c s IH]; intros r n m last; simpl.
  - reflexivity.
  - destruct (dead (deriv c r)); [reflexivity|].
    change (S (n + m)) with (S n + m).
    replace (if nullable (deriv c r) then Some (S n + m) else option_map (fun a => a + m) last)
      with (option_map (fun a => a + m) (if nullable (deriv c r) then Some (S n) else last))
      by (destruct (nullable (deriv c r)); reflexivity).
    apply IH.
Qed.

Lemma scan_re_from : forall s r m, scan_re r s m None = shift m (scan_re r s 0 None).
Proof. intros. apply (scan_re_shift s r 0 m None). Qed.

(* ------------------------------------------------------------------------------------------ *)
(* which rule wins *)
Lemma best_spec : forall pre r post s L, fst (rscan r s) = Some L -> 1 <= L ->
  (forall r' l, In r' pre -> fst (rscan r' s) = Some l -> l < L) ->
  (forall r' l, In r' post -> fst (rscan r' s) = Some l -> l <= L) ->
  forall acc via, match acc with Some (_, l0) => l0 < L | None => True end ->
    fst (best (pre ++ r :: post) s acc via) = Some (rkind r, L).
Proof.
  induction pre as [|a pre IH]; intros r post s L Hr HL Hpre Hpost acc via Hacc.
  - simpl app. apply best_take; auto.
  - simpl app.
    destruct (best_below a (pre ++ r :: post) s acc via L) as [acc' [via' [E Hacc']]].
    + intros l Hl. apply (Hpre a l); [left; reflexivity|exact Hl].
    + exact Hacc.
    + rewrite E. apply IH; auto. intros r' l Hin. apply Hpre. right. exact Hin.
Qed.

Definition rule_of (kr : nat * re) : rule := mkRule (fst kr) (scan_regex (snd kr)).

Lemma full_rules_map : full_rules = map rule_of full_table.
Proof. reflexivity. Qed.

Lemma best_app_dead : forall tbl p q acc via,
  (forall kr, In kr tbl -> snd (scan_regex (snd kr) p) < length p) ->
  best (map rule_of tbl) (p ++ q) acc via = best (map rule_of tbl) p acc via.
Proof.
  induction tbl as [|kr tbl IH]; intros p q acc via H; [reflexivity|].
  assert (E : scan_re (snd kr) (p ++ q) 0 None = scan_re (snd kr) p 0 None).
  { apply scan_re_app_dead. simpl. apply (H kr). left. reflexivity. }
  simpl. unfold scan_regex. rewrite E. destruct (scan_re (snd kr) p 0 None) as [a v].
  apply IH. intros kr' Hin. apply H. right. exact Hin.
Qed.

(* ------------------------------------------------------------------------------------------ *)
(* what may follow the operator: white space or the end of the input *)
Definition ends_word (rest : str) : Prop := match rest with [] => True | d :: _ => is_ws d = true end.

Definition follow_heads : list str := [[]; [32]; [10]; [9]; [13]]%N.

Lemma ends_word_head : forall rest, ends_word rest -> exists h q, rest = h ++ q /\ In h follow_heads /\ (h = [] -> q = []).
Proof.
  intros [|d rest'] H.
  - exists [], []. simpl. auto.
  - simpl in H. exists [d], rest'. split; [reflexivity|]. split; [|discriminate].
    destruct (is_ws_cases d H) as [-> | [-> | [-> | ->]]]; simpl; tauto.
Qed.

Lemma spells_word_length : forall ls w, spells_word ls w -> length w = length ls.
Proof. intros ls w H. induction H; simpl; auto. Qed.

(* ------------------------------------------------------------------------------------------ *)
(* the plain operator word: everything is finite *)
Definition kind_len_is (x : option (nat * nat)) (k l : nat) : bool :=
  match x with Some (k', l') => Nat.eqb k' k && Nat.eqb l' l | None => false end.

Lemma kind_len_is_eq : forall x k l, kind_len_is x k l = true -> x = Some (k, l).
Proof.
  intros [[k' l']|] k l H; simpl in H; [|discriminate].
  apply andb_true_iff in H. destruct H as [H1 H2]. apply Nat.eqb_eq in H1, H2. subst. reflexivity.
Qed.

Definition all_dead_within (p : str) : bool :=
  forallb (fun kr : nat * re => Nat.ltb (snd (scan_regex (snd kr) p)) (length p)) full_table.

Definition plain_check (o : wordop) : bool :=
  forallb (fun w =>
    forallb (fun h : str =>
      kind_len_is (fst (best full_rules (w ++ h) None 0)) (wo_kind o) (length w) &&
      match h with [] => true | _ => all_dead_within (w ++ h) end) follow_heads)
    (spellings (wo_letters o)).

Lemma plain_checks : forallb plain_check word_ops = true.
Proof. vm_compute. reflexivity. Qed.

Lemma plain_token : forall o w rest, In o word_ops -> spells_word (wo_letters o) w -> ends_word rest ->
  fst (best full_rules (w ++ rest) None 0) = Some (wo_kind o, length w).
Proof.
  intros o w rest Ho Hw Hrest.
  pose proof plain_checks as HC. rewrite forallb_forall in HC. specialize (HC o Ho).
  unfold plain_check in HC. rewrite forallb_forall in HC. specialize (HC w (spells_word_in _ _ Hw)).
  rewrite forallb_forall in HC.
  destruct (ends_word_head rest Hrest) as [h [q [-> [Hh Hq]]]].
  specialize (HC h Hh). apply andb_true_iff in HC. destruct HC as [H1 H2].
  destruct h as [|d h'].
  - rewrite (Hq eq_refl). apply kind_len_is_eq. exact H1.
  - rewrite app_assoc. rewrite full_rules_map, best_app_dead.
    + rewrite <- full_rules_map. apply kind_len_is_eq. exact H1.
    + intros kr Hin. unfold all_dead_within in H2. rewrite forallb_forall in H2.
      apply Nat.ltb_lt. apply (H2 kr Hin).
Qed.

(* ------------------------------------------------------------------------------------------ *)
(* the negated operator:  n ++ [c] ++ run ++ w ++ rest *)
Definition not_heads : list str :=
  flat_map (fun n => map (fun c => n ++ [c]) ws_chars) (spellings kw_not).

Lemma not_head_in : forall n c, spells_word kw_not n -> is_ws c = true -> In (n ++ [c]) not_heads.
Proof.
  intros n c Hn Hc. unfold not_heads. apply in_flat_map. exists n. split; [apply spells_word_in; exact Hn|].
  apply (in_map (fun c0 => n ++ [c0])). apply is_ws_in. exact Hc.
Qed.

(* rules other than the four operators die within  not<WS>  and accept at most 3 characters of it *)
Definition other_rule_check (p : str) (kr : nat * re) : bool :=
  kind_in (fst kr) wordop_kinds ||
  match scan_pre (snd kr) p 0 None with
  | None => match fst (scan_regex (snd kr) p) with Some l => Nat.leb l 3 | None => true end
  | Some _ => false
  end.

Lemma other_rules_checks : forallb (fun p => forallb (other_rule_check p) full_table) not_heads = true.
Proof. vm_compute. reflexivity. Qed.

Lemma other_rule_bound : forall p q kr l, In p not_heads -> In kr full_table -> kind_in (fst kr) wordop_kinds = false ->
  fst (scan_regex (snd kr) (p ++ q)) = Some l -> l <= 3.
Proof.
  intros p q kr l Hp Hkr Hk H.
  pose proof other_rules_checks as HC. rewrite forallb_forall in HC. specialize (HC p Hp).
  rewrite forallb_forall in HC. specialize (HC kr Hkr). unfold other_rule_check in HC. rewrite Hk in HC. simpl in HC.
  destruct (scan_pre (snd kr) p 0 None) eqn:E; [discriminate|].
  unfold scan_regex in *. rewrite scan_re_app_dead in H by (apply scan_pre_none; exact E).
  rewrite H in HC. apply Nat.leb_le. exact HC.
Qed.

(* the four operator rules are alive after  not<WS>, in the state [after_not] *)
Definition re_is (a b : re) : bool := re_eqb a b.

Lemma ranges_eqb_eq : forall a b, ranges_eqb a b = true -> a = b.
Proof.
  induction a as [|[x1 y1] a IH]; intros [|[x2 y2] b] H; simpl in H; try discriminate; [reflexivity|].
  apply andb_true_iff in H. destruct H as [H H3]. apply andb_true_iff in H. destruct H as [H1 H2].
  apply N.eqb_eq in H1, H2. subst. f_equal. apply IH. exact H3.
Qed.

Lemma re_eqb_eq : forall a b, re_eqb a b = true -> a = b.
Proof.
  induction a; intros b H; destruct b; simpl in H; try discriminate; try reflexivity.
  - unfold cls_eqb in H. apply andb_true_iff in H. destruct H as [H1 H2].
    destruct c as [n1 r1], c0 as [n2 r2]. simpl in *. apply eqb_prop in H1. apply ranges_eqb_eq in H2. subst. reflexivity.
  - apply andb_true_iff in H. destruct H as [H1 H2]. rewrite (IHa1 _ H1), (IHa2 _ H2). reflexivity.
  - apply andb_true_iff in H. destruct H as [H1 H2]. rewrite (IHa1 _ H1), (IHa2 _ H2). reflexivity.
  - rewrite (IHa _ H). reflexivity.
Qed.

Definition alive_check (p : str) (o : wordop) : bool :=
  match scan_pre (wordop_re o) p 0 None with
  | Some (st, n, last) => re_eqb st (after_not o) && Nat.eqb n 4 && match last with None => true | Some _ => false end
  | None => false
  end.

Lemma alive_checks : forallb (fun p => forallb (alive_check p) word_ops) not_heads = true.
Proof. vm_compute. reflexivity. Qed.

Lemma alive_after_not : forall p o, In p not_heads -> In o word_ops ->
  scan_pre (wordop_re o) p 0 None = Some (after_not o, 4, None).
Proof.
  intros p o Hp Ho. pose proof alive_checks as HC. rewrite forallb_forall in HC. specialize (HC p Hp).
  rewrite forallb_forall in HC. specialize (HC o Ho). unfold alive_check in HC.
  destruct (scan_pre (wordop_re o) p 0 None) as [[[st n] last]|]; [|discriminate].
  apply andb_true_iff in HC. destruct HC as [HC H3]. apply andb_true_iff in HC. destruct HC as [H1 H2].
  apply re_eqb_eq in H1. apply Nat.eqb_eq in H2. destruct last; [discriminate|]. subst. reflexivity.
Qed.

(* the entries of the table with an operator kind are the four rules *)
Lemma wordop_entries : forall kr, In kr full_table -> kind_in (fst kr) wordop_kinds = true ->
  exists o, In o word_ops /\ kr = (wo_kind o, wordop_re o).
Proof.
  intros kr Hin Hk. unfold full_table in Hin. simpl in Hin.
  repeat (destruct Hin as [<- | Hin]; [try discriminate Hk|]).
  - exists wo_contains. split; [simpl; tauto|reflexivity].
  - exists wo_icontains. split; [simpl; tauto|reflexivity].
  - exists wo_in. split; [simpl; tauto|reflexivity].
  - exists wo_between. split; [simpl; tauto|reflexivity].
  - contradiction.
Qed.

(* from the state after not<WS>: the operator word w of o, then white space or the end *)
Definition expected (o' o : wordop) (len : nat) : option nat :=
  if Nat.eqb (wo_kind o') (wo_kind o) then Some len else None.

Definition opt_nat_eqb (a b : option nat) : bool :=
  match a, b with Some x, Some y => Nat.eqb x y | None, None => true | _, _ => false end.

Lemma opt_nat_eqb_eq : forall a b, opt_nat_eqb a b = true -> a = b.
Proof. intros [x|] [y|] H; simpl in H; try discriminate; [apply Nat.eqb_eq in H; subst|]; reflexivity. Qed.

Definition word_check (o' o : wordop) : bool :=
  forallb (fun w =>
    forallb (fun h : str =>
      let res := scan_re (after_not o') (w ++ h) 0 None in
      opt_nat_eqb (fst res) (expected o' o (length w)) &&
      match h with [] => true | _ => Nat.ltb (snd res) (length (w ++ h)) end) follow_heads)
    (spellings (wo_letters o)).

Lemma word_checks : forallb (fun o' => forallb (word_check o') word_ops) word_ops = true.
Proof. vm_compute. reflexivity. Qed.

Lemma word_scan : forall o' o w rest, In o' word_ops -> In o word_ops ->
  spells_word (wo_letters o) w -> ends_word rest ->
  fst (scan_re (after_not o') (w ++ rest) 0 None) = expected o' o (length w).
Proof.
  intros o' o w rest Ho' Ho Hw Hrest.
  pose proof word_checks as HC. rewrite forallb_forall in HC. specialize (HC o' Ho').
  rewrite forallb_forall in HC. specialize (HC o Ho). unfold word_check in HC.
  rewrite forallb_forall in HC. specialize (HC w (spells_word_in _ _ Hw)). rewrite forallb_forall in HC.
  destruct (ends_word_head rest Hrest) as [h [q [-> [Hh Hq]]]].
  specialize (HC h Hh). cbv zeta in HC. apply andb_true_iff in HC. destruct HC as [H1 H2].
  apply opt_nat_eqb_eq in H1.
  destruct h as [|d h'].
  - rewrite (Hq eq_refl). exact H1.
  - rewrite app_assoc. rewrite scan_re_app_dead; [exact H1|]. apply Nat.ltb_lt in H2. simpl. exact H2.
Qed.

(* the loop states: after  not<WS>  a rule with WS+ is in a state that further WS does not change *)
Lemma loop_state : forall o, In o word_ops -> wo_many o = true ->
  (forall c, In c ws_chars -> deriv c (after_not o) = after_not o) /\ dead (after_not o) = false /\ nullable (after_not o) = false.
Proof.
  intros o Ho Hm. simpl in Ho.
  destruct Ho as [<- | [<- | [<- | [<- | []]]]]; try discriminate Hm;
    (split; [|split; vm_compute; reflexivity]);
    intros c Hc; simpl in Hc; repeat (destruct Hc as [<- | Hc]; [vm_compute; reflexivity|]); contradiction.
Qed.

(* a rule that demands exactly one WS after `not` dies on a second one *)
Lemma single_state : forall o c, In o word_ops -> wo_many o = false -> is_ws c = true -> dead (deriv c (after_not o)) = true.
Proof.
  intros o c Ho Hm Hc. simpl in Ho.
  destruct Ho as [<- | [<- | [<- | [<- | []]]]]; try discriminate Hm.
  destruct (is_ws_cases c Hc) as [-> | [-> | [-> | ->]]]; vm_compute; reflexivity.
Qed.

(* a rule with WS+ and the rule with a single WS have different kinds *)
Lemma many_kinds_differ : forall o' o, In o' word_ops -> In o word_ops -> wo_many o' = false -> wo_many o = true ->
  Nat.eqb (wo_kind o') (wo_kind o) = false.
Proof.
  intros o' o Ho' Ho. simpl in Ho', Ho.
  destruct Ho' as [<- | [<- | [<- | [<- | []]]]]; destruct Ho as [<- | [<- | [<- | [<- | []]]]]; intros; try discriminate; reflexivity.
Qed.

(* rule o' on a whole negated spelling of o *)
Lemma wordop_rule_on_negated : forall o' o p run w rest, In o' word_ops -> In o word_ops -> In p not_heads ->
  forallb is_ws run = true -> (wo_many o = false -> run = []) ->
  spells_word (wo_letters o) w -> ends_word rest ->
  fst (scan_regex (wordop_re o') (p ++ run ++ w ++ rest)) = expected o' o (length w + (4 + length run)).
Proof.
  intros o' o p run w rest Ho' Ho Hp Hrun Hone Hw Hrest.
  unfold scan_regex. rewrite (scan_pre_app p _ _ 0 None _ _ _ (alive_after_not p o' Hp Ho')).
  assert (Hshift : fst (scan_re (after_not o') (w ++ rest) (4 + length run) None) = expected o' o (length w + (4 + length run))).
  { rewrite scan_re_from. unfold shift. cbn [fst]. rewrite (word_scan o' o w rest Ho' Ho Hw Hrest).
    unfold expected. destruct (Nat.eqb (wo_kind o') (wo_kind o)); reflexivity. }
  destruct (wo_many o') eqn:Hm'.
  - destruct (loop_state o' Ho' Hm') as [HL [Hd Hn]].
    rewrite (scan_re_loop _ HL Hd Hn run (w ++ rest) 4 None Hrun). exact Hshift.
  - destruct run as [|c run'].
    + simpl app. exact Hshift.
    + (* a second WS: this rule dies, and the spelled operator is one of the WS+ rules *)
      simpl in Hrun. apply andb_true_iff in Hrun. destruct Hrun as [Hc _].
      simpl. rewrite (single_state o' c Ho' Hm' Hc). simpl.
      destruct (wo_many o) eqn:Hm; [|specialize (Hone eq_refl); discriminate].
      unfold expected. rewrite (many_kinds_differ o' o Ho' Ho Hm' Hm). reflexivity.
Qed.

Lemma table_split : forall o, In o word_ops ->
  exists pre post, full_table = pre ++ (wo_kind o, wordop_re o) :: post /\
    forallb (fun kr : nat * re => negb (Nat.eqb (fst kr) (wo_kind o))) pre = true.
Proof.
  intros o Ho. simpl in Ho. destruct Ho as [<- | [<- | [<- | [<- | []]]]].
  - exists (firstn 11 full_table), (skipn 12 full_table). split; reflexivity.
  - exists (firstn 12 full_table), (skipn 13 full_table). split; reflexivity.
  - exists (firstn 13 full_table), (skipn 14 full_table). split; reflexivity.
  - exists (firstn 14 full_table), (skipn 15 full_table). split; reflexivity.
Qed.

Lemma negated_token : forall o n r w rest, In o word_ops ->
  spells_word kw_not n -> ws_run (wo_many o) r -> spells_word (wo_letters o) w -> ends_word rest ->
  fst (best full_rules ((n ++ r ++ w) ++ rest) None 0) = Some (wo_kind o, length (n ++ r ++ w)).
Proof.
  intros o n r w rest Ho Hn Hr Hw Hrest.
  destruct (ws_run_shape _ r Hr) as [c [run [-> [Hc [Hrun Hone]]]]].
  pose proof (not_head_in n c Hn Hc) as Hp.
  set (p := n ++ [c]) in *.
  replace ((n ++ (c :: run) ++ w) ++ rest) with (p ++ run ++ w ++ rest)
    by (unfold p; repeat rewrite <- app_assoc; reflexivity).
  assert (HT : length (n ++ (c :: run) ++ w) = length w + (4 + length run)).
  { repeat rewrite app_length. rewrite (spells_word_length _ _ Hn). simpl. lia. }
  rewrite HT. set (T := length w + (4 + length run)).
  assert (HwT : 6 <= T). { unfold T. rewrite (spells_word_length _ _ Hw). simpl in Ho.
    destruct Ho as [<- | [<- | [<- | [<- | []]]]]; simpl; lia. }
  (* every rule of the table on this input *)
  assert (Hall : forall kr l, In kr full_table -> fst (scan_regex (snd kr) (p ++ run ++ w ++ rest)) = Some l ->
                 (fst kr = wo_kind o /\ l = T) \/ l <= 3).
  { intros kr l Hin H. destruct (kind_in (fst kr) wordop_kinds) eqn:Hk.
    - destruct (wordop_entries kr Hin Hk) as [o' [Ho' ->]]. simpl in H.
      rewrite (wordop_rule_on_negated o' o p run w rest Ho' Ho Hp Hrun Hone Hw Hrest) in H.
      unfold expected in H. destruct (Nat.eqb (wo_kind o') (wo_kind o)) eqn:E; [|discriminate].
      apply Nat.eqb_eq in E. inversion H. left. split; [exact E|reflexivity].
    - right. apply (other_rule_bound p (run ++ w ++ rest) kr l Hp Hin Hk H). }
  destruct (table_split o Ho) as [pre [post [Hsplit Hpre]]].
  rewrite full_rules_map, Hsplit, map_app. cbn [map].
  change (wo_kind o) with (rkind (rule_of (wo_kind o, wordop_re o))) at 2.
  apply best_spec.
  - cbn [rule_of rscan fst snd].
    rewrite (wordop_rule_on_negated o o p run w rest Ho Ho Hp Hrun Hone Hw Hrest).
    unfold expected. rewrite Nat.eqb_refl. reflexivity.
  - lia.
  - intros r' l Hin H. apply in_map_iff in Hin. destruct Hin as [kr [<- Hin]].
    cbn [rule_of rscan] in H.
    destruct (Hall kr l) as [[Ek _] | Hl]; [rewrite Hsplit; apply in_or_app; left; exact Hin|exact H| |lia].
    rewrite forallb_forall in Hpre. specialize (Hpre kr Hin). apply negb_true_iff in Hpre.
    apply Nat.eqb_neq in Hpre. contradiction.
  - intros r' l Hin H. apply in_map_iff in Hin. destruct Hin as [kr [<- Hin]].
    cbn [rule_of rscan] in H.
    destruct (Hall kr l) as [[_ El] | Hl]; [rewrite Hsplit; apply in_or_app; right; right; exact Hin|exact H| |]; lia.
  - exact I.
Qed.

(* ------------------------------------------------------------------------------------------ *)
Lemma wordop_best : forall o neg cs rest, In o word_ops -> spells_wordop o neg cs -> ends_word rest ->
  fst (best full_rules (cs ++ rest) None 0) = Some (wo_kind o, length cs).
Proof.
  intros o neg cs rest Ho H Hrest. inversion H as [w Hw | n r w Hn Hr Hw]; subst.
  - apply plain_token; auto.
  - apply negated_token; auto.
Qed.

(* fuel beyond the length of the input is irrelevant *)
Lemma lex_fuel_enough : forall rs f1 f2 s, length s <= f1 -> length s <= f2 -> lex_fuel rs f1 s = lex_fuel rs f2 s.
Proof.
  induction f1 as [|f1 IH]; intros f2 s H1 H2.
  - destruct s; [|simpl in H1; lia]. destruct f2; reflexivity.
  - destruct s as [|c s']; [destruct f2; reflexivity|].
    destruct f2 as [|f2]; [simpl in H2; lia|].
    cbn [lex_fuel]. destruct (best rs (c :: s') None 0) as [[[k l]|] v] eqn:Hb.
    + assert (1 <= l) by (eapply best_pos; [|exact Hb]; exact I).
      f_equal. apply IH; rewrite skipn_length; simpl length in *; lia.
    + f_equal. apply IH; rewrite skipn_length; simpl length in *; lia.
Qed.

Lemma wordop_lex_lemma : forall o neg cs rest, In o word_ops -> spells_wordop o neg cs -> ends_word rest ->
  lex_full (cs ++ rest) = Tok (wo_kind o) cs :: lex_full rest.
Proof.
  intros o neg cs rest Ho H Hrest.
  pose proof (wordop_best o neg cs rest Ho H Hrest) as Hb.
  assert (Hlen : 1 <= length cs).
  { inversion H as [w Hw | n r w Hn Hr Hw]; subst.
    - rewrite (spells_word_length _ _ Hw). simpl in Ho. destruct Ho as [<- | [<- | [<- | [<- | []]]]]; simpl; lia.
    - rewrite app_length, (spells_word_length _ _ Hn). simpl. lia. }
  unfold lex_full, lex. rewrite app_length.
  remember (cs ++ rest) as s eqn:E.
  destruct s as [|x s'].
  { destruct cs; [simpl in Hlen; lia|discriminate E]. }
  replace (length cs + length rest) with (S (length cs + length rest - 1)) by lia.
  cbn [lex_fuel].
  destruct (best full_rules (x :: s') None 0) as [a v]. cbn [fst] in Hb. subst a.
  rewrite E. rewrite firstn_app_len, skipn_app_len. f_equal.
  apply lex_fuel_enough; lia.
Qed.
