(* Model of the generated left-recursive rule  boolExpr(_p)  of zitiql/zitiql_parser.go, restricted
   to the boolean skeleton (BoolSymbol atoms, Group, AndExpr, OrExpr, NotExpr), and of the rule
   start : WS* query WS* EOF  around it.  Model only, no proofs.

   The generated function (ANTLR 4 precedence climbing):
     primary:  IDENTIFIER                                  #BoolSymbol
             | LPAREN WS* boolExpr(0) WS* RPAREN           #Group
             | NOT WS+ boolExpr(1)                         #NotExpr
     then, while adaptive prediction (decision 52) chooses to continue:
             {precpred(6)}?  ( WS+ AND WS+ boolExpr(RA) )+    #AndExpr     (decision 47 for the + loop)
             {precpred(5)}?  ( WS+ OR  WS+ boolExpr(RO) )+    #OrExpr      (decision 50)
   where precpred(k) is  k >= _p .  RA and RO are the precedences passed for the right operands.
   ANTLR generated RA = RO = 0 (the recursive reference sits inside a ( ... )+ block, which the
   left-recursion rewriting does not treat as a binary operator) - [legacy_prec]; the repaired
   parser passes RA = 6, RO = 5 - [fixed_prec].

   Adaptive prediction: continuing the loop and leaving it (so that an enclosing invocation takes
   the operator) are both viable whenever the predicate holds; ANTLR resolves this to the lowest
   alternative, which is "continue".  Hence: an operator is taken by the innermost invocation whose
   predicate admits it. *)
From Coq Require Import List NArith Bool Arith.
From Storage Require Import Base.Bytes Lang.Tokens.
Import ListNotations.

Record prec := mkPrec { ra : nat; ro : nat }.
Definition legacy_prec := mkPrec 0 0.
Definition fixed_prec := mkPrec 6 5.

(* parse tree of boolExpr: AndExpr / OrExpr contexts hold the left operand and the operands
   collected by the ( ... )+ loop *)
Inductive ptree :=
| PSym (name : str)
| PGroup (t : ptree)
| PNot (t : ptree)
| PAnd (l : ptree) (rs : list ptree)
| POr (l : ptree) (rs : list ptree).

(* WS*  *)
Fixpoint skip_ws (ts : list tok) : list tok :=
  match ts with
  | TWs :: r => skip_ws r
  | _ => ts
  end.

(* WS+ : at least one *)
Definition ws_plus (ts : list tok) : option (list tok) :=
  match ts with
  | TWs :: r => Some (skip_ws r)
  | _ => None
  end.

Section Parser.
  Variable P : prec.

  (* boolExpr fuel p ts  /  the operator loop with the left operand parsed so far /
     the ( WS+ op WS+ boolExpr )+ loop after its first operand *)
  Fixpoint boolExpr (fuel : nat) (p : nat) (ts : list tok) {struct fuel} : option (ptree * list tok) :=
    match fuel with
    | O => None
    | S f =>
        match ts with
        | TId n :: r => op_loop f p (PSym n) r
        | TLp :: r =>
            match boolExpr f 0 (skip_ws r) with
            | Some (t, r1) =>
                match skip_ws r1 with
                | TRp :: r2 => op_loop f p (PGroup t) r2
                | _ => None
                end
            | None => None
            end
        | TNot :: r =>
            match ws_plus r with
            | Some r1 =>
                match boolExpr f 1 r1 with
                | Some (t, r2) => op_loop f p (PNot t) r2
                | None => None
                end
            | None => None
            end
        | _ => None
        end
    end
  with op_loop (fuel : nat) (p : nat) (left : ptree) (ts : list tok) {struct fuel} : option (ptree * list tok) :=
    match fuel with
    | O => None
    | S f =>
        match ws_plus ts with
        | Some (TAnd :: r) =>
            if Nat.leb p 6 then
              match ws_plus r with
              | Some r1 =>
                  match boolExpr f (ra P) r1 with
                  | Some (t, r2) =>
                      match more_operands f TAnd (ra P) r2 with
                      | Some (rs, r3) => op_loop f p (PAnd left (t :: rs)) r3
                      | None => None
                      end
                  | None => None
                  end
              | None => None
              end
            else Some (left, ts)
        | Some (TOr :: r) =>
            if Nat.leb p 5 then
              match ws_plus r with
              | Some r1 =>
                  match boolExpr f (ro P) r1 with
                  | Some (t, r2) =>
                      match more_operands f TOr (ro P) r2 with
                      | Some (rs, r3) => op_loop f p (POr left (t :: rs)) r3
                      | None => None
                      end
                  | None => None
                  end
              | None => None
              end
            else Some (left, ts)
        | _ => Some (left, ts)
        end
    end
  with more_operands (fuel : nat) (op : tok) (q : nat) (ts : list tok) {struct fuel} : option (list ptree * list tok) :=
    match fuel with
    | O => None
    | S f =>
        match ws_plus ts with
        | Some (o :: r) =>
            if (match op, o with TAnd, TAnd => true | TOr, TOr => true | _, _ => false end) then
              match ws_plus r with
              | Some r1 =>
                  match boolExpr f q r1 with
                  | Some (t, r2) =>
                      match more_operands f op q r2 with
                      | Some (rs, r3) => Some (t :: rs, r3)
                      | None => None
                      end
                  | None => None
                  end
              | None => None
              end
            else Some ([], ts)
        | _ => Some ([], ts)
        end
    end.

  (* start: WS* query WS* EOF   with  query: boolExpr   (no sort / skip / limit in the skeleton) *)
  Definition parse_start (ts : list tok) : option ptree :=
    match boolExpr (2 * length ts + 2) 0 (skip_ws ts) with
    | Some (t, r) => match skip_ws r with [] => Some t | _ => None end
    | None => None
    end.
End Parser.
