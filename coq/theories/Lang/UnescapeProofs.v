(* Proofs about the string-literal codec (C11). *)
From Coq Require Import List NArith Bool Lia.
From Storage Require Import Base.Bytes Lang.Unescape.
Import ListNotations.
Open Scope N_scope.

Lemma esc_target_code c k : esc_code c = Some k -> esc_target k = Some c.
Proof.
  unfold esc_code.
  destruct (c =? BS) eqn:E1; [apply N.eqb_eq in E1; subst c; intros H; inversion H; reflexivity|].
  destruct (c =? DQ) eqn:E2; [apply N.eqb_eq in E2; subst c; intros H; inversion H; reflexivity|].
  destruct (c =? FF) eqn:E3; [apply N.eqb_eq in E3; subst c; intros H; inversion H; reflexivity|].
  destruct (c =? LF) eqn:E4; [apply N.eqb_eq in E4; subst c; intros H; inversion H; reflexivity|].
  destruct (c =? CR) eqn:E5; [apply N.eqb_eq in E5; subst c; intros H; inversion H; reflexivity|].
  destruct (c =? TAB) eqn:E6; [apply N.eqb_eq in E6; subst c; intros H; inversion H; reflexivity|].
  discriminate.
Qed.

Lemma esc_code_none_not_bs c : esc_code c = None -> (c =? BS) = false.
Proof.
  unfold esc_code. destruct (c =? BS); [discriminate | reflexivity].
Qed.

(* one escaped character is read back as that character, whatever follows *)
Lemma unescape_esc1_full c t : unescape (esc1_full c ++ t) = c :: unescape t.
Proof.
  unfold esc1_full. destruct (esc_code c) as [k|] eqn:Hk.
  - cbn [app unescape]. replace (BS =? BS) with true by reflexivity.
    rewrite (esc_target_code _ _ Hk). reflexivity.
  - cbn [app unescape]. rewrite (esc_code_none_not_bs _ Hk). reflexivity.
Qed.

Lemma unescape_escape_full s : unescape (escape_full s) = s.
Proof.
  induction s as [|c s IH]; [reflexivity|].
  unfold escape_full in *. cbn [flat_map]. rewrite unescape_esc1_full, IH. reflexivity.
Qed.

Lemma unescape_esc1_min c t : unescape (esc1_min c ++ t) = c :: unescape t.
Proof.
  unfold esc1_min. destruct (c =? BS) eqn:Hb; [|destruct (c =? DQ) eqn:Hq].
  - apply N.eqb_eq in Hb; subst c. reflexivity.
  - apply N.eqb_eq in Hq; subst c. reflexivity.
  - cbn [orb app unescape]. rewrite Hb. reflexivity.
Qed.

Lemma unescape_escape_min s : unescape (escape_min s) = s.
Proof.
  induction s as [|c s IH]; [reflexivity|].
  unfold escape_min in *. cbn [flat_map]. rewrite unescape_esc1_min, IH. reflexivity.
Qed.

Lemma trim_suffix_dq_cons c s : s <> [] -> trim_suffix_dq (c :: s) = c :: trim_suffix_dq s.
Proof. destruct s; [congruence | reflexivity]. Qed.

Lemma trim_suffix_dq_app s : trim_suffix_dq (s ++ [DQ]) = s.
Proof.
  induction s as [|c s IH]; [reflexivity|].
  cbn [app]. rewrite trim_suffix_dq_cons, IH; [reflexivity | destruct s; discriminate].
Qed.

Lemma parse_literal_full s : parse_zql_string (literal_full s) = s.
Proof.
  unfold parse_zql_string, literal_full. cbn [trim_prefix_dq].
  replace (DQ =? DQ) with true by reflexivity.
  rewrite trim_suffix_dq_app. apply unescape_escape_full.
Qed.

Lemma parse_literal_min s : parse_zql_string (literal_min s) = s.
Proof.
  unfold parse_zql_string, literal_min. cbn [trim_prefix_dq].
  replace (DQ =? DQ) with true by reflexivity.
  rewrite trim_suffix_dq_app. apply unescape_escape_min.
Qed.

(* the literal is a single STRING token *)
Lemma body_ok_app_esc1_full c t :
  (negb (c <? 32) || (c =? FF) || (c =? LF) || (c =? CR) || (c =? TAB)) = true ->
  body_ok (esc1_full c ++ t) = body_ok t.
Proof.
  intros Hc. unfold esc1_full. destruct (esc_code c) as [k|] eqn:Hk.
  - cbn [app body_ok]. replace (BS =? BS) with true by reflexivity.
    rewrite (esc_target_code _ _ Hk). reflexivity.
  - cbn [app body_ok]. rewrite (esc_code_none_not_bs _ Hk).
    unfold esc_code in Hk. unfold safe_byte.
    destruct (c =? BS); [discriminate|]. destruct (c =? DQ); [discriminate|].
    destruct (c =? FF); [discriminate|]. destruct (c =? LF); [discriminate|].
    destruct (c =? CR); [discriminate|]. destruct (c =? TAB); [discriminate|].
    cbn [orb] in Hc. rewrite !orb_false_r in Hc. rewrite Hc. reflexivity.
Qed.

Lemma body_ok_escape_full s : expressible_full s = true -> body_ok (escape_full s) = true.
Proof.
  induction s as [|c s IH]; [reflexivity|].
  unfold expressible_full in *. cbn [forallb]. intros H. apply andb_prop in H as [Hc Hs].
  unfold escape_full in *. cbn [flat_map]. rewrite body_ok_app_esc1_full by exact Hc. auto.
Qed.

Lemma body_ok_app_esc1_min c t :
  negb (c <? 32) = true -> body_ok (esc1_min c ++ t) = body_ok t.
Proof.
  intros Hc. unfold esc1_min. destruct (c =? BS) eqn:Hb; [|destruct (c =? DQ) eqn:Hq].
  - apply N.eqb_eq in Hb; subst c. reflexivity.
  - apply N.eqb_eq in Hq; subst c. reflexivity.
  - cbn [orb app body_ok]. rewrite Hb. unfold safe_byte. rewrite Hb, Hq, Hc. reflexivity.
Qed.

Lemma body_ok_escape_min s : expressible_min s = true -> body_ok (escape_min s) = true.
Proof.
  induction s as [|c s IH]; [reflexivity|].
  unfold expressible_min in *. cbn [forallb]. intros H. apply andb_prop in H as [Hc Hs].
  unfold escape_min in *. cbn [flat_map]. rewrite body_ok_app_esc1_min by exact Hc. auto.
Qed.

Lemma literal_roundtrip_full_lemma s :
  expressible_full s = true ->
  is_string_token (literal_full s) /\ parse_zql_string (literal_full s) = s.
Proof.
  intros H. split; [|apply parse_literal_full].
  exists (escape_full s). split; [reflexivity | apply body_ok_escape_full; exact H].
Qed.

Lemma literal_roundtrip_min_lemma s :
  expressible_min s = true ->
  is_string_token (literal_min s) /\ parse_zql_string (literal_min s) = s.
Proof.
  intros H. split; [|apply parse_literal_min].
  exists (escape_min s). split; [reflexivity | apply body_ok_escape_min; exact H].
Qed.

(* "two different strings never denote the same value": whatever escaper each side used *)
Lemma literals_distinct_lemma (l1 l2 : str -> str) s1 s2 :
  (l1 = literal_min \/ l1 = literal_full) -> (l2 = literal_min \/ l2 = literal_full) ->
  s1 <> s2 -> parse_zql_string (l1 s1) <> parse_zql_string (l2 s2).
Proof.
  intros [->| ->] [->| ->] Hne; rewrite ?parse_literal_min, ?parse_literal_full; exact Hne.
Qed.

(* A STRING token never contains an unescaped quote or control character and its value is
   computed by [unescape] alone: every valid body decodes without leaving an escape pair
   half-read.  Converse direction of the round trip: any valid token body is the (mixed)
   escaping of its own value. *)
Fixpoint reescape_matches (body v : str) : Prop :=
  match body, v with
  | [], [] => True
  | c :: rest, x :: v' =>
      if c =? BS then
        match rest with
        | d :: rest' => esc_target d = Some x /\ reescape_matches rest' v'
        | [] => False
        end
      else c = x /\ reescape_matches rest v'
  | _, _ => False
  end.

Lemma body_ok_unescape_len body :
  body_ok body = true -> forall n, (length body <= n)%nat -> reescape_matches body (unescape body).
Proof.
  intros Hok n; revert body Hok. induction n as [|n IH]; intros body Hok Hlen.
  - destruct body; [exact I | cbn in Hlen; lia].
  - destruct body as [|c rest]; [exact I|].
    cbn [body_ok unescape] in *. destruct (c =? BS) eqn:Hb.
    + destruct rest as [|d rest']; [discriminate|].
      destruct (esc_target d) as [x|] eqn:Hd; [|discriminate].
      cbn [reescape_matches]. rewrite Hb. split; [exact Hd|].
      apply IH; [exact Hok | cbn in Hlen; lia].
    + apply andb_prop in Hok as [_ Hok].
      cbn [reescape_matches]. rewrite Hb. split; [reflexivity|].
      apply IH; [exact Hok | cbn in Hlen; lia].
Qed.

Lemma token_value_faithful_lemma body :
  body_ok body = true -> reescape_matches body (unescape body).
Proof. intros H. apply (body_ok_unescape_len body H (length body)). lia. Qed.

(* escaped backslash followed by a letter is never re-read as a control escape *)
Lemma escaped_backslash_letter_lemma (c : byte) (pre post : str) :
  parse_zql_string (literal_full (pre ++ [BS; c] ++ post)) = pre ++ [BS; c] ++ post.
Proof. apply parse_literal_full. Qed.
