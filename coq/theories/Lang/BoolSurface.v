(* Specification side of C12: the surface syntax of boolean skeletons and what it is meant to
   denote.  Independent of the parser model.  Model only, no proofs.

   A skeleton is a chain  p1 op1 p2 op2 ... pk  of primaries joined by and / or, where a primary is
   an atom or a parenthesised skeleton, and where the chain may end in  not <skeleton>  (by the
   order of the alternatives of ZitiQl.g4 - AndExpr, OrExpr, ..., NotExpr - `not` has the lowest
   precedence: it negates everything up to the closing parenthesis or the end of the filter).
   [expr] is exactly the set of sentences of the boolExpr rule over atoms, and, or, not and
   parentheses - every and/or/not/parenthesis arrangement, of any size. *)
From Coq Require Import List NArith Bool Arith.
From Storage Require Import Base.Bytes Lang.Tokens.
Import ListNotations.

Inductive prim :=
| XAtom (name : str)
| XParen (e : expr)
with expr :=
| ELast (p : prim)
| ENot (e : expr)
| EAnd (p : prim) (e : expr)
| EOr (p : prim) (e : expr).

(* mutual induction principle *)
Scheme prim_mind := Induction for prim Sort Prop
  with expr_mind := Induction for expr Sort Prop.
Combined Scheme prim_expr_ind from prim_mind, expr_mind.

(* ---- meaning: `and` binds tighter than `or`, wherever they are mixed ----
   [semE acc e] reads the chain left to right; [acc] is the value of the conjunction collected
   since the last `or`. *)
Fixpoint semP (p : prim) (rho : str -> bool) : bool :=
  match p with
  | XAtom n => rho n
  | XParen e => semE true e rho
  end
with semE (acc : bool) (e : expr) (rho : str -> bool) : bool :=
  match e with
  | ELast p => acc && semP p rho
  | ENot e' => acc && negb (semE true e' rho)
  | EAnd p e' => semE (acc && semP p rho) e' rho
  | EOr p e' => (acc && semP p rho) || semE true e' rho
  end.

Definition sem (e : expr) (rho : str -> bool) : bool := semE true e rho.

(* the same meaning as "a disjunction of conjunctions": the chain cut at its top-level `or`s *)
Inductive lit :=
| LPrim (p : prim)
| LNotTail (e : expr).

Fixpoint disjuncts (e : expr) : list (list lit) :=
  match e with
  | ELast p => [[LPrim p]]
  | ENot e' => [[LNotTail e']]
  | EAnd p e' =>
      match disjuncts e' with
      | c :: r => (LPrim p :: c) :: r
      | [] => [[LPrim p]]
      end
  | EOr p e' => [LPrim p] :: disjuncts e'
  end.

Definition sem_lit (rho : str -> bool) (l : lit) : bool :=
  match l with
  | LPrim p => semP p rho
  | LNotTail e => negb (sem e rho)
  end.

Definition sem_dnf (e : expr) (rho : str -> bool) : bool :=
  existsb (forallb (sem_lit rho)) (disjuncts e).

(* ---- canonical printing: one blank around operators, none inside parentheses ---- *)
Fixpoint printP (p : prim) : list tok :=
  match p with
  | XAtom n => [TId n]
  | XParen e => TLp :: printE e ++ [TRp]
  end
with printE (e : expr) : list tok :=
  match e with
  | ELast p => printP p
  | ENot e' => TNot :: TWs :: printE e'
  | EAnd p e' => printP p ++ TWs :: TAnd :: TWs :: printE e'
  | EOr p e' => printP p ++ TWs :: TOr :: TWs :: printE e'
  end.

(* ---- every spelling: any positive amount of WS where the grammar says WS+, any amount where it
        says WS* (inside parentheses; around the whole filter, see [spells_filter]) ---- *)
Definition blanks (n : nat) : list tok := repeat TWs n.

Inductive spellsP : prim -> list tok -> Prop :=
| SpAtom : forall n, spellsP (XAtom n) [TId n]
| SpParen : forall e w a b, spellsE e w -> spellsP (XParen e) (TLp :: blanks a ++ w ++ blanks b ++ [TRp])
with spellsE : expr -> list tok -> Prop :=
| SpLast : forall p w, spellsP p w -> spellsE (ELast p) w
| SpNot : forall e w a, spellsE e w -> spellsE (ENot e) (TNot :: blanks (S a) ++ w)
| SpAnd : forall p e wp we a b, spellsP p wp -> spellsE e we ->
    spellsE (EAnd p e) (wp ++ blanks (S a) ++ TAnd :: blanks (S b) ++ we)
| SpOr : forall p e wp we a b, spellsP p wp -> spellsE e we ->
    spellsE (EOr p e) (wp ++ blanks (S a) ++ TOr :: blanks (S b) ++ we).

Definition spells_filter (e : expr) (ts : list tok) : Prop :=
  exists w a b, spellsE e w /\ ts = blanks a ++ w ++ blanks b.

(* ---- characters: every spelling of a token ---- *)
(* c is the lower-case letter l or its upper-case form *)
Definition case_of (l c : byte) : Prop := c = l \/ c = (l - 32)%N.

Inductive spells_word : str -> str -> Prop :=
| SwNil : spells_word [] []
| SwCons : forall l ls c cs, case_of l c -> spells_word ls cs -> spells_word (l :: ls) (c :: cs).

(* an atom name: an identifier of the form [A-Za-z][A-Za-z_]* that is not one of the connectives
   in any letter case *)
Fixpoint ci_eqb (letters s : str) : bool :=
  match letters, s with
  | [], [] => true
  | l :: ls, c :: cs => ci_is l c && ci_eqb ls cs
  | _, _ => false
  end.

Fixpoint ci_prefixb (letters s : str) : bool :=
  match letters, s with
  | [], _ => true
  | l :: ls, c :: cs => ci_is l c && ci_prefixb ls cs
  | _ :: _, [] => false
  end.

(* the other word tokens of ZitiQl.g4 (lower case): true false null allof anyof count isempty asc desc
   sort by skip limit none where from in contains icontains between *)
Definition other_reserved : list str :=
  [ [116;114;117;101]; [102;97;108;115;101]; [110;117;108;108]; [97;108;108;111;102]; [97;110;121;111;102];
    [99;111;117;110;116]; [105;115;101;109;112;116;121]; [97;115;99]; [100;101;115;99]; [115;111;114;116];
    [98;121]; [115;107;105;112]; [108;105;109;105;116]; [110;111;110;101]; [119;104;101;114;101]; [102;114;111;109] ]%N.
(* in contains icontains between: as token rules they absorb a preceding `not`, so an atom must
   not even begin with them *)
Definition absorbing : list str :=
  [ [105;110]; [99;111;110;116;97;105;110;115]; [105;99;111;110;116;97;105;110;115]; [98;101;116;119;101;101;110] ]%N.

Definition atom_ok (n : str) : bool :=
  match n with
  | c :: r => is_letter c && forallb is_ident_char r
  | [] => false
  end && negb (ci_eqb kw_and n) && negb (ci_eqb kw_or n) && negb (ci_eqb kw_not n)
  && negb (existsb (fun k => ci_eqb k n) other_reserved)
  && negb (existsb (fun k => ci_prefixb k n) absorbing).

Inductive spells_tok : tok -> str -> Prop :=
| StId : forall n, atom_ok n = true -> spells_tok (TId n) n
| StAnd : forall cs, spells_word kw_and cs -> spells_tok TAnd cs
| StOr : forall cs, spells_word kw_or cs -> spells_tok TOr cs
| StNot : forall cs, spells_word kw_not cs -> spells_tok TNot cs
| StLp : spells_tok TLp [40%N]
| StRp : spells_tok TRp [41%N]
| StWs : forall c, is_ws c = true -> spells_tok TWs [c].

Inductive spells_toks : list tok -> str -> Prop :=
| StsNil : spells_toks [] []
| StsCons : forall t ts c cs, spells_tok t c -> spells_toks ts cs -> spells_toks (t :: ts) (c ++ cs).

(* two words must not touch: a token sequence is [separated] when no two word tokens are adjacent *)
Definition is_word (t : tok) : bool :=
  match t with TId _ | TAnd | TOr | TNot => true | _ => false end.

Fixpoint separated (ts : list tok) : bool :=
  match ts with
  | a :: ((b :: _) as r) => negb (is_word a && is_word b) && separated r
  | _ => true
  end.

(* no TOther in a skeleton *)
Definition skeleton_tok (t : tok) : bool := match t with TOther _ => false | _ => true end.

(* ---- chains of a single connective ---- *)
(* p1 and p2 and ... and pn and <k last> *)
Fixpoint and_run (ps : list prim) (last : prim) (k : prim -> expr) : expr :=
  match ps with
  | [] => k last
  | p :: r => EAnd p (and_run r last k)
  end.

Fixpoint or_run (ps : list prim) (last : prim) : expr :=
  match ps with
  | [] => ELast last
  | p :: r => EOr p (or_run r last)
  end.

(* ---- redundant parentheses ----
   [wrapE b e e']: e' is e with one pair of parentheses added around a sub-expression that the
   precedence rules already treat as a unit: a primary; the whole filter, the whole content of a
   parenthesis or the whole operand of `not`; everything that follows an `or`; a complete run of
   `and`s up to the next `or`.  [b = true] marks the positions at which a new disjunct starts
   (where wrapping the rest of the chain keeps the meaning). *)
Inductive wrapP : prim -> prim -> Prop :=
| WpHere : forall p, wrapP p (XParen (ELast p))
| WpIn : forall e e', wrapE true e e' -> wrapP (XParen e) (XParen e')
with wrapE : bool -> expr -> expr -> Prop :=
| WeWhole : forall e, wrapE true e (ELast (XParen e))
| WeRun : forall ps last rest,
    wrapE true (and_run ps last (fun p => EOr p rest)) (EOr (XParen (and_run ps last ELast)) rest)
| WeLast : forall b p p', wrapP p p' -> wrapE b (ELast p) (ELast p')
| WeNot : forall b e e', wrapE true e e' -> wrapE b (ENot e) (ENot e')
| WeAndHead : forall b p p' e, wrapP p p' -> wrapE b (EAnd p e) (EAnd p' e)
| WeAndTail : forall b p e e', wrapE false e e' -> wrapE b (EAnd p e) (EAnd p e')
| WeOrHead : forall b p p' e, wrapP p p' -> wrapE b (EOr p e) (EOr p' e)
| WeOrTail : forall b p e e', wrapE true e e' -> wrapE b (EOr p e) (EOr p e').
