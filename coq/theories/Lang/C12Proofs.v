(* The statements of Properties/C12.v, assembled from BoolGrammarProofs.v and LexerProofs.v. *)
From Coq Require Import List NArith Bool Arith Lia.
From Storage Require Import Base.Bytes Lang.Tokens Lang.Lexer Lang.BoolGrammar Lang.Listener Lang.BoolSurface
  Lang.BoolGrammarProofs Lang.LexerProofs.
Import ListNotations.

Lemma compile_value : forall e ts b, spells_filter e ts -> compile fixed_prec ts = Some b ->
  forall rho, eval b rho = sem e rho.
Proof.
  intros e ts b Hs Hc rho. destruct (compile_correct e ts Hs) as [b' [Hc' He]].
  rewrite Hc in Hc'. inversion Hc'; subst. apply He.
Qed.

Lemma precedence_lemma : forall e ts, spells_filter e ts ->
  exists b, compile fixed_prec ts = Some b /\ forall rho, eval b rho = sem e rho.
Proof. exact compile_correct. Qed.

Lemma mixed_lemma : forall p q r ts1 ts2 b1 b2 rho,
  spells_filter (EAnd p (EOr q (ELast r))) ts1 -> spells_filter (EOr p (EAnd q (ELast r))) ts2 ->
  compile fixed_prec ts1 = Some b1 -> compile fixed_prec ts2 = Some b2 ->
  eval b1 rho = (semP p rho && semP q rho) || semP r rho /\
  eval b2 rho = semP p rho || (semP q rho && semP r rho).
Proof.
  intros. rewrite (compile_value _ _ _ H H1), (compile_value _ _ _ H0 H2). unfold sem. simpl.
  split; reflexivity.
Qed.

Lemma parens_lemma : forall e1 e2 ts1 ts2 b1 b2 rho,
  spells_filter (EAnd (XParen e1) (ELast (XParen e2))) ts1 ->
  spells_filter (EOr (XParen e1) (ELast (XParen e2))) ts2 ->
  compile fixed_prec ts1 = Some b1 -> compile fixed_prec ts2 = Some b2 ->
  eval b1 rho = sem e1 rho && sem e2 rho /\ eval b2 rho = sem e1 rho || sem e2 rho.
Proof.
  intros. rewrite (compile_value _ _ _ H H1), (compile_value _ _ _ H0 H2). unfold sem. simpl.
  split; reflexivity.
Qed.

Lemma chain_lemma : forall ps last ts1 ts2 b1 b2 rho,
  spells_filter (and_run ps last ELast) ts1 -> spells_filter (or_run ps last) ts2 ->
  compile fixed_prec ts1 = Some b1 -> compile fixed_prec ts2 = Some b2 ->
  eval b1 rho = forallb (fun p => semP p rho) (ps ++ [last]) /\
  eval b2 rho = existsb (fun p => semP p rho) (ps ++ [last]).
Proof.
  intros. rewrite (compile_value _ _ _ H H1), (compile_value _ _ _ H0 H2).
  split; [apply sem_and_chain|apply sem_or_chain].
Qed.

(* however a chain of one connective is cut into two parenthesised groups, the value is the same *)
Lemma regroup_lemma : forall ps1 l1 ps2 l2 ts1 ts2 b1 b2 rho,
  spells_filter (EAnd (XParen (and_run ps1 l1 ELast)) (ELast (XParen (and_run ps2 l2 ELast)))) ts1 ->
  spells_filter (EOr (XParen (or_run ps1 l1)) (ELast (XParen (or_run ps2 l2)))) ts2 ->
  compile fixed_prec ts1 = Some b1 -> compile fixed_prec ts2 = Some b2 ->
  eval b1 rho = forallb (fun p => semP p rho) ((ps1 ++ [l1]) ++ (ps2 ++ [l2])) /\
  eval b2 rho = existsb (fun p => semP p rho) ((ps1 ++ [l1]) ++ (ps2 ++ [l2])).
Proof.
  intros. rewrite (compile_value _ _ _ H H1), (compile_value _ _ _ H0 H2).
  rewrite forallb_app, existsb_app. rewrite <- !sem_and_chain, <- !sem_or_chain.
  unfold sem. simpl. split; reflexivity.
Qed.

Lemma not_lemma : forall e p ts1 ts2 ts3 b1 b2 b3 rho,
  spells_filter (ENot (ELast (XParen e))) ts1 ->
  spells_filter (EAnd p (ENot (ELast (XParen e)))) ts2 ->
  spells_filter (EOr p (ENot (ELast (XParen e)))) ts3 ->
  compile fixed_prec ts1 = Some b1 -> compile fixed_prec ts2 = Some b2 -> compile fixed_prec ts3 = Some b3 ->
  eval b1 rho = negb (sem e rho) /\
  eval b2 rho = semP p rho && negb (sem e rho) /\
  eval b3 rho = semP p rho || negb (sem e rho).
Proof.
  intros. rewrite (compile_value _ _ _ H H2), (compile_value _ _ _ H0 H3), (compile_value _ _ _ H1 H4).
  unfold sem. simpl. repeat split; reflexivity.
Qed.

(* `not` without parentheses negates everything that follows it *)
Lemma not_scope_lemma : forall e ts b rho,
  spells_filter (ENot e) ts -> compile fixed_prec ts = Some b -> eval b rho = negb (sem e rho).
Proof. intros. rewrite (compile_value _ _ _ H H0). unfold sem. simpl. reflexivity. Qed.

Lemma redundant_parens_lemma : forall e e' ts ts' b b' rho,
  wrapE true e e' -> spells_filter e ts -> spells_filter e' ts' ->
  compile fixed_prec ts = Some b -> compile fixed_prec ts' = Some b' -> eval b rho = eval b' rho.
Proof.
  intros. rewrite (compile_value _ _ _ H0 H2), (compile_value _ _ _ H1 H3). apply wrap_preserves_sem; auto.
Qed.

(* any two spellings of one skeleton - any amounts of white space - give the same parse tree *)
Lemma whitespace_lemma : forall e ts ts',
  spells_filter e ts -> spells_filter e ts' ->
  parse_start fixed_prec ts = parse_start fixed_prec ts' /\ compile fixed_prec ts = compile fixed_prec ts'.
Proof.
  intros. unfold compile. rewrite (parse_start_correct e ts H), (parse_start_correct e ts' H0). auto.
Qed.

Lemma case_lemma : forall ts cs, spells_toks ts cs -> separated ts = true ->
  toks_of (lex_skeleton cs) = ts /\ drops_of (lex_skeleton cs) = [].
Proof. exact lex_spelled. Qed.

Lemma text_lemma : forall e ts cs, spells_filter e ts -> spells_toks ts cs ->
  drops_of (lex_skeleton cs) = [] /\
  exists b, compile fixed_prec (toks_of (lex_skeleton cs)) = Some b /\ forall rho, eval b rho = sem e rho.
Proof.
  intros e ts cs He Hc.
  destruct (lex_spelled ts cs Hc (spells_filter_separated e ts He)) as [Ht Hd].
  split; [exact Hd|]. rewrite Ht. apply compile_correct. exact He.
Qed.
