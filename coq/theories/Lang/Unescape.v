(* Model of zitiql.ParseZqlString (zitiql/util.go) and of the STRING token rule of
   ZitiQl.g4.  Model only: no proofs in this file, so it still extracts and runs
   when a proof elsewhere breaks.

   STRING: DQUOTE (ESC | SAFECODEPOINT)* DQUOTE;
   fragment ESC: BACKSLASH followed by one of: dquote backslash f n r t;
   fragment SAFECODEPOINT: anything but dquote, backslash, U+0000-U+001F;
*)
From Coq Require Import List NArith Bool.
From Storage Require Import Base.Bytes.
Import ListNotations.
Open Scope N_scope.

Definition BS : byte := 92.   (* \ *)
Definition DQ : byte := 34.   (* double quote *)
Definition ch_f : byte := 102.
Definition ch_n : byte := 110.
Definition ch_r : byte := 114.
Definition ch_t : byte := 116.
Definition FF : byte := 12.
Definition LF : byte := 10.
Definition CR : byte := 13.
Definition TAB : byte := 9.

(* what the character after a backslash denotes (the ESC fragment) *)
Definition esc_target (d : byte) : option byte :=
  if d =? BS then Some BS
  else if d =? DQ then Some DQ
  else if d =? ch_f then Some FF
  else if d =? ch_n then Some LF
  else if d =? ch_r then Some CR
  else if d =? ch_t then Some TAB
  else None.

(* the escape code of a character that has one *)
Definition esc_code (c : byte) : option byte :=
  if c =? BS then Some BS
  else if c =? DQ then Some DQ
  else if c =? FF then Some ch_f
  else if c =? LF then Some ch_n
  else if c =? CR then Some ch_r
  else if c =? TAB then Some ch_t
  else None.

(* ---- ParseZqlString: single left-to-right pass (strings.NewReplacer semantics:
        at each position the first matching two-byte pattern is replaced and skipped,
        otherwise the byte is copied) ---- *)
Fixpoint unescape (s : str) : str :=
  match s with
  | [] => []
  | c :: rest =>
      if c =? BS then
        match rest with
        | d :: rest' =>
            match esc_target d with
            | Some x => x :: unescape rest'
            | None => c :: unescape rest
            end
        | [] => [c]
        end
      else c :: unescape rest
  end.

Definition trim_prefix_dq (s : str) : str :=
  match s with
  | c :: r => if c =? DQ then r else s
  | [] => []
  end.

Fixpoint trim_suffix_dq (s : str) : str :=
  match s with
  | [] => []
  | [c] => if c =? DQ then [] else [c]
  | c :: r => c :: trim_suffix_dq r
  end.

Definition parse_zql_string (text : str) : str :=
  unescape (trim_suffix_dq (trim_prefix_dq text)).

(* ---- the two escapers of the property ---- *)
Definition esc1_min (c : byte) : str :=
  if (c =? BS) || (c =? DQ) then [BS; c] else [c].

Definition esc1_full (c : byte) : str :=
  match esc_code c with
  | Some k => [BS; k]
  | None => [c]
  end.

Definition escape_min (s : str) : str := flat_map esc1_min s.
Definition escape_full (s : str) : str := flat_map esc1_full s.
Definition literal_min (s : str) : str := DQ :: escape_min s ++ [DQ].
Definition literal_full (s : str) : str := DQ :: escape_full s ++ [DQ].

(* ---- the STRING token rule, on bytes (bytes >= 0x80 belong to multi-byte code points,
        all of which are SAFECODEPOINTs) ---- *)
Definition safe_byte (c : byte) : bool :=
  negb (c =? DQ) && negb (c =? BS) && negb (c <? 32).

Fixpoint body_ok (s : str) : bool :=
  match s with
  | [] => true
  | c :: rest =>
      if c =? BS then
        match rest with
        | d :: rest' => match esc_target d with Some _ => body_ok rest' | None => false end
        | [] => false
        end
      else safe_byte c && body_ok rest
  end.

Definition is_string_token (t : str) : Prop :=
  exists body, t = DQ :: body ++ [DQ] /\ body_ok body = true.

(* strings that have a literal at all *)
Definition expressible_min (s : str) : bool := forallb (fun c => negb (c <? 32)) s.
Definition expressible_full (s : str) : bool :=
  forallb (fun c => negb (c <? 32) || (c =? FF) || (c =? LF) || (c =? CR) || (c =? TAB)) s.

(* ---- the code as it stood at the pinned commit: seven successive strings.Replace calls.
        Kept for the refutation witness in Examples/C11Legacy.v. ---- *)
Fixpoint replace2 (a b x : byte) (s : str) : str :=
  match s with
  | [] => []
  | c :: rest =>
      if c =? a then
        match rest with
        | d :: rest' => if d =? b then x :: replace2 a b x rest' else c :: replace2 a b x rest
        | [] => [c]
        end
      else c :: replace2 a b x rest
  end.

Definition unescape_legacy (s : str) : str :=
  let s := replace2 BS BS BS s in
  let s := replace2 BS DQ DQ s in
  let s := replace2 BS ch_f FF s in
  let s := replace2 BS ch_n LF s in
  let s := replace2 BS ch_r CR s in
  let s := replace2 BS ch_t TAB s in
  replace2 BS BS BS s.

Definition parse_zql_string_legacy (text : str) : str :=
  unescape_legacy (trim_suffix_dq (trim_prefix_dq text)).
