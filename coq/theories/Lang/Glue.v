(* Model of the glue around the ANTLR recognisers: zitiql.parse / zitiql.Parse (zitiql/util.go) and
   ast.Parse (ast/helper.go) - which error listener hears which recogniser, and what the caller
   gets.  Model only, no proofs.

   zitiql.parse: takes a pooled lexer and parser, feeds the lexer's tokens to the parser, removes the
   parser's default listeners, attaches the collecting ErrorListener [el] to the PARSER, runs rule
   start, walks the tree with the listener.  As shipped the LEXER keeps antlr's default
   ConsoleErrorListener only: what the lexer cannot tokenise is printed to stderr, dropped, and
   never reaches [el.Errors].  ErrorListener.SyntaxError formats the offending token with
   s.GetText() even when the type assertion of offendingSymbol to a CommonToken pointer failed - lexer
   errors carry no offending token, so attaching [el] to the lexer without making SyntaxError
   nil-safe turns every lexer error into a nil-pointer panic.
   ast.Parse: errors collected -> error; otherwise the listener's query (or its error). *)
From Coq Require Import List NArith Bool Arith.
From Storage Require Import Base.Bytes Lang.Tokens Lang.Lexer Lang.Regex Lang.LexerFull.
Import ListNotations.

Record glue := mkGlue {
  lexer_listened : bool;   (* the collecting ErrorListener is attached to the lexer as well *)
  nil_safe : bool          (* SyntaxError tolerates a missing offending token *)
}.

Definition legacy_glue := mkGlue false false.   (* as shipped *)
Definition naive_glue := mkGlue true false.     (* listener attached to the lexer, SyntaxError unchanged *)
Definition fixed_glue := mkGlue true true.

Inductive outcome (Q : Type) :=
| Accepted (q : Q)
| Rejected
| Panicked.
Arguments Accepted {Q} q.
Arguments Rejected {Q}.
Arguments Panicked {Q}.

Definition tokens_of (l : list seg) : list (nat * str) :=
  flat_map (fun s => match s with Tok k t => [(k, t)] | Drop _ => [] end) l.

Section Glue.
  Variable Q : Type.
  (* the generated parser on the token stream followed by the tree walk with the listener: the
     number of syntax errors it reports to its listeners, and what the listener built (None: the
     listener's own error latch).  A Section variable: the ANTLR parser runtime is not modelled. *)
  Variable parser : list (nat * str) -> nat * option Q.

  Definition parse_glue (g : glue) (s : str) : outcome Q :=
    let segs := lex_full s in
    let lexer_errors := length (drops_of segs) in
    if lexer_listened g && negb (nil_safe g) && negb (Nat.eqb lexer_errors 0) then Panicked
    else
      let (parser_errors, q) := parser (tokens_of segs) in
      let collected := (if lexer_listened g then lexer_errors else 0) + parser_errors in
      if Nat.eqb collected 0 then
        match q with Some x => Accepted x | None => Rejected end
      else Rejected.
End Glue.
