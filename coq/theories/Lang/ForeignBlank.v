(* Blank-like characters that are NOT white space of the filter grammar, and the two syntactic analyses of the token
   rules that decide what such a character does at the edges of a text.  Model only, no proofs.

   The grammar's white space is the token rule  WS: [ \n\t\r];  (Lang/LexerFull.v WSc) - four characters.  Go's
   unicode.IsSpace (strings.TrimSpace, strings.Fields, bytes.TrimSpace ...) knows 25: the four, and the 21 of
   [go_space_foreign] (the White_Space property: VT FF NEL NBSP, U+1680, U+2000-U+200A, U+2028, U+2029, U+202F,
   U+205F, U+3000).  [blank_like_foreign] adds what other notions of "blank" cover: every other C0 / C1 control
   (NUL ... US, DEL, U+0080-U+009F), format and invisible characters (soft hyphen, ALM, Mongolian vowel separator,
   ZWSP, ZWNJ, ZWJ, LRM, RLM, the bidi embeddings / isolates, word joiner, function application, BOM), U+FFFD (what
   a byte that is not UTF-8 becomes in the input stream), non-characters, a private-use and an astral character, and
   characters that turn into ASCII under case mapping / compatibility normalisation or look like the grammar's
   punctuation (KELVIN SIGN, LONG S, dotted / dotless I, full-width a A 1 and full-width parentheses, equals sign, quotation mark, comma, bracket, typographic quotes, MINUS
   SIGN, ideographic comma).  The harness takes its population from the tables of Go's unicode package at run
   time and the check compares it with this table (case line W).

   starts_no_token c   no token rule survives c as its first character: the simulation of every rule dies on it
   can_end c r         some string ending in c could be matched by r (over-approximation, by structure: the
                       character classes in last position)
   ends_no_token c     no token rule can match a string that ends in c *)
From Coq Require Import List NArith Bool Arith.
From Storage Require Import Base.Bytes Lang.Tokens Lang.Lexer Lang.Regex Lang.LexerFull.
Import ListNotations.

Definition starts_no_token (c : N) : bool :=
  forallb (fun kr : nat * re => dead (deriv c (snd kr))) full_table.

Fixpoint can_end (c : N) (r : re) : bool :=
  match r with
  | Nul => false
  | Eps => false
  | Chr k => in_cls k c
  | Seq a b => can_end c b || (nullable b && can_end c a)
  | Alt a b => can_end c a || can_end c b
  | Star a => can_end c a
  end.

Definition ends_no_token (c : N) : bool :=
  forallb (fun kr : nat * re => negb (can_end c (snd kr))) full_table.

(* a, a+1, ..., a+n-1 *)
Fixpoint nrange (a : N) (n : nat) : list N :=
  match n with O => [] | S n' => a :: nrange (N.succ a) n' end.

Open Scope N_scope.
(* unicode.IsSpace minus the grammar's four *)
Definition go_space_foreign : list N :=
  [11; 12; 133; 160; 5760] ++ nrange 8192 11 ++ [8232; 8233; 8239; 8287; 12288].

Definition blank_like_foreign : list N :=
  go_space_foreign
  ++ nrange 0 9 ++ nrange 14 18 ++ [127] ++ nrange 128 5 ++ nrange 134 26          (* the other C0 / C1 controls *)
  ++ [173; 1564; 6158] ++ nrange 8203 5 ++ nrange 8234 5 ++ [8288; 8289] ++ nrange 8294 4 ++ [65279]
  ++ [65533; 65534; 65535; 57344; 128512; 1114111]
  ++ [8490; 383; 304; 305; 65345; 65313; 65297]
  ++ [65288; 65289; 65309; 65282; 65292; 65339; 8220; 8221; 8216; 8217; 8722; 12289].
Close Scope N_scope.

Definition is_foreign_blank (c : N) : bool := existsb (N.eqb c) blank_like_foreign.
