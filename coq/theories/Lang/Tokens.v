(* Token kinds of the ZitiQl lexer (zitiql/zitiql_lexer.go: the ZitiQlLexer<NAME> constants, which are
   the positions of the token rules in ZitiQl.g4, the implicit literal ',' first) and the token
   alphabet of the boolean skeleton the C12 parser model works on.  Model only, no proofs. *)
From Coq Require Import List NArith Bool Arith.
From Storage Require Import Base.Bytes.
Import ListNotations.

Definition K_COMMA := 1%nat.
Definition K_WS := 2%nat.
Definition K_LPAREN := 3%nat.
Definition K_RPAREN := 4%nat.
Definition K_LBRACKET := 5%nat.
Definition K_RBRACKET := 6%nat.
Definition K_AND := 7%nat.
Definition K_OR := 8%nat.
Definition K_LT := 9%nat.
Definition K_GT := 10%nat.
Definition K_EQ := 11%nat.
Definition K_CONTAINS := 12%nat.
Definition K_ICONTAINS := 13%nat.
Definition K_IN := 14%nat.
Definition K_BETWEEN := 15%nat.
Definition K_BOOL := 16%nat.
Definition K_DATETIME := 17%nat.
Definition K_ALL_OF := 18%nat.
Definition K_ANY_OF := 19%nat.
Definition K_COUNT := 20%nat.
Definition K_ISEMPTY := 21%nat.
Definition K_STRING := 22%nat.
Definition K_NUMBER := 23%nat.
Definition K_NULL := 24%nat.
Definition K_NOT := 25%nat.
Definition K_ASC := 26%nat.
Definition K_DESC := 27%nat.
Definition K_SORT := 28%nat.
Definition K_BY := 29%nat.
Definition K_SKIP_ROWS := 30%nat.
Definition K_LIMIT_ROWS := 31%nat.
Definition K_NONE := 32%nat.
Definition K_WHERE := 33%nat.
Definition K_FROM := 34%nat.
Definition K_IDENTIFIER := 35%nat.
Definition K_RFC3339_DATE_TIME := 36%nat.

(* what the lexer produces, in input order: a token (kind, text) or a region of characters that no
   token rule accepts and that ANTLR's error recovery drops after reporting it to the lexer's
   error listeners *)
Inductive seg :=
| Tok (k : nat) (text : str)
| Drop (text : str).

Definition seg_text (s : seg) : str := match s with Tok _ t => t | Drop t => t end.
Definition is_drop (s : seg) : bool := match s with Drop _ => true | Tok _ _ => false end.

(* tokens of the boolean skeleton: identifiers (atoms), the three connectives, parentheses and
   white space (WS is an ordinary single-character token of this grammar, the parser rules
   mention it explicitly); everything else is TOther *)
Inductive tok :=
| TId (name : str)
| TAnd | TOr | TNot | TLp | TRp | TWs
| TOther (k : nat).

Definition tok_of_kind (k : nat) (text : str) : tok :=
  if Nat.eqb k K_IDENTIFIER then TId text
  else if Nat.eqb k K_AND then TAnd
  else if Nat.eqb k K_OR then TOr
  else if Nat.eqb k K_NOT then TNot
  else if Nat.eqb k K_LPAREN then TLp
  else if Nat.eqb k K_RPAREN then TRp
  else if Nat.eqb k K_WS then TWs
  else TOther k.

(* the token stream the parser sees: dropped regions have vanished *)
Fixpoint toks_of (l : list seg) : list tok :=
  match l with
  | [] => []
  | Tok k t :: r => tok_of_kind k t :: toks_of r
  | Drop _ :: r => toks_of r
  end.

Definition drops_of (l : list seg) : list str :=
  flat_map (fun s => match s with Drop t => [t] | Tok _ _ => [] end) l.

(* ---- character classes ---- *)
Open Scope N_scope.
Definition is_ws (c : byte) : bool := (c =? 32) || (c =? 10) || (c =? 9) || (c =? 13).
Definition is_upper (c : byte) : bool := (65 <=? c) && (c <=? 90).
Definition is_lower (c : byte) : bool := (97 <=? c) && (c <=? 122).
Definition is_letter (c : byte) : bool := is_upper c || is_lower c.
Definition is_ident_char (c : byte) : bool := is_letter c || (c =? 95).
Definition to_lower (c : byte) : byte := if is_upper c then c + 32 else c.
(* the letter fragments  A : [aA] ...  : the character is the given lower-case letter in either case *)
Definition ci_is (l c : byte) : bool := to_lower c =? l.
Close Scope N_scope.


(* the letters of the three connectives (lower case) *)
Definition kw_and : str := [97; 110; 100]%N.
Definition kw_or : str := [111; 114]%N.
Definition kw_not : str := [110; 111; 116]%N.

