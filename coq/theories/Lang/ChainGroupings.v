(* C12, strengthening after seeded change C12-w5-2 (design/C12.md): what stream m of the harness (c12w5.go) needs on
   the specification side.  Model only, no proofs.

   A chain of clauses  p1 or p2 or ... or pk  (resp. and) may be written with any of its consecutive sub-chains
   in parentheses, to any depth:  p1 or (p2 or p3),  (p1 or p2) or p3,  ((p1 or p2) or (p3 or p4)) or p5, ...
   [or_grouping l e] / [and_grouping l e]: e is such a way of writing the chain whose clauses, in order, are l.
   The clauses themselves are arbitrary primaries (atoms - in the check: real comparisons on different symbols
   that share operator and literal - or parenthesised skeletons). *)
From Coq Require Import List NArith Bool Arith.
From Storage Require Import Base.Bytes Lang.Tokens Lang.BoolSurface.
Import ListNotations.

Inductive or_grouping : list prim -> expr -> Prop :=
| OgLast : forall p, or_grouping [p] (ELast p)
| OgLastGroup : forall l e, or_grouping l e -> or_grouping l (ELast (XParen e))
| OgCons : forall p l e, or_grouping l e -> or_grouping (p :: l) (EOr p e)
| OgGroup : forall l1 e1 l2 e2, or_grouping l1 e1 -> or_grouping l2 e2 -> or_grouping (l1 ++ l2) (EOr (XParen e1) e2).

Inductive and_grouping : list prim -> expr -> Prop :=
| AgLast : forall p, and_grouping [p] (ELast p)
| AgLastGroup : forall l e, and_grouping l e -> and_grouping l (ELast (XParen e))
| AgCons : forall p l e, and_grouping l e -> and_grouping (p :: l) (EAnd p e)
| AgGroup : forall l1 e1 l2 e2, and_grouping l1 e1 -> and_grouping l2 e2 -> and_grouping (l1 ++ l2) (EAnd (XParen e1) e2).
