(* C20 - proofs about the table-driven visitor model (Ast/Visitor.v), generic in the table. *)
From Coq Require Import List Bool NArith Lia.
From Storage Require Import Base.Bytes Ast.AstTable Ast.Visitor.
Import ListNotations.

(* ---------------------------------------------------------------- equality tests *)

Lemma str_eqb_eq : forall a b : str, str_eqb a b = true <-> a = b.
Proof.
  induction a as [|x a IH]; destruct b as [|y b]; simpl; split; intro H; try reflexivity; try discriminate.
  - apply andb_true_iff in H. destruct H as [H1 H2]. apply N.eqb_eq in H1. apply IH in H2. subst. reflexivity.
  - inversion H; subst. apply andb_true_iff. split. apply N.eqb_refl. apply IH. reflexivity.
Qed.

Lemma name_eqb_eq : forall a b : name, name_eqb a b = true <-> a = b.
Proof.
  intros [a] [b]. unfold name_eqb. simpl. rewrite str_eqb_eq. split; intro H.
  - subst. reflexivity.
  - inversion H. reflexivity.
Qed.

Lemma name_eqb_refl : forall a, name_eqb a a = true.
Proof. intro a. apply name_eqb_eq. reflexivity. Qed.

Lemma mem_str_In : forall x l, mem_str x l = true <-> In x l.
Proof.
  intros x l. unfold mem_str. rewrite existsb_exists. split.
  - intros [y [Hy He]]. apply str_eqb_eq in He. subst. exact Hy.
  - intro H. exists x. split. exact H. apply str_eqb_eq. reflexivity.
Qed.

Lemma subset_str_spec : forall a b, subset_str a b = true -> forall x, In x a -> In x b.
Proof.
  intros a b H x Hx. unfold subset_str in H. rewrite forallb_forall in H.
  apply mem_str_In. apply H. exact Hx.
Qed.

Lemma mem_name_In : forall x l, mem_name x l = true <-> In x l.
Proof.
  intros x l. unfold mem_name. rewrite existsb_exists. split.
  - intros [y [Hy He]]. apply name_eqb_eq in He. subst. exact Hy.
  - intro H. exists x. split. exact H. apply name_eqb_refl.
Qed.

Lemma names_eqb_eq : forall a b, names_eqb a b = true -> a = b.
Proof.
  induction a as [|x a IH]; destruct b as [|y b]; simpl; intro H; try reflexivity; try discriminate.
  apply andb_true_iff in H. destruct H as [H1 H2]. apply name_eqb_eq in H1. apply IH in H2. subst. reflexivity.
Qed.

Lemma lookup_In : forall A (l : list (name * A)) f v, In v (lookup l f) <-> In (f, v) l.
Proof.
  intros A l f v. unfold lookup. rewrite in_flat_map. split.
  - intros [[g w] [Hp Hv]]. simpl in Hv. destruct (name_eqb g f) eqn:E.
    + apply name_eqb_eq in E. subst. destruct Hv as [Hv|[]]. subst. exact Hp.
    + destruct Hv.
  - intro H. exists (f, v). split. exact H. simpl. rewrite name_eqb_refl. left. reflexivity.
Qed.

(* ---------------------------------------------------------------- induction on trees *)

Section TreeInd.
  Variable P : tree -> Prop.
  Hypothesis step : forall k strs kids,
    (forall f ts t, In (f, ts) kids -> In t ts -> P t) -> P (T k strs kids).

  Lemma tree_ind_nested : forall t, P t.
  Proof.
    fix IH 1. intros [k strs kids]. apply step.
    assert (HF : Forall (fun p : name * list tree => Forall P (snd p)) kids).
    { induction kids as [|[g us] r IHr].
      - constructor.
      - constructor. 2: exact IHr.
        simpl. induction us as [|u r2 IH2].
        + constructor.
        + constructor. apply IH. exact IH2. }
    intros f ts t H Ht. rewrite Forall_forall in HF. specialize (HF _ H). simpl in HF.
    rewrite Forall_forall in HF. apply HF. exact Ht.
  Qed.
End TreeInd.

(* ---------------------------------------------------------------- the validating visitor *)

Lemma first_nonpublic_accept : forall pub maps l,
  first_nonpublic pub maps l = Accept <-> (forall x, In x l -> is_public pub maps x = true).
Proof.
  intros pub maps l. induction l as [|y l IH]; simpl.
  - split; intros; try reflexivity. contradiction.
  - destruct (is_public pub maps y) eqn:E.
    + rewrite IH. split.
      * intros H x [Hx|Hx]. subst. exact E. apply H. exact Hx.
      * intros H x Hx. apply H. right. exact Hx.
    + split. discriminate. intro H. specialize (H y (or_introl eq_refl)). congruence.
Qed.

Lemma first_nonpublic_reject : forall pub maps l x,
  first_nonpublic pub maps l = Reject x -> In x l /\ is_public pub maps x = false.
Proof.
  intros pub maps l x. induction l as [|y l IH]; simpl.
  - discriminate.
  - destruct (is_public pub maps y) eqn:E.
    + intro H. destruct (IH H) as [H1 H2]. split. right. exact H1. exact H2.
    + intro H. inversion H; subst. split. left. reflexivity. exact E.
Qed.

(* ---------------------------------------------------------------- IsPublicSymbol: the map-element rule *)

Lemma before_dot_app : forall base rest,
  before_dot base = None -> before_dot (base ++ dot :: rest) = Some base.
Proof.
  induction base as [|c base IH]; intros rest H; simpl.
  - reflexivity.
  - simpl in H. destruct (N.eqb c dot) eqn:E. discriminate.
    destruct (before_dot base) eqn:B. discriminate. rewrite (IH rest eq_refl). reflexivity.
Qed.

(* an element of a map symbol (tags.foo) that is not itself listed is public exactly when the map is *)
Lemma map_element_public_lemma : forall pub maps base rest,
  before_dot base = None ->
  mem_str base maps = true ->
  mem_str (base ++ dot :: rest) pub = false ->
  is_public pub maps (base ++ dot :: rest) = is_public pub maps base.
Proof.
  intros pub maps base rest Hb Hm Hl. unfold is_public. rewrite Hl, (before_dot_app base rest Hb), Hb, Hm. simpl.
  rewrite orb_false_r. reflexivity.
Qed.

(* a dotted name whose first component is not a map symbol is public only when listed itself *)
Lemma dotted_non_map_public_lemma : forall pub maps base rest,
  before_dot base = None ->
  mem_str base maps = false ->
  is_public pub maps (base ++ dot :: rest) = mem_str (base ++ dot :: rest) pub.
Proof.
  intros pub maps base rest Hb Hm. unfold is_public. rewrite (before_dot_app base rest Hb), Hm. simpl.
  apply orb_false_r.
Qed.

(* a name without a dot is public exactly when listed *)
Lemma plain_public_lemma : forall pub maps x,
  before_dot x = None -> is_public pub maps x = mem_str x pub.
Proof. intros pub maps x H. unfold is_public. rewrite H. apply orb_false_r. Qed.

(* ---------------------------------------------------------------- the main theorem *)

Section Proofs.
  Variable tbl : list kdesc.
  Variable aliases : list alias.

  Notation find_kind := (find_kind tbl).
  Notation visit := (visit tbl).
  Notation all_syms := (all_syms tbl).
  Notation shaped := (shaped tbl aliases).
  Notation shaped_b := (shaped_b tbl aliases).

  Lemma find_kind_in_spec : forall l k d, find_kind_in l k = Some d -> In d l /\ k_name d = k.
  Proof.
    induction l as [|e l IH]; simpl; intros k d H.
    - discriminate.
    - destruct (name_eqb (k_name e) k) eqn:E.
      + inversion H; subst. split. left. reflexivity. apply name_eqb_eq. exact E.
      + destruct (IH k d H) as [H1 H2]. split. right. exact H1. exact H2.
  Qed.

  Lemma visit_eq : forall k strs kids,
    visit (T k strs kids) =
    match find_kind k with
    | None => []
    | Some d => flat_map (act_syms strs (map (fun p => let '(f, ts) := p in (f, flat_map visit ts)) kids)) (k_accept d)
    end.
  Proof. reflexivity. Qed.

  Lemma all_syms_eq : forall k strs kids,
    all_syms (T k strs kids) =
    node_syms tbl k strs ++ flat_map (fun p => let '(_, ts) := p in flat_map all_syms ts) kids.
  Proof. reflexivity. Qed.

  Lemma shaped_b_eq : forall k strs kids,
    shaped_b (T k strs kids) =
    match find_kind k with
    | None => false
    | Some d =>
        names_eqb (map fst strs) (map sf_name (k_strs d)) &&
        names_eqb (map fst kids) (expected_kids d kids) &&
        forallb (arity_ok d) kids &&
        forallb (alias_ok tbl k strs kids) aliases &&
        forallb (fun p => let '(_, ts) := p in forallb shaped_b ts) kids
    end.
  Proof. reflexivity. Qed.

  (* symbols seen below the children of a node *)
  Lemma in_kids_visit : forall (kids : list (name * list tree)) f x,
    In x (List.concat (lookup (map (fun p => let '(f, ts) := p in (f, flat_map visit ts)) kids) f)) <->
    exists ts t, In (f, ts) kids /\ In t ts /\ In x (visit t).
  Proof.
    intros kids f x. rewrite in_concat. split.
    - intros [l [Hl Hx]]. apply lookup_In in Hl. apply in_map_iff in Hl. destruct Hl as [[g ts] [He Hp]].
      inversion He; subst. apply in_flat_map in Hx. destruct Hx as [t [Ht Hx]].
      exists ts, t. repeat split; assumption.
    - intros [ts [t [Hk [Ht Hx]]]]. exists (flat_map visit ts). split.
      + apply lookup_In. apply in_map_iff. exists (f, ts). split. reflexivity. exact Hk.
      + apply in_flat_map. exists t. split; assumption.
  Qed.

  Lemma in_kids_all : forall (kids : list (name * list tree)) x,
    In x (flat_map (fun p => let '(_, ts) := p in flat_map all_syms ts) kids) <->
    exists f ts t, In (f, ts) kids /\ In t ts /\ In x (all_syms t).
  Proof.
    intros kids x. rewrite in_flat_map. split.
    - intros [[f ts] [Hk Hx]]. apply in_flat_map in Hx. destruct Hx as [t [Ht Hx]].
      exists f, ts, t. repeat split; assumption.
    - intros [f [ts [t [Hk [Ht Hx]]]]]. exists (f, ts). split. exact Hk.
      apply in_flat_map. exists t. split; assumption.
  Qed.

  Lemma in_field_kids : forall (kids : list (name * list tree)) c x,
    In x (flat_map all_syms (List.concat (lookup kids c))) <->
    exists ts t, In (c, ts) kids /\ In t ts /\ In x (all_syms t).
  Proof.
    intros kids c x. rewrite in_flat_map. split.
    - intros [t [Ht Hx]]. apply in_concat in Ht. destruct Ht as [ts [Hts Ht]]. apply lookup_In in Hts.
      exists ts, t. repeat split; assumption.
    - intros [ts [t [Hk [Ht Hx]]]]. exists t. split. 2: exact Hx.
      apply in_concat. exists ts. split. apply lookup_In. exact Hk. exact Ht.
  Qed.

  Lemma in_own_syms : forall d strs x,
    In x (own_syms d strs) <-> exists f, In (f, x) strs /\ is_symfield d f = true.
  Proof.
    intros d strs x. unfold own_syms. rewrite in_flat_map. split.
    - intros [[f v] [Hp Hx]]. simpl in Hx. destruct (is_symfield d f) eqn:E.
      + destruct Hx as [Hx|[]]. subst. exists f. split; assumption.
      + destruct Hx.
    - intros [f [Hp Hs]]. exists (f, x). split. exact Hp. simpl. rewrite Hs. left. reflexivity.
  Qed.

  Hypothesis complete : table_complete tbl aliases = true.

  Lemma kind_ok_of : forall k d, find_kind k = Some d -> kind_ok aliases d = true /\ k_name d = k.
  Proof.
    intros k d H. destruct (find_kind_in_spec _ _ _ H) as [Hin Hn]. split. 2: exact Hn.
    unfold table_complete in complete. apply andb_true_iff in complete. destruct complete as [Hc _].
    apply andb_true_iff in Hc. destruct Hc as [Hc _]. rewrite forallb_forall in Hc. apply Hc. exact Hin.
  Qed.

  (* what [kind_ok] gives, one fact at a time *)
  Lemma kind_ok_parts : forall d, kind_ok aliases d = true ->
    (forall sf, In sf (k_strs d) -> symfield_ok aliases d sf = true) /\
    (forall c, In c (k_children d) -> child_ok aliases d c = true) /\
    (forall a, In a (k_accept d) -> act_wf d a = true) /\
    (forall a, In a aliases -> alias_wf aliases d a = true).
  Proof.
    intros d H. unfold kind_ok in H.
    repeat (apply andb_true_iff in H; let H' := fresh "H" in destruct H as [H H']).
    repeat split; intros; match goal with
      | Hf : forallb ?p ?l = true, Hi : In _ ?l |- ?p _ = true => rewrite forallb_forall in Hf; apply Hf; exact Hi
      end.
  Qed.

  (* a symbol seen below a forwarded child field is seen by the visitor of the node *)
  Lemma forward_in_visit : forall d strs (kids : list (name * list tree)) c ts t x,
    existsb (forwards c) (k_accept d) = true ->
    In (c, ts) kids -> In t ts -> In x (visit t) ->
    In x (flat_map (act_syms strs (map (fun p => let '(f, ts) := p in (f, flat_map visit ts)) kids)) (k_accept d)).
  Proof.
    intros d strs kids c ts t x Hf Hk Ht Hx. apply existsb_exists in Hf. destruct Hf as [a [Ha Hfa]].
    apply in_flat_map. exists a. split. exact Ha.
    assert (Hgoal : In x (List.concat (lookup (map (fun p => let '(f, ts) := p in (f, flat_map visit ts)) kids) c))).
    { apply in_kids_visit. exists ts, t. repeat split; assumption. }
    destruct a; simpl in Hfa; try discriminate; apply name_eqb_eq in Hfa; subst; simpl; exact Hgoal.
  Qed.

  Theorem visit_covers_all_symbols_lemma : forall t, shaped t -> forall x, In x (all_syms t) <-> In x (visit t).
  Proof.
    intro t. induction t as [k strs kids IH] using tree_ind_nested. intros Hs x.
    unfold Visitor.shaped in Hs. rewrite shaped_b_eq in Hs. destruct (find_kind k) as [d|] eqn:Hd. 2: discriminate.
    destruct (kind_ok_of k d Hd) as [Hok Hname].
    destruct (kind_ok_parts d Hok) as [Hsym [Hchild [Hact Halias]]].
    apply andb_true_iff in Hs. destruct Hs as [Hs Hkids].
    apply andb_true_iff in Hs. destruct Hs as [Hs Hal].
    apply andb_true_iff in Hs. destruct Hs as [Hs _].
    apply andb_true_iff in Hs. destruct Hs as [_ Hnames].
    apply names_eqb_eq in Hnames.
    rewrite forallb_forall in Hal.
    (* the kids are shaped *)
    assert (Hsh : forall f ts t, In (f, ts) kids -> In t ts -> shaped t).
    { intros f ts t Hk Ht. rewrite forallb_forall in Hkids. specialize (Hkids (f, ts) Hk). simpl in Hkids.
      rewrite forallb_forall in Hkids. apply Hkids. exact Ht. }
    (* every field name under which the tree lists kids is a child field of the kind *)
    assert (Hfield : forall f ts, In (f, ts) kids -> exists c, In c (k_children d) /\ cf_name c = f).
    { intros f ts Hk. assert (Hf : In f (map fst kids)). { apply in_map_iff. exists (f, ts). split. reflexivity. exact Hk. }
      rewrite Hnames in Hf. unfold expected_kids in Hf. apply in_map_iff in Hf. destruct Hf as [c [Hc Hin]].
      apply filter_In in Hin. exists c. split. apply Hin. exact Hc. }
    (* an excluded field: its symbols occur below the child field it duplicates, which is forwarded *)
    assert (Hvia : forall f, aliased aliases (k_name d) f = true -> In x (field_syms tbl strs kids f) ->
                   In x (flat_map (act_syms strs (map (fun p => let '(f, ts) := p in (f, flat_map visit ts)) kids)) (k_accept d))).
    { intros f Hali Hx. unfold aliased in Hali. apply existsb_exists in Hali. destruct Hali as [[[k' f'] c] [Hin He]].
      apply andb_true_iff in He. destruct He as [He1 He2]. apply name_eqb_eq in He1. apply name_eqb_eq in He2. subst k' f'.
      pose proof (Hal _ Hin) as Hok1. unfold alias_ok in Hok1. rewrite Hname, name_eqb_refl in Hok1.
      pose proof (subset_str_spec _ _ Hok1 x Hx) as Hx2. apply in_field_kids in Hx2. destruct Hx2 as [ts [t [Hk [Ht Hxt]]]].
      pose proof (Halias _ Hin) as Hwf. unfold alias_wf in Hwf. rewrite name_eqb_refl in Hwf.
      apply andb_true_iff in Hwf. destruct Hwf as [Hwf _]. apply andb_true_iff in Hwf. destruct Hwf as [_ Hfw].
      apply (forward_in_visit d strs kids c ts t x Hfw Hk Ht).
      apply (IH c ts t Hk Ht (Hsh c ts t Hk Ht)). exact Hxt. }
    rewrite all_syms_eq, visit_eq, Hd. unfold node_syms. rewrite Hd. split.
    - (* every symbol of the tree is visited *)
      intro Hx. apply in_app_or in Hx. destruct Hx as [Hx|Hx].
      + apply in_own_syms in Hx. destruct Hx as [f [Hp Hsf]].
        unfold is_symfield in Hsf. apply existsb_exists in Hsf. destruct Hsf as [sf [Hin He]].
        apply andb_true_iff in He. destruct He as [He Hiss]. apply name_eqb_eq in He.
        pose proof (Hsym sf Hin) as Hk. unfold symfield_ok in Hk. rewrite Hiss in Hk. simpl in Hk.
        apply orb_true_iff in Hk. destruct Hk as [Hk|Hk].
        * apply existsb_exists in Hk. destruct Hk as [a [Ha Hv]]. apply in_flat_map. exists a. split. exact Ha.
          destruct a; simpl in Hv; try discriminate. apply name_eqb_eq in Hv. subst. simpl. apply lookup_In. exact Hp.
        * apply (Hvia (sf_name sf) Hk). unfold field_syms. apply in_or_app. left. apply lookup_In. rewrite He. exact Hp.
      + apply in_kids_all in Hx. destruct Hx as [f [ts [t [Hk [Ht Hxt]]]]].
        destruct (Hfield f ts Hk) as [c [Hc Hcn]].
        pose proof (Hchild c Hc) as Hco. unfold child_ok in Hco. rewrite Hcn in Hco.
        apply orb_true_iff in Hco. destruct Hco as [Hfw|Hali].
        * apply (forward_in_visit d strs kids f ts t x Hfw Hk Ht). apply (IH f ts t Hk Ht (Hsh f ts t Hk Ht)). exact Hxt.
        * apply (Hvia f Hali). unfold field_syms. apply in_or_app. right. apply in_field_kids. exists ts, t. repeat split; assumption.
    - (* everything visited is a symbol of the tree *)
      intro Hx. apply in_flat_map in Hx. destruct Hx as [a [Ha Hx]]. pose proof (Hact a Ha) as Hwf.
      assert (Hfwd : forall f, In x (List.concat (lookup (map (fun p => let '(f, ts) := p in (f, flat_map visit ts)) kids) f)) ->
                     In x (own_syms d strs ++ flat_map (fun p => let '(_, ts) := p in flat_map all_syms ts) kids)).
      { intros f Hc. apply in_kids_visit in Hc. destruct Hc as [ts [t [Hk [Ht Hxt]]]]. apply in_or_app. right.
        apply in_kids_all. exists f, ts, t. repeat split; try assumption.
        apply (IH f ts t Hk Ht (Hsh f ts t Hk Ht)). exact Hxt. }
      destruct a; simpl in Hx; simpl in Hwf; try contradiction.
      + apply in_or_app. left. apply in_own_syms. exists f. split. apply lookup_In. exact Hx. exact Hwf.
      + apply (Hfwd f Hx).
      + apply (Hfwd f Hx).
      + apply (Hfwd f Hx).
  Qed.

  (* ---- what all_syms means: the symbol fields of every node occurring anywhere in the tree ---- *)
  Definition root_syms (t : tree) : list sym := match t with T k strs _ => node_syms tbl k strs end.

  Lemma all_syms_spec_lemma : forall t x, In x (all_syms t) <-> exists s, subtree s t /\ In x (root_syms s).
  Proof.
    intro t. induction t as [k strs kids IH] using tree_ind_nested. intro x. rewrite all_syms_eq. split.
    - intro H. apply in_app_or in H. destruct H as [H|H].
      + exists (T k strs kids). split. apply sub_refl. exact H.
      + apply in_kids_all in H. destruct H as [f [ts [t [Hk [Ht Hx]]]]].
        apply (IH f ts t Hk Ht) in Hx. destruct Hx as [s [Hs Hx]]. exists s. split. 2: exact Hx.
        apply (sub_kid s k strs kids f ts t Hk Ht Hs).
    - intros [s [Hs Hx]]. inversion Hs as [ | s' k' strs' kids' f ts t Hk Ht Hsub]; subst.
      + apply in_or_app. left. exact Hx.
      + apply in_or_app. right. apply in_kids_all. exists f, ts, t. repeat split; try assumption.
        apply (IH f ts t Hk Ht). exists s. split; assumption.
  Qed.

  (* ---- the validator ---- *)
  Variable latch : bool.
  Notation validate := (validate tbl latch).

  Lemma in_seen : forall t x, In x (if latch then visit t else rev (visit t)) <-> In x (visit t).
  Proof. intros t x. destruct latch. reflexivity. symmetry. apply in_rev. Qed.

  Theorem validator_iff_all_public_lemma : forall pub maps t, shaped t ->
    (validate pub maps t = Accept <-> forall x, In x (all_syms t) -> is_public pub maps x = true).
  Proof.
    intros pub maps t Hs. unfold Visitor.validate. rewrite first_nonpublic_accept. split.
    - intros H x Hx. apply H. apply in_seen. apply (visit_covers_all_symbols_lemma t Hs). exact Hx.
    - intros H x Hx. apply H. apply (visit_covers_all_symbols_lemma t Hs). apply in_seen in Hx. exact Hx.
  Qed.

  Theorem rejection_names_nonpublic_lemma : forall pub maps t x, shaped t ->
    validate pub maps t = Reject x -> In x (all_syms t) /\ is_public pub maps x = false.
  Proof.
    intros pub maps t x Hs H. unfold Visitor.validate in H. apply first_nonpublic_reject in H. destruct H as [H1 H2].
    split. 2: exact H2. apply (visit_covers_all_symbols_lemma t Hs). apply in_seen in H1. exact H1.
  Qed.

  (* a single non-public symbol anywhere causes rejection naming that symbol *)
  Theorem single_nonpublic_rejected_lemma : forall pub maps t x, shaped t ->
    In x (all_syms t) -> is_public pub maps x = false ->
    (forall y, In y (all_syms t) -> y <> x -> is_public pub maps y = true) ->
    validate pub maps t = Reject x.
  Proof.
    intros pub maps t x Hs Hx Hnp Hothers. destruct (validate pub maps t) as [|y] eqn:E.
    - pose proof (proj1 (validator_iff_all_public_lemma pub maps t Hs) E x Hx) as E'. congruence.
    - destruct (rejection_names_nonpublic_lemma pub maps t y Hs E) as [Hy Hynp].
      destruct (list_eq_dec N.eq_dec y x) as [Heq|Hne]. subst. reflexivity.
      specialize (Hothers y Hy Hne). congruence.
  Qed.

  (* acceptance means: the symbol fields of every node, at any depth, are public *)
  Theorem accepted_everywhere_public_lemma : forall pub maps t, shaped t ->
    validate pub maps t = Accept ->
    forall s, subtree s t -> forall x, In x (root_syms s) -> is_public pub maps x = true.
  Proof.
    intros pub maps t Hs Ha s Hsub x Hx.
    apply (proj1 (validator_iff_all_public_lemma pub maps t Hs) Ha). apply all_syms_spec_lemma. exists s. split; assumption.
  Qed.

End Proofs.

(* ---------------------------------------------------------------- the diagnostics are exact *)
(* [table_gaps] (used by the failing-input search to name the broken (kind, field) pairs) is
   empty exactly when [table_complete] holds. *)

Lemma filter_negb_nil : forall A (p : A -> bool) l, filter (fun x => negb (p x)) l = [] <-> forallb p l = true.
Proof.
  intros A p l. induction l as [|x l IH]; simpl.
  - split; reflexivity.
  - destruct (p x); simpl.
    + exact IH.
    + split; discriminate.
Qed.

Lemma map_nil_iff : forall A B (f : A -> B) l, map f l = [] <-> l = [].
Proof. intros A B f l. destruct l; simpl; split; intro H; try reflexivity; discriminate. Qed.

Lemma app_nil_iff : forall A (a b : list A), a ++ b = [] <-> a = [] /\ b = [].
Proof.
  intros A a b. split.
  - apply app_eq_nil.
  - intros [Ha Hb]. subst. reflexivity.
Qed.

Lemma flat_map_nil_iff : forall A B (f : A -> list B) (p : A -> bool) l,
  (forall x, f x = [] <-> p x = true) -> (flat_map f l = [] <-> forallb p l = true).
Proof.
  intros A B f p l Hfp. induction l as [|x l IH]; simpl.
  - split; reflexivity.
  - rewrite app_nil_iff, andb_true_iff, IH, Hfp. reflexivity.
Qed.

Lemma kind_gaps_nil_iff : forall aliases d, kind_gaps aliases d = [] <-> kind_ok aliases d = true.
Proof.
  intros aliases d. unfold kind_gaps, kind_ok.
  repeat rewrite app_nil_iff. repeat rewrite map_nil_iff. repeat rewrite filter_negb_nil.
  repeat rewrite andb_true_iff.
  assert (H1 : k_unsupported d = [] <-> match k_unsupported d with [] => true | _ :: _ => false end = true).
  { destruct (k_unsupported d); split; intro H; try reflexivity; discriminate. }
  assert (H2 : (if symbol_method_ok d then [] else [(k_name d, "Symbol"%name, "symbol-method-not-understood"%name)]) = []
               <-> symbol_method_ok d = true).
  { destruct (symbol_method_ok d); split; intro H; try reflexivity; discriminate. }
  rewrite H1, H2. tauto.
Qed.

Theorem table_gaps_nil_iff_lemma : forall tbl aliases, table_gaps tbl aliases = [] <-> table_complete tbl aliases = true.
Proof.
  intros tbl aliases. unfold table_gaps, table_complete.
  repeat rewrite app_nil_iff. rewrite map_nil_iff, filter_negb_nil. repeat rewrite andb_true_iff.
  rewrite (flat_map_nil_iff _ _ (kind_gaps aliases) (kind_ok aliases) tbl (kind_gaps_nil_iff aliases)).
  assert (H : (if nodup_names (map k_name tbl) then [] else [("*"%name, "*"%name, "duplicate-kind-names"%name)]) = []
              <-> nodup_names (map k_name tbl) = true).
  { destruct (nodup_names (map k_name tbl)); split; intro H; try reflexivity; discriminate. }
  rewrite H. tauto.
Qed.
