(* Proofs about child-store views and the strategy oracle (Ast/ChildStore.v). *)
From Coq Require Import List ZArith NArith Bool Lia Permutation.
From Storage Require Import Base.Bytes Ast.F64 Ast.Values Ast.Schema Ast.Stacked Ast.Untyped Ast.Typed Ast.Typer
  Ast.Eval Ast.Spec Ast.StackedProofs Ast.ScanProofs Ast.TyperProofs Ast.ChildStore.
Import ListNotations.
Open Scope Z_scope.

(* ---- members of a child store ---- *)
Lemma child_members_plain : forall c ents id e,
  ch_ext c = false ->
  (In (id, e) (child_entities c ents) <-> In (id, e) ents /\ has_child_data (ch_path c) e = true).
Proof.
  intros c ents id e Hx. unfold child_entities. rewrite Hx. rewrite filter_In. cbn. tauto.
Qed.

Lemma child_members_extended : forall c ents, ch_ext c = true -> child_entities c ents = ents.
Proof. intros c ents Hx. unfold child_entities. rewrite Hx. reflexivity. Qed.

Lemma child_db_child : forall h d S c, find_child h S = Some c -> child_db h d S = child_entities c (d (ch_parent c)).
Proof. intros h d S c H. unfold child_db. rewrite H. reflexivity. Qed.

Lemma child_db_root : forall h d S, find_child h S = None -> child_db h d S = d S.
Proof. intros h d S H. unfold child_db. rewrite H. reflexivity. Qed.

(* ---- string list helpers ---- *)
Lemma str_eqb_true : forall a b, str_eqb a b = true -> a = b.
Proof.
  induction a as [|x a IH]; destruct b as [|y b]; simpl; intros H; try discriminate; auto.
  apply andb_true_iff in H as [H1 H2]. apply N.eqb_eq in H1. subst. f_equal. auto.
Qed.
Lemma str_eqb_same : forall a, str_eqb a a = true.
Proof. induction a as [|x a IH]; simpl; auto. rewrite N.eqb_refl. exact IH. Qed.

Lemma mem_str_In : forall x l, mem_str x l = true <-> In x l.
Proof.
  induction l as [|y l IH]; simpl; [split; [discriminate | tauto]|].
  rewrite orb_true_iff, IH. split; intros [H|H]; auto.
  - left. symmetry. apply str_eqb_true. exact H.
  - left. subst. apply str_eqb_same.
Qed.

Lemma nodup_b_NoDup : forall l, nodup_b l = true <-> NoDup l.
Proof.
  induction l as [|x l IH]; simpl; [split; [constructor | reflexivity]|].
  rewrite andb_true_iff, negb_true_iff, IH. split.
  - intros [H1 H2]. constructor; auto. intros Hin. apply mem_str_In in Hin. congruence.
  - intros H. inversion H as [|? ? Hn Hd]. subst. split; auto.
    destruct (mem_str x l) eqn:E; auto. apply mem_str_In in E. contradiction.
Qed.

Lemma list_eqb_eq : forall a b, list_eqb a b = true <-> a = b.
Proof.
  induction a as [|x a IH]; destruct b as [|y b]; simpl; try (split; [discriminate | discriminate]); [tauto|].
  rewrite andb_true_iff, IH. split.
  - intros [H1 H2]. apply str_eqb_true in H1. subst. reflexivity.
  - intros H. injection H as -> ->. split; auto. apply str_eqb_same.
Qed.

Lemma skipn_incl : forall {A : Type} n (l : list A) x, In x (skipn n l) -> In x l.
Proof.
  induction n as [|n IH]; intros l x; simpl; auto. destruct l; simpl; auto.
Qed.
Lemma firstn_In : forall {A : Type} n (l : list A) x, In x (firstn n l) -> In x l.
Proof.
  induction n as [|n IH]; intros l x; simpl; [tauto|]. destruct l; simpl; [tauto|]. intros [H|H]; auto.
Qed.
Lemma page_incl : forall {A : Type} skip limit (l : list A) x, In x (page skip limit l) -> In x l.
Proof.
  intros A skip limit l x. unfold page. intros H.
  apply (skipn_incl (match skip with Some s => Z.to_nat s | None => 0%nat end)).
  destruct limit as [n|]; auto. destruct (n <? 0); auto. eapply firstn_In. exact H.
Qed.

Lemma skipn_NoDup : forall {A : Type} n (l : list A), NoDup l -> NoDup (skipn n l).
Proof.
  induction n as [|n IH]; intros l H; simpl; auto. destruct l; auto. inversion H. auto.
Qed.
Lemma firstn_NoDup : forall {A : Type} n (l : list A), NoDup l -> NoDup (firstn n l).
Proof.
  induction n as [|n IH]; intros l H; simpl; [constructor|]. destruct l; [constructor|].
  inversion H as [|? ? Hn Hd]. subst. constructor; auto. intros Hin. apply Hn. eapply firstn_In. exact Hin.
Qed.
Lemma page_NoDup : forall {A : Type} skip limit (l : list A), NoDup l -> NoDup (page skip limit l).
Proof.
  intros A skip limit l H. unfold page.
  pose proof (skipn_NoDup (match skip with Some s => Z.to_nat s | None => 0%nat end) l H) as Hs.
  destruct limit as [n|]; auto. destruct (n <? 0); auto. apply firstn_NoDup. exact Hs.
Qed.

Lemma page_length : forall {A B : Type} skip limit (l : list A) (l' : list B),
  length l = length l' -> length (page skip limit l) = length (page skip limit l').
Proof.
  intros A B skip limit l l' H. unfold page.
  assert (Hs : forall n, length (skipn n l) = length (skipn n l')).
  { intros n. rewrite !skipn_length. lia. }
  destruct limit as [n|]; auto. destruct (n <? 0); auto. rewrite !firstn_length. rewrite Hs. reflexivity.
Qed.

(* ---- the strategy oracle ---- *)
(* no false alarm: a scanner that pages ANY ordering of exactly the matching entities passes *)
Lemma strategy_any_sound : forall M order skip limit,
  NoDup M -> Permutation order M ->
  strategy_ok OAny M skip limit (page skip limit order) (Some (Z.of_nat (length M))) = true.
Proof.
  intros M order skip limit Hnd Hp. unfold strategy_ok, count_ok. rewrite Z.eqb_refl. cbn [andb].
  assert (Hndo : NoDup order). { eapply Permutation_NoDup; [apply Permutation_sym; exact Hp | exact Hnd]. }
  rewrite !andb_true_iff. repeat split.
  - apply nodup_b_NoDup. apply page_NoDup. exact Hndo.
  - apply forallb_forall. intros x Hx. apply mem_str_In. eapply Permutation_in; [exact Hp|].
    eapply page_incl. exact Hx.
  - apply Nat.eqb_eq. apply page_length. apply Permutation_length. exact Hp.
Qed.

Lemma strategy_fwd_sound : forall M skip limit,
  strategy_ok OFwd M skip limit (page skip limit M) (Some (Z.of_nat (length M))) = true.
Proof. intros. unfold strategy_ok, count_ok. rewrite Z.eqb_refl. cbn [andb]. apply list_eqb_eq. reflexivity. Qed.

Lemma strategy_rev_sound : forall M skip limit,
  strategy_ok ORev M skip limit (page skip limit (rev M)) (Some (Z.of_nat (length M))) = true.
Proof. intros. unfold strategy_ok, count_ok. rewrite Z.eqb_refl. cbn [andb]. apply list_eqb_eq. reflexivity. Qed.

(* nothing omitted, nothing extra: without paging the oracle accepts exactly the orderings of the matching set,
   and with paging only matching entities, none twice, as many as the page of the id order holds *)
Lemma strategy_any_complete : forall M skip limit ids count,
  NoDup M -> strategy_ok OAny M skip limit ids count = true ->
  NoDup ids /\ incl ids M /\ length ids = length (page skip limit M) /\
  (forall c, count = Some c -> c = Z.of_nat (length M)).
Proof.
  intros M skip limit ids count Hnd H. unfold strategy_ok in H.
  rewrite !andb_true_iff in H. destruct H as [Hc [[H1 H2] H3]].
  repeat split.
  - apply nodup_b_NoDup. exact H1.
  - intros x Hx. rewrite forallb_forall in H2. apply mem_str_In. apply H2. exact Hx.
  - apply Nat.eqb_eq. exact H3.
  - intros c Hcc. subst count. cbn in Hc. apply Z.eqb_eq. exact Hc.
Qed.

Lemma strategy_unpaged_set : forall M ids count,
  NoDup M -> strategy_ok OAny M None None ids count = true -> Permutation ids M.
Proof.
  intros M ids count Hnd H. destruct (strategy_any_complete M None None ids count Hnd H) as [H1 [H2 [H3 _]]].
  unfold page in H3. cbn in H3. apply NoDup_Permutation_bis; auto. lia.
Qed.

Lemma strategy_exact_complete : forall k M skip limit ids count,
  k <> OAny -> strategy_ok k M skip limit ids count = true ->
  ids = page skip limit (match k with ORev => rev M | _ => M end) /\ (forall c, count = Some c -> c = Z.of_nat (length M)).
Proof.
  intros k M skip limit ids count Hk H. unfold strategy_ok in H. apply andb_true_iff in H as [Hc H]. split.
  - destruct k; try contradiction; apply list_eqb_eq; exact H.
  - intros c Hcc. subst count. cbn in Hc. apply Z.eqb_eq. exact Hc.
Qed.

(* ---- queries through a child store ---- *)
Section ChildQuery.
  Variable fmt_float : f64 -> str.
  Variable fmt_time : Z -> Z -> str.

  Lemma child_store_query_exact_lemma : forall sch h S c p skip limit t,
    find_child h S = Some c ->
    typer sch S (UQuery p skip limit) = Ok t ->
    forall d, wf_db sch (child_db h d) ->
      let members := map fst (child_entities c (d (ch_parent c))) in
      let answer := page skip limit (filter (fun x => spec fmt_float fmt_time sch (child_db h d) S x p) members) in
      query_ids fmt_float fmt_time sch (child_db h d) S t = Ok answer /\
      iterate_ids fmt_float fmt_time sch (child_db h d) S t = Ok answer.
  Proof.
    intros sch h S c p skip limit t Hc Ht d Hw members answer.
    pose proof (query_ids_exact_lemma fmt_float fmt_time sch S p skip limit t Ht (child_db h d) Hw) as H.
    unfold spec_ids in H. rewrite (child_db_child h d S c Hc) in H. exact H.
  Qed.
End ChildQuery.
