(* C20 - table-driven model of visitor traversal and of public-symbol validation.
   Generic in the table (a Section variable): the table of package ast is regenerated from the
   Go source on every run (Gen/GenAstTable.v) and plugged in by Ast/VisitorGen.v.
   Model only; proofs are in Ast/VisitorProofs.v. *)
From Coq Require Import List Bool NArith.
From Storage Require Import Base.Bytes Ast.AstTable.
Import ListNotations.

(* a symbol name is a Go string *)
Definition sym := str.

(* A node of any kind: its kind name, the values of its string fields, and for every child field
   the list of children held there (a nil interface / nil pointer / empty slice is []). *)
Inductive tree := T (k : name) (strs : list (name * str)) (kids : list (name * list tree)).

(* An explicitly excluded field: field [f] of kind [k] holds nothing but symbols that also occur
   under the child field [c] of the same node.  (AllOfSetExprNode.name is set in MoveUpTree to
   the symbol of the predicate's left operand.)  The claim is part of [shaped] and is therefore
   checked on every tree the harness obtains from the real parser. *)
Definition alias := (name * name * name)%type.

Inductive verdict := Accept | Reject (x : sym).

Definition lookup {A} (l : list (name * A)) (f : name) : list A :=
  flat_map (fun p => if name_eqb (fst p) f then [snd p] else []) l.

Definition mem_str (x : str) (l : list str) : bool := existsb (str_eqb x) l.
Definition subset_str (a b : list str) : bool := forallb (fun x => mem_str x b) a.
Definition mem_name (x : name) (l : list name) : bool := existsb (name_eqb x) l.

Fixpoint names_eqb (a b : list name) : bool :=
  match a, b with
  | [], [] => true
  | x :: a', y :: b' => name_eqb x y && names_eqb a' b'
  | _, _ => false
  end.

Fixpoint nodup_names (l : list name) : bool :=
  match l with
  | [] => true
  | x :: r => negb (mem_name x r) && nodup_names r
  end.

Definition dot : byte := 46%N.

(* Some prefix-before-the-first-dot when the name contains a dot (strings.Split(symbol, ".") has
   more than one part, parts[0]) *)
Fixpoint before_dot (s : str) : option str :=
  match s with
  | [] => None
  | c :: r => if N.eqb c dot then Some []
              else match before_dot r with Some p => Some (c :: p) | None => None end
  end.

(* boltz BaseStore.IsPublicSymbol: listed as public, or an element of a map symbol that is *)
Definition is_public (pub maps : list sym) (x : sym) : bool :=
  mem_str x pub ||
  match before_dot x with
  | Some base => mem_str base maps && mem_str base pub
  | None => false
  end.

Fixpoint first_nonpublic (pub maps : list sym) (l : list sym) : verdict :=
  match l with
  | [] => Accept
  | x :: r => if is_public pub maps x then first_nonpublic pub maps r else Reject x
  end.

Section Visitor.
  Variable tbl : list kdesc.
  Variable aliases : list alias.

  Fixpoint find_kind_in (l : list kdesc) (k : name) : option kdesc :=
    match l with
    | [] => None
    | d :: r => if name_eqb (k_name d) k then Some d else find_kind_in r k
    end.
  Definition find_kind := find_kind_in tbl.

  Definition is_symfield (d : kdesc) (f : name) : bool :=
    existsb (fun sf => name_eqb (sf_name sf) f && sf_issym sf) (k_strs d).
  Definition is_child (d : kdesc) (f : name) : bool :=
    existsb (fun c => name_eqb (cf_name c) f) (k_children d).

  (* ---- what a visitor sees: the arguments of VisitSymbol, in call order ---- *)
  Definition act_syms (strs : list (name * str)) (kv : list (name * list sym)) (a : act) : list sym :=
    match a with
    | AVisitSym f => lookup strs f
    | AAccept f | AAcceptIfNonNil f | AAcceptEach f => List.concat (lookup kv f)
    | ACallback _ | AUnknown _ => []
    end.

  Fixpoint visit (t : tree) : list sym :=
    match t with
    | T k strs kids =>
        match find_kind k with
        | None => []
        | Some d =>
            flat_map (act_syms strs (map (fun p => let '(f, ts) := p in (f, flat_map visit ts)) kids))
                     (k_accept d)
        end
    end.

  (* ---- every symbol occurring anywhere in the tree ---- *)
  Definition own_syms (d : kdesc) (strs : list (name * str)) : list sym :=
    flat_map (fun p => if is_symfield d (fst p) then [snd p] else []) strs.

  Definition node_syms (k : name) (strs : list (name * str)) : list sym :=
    match find_kind k with Some d => own_syms d strs | None => [] end.

  Fixpoint all_syms (t : tree) : list sym :=
    match t with
    | T k strs kids =>
        node_syms k strs ++ flat_map (fun p => let '(_, ts) := p in flat_map all_syms ts) kids
    end.

  (* the symbols held in field f of a node: the name itself, or everything under the children *)
  Definition field_syms (strs : list (name * str)) (kids : list (name * list tree)) (f : name) : list sym :=
    lookup strs f ++ flat_map all_syms (List.concat (lookup kids f)).

  (* ---- the tree has the fields the table says, and the excluded fields are duplicates ---- *)
  Definition arity_ok (d : kdesc) (p : name * list tree) : bool :=
    forallb (fun c => if name_eqb (cf_name c) (fst p) then
                        match cf_shape c with
                        | FSlice => true
                        | FSingle => if cf_nilable c then Nat.leb (length (snd p)) 1
                                     else Nat.eqb (length (snd p)) 1
                        end
                      else true) (k_children d).

  (* the child fields a tree lists: all of the table's, except that a field whose Go type does
     not announce Node (cf_hidden) may be left out while it holds no node *)
  Definition expected_kids (d : kdesc) (kids : list (name * list tree)) : list name :=
    map cf_name (filter (fun c => negb (cf_hidden c) || mem_name (cf_name c) (map fst kids)) (k_children d)).

  Definition alias_ok (k : name) (strs : list (name * str)) (kids : list (name * list tree)) (a : alias) : bool :=
    let '(k', f, c) := a in
    if name_eqb k' k then subset_str (field_syms strs kids f) (flat_map all_syms (List.concat (lookup kids c)))
    else true.

  Fixpoint shaped_b (t : tree) : bool :=
    match t with
    | T k strs kids =>
        match find_kind k with
        | None => false
        | Some d =>
            names_eqb (map fst strs) (map sf_name (k_strs d)) &&
            names_eqb (map fst kids) (expected_kids d kids) &&
            forallb (arity_ok d) kids &&
            forallb (alias_ok k strs kids) aliases &&
            forallb (fun p => let '(_, ts) := p in forallb shaped_b ts) kids
        end
    end.

  Definition shaped (t : tree) : Prop := shaped_b t = true.

  (* ---- the finite obligation on the table ---- *)
  Definition forwards (f : name) (a : act) : bool :=
    match a with
    | AAccept g | AAcceptIfNonNil g | AAcceptEach g => name_eqb f g
    | _ => false
    end.
  Definition visits_sym (f : name) (a : act) : bool :=
    match a with AVisitSym g => name_eqb f g | _ => false end.
  Definition aliased (k f : name) : bool :=
    existsb (fun a => let '(k', f', _) := a in name_eqb k' k && name_eqb f' f) aliases.

  Definition stmt_known (a : act) : bool := match a with AUnknown _ => false | _ => true end.
  Definition symfield_ok (d : kdesc) (sf : sfield) : bool :=
    negb (sf_issym sf) || existsb (visits_sym (sf_name sf)) (k_accept d) || aliased (k_name d) (sf_name sf).
  Definition child_ok (d : kdesc) (c : cfield) : bool :=
    existsb (forwards (cf_name c)) (k_accept d) || aliased (k_name d) (cf_name c).
  Definition act_wf (d : kdesc) (a : act) : bool :=
    match a with
    | AVisitSym f => is_symfield d f
    | AAccept f | AAcceptIfNonNil f | AAcceptEach f => is_child d f
    | _ => true
    end.
  Definition alias_wf (d : kdesc) (a : alias) : bool :=
    let '(k, f, c) := a in
    if name_eqb k (k_name d) then
      (is_symfield d f || is_child d f) && is_child d c &&
      existsb (forwards c) (k_accept d) && negb (aliased (k_name d) c)
    else true.
  Definition symbol_method_ok (d : kdesc) : bool :=
    match k_symbol d with
    | SymNone => true
    | SymOwn f => is_symfield d f
    | SymVia c => is_child d c
    | SymOther _ => false
    end.

  Definition kind_ok (d : kdesc) : bool :=
    match k_unsupported d with [] => true | _ => false end &&
    forallb stmt_known (k_accept d) &&
    forallb (symfield_ok d) (k_strs d) &&
    forallb (child_ok d) (k_children d) &&
    forallb (act_wf d) (k_accept d) &&
    forallb (alias_wf d) aliases &&
    symbol_method_ok d.

  Definition alias_kind_known (a : alias) : bool :=
    let '(k, _, _) := a in mem_name k (map k_name tbl).

  Definition table_complete : bool :=
    forallb kind_ok tbl && forallb alias_kind_known aliases && nodup_names (map k_name tbl).

  (* Diagnostics for the failing-input search: which (kind, field/statement, reason) break
     [table_complete].  Not used by any theorem. *)
  Definition gap := (name * name * name)%type.
  Definition act_field (a : act) : name :=
    match a with
    | AVisitSym f | ACallback f | AAccept f | AAcceptIfNonNil f | AAcceptEach f | AUnknown f => f
    end.
  Definition kind_gaps (d : kdesc) : list gap :=
    let k := k_name d in
    map (fun u => (k, u, "unsupported-construct"%name)) (k_unsupported d) ++
    map (fun a => (k, act_field a, "unknown-statement"%name)) (filter (fun a => negb (stmt_known a)) (k_accept d)) ++
    map (fun sf => (k, sf_name sf, "symbol-field-not-visited"%name)) (filter (fun sf => negb (symfield_ok d sf)) (k_strs d)) ++
    map (fun c => (k, cf_name c, "child-not-forwarded"%name)) (filter (fun c => negb (child_ok d c)) (k_children d)) ++
    map (fun a => (k, act_field a, "accept-names-unknown-field"%name)) (filter (fun a => negb (act_wf d a)) (k_accept d)) ++
    map (fun a => let '(_, f, _) := a in (k, f, "exclusion-not-justified-by-table"%name)) (filter (fun a => negb (alias_wf d a)) aliases) ++
    (if symbol_method_ok d then [] else [(k, "Symbol"%name, "symbol-method-not-understood"%name)]).
  Definition table_gaps : list gap :=
    flat_map kind_gaps tbl ++
    map (fun a => let '(k, f, _) := a in (k, f, "exclusion-for-unknown-kind"%name)) (filter (fun a => negb (alias_kind_known a)) aliases) ++
    (if nodup_names (map k_name tbl) then [] else [("*"%name, "*"%name, "duplicate-kind-names"%name)]).

  (* ---- the validating visitor ---- *)
  Variable latch : bool.   (* first error wins (vm_latch of the generated description) *)

  Definition validate (pub maps : list sym) (t : tree) : verdict :=
    first_nonpublic pub maps (if latch then visit t else rev (visit t)).

End Visitor.

(* the validating visitor of boltz/validate.go is the one modelled by [validate] *)
Definition vmethod_ok (m : vmethod) : bool :=
  name_eqb (vm_name m) "VisitSymbol"%name &&
  match vm_checks_public_on m with Some O => true | _ => false end &&
  match vm_reports_param m with Some O => true | _ => false end.

Definition validator_ok (v : vdesc) : bool :=
  v_embeds_default v &&
  match v_overrides v with [m] => vmethod_ok m | _ => false end &&
  v_entry_pointer v && v_entry_accepts_query v && v_entry_returns_err v.

Definition validator_latch (v : vdesc) : bool :=
  match v_overrides v with [m] => vm_latch m | _ => true end.

(* occurrence anywhere in a tree, for stating what [all_syms] means *)
Inductive subtree : tree -> tree -> Prop :=
| sub_refl : forall t, subtree t t
| sub_kid : forall s k strs kids f ts t, In (f, ts) kids -> In t ts -> subtree s t -> subtree s (T k strs kids).
