(* C20 - histories of validations: proofs. *)
From Coq Require Import List Bool NArith Lia.
From Storage Require Import Base.Bytes Ast.AstTable Ast.Visitor Ast.VisitorProofs Ast.VisitorGen Ast.VisitorInst Ast.ValidateSeq.
Import ListNotations.
Local Open Scope nat_scope.

Section SeqProofs.
  Variable tbl : list kdesc.
  Variable aliases : list alias.
  Variable latch : bool.

  Lemma validate_seq_length : forall h, length (validate_seq tbl latch h) = length h.
  Proof. intros. unfold validate_seq. apply map_length. Qed.

  Lemma validate_seq_app_lemma : forall h1 h2,
    validate_seq tbl latch (h1 ++ h2) = validate_seq tbl latch h1 ++ validate_seq tbl latch h2.
  Proof. intros. unfold validate_seq. apply map_app. Qed.

  (* the verdict of a step is the verdict of that step alone, whatever was validated before and after *)
  Lemma validate_seq_history_independent_lemma : forall h1 h2 s,
    nth_error (validate_seq tbl latch (h1 ++ s :: h2)) (length h1) = Some (validate_step tbl latch s).
  Proof.
    intros. rewrite validate_seq_app_lemma. rewrite nth_error_app2; rewrite validate_seq_length; [|lia].
    replace (length h1 - length h1) with 0 by lia. reflexivity.
  Qed.

  Lemma validate_seq_nth_lemma : forall h k s,
    nth_error h k = Some s -> nth_error (validate_seq tbl latch h) k = Some (validate_step tbl latch s).
  Proof. intros. unfold validate_seq. rewrite nth_error_map, H. reflexivity. Qed.

  (* every step of every history: accepted iff every symbol of THAT query is public in THAT store *)
  Lemma validate_seq_accept_iff_lemma : table_complete tbl aliases = true ->
    forall h k pub maps t, nth_error h k = Some (pub, maps, t) -> shaped tbl aliases t ->
    (nth_error (validate_seq tbl latch h) k = Some Accept <->
     forall x, In x (all_syms tbl t) -> is_public pub maps x = true).
  Proof.
    intros Hc h k pub maps t Hn Hs. rewrite (validate_seq_nth_lemma _ _ _ Hn). simpl.
    rewrite <- (validator_iff_all_public_lemma tbl aliases Hc latch pub maps t Hs).
    split; intro H. congruence. rewrite H. reflexivity.
  Qed.

  (* ---- memoising validator ---- *)
  Variable K : Type.
  Variable key : vstep -> K.
  Variable keq : K -> K -> bool.

  Definition key_faithful : Prop :=
    forall a b, validate_step tbl latch a = Accept -> keq (key a) (key b) = true -> validate_step tbl latch b = Accept.

  Lemma validate_memo_faithful_lemma : key_faithful ->
    forall h, validate_memo tbl latch K key keq [] h = validate_seq tbl latch h.
  Proof.
    intros Hf.
    assert (G : forall h cache,
      (forall c b, In c cache -> keq c (key b) = true -> validate_step tbl latch b = Accept) ->
      validate_memo tbl latch K key keq cache h = validate_seq tbl latch h).
    { induction h as [|s r IH]; intros cache Inv; simpl. reflexivity.
      destruct (existsb (fun c => keq c (key s)) cache) eqn:E.
      - apply existsb_exists in E. destruct E as [c [Hin Hk]].
        rewrite (Inv c s Hin Hk). f_equal. apply IH. exact Inv.
      - destruct (validate_step tbl latch s) eqn:V.
        + f_equal. apply IH. intros c b [Hc|Hc] Hk.
          * subst c. apply (Hf s b V Hk).
          * apply (Inv c b Hc Hk).
        + f_equal. apply IH. exact Inv. }
    intro h. apply G. intros c b [].
  Qed.
End SeqProofs.

(* at the table regenerated from the Go source *)
Lemma c20_history_independent_lemma : forall h1 h2 s,
  nth_error (gen_validate_seq (h1 ++ s :: h2)) (length h1) = nth_error (gen_validate_seq [s]) 0.
Proof. intros. unfold gen_validate_seq. rewrite validate_seq_history_independent_lemma. reflexivity. Qed.

Lemma c20_history_accept_iff_lemma : forall h k pub maps t, nth_error h k = Some (pub, maps, t) -> gen_shaped t ->
  (nth_error (gen_validate_seq h) k = Some Accept <-> forall x, In x (gen_all_syms t) -> is_public pub maps x = true).
Proof. exact (validate_seq_accept_iff_lemma gen_table gen_aliases gen_latch generated_table_complete_lemma). Qed.
