(* The documented semantics of a filter on one entity, written declaratively: comparison tables per
   (symbol type, operator, literal kind), existsb / forallb / length over element lists, sub-queries as
   filter + skip/limit.  No typed nodes, no dispatch, no cursors, no shortcuts.  No proofs in this file. *)
From Coq Require Import List ZArith NArith Bool.
From Storage Require Import Base.Bytes Ast.F64 Ast.Values Ast.Schema Ast.Untyped.
Import ListNotations.
Open Scope Z_scope.

Section Spec.
  Variable fmt_float : f64 -> str.
  Variable fmt_time : Z -> Z -> str.

  (* ---- how a stored value is read at each type, depending on the declared type of the symbol ---- *)
  Definition view_bool (ty : ntype) (v : sval) : bool :=
    match field_to_bool v with Some true => true | _ => false end.
  Definition view_int (ty : ntype) (v : sval) : option Z := field_to_int64 v.
  (* an int64 symbol is converted after it was read as an integer; float64 and any-typed symbols read the field as a float *)
  Definition view_float (ty : ntype) (v : sval) : option f64 :=
    match ty with
    | TInt64 => option_map of_int64 (field_to_int64 v)
    | _ => field_to_float64 v
    end.
  Definition view_dt (ty : ntype) (v : sval) : option (Z * Z) := field_to_datetime v.
  (* number -> string coercion: decimal for integers, FormatFloat for floats *)
  Definition view_string (ty : ntype) (v : sval) : option str :=
    match ty with
    | TInt64 => option_map dec (field_to_int64 v)
    | TFloat64 => option_map fmt_float (field_to_float64 v)
    | _ => field_to_string fmt_float fmt_time v
    end.

  Definition stringable (ty : ntype) : bool :=
    match ty with TString | TInt64 | TFloat64 | TAny => true | _ => false end.
  Definition lit_string (l : lit) : option str :=
    match l with LStr s => Some s | LInt z => Some (dec z) | LFloat b => Some (fmt_float b) | _ => None end.

  Definition spec_string_cmp (ty : ntype) (op : binop) (r : lit) : option (sval -> bool) :=
    if stringable ty then
      match lit_string r with
      | Some c =>
          Some (fun v =>
            match op with
            | OpIContains => cmp_str OpContains (option_map to_upper (view_string ty v)) (Some (to_upper c))
            | OpNotIContains => cmp_str OpNotContains (option_map to_upper (view_string ty v)) (Some (to_upper c))
            | _ => cmp_str op (view_string ty v) (Some c)
            end)
      | None => None
      end
    else None.

  (* the comparison  <symbol of type ty> op <literal>  as a predicate on the symbol's (or set element's) value;
     None = not well-typed *)
  Definition spec_cmp (ty : ntype) (op : binop) (r : lit) : option (sval -> bool) :=
    match r with
    | LNull =>
        match op with
        | OpEQ => Some is_nil
        | OpNEQ => Some (fun v => negb (is_nil v))
        | _ => None
        end
    | _ =>
      match op with
      | OpContains | OpNotContains => spec_string_cmp ty op r
      | OpIContains | OpNotIContains =>
          (* case-insensitive containment exists for string (and any-typed) symbols only *)
          match ty, r with
          | TString, LStr _ | TAny, LStr _ => spec_string_cmp ty op r
          | _, _ => None
          end
      | _ =>
        match ty, r with
        | TBool, LBool b | TAny, LBool b =>
            match op with OpEQ | OpNEQ => Some (fun v => cmp_bool op (view_bool ty v) b) | _ => None end
        | TDatetime, LDate s n | TAny, LDate s n => Some (fun v => cmp_dt op (view_dt ty v) (Some (s, n)))
        | TInt64, LInt z | TAny, LInt z => Some (fun v => cmp_i64 op (view_int ty v) (Some z))
        | TInt64, LFloat b | TFloat64, LFloat b | TAny, LFloat b => Some (fun v => cmp_f64 op (view_float ty v) (Some b))
        | TFloat64, LInt z => Some (fun v => cmp_f64 op (view_float ty v) (Some (of_int64 z)))
        | TString, LStr _ | TString, LInt _ | TString, LFloat _ | TAny, LStr _ => spec_string_cmp ty op r
        | _, _ => None
        end
      end
    end.

  Definition num_float (l : lit) : f64 := match l with LInt z => of_int64 z | LFloat b => b | _ => 0%N end.
  Definition all_int (l : list lit) : bool := forallb (fun x => match x with LInt _ => true | _ => false end) l.

  (* <symbol> in <array> *)
  Definition spec_in (ty : ntype) (a : arr) : option (sval -> bool) :=
    match a with
    | ADate ts =>
        match ty with
        | TDatetime | TAny => Some (fun v => in_dt (view_dt ty v) (map Some ts))
        | _ => None
        end
    | AStr ss =>
        if stringable ty then Some (fun v => in_str (view_string ty v) (map Some ss)) else None
    | ANum ls =>
        if all_int ls then
          match ty with
          | TInt64 | TAny => Some (fun v => in_i64 (view_int ty v) (map (fun x => match x with LInt z => Some z | _ => None end) ls))
          | TFloat64 => Some (fun v => in_f64 (view_float ty v) (map (fun x => Some (num_float x)) ls))
          | TString => Some (fun v => in_str (view_string ty v) (map lit_string ls))
          | _ => None
          end
        else
          match ty with
          | TInt64 | TAny | TFloat64 => Some (fun v => in_f64 (view_float ty v) (map (fun x => Some (num_float x)) ls))
          | TString => Some (fun v => in_str (view_string ty v) (map (fun x => Some (fmt_float (num_float x))) ls))
          | _ => None
          end
    end.

  (* <symbol> between lo and hi : lo <= x < hi *)
  Definition spec_between (ty : ntype) (lo hi : lit) : option (sval -> bool) :=
    match lo, hi with
    | LDate s1 n1, LDate s2 n2 =>
        match ty with
        | TDatetime | TAny => Some (fun v => btw_dt (view_dt ty v) (Some (s1, n1)) (Some (s2, n2)))
        | _ => None
        end
    | LInt z1, LInt z2 =>
        match ty with
        | TInt64 | TAny => Some (fun v => btw_i64 (view_int ty v) (Some z1) (Some z2))
        | TFloat64 => Some (fun v => btw_f64 (view_float ty v) (Some (of_int64 z1)) (Some (of_int64 z2)))
        | _ => None
        end
    | _, _ =>
        if is_num lo && is_num hi then
          match ty with
          | TInt64 | TAny | TFloat64 => Some (fun v => btw_f64 (view_float ty v) (Some (num_float lo)) (Some (num_float hi)))
          | _ => None
          end
        else None
    end.

  (* ---- symbols on an entity ---- *)
  Definition sym_type (sch : schema) (S : nat) (n : str) : ntype :=
    match resolve sch S n with Some r => rsym_type r | None => TOther end.

  (* the value of a single-valued symbol: a field of the entity, or of the entity a chain of references leads to *)
  Definition value_of (sch : schema) (d : db) (S : nat) (id : str) (n : str) : sval :=
    match resolve sch S n with
    | Some (RSimple l) => link_value d l id
    | Some (RChainVal ty chain) => link_value d (LkComp ty chain) id
    | _ => VNil
    end.

  (* the keys of a set symbol in stored order: the elements of the set bucket; for a dotted set symbol every
     key reached through the chain (a reference that is null or dangling contributes a null) *)
  Definition keys_of (sch : schema) (d : db) (S : nat) (id : str) (n : str) : list sval :=
    match resolve sch S n with
    | Some (RSimple (LkSet st _ key _)) => set_get d st id key
    | Some (RChainSet _ (l0 :: up) _) => flat_map (chain_enum d up) (link_step d l0 id)
    | _ => []
    end.
  (* the elements a set function ranges over *)
  Definition elements_of (sch : schema) (d : db) (S : nat) (id : str) (n : str) : list sval :=
    match resolve sch S n with
    | Some (RChainSet _ _ last) => map (last_value d last) (keys_of sch d S id n)
    | _ => keys_of sch d S id n
    end.

  Definition page {A : Type} (skip limit : option Z) (l : list A) : list A :=
    let s := match skip with Some s => Z.to_nat s | None => O end in
    let l' := skipn s l in
    match limit with
    | Some n => if n <? 0 then l' else firstn (Z.to_nat n) l'
    | None => l'
    end.

  Definition ids_of (l : list sval) : list str :=
    flat_map (fun v => match v with VStr s => [s] | _ => [] end) l.

  Definition apply_lhs_pred (c : option (sval -> bool)) (f : (sval -> bool) -> bool) : bool :=
    match c with Some p => f p | None => false end.

  Fixpoint spec (sch : schema) (d : db) (S : nat) (id : str) (u : untyped) {struct u} : bool :=
    (* the linked entities selected by  from n where q  *)
    let sub := fun (n : str) (q : untyped) =>
      match (match resolve sch S n with Some r => rsym_linked r | None => None end), q with
      | Some S', UQuery p skip limit =>
          page skip limit (filter (fun x => spec sch d S' x p) (ids_of (keys_of sch d S id n)))
      | _, _ => []
      end in
    let count := fun (se : setexpr untyped) =>
      match se with
      | SESym n => Z.of_nat (length (elements_of sch d S id n))
      | SESub n q => Z.of_nat (length (sub n q))
      end in
    (* a comparison predicate applied to the left-hand side *)
    let on_lhs := fun (l : lhs untyped) (c : ntype -> option (sval -> bool)) (neg : bool) =>
      let wrap := fun (p : sval -> bool) (v : sval) => if neg then negb (p v) else p v in
      match l with
      | LSym n => apply_lhs_pred (c (sym_type sch S n)) (fun p => wrap p (value_of sch d S id n))
      | LAllOf n => apply_lhs_pred (c (sym_type sch S n)) (fun p => forallb (wrap p) (elements_of sch d S id n))
      | LAnyOf n => apply_lhs_pred (c (sym_type sch S n)) (fun p => existsb (wrap p) (elements_of sch d S id n))
      | LCount se => apply_lhs_pred (c TInt64) (fun p => wrap p (VInt64 (count se)))
      end in
    match u with
    | UBin l op r => on_lhs l (fun ty => spec_cmp ty op r) false
    | UIn neg l a => on_lhs l (fun ty => spec_in ty a) neg
    | UBetween neg l lo hi => on_lhs l (fun ty => spec_between ty lo hi) neg
    | UIsEmpty se => count se =? 0
    | UBoolConst b => b
    | UBoolSym n => view_bool (sym_type sch S n) (value_of sch d S id n)
    | UNot a => negb (spec sch d S id a)
    | UAnd a b => spec sch d S id a && spec sch d S id b
    | UOr a b => spec sch d S id a || spec sch d S id b
    | UQuery p _ _ => spec sch d S id p
    end.

  (* the answer of a query: the matching ids in id order, then skip / limit *)
  Definition spec_ids (sch : schema) (d : db) (S : nat) (u : untyped) : list str :=
    match u with
    | UQuery p skip limit => page skip limit (filter (fun x => spec sch d S x p) (map fst (d S)))
    | _ => filter (fun x => spec sch d S x u) (map fst (d S))
    end.
End Spec.
