(* The stacked cursor enumerates exactly the depth-first flattening of the chain (and its fuel suffices). *)
From Coq Require Import List ZArith NArith Bool Lia.
From Storage Require Import Base.Bytes Ast.F64 Ast.Values Ast.Schema Ast.Stacked.
Import ListNotations.

Fixpoint rest_enum (d : db) (below : list (link * list sval)) (up1 : list link) : list sval :=
  match below with
  | [] => []
  | (l', f') :: b => flat_map (chain_enum d up1) f' ++ rest_enum d b (l' :: up1)
  end.

Fixpoint rest_work (d : db) (below : list (link * list sval)) (up1 : list link) : nat :=
  match below with
  | [] => O
  | (l', f') :: b => S (work_list d up1 f' + rest_work d b (l' :: up1))
  end.

Lemma work_list_cons : forall d up k l, work_list d up (k :: l) = (work d up k + work_list d up l)%nat.
Proof. reflexivity. Qed.

Lemma work_hop : forall d nl up' k,
  work d (nl :: up') k = S (S (work_list d up' (link_step d nl (id_of k)))).
Proof. reflexivity. Qed.

Lemma drain_enum : forall fuel d below curl pend up,
  (work_list d up pend + rest_work d below (curl :: up) + 1 <= fuel)%nat ->
  drain fuel d below curl pend up = Some (flat_map (chain_enum d up) pend ++ rest_enum d below (curl :: up)).
Proof.
  induction fuel as [|fuel IH]; intros d below curl pend up Hf.
  - lia.
  - simpl. destruct pend as [|k f].
    + destruct below as [|[l' f'] b].
      * reflexivity.
      * rewrite IH.
        -- simpl. reflexivity.
        -- simpl in Hf. lia.
    + destruct up as [|nl up'].
      * rewrite IH.
        -- simpl. reflexivity.
        -- rewrite work_list_cons in Hf. simpl in Hf. simpl. lia.
      * rewrite IH.
        -- simpl. rewrite app_assoc. reflexivity.
        -- rewrite work_list_cons, work_hop in Hf. simpl. simpl in Hf. lia.
Qed.

(* compositeEntitySetSymbol.OpenCursor followed by Next until the cursor is invalid enumerates every key
   reached through the chain exactly once, depth first in bolt order *)
Lemma stacked_keys_enum : forall d l0 up row,
  stacked_keys d (l0 :: up) row = flat_map (chain_enum d up) (link_step d l0 row).
Proof.
  intros. unfold stacked_keys. rewrite drain_enum.
  - simpl. rewrite app_nil_r. reflexivity.
  - simpl. lia.
Qed.
