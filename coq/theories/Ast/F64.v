(* float64 as IEEE-754 binary64 bit patterns (N < 2^64): comparison and int64 -> float64 conversion.
   Model of Go's ==, <, <= on float64 and of the conversion float64(int64) (round to nearest, ties to even).
   No proofs in this file. *)
From Coq Require Import ZArith NArith Bool.
Open Scope Z_scope.

Definition f64 := N.

Definition f_sign (b : f64) : bool := N.testbit b 63.
Definition f_exp (b : f64) : N := N.land (N.shiftr b 52) 2047.
Definition f_man (b : f64) : N := N.land b (N.ones 52).
Definition f_isnan (b : f64) : bool := (N.eqb (f_exp b) 2047) && negb (N.eqb (f_man b) 0).

(* sign-magnitude key: for non-NaN values the IEEE order is the order of these integers (+0 and -0 both 0) *)
Definition f_mag (b : f64) : Z := Z.of_N (N.land b (N.ones 63)).
Definition f_key (b : f64) : Z := if f_sign b then - f_mag b else f_mag b.

Definition feq (a b : f64) : bool := negb (f_isnan a) && negb (f_isnan b) && (f_key a =? f_key b).
Definition flt (a b : f64) : bool := negb (f_isnan a) && negb (f_isnan b) && (f_key a <? f_key b).
Definition fle (a b : f64) : bool := negb (f_isnan a) && negb (f_isnan b) && (f_key a <=? f_key b).

(* float64(z) for an int64 z: exact below 2^53, otherwise round to nearest even on the 53-bit mantissa *)
Definition of_int64 (z : Z) : f64 :=
  if z =? 0 then 0%N else
  let a := Z.abs z in
  let e := Z.log2 a in
  let '(m, e') :=
    if e <=? 52 then (a * 2 ^ (52 - e), e)
    else
      let sh := e - 52 in
      let q := Z.shiftr a sh in
      let r := a - Z.shiftl q sh in
      let half := 2 ^ (sh - 1) in
      let q' := if (half <? r) || ((r =? half) && Z.odd q) then q + 1 else q in
      if q' =? 2 ^ 53 then (2 ^ 52, e + 1) else (q', e) in
  let sbit := if z <? 0 then 2 ^ 63 else 0 in
  Z.to_N (sbit + (e' + 1023) * 2 ^ 52 + (m - 2 ^ 52)).
