(* typer + evaluator = documented semantics; totality of typer and evaluator. *)
From Coq Require Import List ZArith NArith Bool Lia Sorting.Sorted.
From Storage Require Import Base.Bytes Ast.F64 Ast.Values Ast.Schema Ast.Stacked Ast.Untyped Ast.Typed Ast.Typer
  Ast.Eval Ast.Spec Ast.Seek Ast.StackedProofs Ast.ScanProofs.
Import ListNotations.
Open Scope Z_scope.

Section Proofs.
  Variable fmt_float : f64 -> str.
  Variable fmt_time : Z -> Z -> str.

  Notation eval := (Eval.eval fmt_float fmt_time).
  Notation EV := (fun (E' : env) (q : typed) => Eval.eval fmt_float fmt_time E' q).
  Notation ei := (eval_i64 typed EV query_paging).
  Notation ef := (eval_f64 typed EV query_paging).
  Notation es := (eval_str fmt_float fmt_time typed EV query_paging).
  Notation spec := (Spec.spec fmt_float fmt_time).
  Notation spec_cmp := (Spec.spec_cmp fmt_float fmt_time).
  Notation spec_in := (Spec.spec_in fmt_float fmt_time).
  Notation spec_between := (Spec.spec_between).
  Notation view_string := (Spec.view_string fmt_float fmt_time).

  (* what the left operand evaluates to in an environment *)
  Inductive lhs_den (E : env) : onode -> ntype -> sval -> Prop :=
  | den_sym : forall k n v, k <> TOther -> sym_eval E n = Ok v -> lhs_den E (OSym k n) k v
  | den_count : forall n q c, ei E (I64Count n q) = Ok (Some c) -> lhs_den E (OCount n q) TInt64 (VInt64 c).

  Ltac ev_simpl :=
    cbn [Eval.eval eval_i64 eval_f64 eval_str eval_dt rbind to_float64 i64_as_str f64_as_str upper_node
         str_is_const i64_is_const f64_is_const eval_list res_seq map].

  Ltac ev_simpl_noi :=
    cbn [Eval.eval eval_f64 eval_str eval_dt rbind to_float64 i64_as_str f64_as_str upper_node
         str_is_const i64_is_const f64_is_const eval_list res_seq map].

  Lemma bin_correct : forall E o k v r op p,
    lhs_den E o k v ->
    op_lit_ok op r = true ->
    typed_bin o (lit_node r) op = Ok p ->
    exists c, spec_cmp k op r = Some c /\ eval E p = Ok (c v).
  Proof.
    intros E o k v r op p Hden Hok Htb.
    inversion Hden as [k' n v' Hk Hs | n q c Hc]; subst.
    - destruct r; destruct op; try discriminate Hok; destruct k; try congruence;
        cbn in Htb; try discriminate; inversion Htb; subst; clear Htb;
        (eexists; split; [reflexivity | ev_simpl; rewrite ?Hs; cbn [rbind]; reflexivity]).
    - destruct r; destruct op; try discriminate Hok; cbn in Htb; try discriminate; inversion Htb; subst; clear Htb;
        (eexists; split; [reflexivity | ev_simpl_noi; rewrite ?Hc; cbn [rbind option_map eval_i64]; reflexivity]).
  Qed.

  (* ---- arrays ---- *)
  Lemma existsb_rev : forall {A : Type} (f : A -> bool) l, existsb f (rev l) = existsb f l.
  Proof.
    intros A f l. induction l as [|a l IH]; simpl; auto.
    rewrite existsb_app, IH. simpl. rewrite orb_false_r. apply orb_comm.
  Qed.

  Lemma res_seq_oks : forall {B : Type} (l : list B), res_seq (map Ok l) = Ok l.
  Proof. induction l as [|a l IH]; simpl; auto. rewrite IH. reflexivity. Qed.

  Lemma eval_list_map : forall {A N B : Type} (ev : N -> res B) (g : A -> N) (h : A -> B) l,
    (forall a, ev (g a) = Ok (h a)) -> eval_list ev (map g l) = Ok (map h l).
  Proof.
    intros A N B ev g h l H. unfold eval_list. rewrite map_map.
    rewrite (map_ext _ (fun a => Ok (h a)) H). rewrite <- (map_map h Ok). apply res_seq_oks.
  Qed.

  Lemma all_int_map : forall ls, all_int ls = true ->
    map (fun x => match x with LInt z => Some z | _ => None end) ls =
    map Some (map (fun x => match x with LInt z => z | _ => 0 end) ls).
  Proof.
    induction ls as [|x ls IH]; simpl; intros H; auto.
    apply andb_true_iff in H. destruct H as [Hx Hl]. destruct x; try discriminate. rewrite IH by assumption. reflexivity.
  Qed.

  Lemma num_float_map : forall ls,
    map (fun x => Some (num_float x)) ls =
    map Some (map (fun x => match x with LInt z => of_int64 z | LFloat b => b | _ => 0%N end) ls).
  Proof. intros. rewrite map_map. apply map_ext. intros [ | | | | | ]; reflexivity. Qed.

  Lemma all_int_num_float : forall ls, all_int ls = true ->
    map (fun x => Some (num_float x)) ls =
    map Some (map (fun z => of_int64 z) (map (fun x => match x with LInt z => z | _ => 0 end) ls)).
  Proof.
    induction ls as [|x ls IH]; simpl; intros H; auto.
    apply andb_true_iff in H. destruct H as [Hx Hl]. destruct x; try discriminate. rewrite IH by assumption. reflexivity.
  Qed.

  Lemma all_int_lit_string : forall ls, all_int ls = true ->
    map (Spec.lit_string fmt_float) ls =
    map Some (map dec (map (fun x => match x with LInt z => z | _ => 0 end) ls)).
  Proof.
    induction ls as [|x ls IH]; simpl; intros H; auto.
    apply andb_true_iff in H. destruct H as [Hx Hl]. destruct x; try discriminate. rewrite IH by assumption. reflexivity.
  Qed.

  Lemma pair_eta_map : forall (l : list (Z * Z)), map (fun t => Some (fst t, snd t)) l = map Some l.
  Proof. intros. apply map_ext. intros [a b]. reflexivity. Qed.

  Lemma in_str_rev : forall x l, in_str x (map Some (rev l)) = in_str x (map Some l).
  Proof. intros. unfold in_str. rewrite map_rev. apply existsb_rev. Qed.
  Lemma in_i64_rev : forall x l, in_i64 x (map Some (rev l)) = in_i64 x (map Some l).
  Proof. intros. unfold in_i64. rewrite map_rev. apply existsb_rev. Qed.
  Lemma in_f64_rev : forall x l, in_f64 x (map Some (rev l)) = in_f64 x (map Some l).
  Proof. intros. unfold in_f64. rewrite map_rev. apply existsb_rev. Qed.
  Lemma in_dt_rev : forall x l, in_dt x (map Some (rev l)) = in_dt x (map Some l).
  Proof. intros. unfold in_dt. rewrite map_rev. apply existsb_rev. Qed.

  (* the views of the left operand *)
  Lemma den_i64 : forall E o k v i, lhs_den E o k v -> as_i64 o = Some i ->
    ei E i = Ok (view_int k v) /\ ef E (to_float64 i) = Ok (view_float k v).
  Proof.
    intros E o k v i Hden Hi. inversion Hden as [k' n v' Hk Hs | n q c Hc]; subst.
    - destruct k; try discriminate; inversion Hi; subst; split; ev_simpl; rewrite Hs; reflexivity.
    - inversion Hi; subst. split; [exact Hc|]. ev_simpl_noi. rewrite Hc. reflexivity.
  Qed.

  Lemma den_f64 : forall E o k v f, lhs_den E o k v -> as_f64 o = Some f -> ef E f = Ok (view_float k v).
  Proof.
    intros E o k v f Hden Hf. inversion Hden as [k' n v' Hk Hs | n q c Hc]; subst.
    - destruct k; try discriminate; inversion Hf; subst; ev_simpl; rewrite Hs; reflexivity.
    - discriminate.
  Qed.

  Lemma den_str : forall E o k v s, lhs_den E o k v -> as_str o = Some s -> es E s = Ok (view_string k v).
  Proof.
    intros E o k v s Hden Hs'. inversion Hden as [k' n v' Hk Hs | n q c Hc]; subst.
    - destruct k; try discriminate; try congruence; cbn in Hs'; inversion Hs'; subst; ev_simpl; rewrite Hs; reflexivity.
    - cbn in Hs'. inversion Hs'; subst. ev_simpl_noi. rewrite Hc. reflexivity.
  Qed.

  Lemma den_dt : forall E o k v x, lhs_den E o k v -> as_dt o = Some x -> eval_dt E x = Ok (view_dt k v).
  Proof.
    intros E o k v x Hden Hx. inversion Hden as [k' n v' Hk Hs | n q c Hc]; subst.
    - destruct k; try discriminate; inversion Hx; subst; ev_simpl; rewrite Hs; reflexivity.
    - discriminate.
  Qed.

  Lemma den_stringable : forall E o k v s, lhs_den E o k v -> as_str o = Some s -> stringable k = true.
  Proof.
    intros E o k v s Hden Hs'. inversion Hden as [k' n v' Hk Hs | n q c Hc]; subst.
    - destruct k; try discriminate; try congruence; reflexivity.
    - reflexivity.
  Qed.

  Lemma in_correct : forall E o k v a oa p,
    lhs_den E o k v ->
    arr_ok a = true ->
    arr_node a = Ok oa ->
    typed_in o oa = Ok p ->
    exists c, spec_in k a = Some c /\ eval E p = Ok (c v).
  Proof.
    intros E o k v a oa p Hden Hok Han Hti.
    destruct a as [ss | ls | ts]; cbn in Han.
    - (* string array *)
      inversion Han; subst; clear Han. unfold typed_in in Hti.
      destruct (as_dt o) as [dx|] eqn:Hdt; cbn in Hti;
      destruct (as_i64 o) as [ix|] eqn:Hi; cbn in Hti;
      destruct (as_f64 o) as [fx|] eqn:Hf; cbn in Hti;
      destruct (as_str o) as [sx|] eqn:Hs; cbn in Hti; try discriminate;
      inversion Hti; subst; clear Hti;
      (exists (fun v => in_str (view_string k v) (map Some ss)); split;
       [ unfold Spec.spec_in; rewrite (den_stringable _ _ _ _ _ Hden Hs); reflexivity
       | cbn [Eval.eval rbind]; rewrite (den_str _ _ _ _ _ Hden Hs); cbn [rbind];
         rewrite (eval_list_map (es E) (fun v => SConst v) Some) by reflexivity; cbn [rbind];
         rewrite in_str_rev; reflexivity ]).
    - (* number array *)
      destruct (forallb (fun x => match x with LInt _ => true | _ => false end) ls) eqn:Hall.
      + inversion Han; subst; clear Han. unfold typed_in in Hti.
        assert (Hai : all_int ls = true) by exact Hall.
        destruct (as_dt o) as [dx|] eqn:Hdt; cbn in Hti;
        destruct (as_i64 o) as [ix|] eqn:Hi; cbn in Hti.
        * inversion Hti; subst; clear Hti.
          inversion Hden as [k' n v' Hk Hsym | n q c Hc]; subst; [destruct k; try discriminate|discriminate].
          eexists; split; [unfold Spec.spec_in; rewrite Hai; reflexivity|].
          cbn [Eval.eval rbind]. destruct (den_i64 _ _ _ _ _ Hden Hi) as [H1 _]. rewrite H1. cbn [rbind].
          rewrite (eval_list_map (ei E) (fun z => I64Const z) Some) by reflexivity. cbn [rbind].
          rewrite in_i64_rev, all_int_map by assumption. reflexivity.
        * destruct (as_f64 o) as [fx|] eqn:Hf; cbn in Hti.
          -- inversion Hti; subst; clear Hti.
             inversion Hden as [k' n v' Hk Hsym | n q c Hc]; subst; [destruct k; try discriminate|discriminate].
          -- destruct (as_str o) as [sx|] eqn:Hs; cbn in Hti; try discriminate.
             inversion Hden as [k' n v' Hk Hsym | n q c Hc]; subst; [destruct k; try discriminate|discriminate].
        * inversion Hti; subst; clear Hti.
          assert (Hk2 : k = TInt64 \/ k = TAny).
          { inversion Hden as [k' n v' Hk Hsym | n q c Hc]; subst; [destruct k; try discriminate; auto | auto]. }
          exists (fun v => in_i64 (view_int k v) (map (fun x => match x with LInt z => Some z | _ => None end) ls)). split.
          { unfold Spec.spec_in. rewrite Hai. destruct Hk2; subst; reflexivity. }
          cbn [Eval.eval rbind]. destruct (den_i64 _ _ _ _ _ Hden Hi) as [H1 _]. rewrite H1. cbn [rbind].
          rewrite (eval_list_map (ei E) (fun z => I64Const z) Some) by reflexivity. cbn [rbind].
          rewrite in_i64_rev, all_int_map by assumption. reflexivity.
        * destruct (as_f64 o) as [fx|] eqn:Hf; cbn in Hti.
          -- inversion Hti; subst; clear Hti.
             assert (Hk2 : k = TFloat64).
             { inversion Hden as [k' n v' Hk Hsym | n q c Hc]; subst; [destruct k; try discriminate; auto | discriminate]. }
             subst k. eexists; split; [unfold Spec.spec_in; rewrite Hai; reflexivity|].
             cbn [Eval.eval rbind]. rewrite (den_f64 _ _ _ _ _ Hden Hf). cbn [rbind].
             rewrite (eval_list_map (ef E) (fun z => F64Const (of_int64 z)) (fun z => Some (of_int64 z))) by reflexivity. cbn [rbind].
             rewrite <- (map_map (fun z => of_int64 z) Some), map_rev, in_f64_rev, all_int_num_float by assumption. reflexivity.
          -- destruct (as_str o) as [sx|] eqn:Hs; cbn in Hti; try discriminate.
             inversion Hti; subst; clear Hti.
             assert (Hk2 : k = TString).
             { inversion Hden as [k' n v' Hk Hsym | n q c Hc]; subst; [destruct k; try discriminate; try congruence; auto | discriminate]. }
             subst k. eexists; split; [unfold Spec.spec_in; rewrite Hai; reflexivity|].
             cbn [Eval.eval rbind]. rewrite (den_str _ _ _ _ _ Hden Hs). cbn [rbind].
             rewrite (eval_list_map (es E) (fun z => SOfI64 (I64Const z)) (fun z => Some (dec z))) by reflexivity. cbn [rbind].
             rewrite <- (map_map dec Some), map_rev, in_str_rev, all_int_lit_string by assumption. reflexivity.
      + cbn in Hok. apply andb_true_iff in Hok. destruct Hok as [_ Hnum]. rewrite Hnum in Han.
        inversion Han; subst; clear Han. unfold typed_in in Hti.
        assert (Hai : all_int ls = false) by exact Hall.
        destruct (as_dt o) as [dx|] eqn:Hdt; cbn in Hti;
        destruct (as_i64 o) as [ix|] eqn:Hi; cbn in Hti.
        * inversion Hti; subst; clear Hti.
          inversion Hden as [k' n v' Hk Hsym | n q c Hc]; subst; [destruct k; try discriminate|discriminate].
          eexists; split; [unfold Spec.spec_in; rewrite Hai; reflexivity|].
          cbn [Eval.eval rbind]. destruct (den_i64 _ _ _ _ _ Hden Hi) as [_ H2]. rewrite H2. cbn [rbind].
          rewrite (eval_list_map (ef E) (fun b => F64Const b) Some) by reflexivity. cbn [rbind].
          rewrite in_f64_rev, num_float_map. reflexivity.
        * destruct (as_f64 o) as [fx|] eqn:Hf; cbn in Hti.
          -- inversion Hti; subst; clear Hti.
             inversion Hden as [k' n v' Hk Hsym | n q c Hc]; subst; [destruct k; try discriminate|discriminate].
          -- destruct (as_str o) as [sx|] eqn:Hs; cbn in Hti; try discriminate.
             inversion Hden as [k' n v' Hk Hsym | n q c Hc]; subst; [destruct k; try discriminate|discriminate].
        * inversion Hti; subst; clear Hti.
          assert (Hk2 : k = TInt64 \/ k = TAny).
          { inversion Hden as [k' n v' Hk Hsym | n q c Hc]; subst; [destruct k; try discriminate; auto | auto]. }
          exists (fun v => in_f64 (view_float k v) (map (fun x => Some (num_float x)) ls)). split.
          { unfold Spec.spec_in. rewrite Hai. destruct Hk2; subst; reflexivity. }
          cbn [Eval.eval rbind]. destruct (den_i64 _ _ _ _ _ Hden Hi) as [_ H2]. rewrite H2. cbn [rbind].
          rewrite (eval_list_map (ef E) (fun b => F64Const b) Some) by reflexivity. cbn [rbind].
          rewrite in_f64_rev, num_float_map. reflexivity.
        * destruct (as_f64 o) as [fx|] eqn:Hf; cbn in Hti.
          -- inversion Hti; subst; clear Hti.
             assert (Hk2 : k = TFloat64).
             { inversion Hden as [k' n v' Hk Hsym | n q c Hc]; subst; [destruct k; try discriminate; auto | discriminate]. }
             subst k. eexists; split; [unfold Spec.spec_in; rewrite Hai; reflexivity|].
             cbn [Eval.eval rbind]. rewrite (den_f64 _ _ _ _ _ Hden Hf). cbn [rbind].
             rewrite (eval_list_map (ef E) (fun b => F64Const b) Some) by reflexivity. cbn [rbind].
             rewrite in_f64_rev, num_float_map. reflexivity.
          -- destruct (as_str o) as [sx|] eqn:Hs; cbn in Hti; try discriminate.
             inversion Hti; subst; clear Hti.
             assert (Hk2 : k = TString).
             { inversion Hden as [k' n v' Hk Hsym | n q c Hc]; subst; [destruct k; try discriminate; try congruence; auto | discriminate]. }
             subst k. eexists; split; [unfold Spec.spec_in; rewrite Hai; reflexivity|].
             cbn [Eval.eval rbind]. rewrite (den_str _ _ _ _ _ Hden Hs). cbn [rbind].
             rewrite (eval_list_map (es E) (fun b => SOfF64 (F64Const b)) (fun b => Some (fmt_float b))) by reflexivity. cbn [rbind].
             rewrite <- (map_map fmt_float Some), map_rev, in_str_rev.
             rewrite !map_map. reflexivity.
    - (* datetime array *)
      inversion Han; subst; clear Han. unfold typed_in in Hti.
      destruct (as_dt o) as [dx|] eqn:Hdt; cbn in Hti.
      + inversion Hti; subst; clear Hti.
        assert (Hk2 : k = TDatetime \/ k = TAny).
        { inversion Hden as [k' n v' Hk Hsym | n q c Hc]; subst; [destruct k; try discriminate; auto | discriminate]. }
        exists (fun v => in_dt (view_dt k v) (map Some ts)). split.
        { unfold Spec.spec_in. destruct Hk2; subst; reflexivity. }
        cbn [Eval.eval rbind]. rewrite (den_dt _ _ _ _ _ Hden Hdt). cbn [rbind].
        rewrite (eval_list_map (eval_dt E) (fun t => DConst (fst t) (snd t)) (fun t => Some (fst t, snd t))) by reflexivity. cbn [rbind].
        rewrite pair_eta_map, in_dt_rev. reflexivity.
      + destruct (as_i64 o) as [ix|] eqn:Hi; cbn in Hti;
        destruct (as_f64 o) as [fx|] eqn:Hf; cbn in Hti;
        destruct (as_str o) as [sx|] eqn:Hs; cbn in Hti; discriminate.
  Qed.

  Lemma between_correct : forall E o k v lo hi p,
    lhs_den E o k v ->
    between_ok lo hi = true ->
    typed_between o (lit_node lo) (lit_node hi) = Ok p ->
    exists c, spec_between k lo hi = Some c /\ eval E p = Ok (c v).
  Proof.
    intros E o k v lo hi p Hden Hok Htb.
    inversion Hden as [k' n v' Hk Hs | n q c Hc]; subst.
    - destruct lo; try discriminate Hok; destruct hi; try discriminate Hok; destruct k; try congruence;
        cbn in Htb; try discriminate; inversion Htb; subst; clear Htb;
        (eexists; split; [reflexivity | ev_simpl; rewrite ?Hs; cbn [rbind]; reflexivity]).
    - destruct lo; try discriminate Hok; destruct hi; try discriminate Hok;
        cbn in Htb; try discriminate; inversion Htb; subst; clear Htb;
        (eexists; split; [reflexivity | ev_simpl_noi; rewrite ?Hc; cbn [rbind option_map eval_i64]; rewrite ?Hc; cbn [rbind option_map]; reflexivity]).
  Qed.

  (* a seekable predicate compares the string view of the element with a constant *)
  Lemma bin_seek_form : forall k n r op l' r',
    k <> TOther ->
    op_lit_ok op r = true ->
    typed_bin (OSym k n) (lit_node r) op = Ok (TBinStr l' r' OpEQ) ->
    exists cs, (forall E', es E' r' = Ok (Some cs)) /\
               spec_cmp k op r = Some (fun v => cmp_str OpEQ (field_to_string fmt_float fmt_time v) (Some cs)).
  Proof.
    intros k n r op l' r' Hk Hok Htb.
    destruct r; destruct op; try discriminate Hok; destruct k; try congruence;
      cbn in Htb; try discriminate; inversion Htb; subst; clear Htb;
      (eexists; split; [intros E'; reflexivity | reflexivity]).
  Qed.

  (* ---- environments, symbols, sets ---- *)
  Definition mk (sch : schema) (d : db) (S : nat) (id : str) : env :=
    {| en_sch := sch; en_db := d; en_store := S; en_row := id; en_cur := None |}.

  (* the datasets bolt can hold: set buckets are sorted duplicate-free strings, and every enumeration
     fits the int64 counters of the scanners *)
  Definition wf_db (sch : schema) (d : db) : Prop :=
    (forall S id key, sorted_strs (set_get d S id key)) /\
    (forall S id n, Z.of_nat (length (keys_of sch d S id n)) <= max_int64) /\
    (forall S, Z.of_nat (length (d S)) <= max_int64).

  Lemma str_eqb_refl : forall a, str_eqb a a = true.
  Proof. induction a as [|x a IH]; simpl; auto. rewrite N.eqb_refl. exact IH. Qed.

  Lemma sym_eval_cur : forall E n e, sym_eval (set_cur E n e) n = Ok e.
  Proof. intros. unfold sym_eval, set_cur. cbn. rewrite str_eqb_refl. reflexivity. Qed.

  Lemma sym_eval_value : forall sch d S id n r,
    resolve sch S n = Some r -> rsym_is_set r = false ->
    sym_eval (mk sch d S id) n = Ok (value_of sch d S id n).
  Proof.
    intros sch d S id n r Hr Hs. unfold sym_eval, value_of, mk. cbn. rewrite Hr.
    destruct r as [l | ty chain | ty chain last]; try reflexivity.
    discriminate Hs.
  Qed.

  Lemma set_keys_spec : forall sch d S id n, set_keys (mk sch d S id) n = keys_of sch d S id n.
  Proof.
    intros. unfold set_keys, keys_of, mk. cbn.
    destruct (resolve sch S n) as [[l | ty chain | ty chain last]|]; try reflexivity.
    destruct chain as [|l0 up]; [reflexivity|]. apply stacked_keys_enum.
  Qed.

  Lemma set_elems_spec : forall sch d S id n, set_elems (mk sch d S id) n = elements_of sch d S id n.
  Proof.
    intros. unfold set_elems, elements_of. rewrite set_keys_spec. unfold mk. cbn. reflexivity.
  Qed.

  Lemma set_elems_cur : forall E n e m, set_elems (set_cur E n e) m = set_elems E m.
  Proof. reflexivity. Qed.

  Lemma all_loop_ok : forall (pred : sval -> res bool) (g : sval -> bool) l,
    (forall e, pred e = Ok (g e)) -> all_loop pred l = Ok (forallb g l).
  Proof.
    intros pred g l H. induction l as [|e l IH]; simpl; auto.
    rewrite H. simpl. destruct (g e); simpl; auto.
  Qed.

  Lemma any_loop_ok : forall (pred : sval -> res bool) (g : sval -> bool) l,
    (forall e, pred e = Ok (g e)) -> any_loop pred l = Ok (existsb g l).
  Proof.
    intros pred g l H. induction l as [|e l IH]; simpl; auto.
    rewrite H. simpl. destruct (g e); simpl; auto.
  Qed.

  (* ---- the declarative semantics, unfolded one level ---- *)
  Definition sub_ids (sch : schema) (d : db) (S : nat) (id : str) (n : str) (q : untyped) : list str :=
    match (match resolve sch S n with Some r => rsym_linked r | None => None end), q with
    | Some S', UQuery p skip limit =>
        page skip limit (filter (fun x => spec sch d S' x p) (ids_of (keys_of sch d S id n)))
    | _, _ => []
    end.
  Definition count_se (sch : schema) (d : db) (S : nat) (id : str) (se : setexpr untyped) : Z :=
    match se with
    | SESym n => Z.of_nat (length (elements_of sch d S id n))
    | SESub n q => Z.of_nat (length (sub_ids sch d S id n q))
    end.
  Definition wrap (neg : bool) (p : sval -> bool) (v : sval) : bool := if neg then negb (p v) else p v.
  Definition on_lhs (sch : schema) (d : db) (S : nat) (id : str) (l : lhs untyped)
             (c : ntype -> option (sval -> bool)) (neg : bool) : bool :=
    match l with
    | LSym n => apply_lhs_pred (c (sym_type sch S n)) (fun p => wrap neg p (value_of sch d S id n))
    | LAllOf n => apply_lhs_pred (c (sym_type sch S n)) (fun p => forallb (wrap neg p) (elements_of sch d S id n))
    | LAnyOf n => apply_lhs_pred (c (sym_type sch S n)) (fun p => existsb (wrap neg p) (elements_of sch d S id n))
    | LCount se => apply_lhs_pred (c TInt64) (fun p => wrap neg p (VInt64 (count_se sch d S id se)))
    end.

  Lemma spec_UBin : forall sch d S id l op r,
    spec sch d S id (UBin l op r) = on_lhs sch d S id l (fun ty => spec_cmp ty op r) false.
  Proof. intros. destruct l as [n|n|n|[n|n q]]; reflexivity. Qed.
  Lemma spec_UIn : forall sch d S id neg l a,
    spec sch d S id (UIn neg l a) = on_lhs sch d S id l (fun ty => spec_in ty a) neg.
  Proof. intros. destruct l as [n|n|n|[n|n q]]; reflexivity. Qed.
  Lemma spec_UBetween : forall sch d S id neg l lo hi,
    spec sch d S id (UBetween neg l lo hi) = on_lhs sch d S id l (fun ty => spec_between ty lo hi) neg.
  Proof. intros. destruct l as [n|n|n|[n|n q]]; reflexivity. Qed.
  Lemma spec_UIsEmpty : forall sch d S id se,
    spec sch d S id (UIsEmpty se) = (count_se sch d S id se =? 0).
  Proof. intros. destruct se as [n|n q]; reflexivity. Qed.

  (* ---- induction over untyped trees (sub-queries are nested inside left-hand sides) ---- *)
  Section UntypedInd.
    Variable P : untyped -> Prop.
    Definition se_P (se : setexpr untyped) : Prop := match se with SESym _ => True | SESub _ q => P q end.
    Definition lhs_P (l : lhs untyped) : Prop := match l with LCount se => se_P se | _ => True end.
    Hypothesis H_bin : forall l op r, lhs_P l -> P (UBin l op r).
    Hypothesis H_in : forall neg l a, lhs_P l -> P (UIn neg l a).
    Hypothesis H_btw : forall neg l lo hi, lhs_P l -> P (UBetween neg l lo hi).
    Hypothesis H_empty : forall se, se_P se -> P (UIsEmpty se).
    Hypothesis H_bc : forall b, P (UBoolConst b).
    Hypothesis H_bs : forall n, P (UBoolSym n).
    Hypothesis H_not : forall a, P a -> P (UNot a).
    Hypothesis H_and : forall a b, P a -> P b -> P (UAnd a b).
    Hypothesis H_or : forall a b, P a -> P b -> P (UOr a b).
    Hypothesis H_q : forall p s l, P p -> P (UQuery p s l).

    Fixpoint untyped_ind' (u : untyped) : P u :=
      let se_rec := fun se : setexpr untyped =>
        match se as s0 return se_P s0 with SESym _ => I | SESub _ q => untyped_ind' q end in
      let lhs_rec := fun l : lhs untyped =>
        match l as l0 return lhs_P l0 with LCount se => se_rec se | _ => I end in
      match u with
      | UBin l op r => H_bin l op r (lhs_rec l)
      | UIn neg l a => H_in neg l a (lhs_rec l)
      | UBetween neg l lo hi => H_btw neg l lo hi (lhs_rec l)
      | UIsEmpty se => H_empty se (se_rec se)
      | UBoolConst b => H_bc b
      | UBoolSym n => H_bs n
      | UNot a => H_not a (untyped_ind' a)
      | UAnd a b => H_and a b (untyped_ind' a) (untyped_ind' b)
      | UOr a b => H_or a b (untyped_ind' a) (untyped_ind' b)
      | UQuery p s l => H_q p s l (untyped_ind' p)
      end.
  End UntypedInd.

  (* the validator of the fixed code never leaves the inSetFunction flag set *)
  Lemma validate_false : forall u sch S i, validate sch S false u = Some i -> i = false.
  Proof.
    induction u using untyped_ind'; intros sch S i Hv; cbn in Hv.
    - destruct l as [n|n|n|[n|n q]]; cbn in Hv;
        repeat match type of Hv with context [match ?x with _ => _ end] => destruct x eqn:?; try discriminate end;
        inversion Hv; reflexivity.
    - destruct l as [n|n|n|[n|n q]]; cbn in Hv;
        repeat match type of Hv with context [match ?x with _ => _ end] => destruct x eqn:?; try discriminate end;
        inversion Hv; reflexivity.
    - destruct l as [n|n|n|[n|n q]]; cbn in Hv;
        repeat match type of Hv with context [match ?x with _ => _ end] => destruct x eqn:?; try discriminate end;
        inversion Hv; reflexivity.
    - destruct se as [n|n q]; cbn in Hv;
        repeat match type of Hv with context [match ?x with _ => _ end] => destruct x eqn:?; try discriminate end;
        inversion Hv; reflexivity.
    - inversion Hv; reflexivity.
    - destruct (validate_sym sch S false n); inversion Hv; reflexivity.
    - eapply IHu; eauto.
    - destruct (validate sch S false u1) as [i1|] eqn:H1; try discriminate.
      apply IHu1 in H1. subst i1. eapply IHu2; eauto.
    - destruct (validate sch S false u1) as [i1|] eqn:H1; try discriminate.
      apply IHu1 in H1. subst i1. eapply IHu2; eauto.
    - eapply IHu; eauto.
  Qed.

  Definition main_P (u : untyped) : Prop :=
    forall sch S t i, validate sch S false u = Some i -> transform sch S u = Ok t ->
    forall d id, exists b, eval (mk sch d S id) t = Ok b /\ (wf_db sch d -> b = spec sch d S id u).

  Lemma length_filter_le : forall {A : Type} (f : A -> bool) l, (length (filter f l) <= length l)%nat.
  Proof. intros A f l. induction l as [|a l IH]; simpl; auto. destruct (f a); simpl; lia. Qed.

  Lemma length_ids_of_le : forall l, (length (ids_of l) <= length l)%nat.
  Proof. induction l as [|a l IH]; simpl; auto. destruct a; simpl; lia. Qed.

  Lemma empty_length : forall {A : Type} (l : list A),
    (Z.of_nat (length l) =? 0) = match l with [] => true | _ => false end.
  Proof. intros A [|a l]; reflexivity. Qed.

  Lemma transform_sym_inv : forall sch S n o, transform_sym sch S n = Ok o ->
    exists r, resolve sch S n = Some r /\ o = OSym (rsym_type r) n /\ rsym_type r <> TOther.
  Proof.
    intros sch S n o H. unfold transform_sym in H. destruct (resolve sch S n) as [r|]; try discriminate.
    exists r. destruct (rsym_type r) eqn:Ht; try discriminate; inversion H; subst; repeat split; congruence.
  Qed.

  Lemma sub_scan_unfold : forall sch d S id n r S' tq,
    resolve sch S n = Some r -> rsym_is_set r = true -> rsym_linked r = Some S' ->
    sub_scan typed EV query_paging (mk sch d S id) n tq =
    scan_next (fun id' => eval (mk sch d S' id') tq)
              (paging_offset (fst (query_paging tq))) (paging_limit (snd (query_paging tq)))
              (set_keys (mk sch d S id) n) 0 0.
  Proof.
    intros sch d S id n r S' tq Hr Hs Hl. unfold sub_scan, is_set_sym.
    change (en_sch (mk sch d S id)) with sch. change (en_store (mk sch d S id)) with S.
    rewrite Hr, Hs, Hl. reflexivity.
  Qed.

  (* count(...) and isEmpty(...) over a set symbol or a sub-query *)
  Lemma setexpr_correct : forall sch S se n q' i,
    se_P main_P se ->
    validate_setfn (fun S' i q => validate sch S' i q) sch S se = Some i ->
    transform_setexpr (fun S' q => transform sch S' q) sch S se = Ok (n, q') ->
    forall d id,
      (exists c, ei (mk sch d S id) (I64Count n q') = Ok (Some c) /\ (wf_db sch d -> c = count_se sch d S id se)) /\
      (exists b, eval (mk sch d S id) (TIsEmpty n q') = Ok b /\ (wf_db sch d -> b = (count_se sch d S id se =? 0))).
  Proof.
    intros sch S se n q' i IH Hv Ht d id.
    destruct se as [n0 | n0 q]; cbn in Ht.
    - destruct (transform_sym sch S n0); try discriminate. cbn in Ht. inversion Ht; subst; clear Ht.
      split.
      + eexists; split; [reflexivity|]. intros _. cbn. rewrite set_elems_spec. reflexivity.
      + eexists; split; [reflexivity|]. intros _. cbn [count_se]. rewrite empty_length, set_elems_spec. reflexivity.
    - destruct (transform_sym sch S n0); try discriminate. cbn in Ht.
      destruct (linked_store sch S n0) as [S'|] eqn:Hl; try discriminate.
      destruct q as [ | | | | | | | | | p sk lm]; cbn in Ht; try discriminate.
      destruct (transform sch S' p) as [tp| |] eqn:Htp; cbn in Ht; try discriminate.
      injection Ht as Hn Hq. subst n q'. rename n0 into n.
      set (tq := TQuery tp sk lm).
      assert (Htq : transform sch S' (UQuery p sk lm) = Ok tq) by (cbn; rewrite Htp; reflexivity).
      cbn in Hv. fold (linked_store sch S n) in Hv. rewrite Hl in Hv.
      destruct (validate_sym sch S true n) eqn:Hvs; try discriminate.
      destruct (validate sch S' false p) as [i'|] eqn:Hvp; try discriminate.
      assert (Hvq : validate sch S' false (UQuery p sk lm) = Some i') by exact Hvp.
      destruct (resolve sch S n) as [r|] eqn:Hr; try discriminate.
      destruct (rsym_is_set r) eqn:Hset; try discriminate.
      cbn in IH. specialize (IH sch S' tq i' Hvq Htq d).
      (* the typed sub-query is a query node with the same paging *)
      assert (Hpg : query_paging tq = (sk, lm)) by reflexivity.
      set (f := fun id' => match eval (mk sch d S' id') tq with Ok b => b | _ => false end).
      assert (Hf : forall id', eval (mk sch d S' id') tq = Ok (f id')).
      { intros id'. destruct (IH id') as [b [Hb _]]. unfold f. rewrite Hb. reflexivity. }
      assert (Hl' : rsym_linked r = Some S') by (unfold linked_store in Hl; rewrite Hr in Hl; exact Hl).
      clear Hl. rename Hl' into Hl.
      assert (Hscan : sub_scan typed EV query_paging (mk sch d S id) n tq =
                      Ok (firstn (Z.to_nat (paging_limit lm - 0)) (skipn (Z.to_nat (paging_offset sk - 0))
                            (filter f (ids_of (keys_of sch d S id n)))))).
      { rewrite (sub_scan_unfold sch d S id n r S' tq Hr Hset Hl). rewrite Hpg. cbn [fst snd].
        rewrite <- (set_keys_spec sch d S id n).
        apply scan_next_spec; try lia. intros id'. apply Hf. }
      assert (Hwf : wf_db sch d ->
                    firstn (Z.to_nat (paging_limit lm - 0)) (skipn (Z.to_nat (paging_offset sk - 0))
                            (filter f (ids_of (keys_of sch d S id n)))) = sub_ids sch d S id n (UQuery p sk lm)).
      { intros Hw. unfold sub_ids. rewrite Hr, Hl.
        rewrite page_paging.
        - f_equal. apply filter_ext. intros x. destruct (IH x) as [b [Hb Hs]]. unfold f. rewrite Hb.
          rewrite (Hs Hw). reflexivity.
        - destruct Hw as [_ [Hb _]]. specialize (Hb S id n).
          pose proof (length_filter_le f (ids_of (keys_of sch d S id n))).
          pose proof (length_ids_of_le (keys_of sch d S id n)). lia. }
      split.
      + eexists; split.
        * cbn [eval_i64]. rewrite Hscan. reflexivity.
        * intros Hw. cbn [count_se]. rewrite (Hwf Hw). reflexivity.
      + eexists; split.
        * cbn [Eval.eval]. rewrite Hscan. reflexivity.
        * intros Hw. cbn [count_se]. rewrite (Hwf Hw). cbn [rbind]. rewrite empty_length. reflexivity.
  Qed.

  Lemma existsb_ext' : forall {A : Type} (f g : A -> bool) l, (forall a, f a = g a) -> existsb f l = existsb g l.
  Proof. intros A f g l H. induction l as [|a l IH]; simpl; auto. rewrite H, IH. reflexivity. Qed.
  Lemma forallb_ext' : forall {A : Type} (f g : A -> bool) l, (forall a, f a = g a) -> forallb f l = forallb g l.
  Proof. intros A f g l H. induction l as [|a l IH]; simpl; auto. rewrite H, IH. reflexivity. Qed.

  Lemma eval_neg : forall E p (neg : bool) b,
    eval E p = Ok b -> eval E (if neg then TNot p else p) = Ok (if neg then negb b else b).
  Proof. intros E p neg b H. destruct neg; [cbn [Eval.eval]; rewrite H; reflexivity | exact H]. Qed.

  Lemma seekable_sorted : forall sch d S id n, wf_db sch d -> set_seekable (mk sch d S id) n = true ->
    sorted_strs (set_elems (mk sch d S id) n).
  Proof.
    intros sch d S id n [Hs _] Hk. unfold set_seekable in Hk. unfold set_elems, set_keys. cbn in *.
    destruct (resolve sch S n) as [[l|ty c|ty c last]|]; try discriminate.
    destruct l; try discriminate. apply Hs.
  Qed.

  Lemma lhs_correct : forall sch S l o h i (cspec : ntype -> option (sval -> bool)) (neg : bool) p,
    lhs_P main_P l ->
    validate_lhs (fun S' i q => validate sch S' i q) sch S false l = Some i ->
    transform_lhs (fun S' q => transform sch S' q) sch S l = Ok (o, h) ->
    (forall E k v, lhs_den E o k v -> exists c, cspec k = Some c /\ eval E p = Ok (c v)) ->
    (neg = false -> forall n k l' r', o = OSym k n -> k <> TOther -> p = TBinStr l' r' OpEQ ->
       exists cs, (forall E', es E' r' = Ok (Some cs)) /\
                  cspec k = Some (fun v => cmp_str OpEQ (field_to_string fmt_float fmt_time v) (Some cs))) ->
    forall d id, exists b, eval (mk sch d S id) (move_up h (if neg then TNot p else p)) = Ok b /\
                           (wf_db sch d -> b = on_lhs sch d S id l cspec neg).
  Proof.
    intros sch S l o h i cspec neg p IH Hv Ht Hcmp Hseek d id.
    destruct l as [n | n | n | se]; cbn in Ht.
    - (* plain symbol *)
      destruct (transform_sym sch S n) as [o'| |] eqn:Hts; try discriminate. cbn in Ht.
      injection Ht as Ho Hh. subst o' h.
      destruct (transform_sym_inv _ _ _ _ Hts) as [r [Hr [Ho Hk]]]. subst o.
      cbn in Hv. unfold validate_sym in Hv. rewrite Hr in Hv. cbn in Hv.
      destruct (rsym_is_set r) eqn:Hset; try discriminate.
      assert (Hden : lhs_den (mk sch d S id) (OSym (rsym_type r) n) (rsym_type r) (value_of sch d S id n)).
      { apply den_sym; auto. eapply sym_eval_value; eauto. }
      destruct (Hcmp _ _ _ Hden) as [c [Hc He]].
      eexists; split.
      + cbn [move_up]. apply eval_neg. exact He.
      + intros _. cbn [on_lhs]. unfold sym_type. rewrite Hr, Hc. cbn. unfold wrap. reflexivity.
    - (* allOf *)
      destruct (transform_sym sch S n) as [o'| |] eqn:Hts; try discriminate. cbn in Ht.
      injection Ht as Ho Hh. subst o' h.
      destruct (transform_sym_inv _ _ _ _ Hts) as [r [Hr [Ho Hk]]]. subst o.
      assert (Hc0 : exists c, cspec (rsym_type r) = Some c).
      { destruct (Hcmp (set_cur (mk sch d S id) n VNil) (rsym_type r) VNil) as [c [Hc _]].
        - apply den_sym; auto. apply sym_eval_cur.
        - eauto. }
      destruct Hc0 as [c Hc].
      assert (Hall : forall e, eval (set_cur (mk sch d S id) n e) (if neg then TNot p else p) = Ok (wrap neg c e)).
      { intros e. destruct (Hcmp (set_cur (mk sch d S id) n e) (rsym_type r) e) as [c' [Hc' He]].
        - apply den_sym; auto. apply sym_eval_cur.
        - rewrite Hc in Hc'. injection Hc' as Hc'. subst c'. unfold wrap. apply eval_neg. exact He. }
      eexists; split.
      + cbn [move_up Eval.eval]. apply all_loop_ok. exact Hall.
      + intros _. cbn [on_lhs]. unfold sym_type. rewrite Hr, Hc. cbn. rewrite set_elems_spec. reflexivity.
    - (* anyOf *)
      destruct (transform_sym sch S n) as [o'| |] eqn:Hts; try discriminate. cbn in Ht.
      injection Ht as Ho Hh. subst o' h.
      destruct (transform_sym_inv _ _ _ _ Hts) as [r [Hr [Ho Hk]]]. subst o.
      assert (Hc0 : exists c, cspec (rsym_type r) = Some c).
      { destruct (Hcmp (set_cur (mk sch d S id) n VNil) (rsym_type r) VNil) as [c [Hc _]].
        - apply den_sym; auto. apply sym_eval_cur.
        - eauto. }
      destruct Hc0 as [c Hc].
      assert (Hp : forall e, eval (set_cur (mk sch d S id) n e) p = Ok (c e)).
      { intros e. destruct (Hcmp (set_cur (mk sch d S id) n e) (rsym_type r) e) as [c' [Hc' He]].
        - apply den_sym; auto. apply sym_eval_cur.
        - rewrite Hc in Hc'. injection Hc' as Hc'. subst c'. exact He. }
      assert (Hall : forall e, eval (set_cur (mk sch d S id) n e) (if neg then TNot p else p) = Ok (wrap neg c e)).
      { intros e. unfold wrap. apply eval_neg. apply Hp. }
      assert (Hplain : exists b, eval (mk sch d S id) (TAnyOf n (if neg then TNot p else p)) = Ok b /\
                                 (wf_db sch d -> b = on_lhs sch d S id (LAnyOf n) cspec neg)).
      { eexists; split.
        - cbn [Eval.eval]. apply any_loop_ok. exact Hall.
        - intros _. cbn [on_lhs]. unfold sym_type. rewrite Hr, Hc. cbn. rewrite set_elems_spec. reflexivity. }
      cbn [move_up]. destruct neg; [exact Hplain|].
      destruct p; try exact Hplain.
      cbn [specialize_any_of]. destruct op; try exact Hplain.
      destruct (str_is_const l || str_is_const r0); [|exact Hplain]. cbn [andb].
      (* the seek shortcut *)
      destruct (Hseek eq_refl n (rsym_type r) l r0 eq_refl Hk eq_refl) as [cs [Hcs Hcf]].
      rewrite Hc in Hcf. injection Hcf as Hcf. subst c.
      cbn [Eval.eval]. destruct (set_seekable (mk sch d S id) n) eqn:Hsk.
      + rewrite Hcs. cbn [rbind].
        exists (seek_path fmt_float fmt_time (set_elems (mk sch d S id) n) cs). split.
        * unfold Seek.seek_path. destruct (cur_seek (set_elems (mk sch d S id) n) cs) as [|e rest]; [reflexivity|].
          specialize (Hp e). cbn [Eval.eval] in Hp. exact Hp.
        * intros Hw. rewrite seek_scan_agree by (apply seekable_sorted; assumption).
          cbn [on_lhs]. unfold sym_type. rewrite Hr, Hc. cbn. rewrite set_elems_spec. unfold Seek.scan_path, Seek.eq_elem. reflexivity.
      + eexists; split.
        * apply any_loop_ok. intros e. specialize (Hp e). cbn [Eval.eval] in Hp. exact Hp.
        * intros _. cbn [on_lhs]. unfold sym_type. rewrite Hr, Hc. cbn. rewrite set_elems_spec. reflexivity.
    - (* count *)
      destruct (transform_setexpr (fun S' q => transform sch S' q) sch S se) as [[n q']| |] eqn:Hse; try discriminate.
      cbn in Ht. injection Ht as Ho Hh. subst o h.
      cbn in Hv. cbn in IH.
      destruct (setexpr_correct sch S se n q' i IH Hv Hse d id) as [[c [Hc Hcw]] _].
      destruct (Hcmp (mk sch d S id) TInt64 (VInt64 c)) as [cf [Hcf He]].
      { apply den_count. exact Hc. }
      eexists; split.
      + cbn [move_up]. apply eval_neg. exact He.
      + intros Hw. cbn [on_lhs]. rewrite Hcf. cbn. rewrite <- (Hcw Hw). unfold wrap. reflexivity.
  Qed.

  Lemma typed_in_not_binstr : forall o oa l r op, typed_in o oa = Ok (TBinStr l r op) -> False.
  Proof.
    intros o oa l r op H. unfold typed_in in H.
    destruct (as_dt o); destruct (as_i64 o); destruct (as_f64 o); destruct (as_str o); destruct oa; cbn in H; discriminate.
  Qed.

  Lemma typed_between_not_binstr : forall x lo hi l r op, typed_between x lo hi = Ok (TBinStr l r op) -> False.
  Proof.
    intros x lo hi l r op H. unfold typed_between in H.
    destruct (as_dt x); destruct (as_dt lo); destruct (as_dt hi); cbn in H; try discriminate;
    destruct (as_i64 x); destruct (as_i64 lo); destruct (as_i64 hi); cbn in H; try discriminate;
    destruct (to_f64_node x); destruct (to_f64_node lo); destruct (to_f64_node hi); cbn in H; discriminate.
  Qed.

  Lemma transform_lhs_osym : forall sch S l o h n k,
    transform_lhs (fun S' q => transform sch S' q) sch S l = Ok (o, h) -> o = OSym k n -> k <> TOther -> True.
  Proof. auto. Qed.

  Theorem main_correct : forall u, main_P u.
  Proof.
    induction u using untyped_ind'; unfold main_P; intros sch S t i Hv Ht d id.
    - (* binary operator *)
      cbn in Ht. destruct (op_lit_ok op r) eqn:Hok; try discriminate.
      destruct (transform_lhs (fun S' q => transform sch S' q) sch S l) as [[o h]| |] eqn:Hl; try discriminate.
      cbn in Ht. destruct (typed_bin o (lit_node r) op) as [p| |] eqn:Hp; try discriminate.
      cbn in Ht. injection Ht as Ht. subst t. cbn in Hv.
      destruct (lhs_correct sch S l o h i (fun ty => spec_cmp ty op r) false p H Hv Hl) with (d := d) (id := id) as [b [Hb Hs]].
      + intros E k v Hden. eapply bin_correct; eauto.
      + intros _ n k l' r' Ho Hk Hpe. subst o p. eapply bin_seek_form; eauto.
      + exists b. split; [exact Hb|]. intros Hw. rewrite spec_UBin. apply Hs. exact Hw.
    - (* in / not in *)
      cbn in Ht. destruct (arr_ok a) eqn:Hok; try discriminate.
      destruct (transform_lhs (fun S' q => transform sch S' q) sch S l) as [[o h]| |] eqn:Hl; try discriminate.
      cbn in Ht. destruct (arr_node a) as [oa| |] eqn:Ha; try discriminate.
      cbn in Ht. destruct (typed_in o oa) as [p| |] eqn:Hp; try discriminate.
      cbn in Ht. injection Ht as Ht. subst t. cbn in Hv.
      destruct (lhs_correct sch S l o h i (fun ty => spec_in ty a) neg p H Hv Hl) with (d := d) (id := id) as [b [Hb Hs]].
      + intros E k v Hden. eapply in_correct; eauto.
      + intros _ n k l' r' Ho Hk Hpe. subst p. exfalso. eapply typed_in_not_binstr; eauto.
      + exists b. split; [exact Hb|]. intros Hw. rewrite spec_UIn. apply Hs. exact Hw.
    - (* between / not between *)
      cbn in Ht. destruct (between_ok lo hi) eqn:Hok; try discriminate.
      destruct (transform_lhs (fun S' q => transform sch S' q) sch S l) as [[o h]| |] eqn:Hl; try discriminate.
      cbn in Ht. destruct (typed_between o (lit_node lo) (lit_node hi)) as [p| |] eqn:Hp; try discriminate.
      cbn in Ht. injection Ht as Ht. subst t. cbn in Hv.
      destruct (lhs_correct sch S l o h i (fun ty => spec_between ty lo hi) neg p H Hv Hl) with (d := d) (id := id) as [b [Hb Hs]].
      + intros E k v Hden. eapply between_correct; eauto.
      + intros _ n k l' r' Ho Hk Hpe. subst p. exfalso. eapply typed_between_not_binstr; eauto.
      + exists b. split; [exact Hb|]. intros Hw. rewrite spec_UBetween. apply Hs. exact Hw.
    - (* isEmpty *)
      cbn in Ht.
      destruct (transform_setexpr (fun S' q => transform sch S' q) sch S se) as [[n q']| |] eqn:Hse; try discriminate.
      cbn in Ht. injection Ht as Ht. subst t. cbn in Hv.
      destruct (setexpr_correct sch S se n q' i H Hv Hse d id) as [_ [b [Hb Hs]]].
      exists b. split; [exact Hb|]. intros Hw. rewrite spec_UIsEmpty. apply Hs. exact Hw.
    - (* bool constant *)
      cbn in Ht. injection Ht as Ht. subst t. exists b. split; reflexivity.
    - (* bool symbol *)
      cbn in Ht. destruct (transform_sym sch S n) as [o| |] eqn:Hts; try discriminate. cbn in Ht.
      destruct (transform_sym_inv _ _ _ _ Hts) as [r [Hr [Ho Hk]]]. subst o.
      cbn in Hv. unfold validate_sym in Hv. rewrite Hr in Hv. cbn in Hv.
      destruct (rsym_is_set r) eqn:Hset; try discriminate.
      pose proof (sym_eval_value sch d S id n r Hr Hset) as Hse.
      destruct (rsym_type r) eqn:Hty; cbn in Ht; try discriminate; injection Ht as Ht; subst t;
        (eexists; split; [cbn [Eval.eval]; rewrite Hse; reflexivity | intros _; reflexivity]).
    - (* not *)
      cbn in Ht. destruct (transform sch S u) as [tu| |] eqn:Hu; try discriminate. cbn in Ht. injection Ht as Ht. subst t.
      cbn in Hv. destruct (IHu sch S tu i Hv Hu d id) as [b [Hb Hs]].
      exists (negb b). split; [cbn [Eval.eval]; rewrite Hb; reflexivity|]. intros Hw. cbn. rewrite <- (Hs Hw). reflexivity.
    - (* and *)
      cbn in Ht. destruct (transform sch S u1) as [t1| |] eqn:Hu1; try discriminate. cbn in Ht.
      destruct (transform sch S u2) as [t2| |] eqn:Hu2; try discriminate. cbn in Ht. injection Ht as Ht. subst t.
      cbn in Hv. destruct (validate sch S false u1) as [i1|] eqn:Hv1; try discriminate.
      pose proof (validate_false _ _ _ _ Hv1). subst i1.
      destruct (IHu1 sch S t1 false Hv1 Hu1 d id) as [b1 [Hb1 Hs1]].
      destruct (IHu2 sch S t2 i Hv Hu2 d id) as [b2 [Hb2 Hs2]].
      exists (b1 && b2). split.
      + cbn [Eval.eval]. rewrite Hb1. cbn [rbind]. destruct b1; [exact Hb2 | reflexivity].
      + intros Hw. cbn. rewrite <- (Hs1 Hw), <- (Hs2 Hw). reflexivity.
    - (* or *)
      cbn in Ht. destruct (transform sch S u1) as [t1| |] eqn:Hu1; try discriminate. cbn in Ht.
      destruct (transform sch S u2) as [t2| |] eqn:Hu2; try discriminate. cbn in Ht. injection Ht as Ht. subst t.
      cbn in Hv. destruct (validate sch S false u1) as [i1|] eqn:Hv1; try discriminate.
      pose proof (validate_false _ _ _ _ Hv1). subst i1.
      destruct (IHu1 sch S t1 false Hv1 Hu1 d id) as [b1 [Hb1 Hs1]].
      destruct (IHu2 sch S t2 i Hv Hu2 d id) as [b2 [Hb2 Hs2]].
      exists (b1 || b2). split.
      + cbn [Eval.eval]. rewrite Hb1. cbn [rbind]. destruct b1; [reflexivity | exact Hb2].
      + intros Hw. cbn. rewrite <- (Hs1 Hw), <- (Hs2 Hw). reflexivity.
    - (* query *)
      cbn in Ht. destruct (transform sch S u) as [tu| |] eqn:Hu; try discriminate. cbn in Ht. injection Ht as Ht. subst t.
      cbn in Hv. destruct (IHu sch S tu i Hv Hu d id) as [b [Hb Hs]].
      exists b. split; [exact Hb|]. intros Hw. cbn. apply Hs. exact Hw.
  Qed.

  (* ================= the statements used by Properties/C01.v and C10Typer.v ================= *)

  Lemma typer_selects_documented_semantics_lemma : forall sch S u t,
    typer sch S u = Ok t ->
    forall d id, wf_db sch d -> eval (mk sch d S id) t = Ok (spec sch d S id u).
  Proof.
    intros sch S u t Ht d id Hw. unfold typer in Ht.
    destruct (validate sch S false u) as [i|] eqn:Hv; try discriminate.
    destruct (main_correct u sch S t i Hv Ht d id) as [b [Hb Hs]].
    rewrite Hb, (Hs Hw). reflexivity.
  Qed.

  Lemma eval_total_lemma : forall sch S u t,
    typer sch S u = Ok t -> forall d id, eval (mk sch d S id) t <> Panic.
  Proof.
    intros sch S u t Ht d id. unfold typer in Ht.
    destruct (validate sch S false u) as [i|] eqn:Hv; try discriminate.
    destruct (main_correct u sch S t i Hv Ht d id) as [b [Hb _]].
    rewrite Hb. discriminate.
  Qed.

  (* ---- seek shortcut at the level of the evaluator ---- *)
  Lemma const_str_eval : forall (r : strnode typed), str_is_const r = true ->
    exists cs, forall E, es E r = Ok (Some cs).
  Proof.
    intros r Hc. destruct r as [v | n | n | i | f | s']; try discriminate.
    - exists v. reflexivity.
    - destruct i; try discriminate. eexists. intros E. reflexivity.
    - destruct f as [b | n | n | i]; try discriminate.
      + eexists. intros E. reflexivity.
      + destruct i; try discriminate. eexists. intros E. reflexivity.
  Qed.

  Lemma seek_shortcut_sound_lemma : forall E n l r,
    (l = SSym n \/ l = SAny n) -> str_is_const r = true ->
    sorted_strs (set_elems E n) ->
    eval E (TAnyOfSeek n l r OpEQ) = eval E (TAnyOf n (TBinStr l r OpEQ)).
  Proof.
    intros E n l r Hl Hc Hs. destruct (const_str_eval r Hc) as [cs Hcs].
    assert (Hel : forall e, es (set_cur E n e) l = Ok (field_to_string fmt_float fmt_time e)).
    { intros e. destruct Hl; subst l; cbn [eval_str]; rewrite sym_eval_cur; reflexivity. }
    assert (Hscan : any_loop (fun e => a <- es (set_cur E n e) l ;; b <- es (set_cur E n e) r ;; Ok (cmp_str OpEQ a b)) (set_elems E n)
                    = Ok (scan_path fmt_float fmt_time (set_elems E n) cs)).
    { apply any_loop_ok. intros e. rewrite Hel, Hcs. reflexivity. }
    cbn [Eval.eval]. destruct (set_seekable E n).
    - rewrite Hcs. cbn [rbind]. rewrite Hscan. rewrite <- seek_scan_agree by exact Hs.
      unfold Seek.seek_path. destruct (cur_seek (set_elems E n) cs) as [|e rest]; [reflexivity|].
      rewrite Hel, Hcs. reflexivity.
    - reflexivity.
  Qed.

  (* ---- QueryIds / IterateIds ---- *)
  Lemma ids_of_vstr : forall (l : list (str * entity)), ids_of (map (fun x => VStr (fst x)) l) = map fst l.
  Proof. induction l as [|a l IH]; simpl; auto. rewrite IH. reflexivity. Qed.

  Lemma query_ids_exact_lemma : forall sch S p skip limit t,
    typer sch S (UQuery p skip limit) = Ok t ->
    forall d, wf_db sch d ->
      query_ids fmt_float fmt_time sch d S t = Ok (spec_ids fmt_float fmt_time sch d S (UQuery p skip limit)) /\
      iterate_ids fmt_float fmt_time sch d S t = Ok (spec_ids fmt_float fmt_time sch d S (UQuery p skip limit)).
  Proof.
    intros sch S p skip limit t Ht d Hw.
    assert (Hev : forall id, eval (mk sch d S id) t = Ok (spec sch d S id p)).
    { intros id. rewrite (typer_selects_documented_semantics_lemma _ _ _ _ Ht d id Hw). reflexivity. }
    assert (Hpg : query_paging t = (skip, limit)).
    { unfold typer in Ht. destruct (validate sch S false (UQuery p skip limit)); try discriminate.
      cbn in Ht. destruct (transform sch S p); try discriminate. injection Ht as Ht. subst t. reflexivity. }
    assert (Hb : Z.of_nat (length (filter (fun x => spec sch d S x p) (map fst (d S)))) <= max_int64).
    { destruct Hw as [_ [_ Hb]]. specialize (Hb S).
      pose proof (length_filter_le (fun x => spec sch d S x p) (map fst (d S))). rewrite map_length in H. lia. }
    unfold query_ids, iterate_ids, spec_ids. rewrite Hpg. cbn [fst snd]. split.
    - rewrite (scan_cursor_spec (fun x => spec sch d S x p)); try lia.
      + rewrite page_paging by exact Hb. reflexivity.
      + intros id. apply Hev.
    - rewrite (scan_next_spec (fun x => spec sch d S x p)); try lia.
      + rewrite ids_of_vstr. rewrite page_paging by exact Hb. reflexivity.
      + intros id. apply Hev.
  Qed.

  (* ---- the typer never fails an unchecked type assertion ---- *)
  Lemma otype_as_bool : forall o, otype o = TBool \/ otype o = TAny -> as_bool o <> None.
  Proof. intros o [H|H]; destruct o as [ | | | | | |k n| ]; try discriminate; cbn in H; subst; discriminate. Qed.
  Lemma otype_as_i64 : forall o, otype o = TInt64 \/ otype o = TAny -> as_i64 o <> None.
  Proof. intros o [H|H]; destruct o as [ | | | | | |k n| ]; try discriminate; cbn in H; subst; discriminate. Qed.
  Lemma otype_as_f64 : forall o, otype o = TFloat64 \/ otype o = TAny -> as_f64 o <> None.
  Proof. intros o [H|H]; destruct o as [ | | | | | |k n| ]; try discriminate; cbn in H; subst; discriminate. Qed.
  Lemma otype_as_dt : forall o, otype o = TDatetime \/ otype o = TAny -> as_dt o <> None.
  Proof. intros o [H|H]; destruct o as [ | | | | | |k n| ]; try discriminate; cbn in H; subst; discriminate. Qed.

  Lemma ntype_eqb_eq : forall a b, ntype_eqb a b = true -> a = b.
  Proof. intros [] []; simpl; intros; try discriminate; reflexivity. Qed.

  Lemma typed_bin_no_panic : forall l r op, typed_bin l r op <> Panic.
  Proof.
    intros l r op. unfold typed_bin.
    assert (Hnull : handle_is_null l op <> Panic).
    { unfold handle_is_null. destruct l; try (destruct (as_symbol _); destruct op; discriminate); discriminate. }
    assert (Hstr : handle_string_ops l r op <> Panic).
    { unfold handle_string_ops. destruct (as_str l); destruct (as_str r); try discriminate. destruct (is_icase_op op); discriminate. }
    assert (Hmain : forall nt, nt = match otype l with TAny => otype r | t => t end ->
              match nt with
              | TBool => handle_bool_ops l r op | TDatetime => handle_datetime_ops l r op
              | TFloat64 => handle_float64_ops l r op | TInt64 => handle_int64_ops l r op
              | TString => handle_string_ops l r op | _ => Err end <> Panic).
    { intros nt Hnt. destruct nt; try discriminate; try exact Hstr.
      - unfold handle_bool_ops. destruct (ntype_eqb (otype r) TBool) eqn:Hr; cbn [andb]; try discriminate.
        destruct op; try discriminate;
          (pose proof (otype_as_bool r (or_introl (ntype_eqb_eq _ _ Hr))) as Hrb;
           assert (Hlb : as_bool l <> None) by (apply otype_as_bool; destruct (otype l); try discriminate; auto);
           destruct (as_bool l); destruct (as_bool r); try congruence; discriminate).
      - unfold handle_datetime_ops.
        assert (Hld : as_dt l <> None) by (apply otype_as_dt; destruct (otype l); try discriminate; auto).
        destruct (as_dt l); try congruence.
        destruct (ntype_eqb (otype r) TDatetime) eqn:Hr; try discriminate.
        pose proof (otype_as_dt r (or_introl (ntype_eqb_eq _ _ Hr))). destruct (as_dt r); try congruence; discriminate.
      - unfold handle_float64_ops.
        assert (Hlf : as_f64 l <> None) by (apply otype_as_f64; destruct (otype l); try discriminate; auto).
        destruct (as_f64 l); try congruence.
        destruct (ntype_eqb (otype r) TFloat64) eqn:Hr.
        + pose proof (otype_as_f64 r (or_introl (ntype_eqb_eq _ _ Hr))). destruct (as_f64 r); try congruence; discriminate.
        + destruct (ntype_eqb (otype r) TInt64) eqn:Hr2; try discriminate.
          pose proof (otype_as_i64 r (or_introl (ntype_eqb_eq _ _ Hr2))). destruct (as_i64 r); try congruence; discriminate.
      - unfold handle_int64_ops.
        assert (Hli : as_i64 l <> None) by (apply otype_as_i64; destruct (otype l); try discriminate; auto).
        destruct (as_i64 l); try congruence.
        destruct (ntype_eqb (otype r) TInt64) eqn:Hr.
        + pose proof (otype_as_i64 r (or_introl (ntype_eqb_eq _ _ Hr))). destruct (as_i64 r); try congruence; discriminate.
        + destruct (ntype_eqb (otype r) TFloat64) eqn:Hr2; try discriminate.
          pose proof (otype_as_f64 r (or_introl (ntype_eqb_eq _ _ Hr2))). destruct (as_f64 r); try congruence; discriminate. }
    destruct r; try exact Hnull;
      (destruct (match op with OpContains | OpNotContains => true | _ => false end); [exact Hstr | apply Hmain; reflexivity]).
  Qed.

  Lemma typed_in_no_panic : forall o oa, typed_in o oa <> Panic.
  Proof.
    intros o oa. unfold typed_in.
    destruct (as_dt o); destruct (as_i64 o); destruct (as_f64 o); destruct (as_str o); destruct oa; discriminate.
  Qed.

  Lemma typed_between_no_panic : forall x lo hi, typed_between x lo hi <> Panic.
  Proof.
    intros x lo hi. unfold typed_between.
    destruct (as_dt x); destruct (as_dt lo); destruct (as_dt hi); try discriminate;
    destruct (as_i64 x); destruct (as_i64 lo); destruct (as_i64 hi); try discriminate;
    destruct (to_f64_node x); destruct (to_f64_node lo); destruct (to_f64_node hi); discriminate.
  Qed.

  Lemma arr_node_no_panic : forall a, arr_node a <> Panic.
  Proof.
    intros [l|l|l]; cbn; try discriminate.
    destruct (forallb _ l); try discriminate. destruct (forallb is_num l); discriminate.
  Qed.

  Lemma transform_sym_no_panic : forall sch S n, transform_sym sch S n <> Panic.
  Proof. intros. unfold transform_sym. destruct (resolve sch S n) as [r|]; try discriminate. destruct (rsym_type r); discriminate. Qed.

  Definition no_panic_P (u : untyped) : Prop := forall sch S, transform sch S u <> Panic.

  Lemma transform_setexpr_no_panic : forall sch S se, se_P no_panic_P se ->
    transform_setexpr (fun S' q => transform sch S' q) sch S se <> Panic.
  Proof.
    intros sch S se IH. destruct se as [n | n q]; cbn.
    - pose proof (transform_sym_no_panic sch S n). destruct (transform_sym sch S n); try congruence; discriminate.
    - pose proof (transform_sym_no_panic sch S n). destruct (transform_sym sch S n); try congruence; try discriminate.
      cbn. destruct (linked_store sch S n) as [S'|]; try discriminate.
      destruct q; try discriminate. cbn in IH. specialize (IH sch S').
      destruct (transform sch S' (UQuery q skip limit)); try congruence; discriminate.
  Qed.

  Lemma transform_lhs_no_panic : forall sch S l, lhs_P no_panic_P l ->
    transform_lhs (fun S' q => transform sch S' q) sch S l <> Panic.
  Proof.
    intros sch S l IH. destruct l as [n|n|n|se]; cbn.
    1-3: pose proof (transform_sym_no_panic sch S n); destruct (transform_sym sch S n); try congruence; discriminate.
    pose proof (transform_setexpr_no_panic sch S se IH).
    destruct (transform_setexpr (fun S' q => transform sch S' q) sch S se); try congruence; discriminate.
  Qed.

  Lemma transform_no_panic : forall u, no_panic_P u.
  Proof.
    induction u using untyped_ind'; unfold no_panic_P; intros sch S; cbn.
    - destruct (op_lit_ok op r); try discriminate.
      pose proof (transform_lhs_no_panic sch S l H).
      destruct (transform_lhs (fun S' q => transform sch S' q) sch S l) as [[o h]| |]; try congruence; try discriminate.
      cbn. pose proof (typed_bin_no_panic o (lit_node r) op).
      destruct (typed_bin o (lit_node r) op); try congruence; discriminate.
    - destruct (arr_ok a); try discriminate.
      pose proof (transform_lhs_no_panic sch S l H).
      destruct (transform_lhs (fun S' q => transform sch S' q) sch S l) as [[o h]| |]; try congruence; try discriminate.
      cbn. pose proof (arr_node_no_panic a). destruct (arr_node a) as [oa| |]; try congruence; try discriminate.
      cbn. pose proof (typed_in_no_panic o oa). destruct (typed_in o oa); try congruence; discriminate.
    - destruct (between_ok lo hi); try discriminate.
      pose proof (transform_lhs_no_panic sch S l H).
      destruct (transform_lhs (fun S' q => transform sch S' q) sch S l) as [[o h]| |]; try congruence; try discriminate.
      cbn. pose proof (typed_between_no_panic o (lit_node lo) (lit_node hi)).
      destruct (typed_between o (lit_node lo) (lit_node hi)); try congruence; discriminate.
    - pose proof (transform_setexpr_no_panic sch S se H).
      destruct (transform_setexpr (fun S' q => transform sch S' q) sch S se); try congruence; discriminate.
    - discriminate.
    - pose proof (transform_sym_no_panic sch S n). destruct (transform_sym sch S n) as [o| |]; try congruence; try discriminate.
      cbn. destruct (as_bool o); discriminate.
    - specialize (IHu sch S). destruct (transform sch S u); try congruence; discriminate.
    - specialize (IHu1 sch S). specialize (IHu2 sch S).
      destruct (transform sch S u1); try congruence; try discriminate. cbn.
      destruct (transform sch S u2); try congruence; discriminate.
    - specialize (IHu1 sch S). specialize (IHu2 sch S).
      destruct (transform sch S u1); try congruence; try discriminate. cbn.
      destruct (transform sch S u2); try congruence; discriminate.
    - specialize (IHu sch S). destruct (transform sch S u); try congruence; discriminate.
  Qed.

  Lemma typer_total_lemma : forall sch S u, typer sch S u <> Panic.
  Proof.
    intros sch S u. unfold typer. destruct (validate sch S false u); try discriminate. apply transform_no_panic.
  Qed.
End Proofs.
