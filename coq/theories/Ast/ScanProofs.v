(* The cursor scanner (uniqueIndexScanner.Next / ScanCursor) yields filter + skip + limit; the seek
   shortcut of anyOf agrees with the scan on sorted duplicate-free string sets. *)
From Coq Require Import List ZArith NArith Bool Lia Sorting.Sorted.
From Storage Require Import Base.Bytes Ast.F64 Ast.Values Ast.Schema Ast.Stacked Ast.Untyped Ast.Typed Ast.Eval Ast.Spec Ast.Seek.
Import ListNotations.
Open Scope Z_scope.

(* ---- paging ---- *)
Definition page_z {A : Type} (toff tlim : Z) (l : list A) : list A :=
  firstn (Z.to_nat tlim) (skipn (Z.to_nat toff) l).

Lemma scan_next_spec : forall (f : str -> bool) evalrow toff tlim c offset collected,
  (forall id, evalrow id = Ok (f id)) ->
  0 <= offset -> 0 <= collected ->
  scan_next evalrow toff tlim c offset collected =
    Ok (firstn (Z.to_nat (tlim - collected)) (skipn (Z.to_nat (toff - offset)) (filter f (ids_of c)))).
Proof.
  intros f evalrow toff tlim c. induction c as [|e c IH]; intros offset collected Hev Ho Hc.
  - simpl. rewrite skipn_nil, firstn_nil. reflexivity.
  - simpl. destruct (tlim <=? collected) eqn:Hl.
    + apply Z.leb_le in Hl. replace (Z.to_nat (tlim - collected)) with O by lia. reflexivity.
    + apply Z.leb_gt in Hl.
      destruct e; simpl; try (apply IH; assumption).
      rewrite Hev. simpl. destruct (f s) eqn:Hf.
      * destruct (offset <? toff) eqn:Hot.
        -- apply Z.ltb_lt in Hot. rewrite IH by (auto; lia).
           replace (Z.to_nat (toff - offset)) with (S (Z.to_nat (toff - (offset + 1)))) by lia.
           reflexivity.
        -- apply Z.ltb_ge in Hot. rewrite IH by (auto; lia). simpl.
           replace (Z.to_nat (toff - offset)) with O by lia. simpl.
           replace (Z.to_nat (tlim - collected)) with (S (Z.to_nat (tlim - (collected + 1)))) by lia.
           reflexivity.
      * apply IH; assumption.
Qed.

Lemma scan_cursor_spec : forall (f : str -> bool) evalrow toff tlim ids offset collected,
  (forall id, evalrow id = Ok (f id)) ->
  0 <= offset -> 0 <= collected ->
  scan_cursor evalrow toff tlim ids offset collected =
    Ok (firstn (Z.to_nat (tlim - collected)) (skipn (Z.to_nat (toff - offset)) (filter f ids))).
Proof.
  intros f evalrow toff tlim ids. induction ids as [|id ids IH]; intros offset collected Hev Ho Hc.
  - simpl. rewrite skipn_nil, firstn_nil. reflexivity.
  - simpl. rewrite Hev. simpl. destruct (f id) eqn:Hf.
    + destruct (offset <? toff) eqn:Hot.
      * apply Z.ltb_lt in Hot. rewrite IH by (auto; lia).
        replace (Z.to_nat (toff - offset)) with (S (Z.to_nat (toff - (offset + 1)))) by lia.
        reflexivity.
      * apply Z.ltb_ge in Hot. replace (Z.to_nat (toff - offset)) with O by lia. simpl.
        destruct (collected <? tlim) eqn:Hl.
        -- apply Z.ltb_lt in Hl. rewrite IH by (auto; lia). simpl.
           replace (Z.to_nat (toff - offset)) with O by lia. simpl.
           replace (Z.to_nat (tlim - collected)) with (S (Z.to_nat (tlim - (collected + 1)))) by lia.
           reflexivity.
        -- apply Z.ltb_ge in Hl. rewrite IH by (auto; lia).
           replace (Z.to_nat (toff - offset)) with O by lia.
           replace (Z.to_nat (tlim - collected)) with O by lia. reflexivity.
    + apply IH; assumption.
Qed.

Lemma cursor_scanner_exact_lemma :
  forall (f : str -> bool) (evalrow : str -> res bool) (toff tlim : Z) (c : list sval),
    (forall id, evalrow id = Ok (f id)) ->
    scan_next evalrow toff tlim c 0 0 =
      Ok (firstn (Z.to_nat (tlim - 0)) (skipn (Z.to_nat (toff - 0)) (filter f (ids_of c)))).
Proof. intros. apply scan_next_spec; auto; apply Z.le_refl. Qed.

(* setPaging + the scanner = the documented skip / limit, for lists that fit the int64 counters *)
Lemma firstn_big : forall {A : Type} (m : Z) (l : list A),
  Z.of_nat (length l) <= m -> firstn (Z.to_nat m) l = l.
Proof.
  intros A m l H. apply firstn_all2. apply Nat2Z.inj_le. rewrite Z2Nat.id by lia. exact H.
Qed.

Lemma page_paging : forall {A : Type} (skip limit : option Z) (l : list A),
  Z.of_nat (length l) <= max_int64 ->
  firstn (Z.to_nat (paging_limit limit - 0)) (skipn (Z.to_nat (paging_offset skip - 0)) l) = page skip limit l.
Proof.
  intros A skip limit l Hb. unfold page.
  rewrite !Z.sub_0_r.
  assert (Hsk : forall n, Z.of_nat (length (skipn n l)) <= max_int64).
  { intros n. rewrite skipn_length. lia. }
  assert (Hoff : Z.to_nat (paging_offset skip) = match skip with Some s => Z.to_nat s | None => O end).
  { destruct skip as [s|]; [|reflexivity]. unfold paging_offset. destruct (s <? 0) eqn:Hs; [|reflexivity].
    apply Z.ltb_lt in Hs. destruct s; try reflexivity; lia. }
  rewrite Hoff.
  destruct limit as [n|]; unfold paging_limit.
  - destruct (n <? 0).
    + apply firstn_big. apply Hsk.
    + reflexivity.
  - apply firstn_big. apply Hsk.
Qed.

(* ---- the seek shortcut ---- *)
Lemma str_cmp_refl : forall a, str_cmp a a = Eq.
Proof. induction a as [|x a IH]; simpl; auto. rewrite N.compare_refl. exact IH. Qed.

Lemma str_cmp_eq : forall a b, str_cmp a b = Eq -> a = b.
Proof.
  induction a as [|x a IH]; destruct b as [|y b]; simpl; intros H; try discriminate; auto.
  destruct (N.compare_spec x y); try discriminate. subst. f_equal. apply IH. exact H.
Qed.

Lemma str_eqb_cmp : forall a b, str_eqb a b = match str_cmp a b with Eq => true | _ => false end.
Proof.
  induction a as [|x a IH]; destruct b as [|y b]; simpl; auto.
  destruct (N.compare_spec x y) as [He|Hl|Hg].
  - subst. rewrite N.eqb_refl. simpl. apply IH.
  - assert (N.eqb x y = false) by (apply N.eqb_neq; lia). rewrite H. reflexivity.
  - assert (N.eqb x y = false) by (apply N.eqb_neq; lia). rewrite H. reflexivity.
Qed.

Lemma str_cmp_antisym : forall a b, str_cmp b a = CompOpp (str_cmp a b).
Proof.
  induction a as [|x a IH]; destruct b as [|y b]; simpl; auto.
  rewrite (N.compare_antisym x y). destruct (x ?= y)%N; simpl; auto.
Qed.

Lemma str_cmp_trans_lt : forall a b c, str_cmp a b = Lt -> str_cmp b c = Lt -> str_cmp a c = Lt.
Proof.
  induction a as [|x a IH]; destruct b as [|y b]; destruct c as [|z c]; simpl; intros H1 H2; try discriminate; auto.
  destruct (N.compare_spec x y) as [E1|L1|G1]; try discriminate;
  destruct (N.compare_spec y z) as [E2|L2|G2]; try discriminate; subst.
  - rewrite N.compare_refl. eapply IH; eauto.
  - assert ((y ?= z)%N = Lt) by (apply N.compare_lt_iff; lia). rewrite H. reflexivity.
  - assert ((x ?= z)%N = Lt) by (apply N.compare_lt_iff; lia). rewrite H. reflexivity.
  - assert ((x ?= z)%N = Lt) by (apply N.compare_lt_iff; lia). rewrite H. reflexivity.
Qed.

Section Fmt.
  Variable fmt_float : f64 -> str.
  Variable fmt_time : Z -> Z -> str.

  Notation eq_elem := (Seek.eq_elem fmt_float fmt_time).
  Notation seek_path := (Seek.seek_path fmt_float fmt_time).
  Notation scan_path := (Seek.scan_path fmt_float fmt_time).

  Lemma seek_scan_strs : forall ss v, StronglySorted str_lt ss ->
    seek_path (map VStr ss) v = scan_path (map VStr ss) v.
  Proof.
    unfold Seek.seek_path, Seek.scan_path. induction ss as [|s ss IH]; intros v Hs; simpl; auto.
    inversion Hs as [|? ? Hs' Hall]; subst.
    unfold str_leb. destruct (str_cmp v s) eqn:Hc.
    - (* v = s : found at the cursor *)
      unfold Seek.eq_elem at 1. simpl. rewrite str_eqb_cmp, (str_cmp_antisym v s), Hc. simpl.
      unfold Seek.eq_elem at 1. simpl. rewrite str_eqb_cmp, (str_cmp_antisym v s), Hc. reflexivity.
    - (* v < s : every element is greater, none equals v *)
      unfold Seek.eq_elem at 1. simpl. rewrite str_eqb_cmp, (str_cmp_antisym v s), Hc. simpl.
      unfold Seek.eq_elem at 1. simpl. rewrite str_eqb_cmp, (str_cmp_antisym v s), Hc. simpl.
      symmetry. apply not_true_is_false. intros Hex. apply existsb_exists in Hex.
      destruct Hex as [e [Hin He]]. apply in_map_iff in Hin. destruct Hin as [s' [Heq Hin']]. subst e.
      unfold Seek.eq_elem in He. simpl in He. rewrite str_eqb_cmp in He.
      rewrite Forall_forall in Hall. specialize (Hall s' Hin'). unfold str_lt in Hall.
      assert (Hvs' : str_cmp v s' = Lt) by (eapply str_cmp_trans_lt; eauto).
      rewrite (str_cmp_antisym v s'), Hvs' in He. discriminate.
    - (* s < v : skip s *)
      rewrite IH by assumption.
      unfold Seek.eq_elem at 2. simpl. rewrite str_eqb_cmp, (str_cmp_antisym v s), Hc. reflexivity.
  Qed.

  Lemma seek_scan_agree : forall l v, sorted_strs l -> seek_path l v = scan_path l v.
  Proof. intros l v [ss [Hl Hs]]. subst. apply seek_scan_strs. exact Hs. Qed.
End Fmt.
