(* strconv.FormatFloat(v, 'f', -1, 64): the number -> string coercion of boltz.FieldToString,
   ast Float64SymbolNode.EvalString and Float64ConstNode.EvalString, as an executable function of the
   bit pattern.  Shortest decimal digit string that reads back as the same float64 (closest to the
   value among the shortest ones, the even last digit when two are equally close; interval bounds
   admissible iff the mantissa is even, as the IEEE round-half-even reader of strconv.ParseFloat accepts them), laid out in plain positional notation:
   never an exponent, "0." + zeros for small magnitudes, trailing zeros for large ones.
   Digit generation is the free-format algorithm of Steele-White / Burger-Dybvig on exact integers
   (v = r/s * 10^k, half-gaps mp/s above and mm/s below).
   No proofs in this file: the theorems of Properties/C01.v hold for EVERY formatter (Section variable
   fmt_float); this instance is what the extracted model runs, and `./check C01` compares it on every run
   with strconv.FormatFloat itself (F case lines) on boundary and seeded random bit patterns. *)
From Coq Require Import List ZArith NArith Bool.
From Storage Require Import Base.Bytes Ast.F64 Ast.Values.
Import ListNotations.
Open Scope Z_scope.

(* floor (r / s) for 0 <= r < fuel * s, by repeated subtraction (the quotient is a decimal digit) *)
Fixpoint ff_small_div (fuel : nat) (r s q : Z) : Z * Z :=
  match fuel with
  | O => (q, r)
  | S f => if r <? s then (q, r) else ff_small_div f (r - s) s (q + 1)
  end.

(* smallest k with high = (r + mp) / s < 10^k (<= when the upper bound itself is not admissible) *)
Fixpoint ff_scale_up (fuel : nat) (incl : bool) (r s mp k : Z) : Z * Z :=
  match fuel with
  | O => (s, k)
  | S f =>
      if (if incl then s <=? r + mp else s <? r + mp)
      then ff_scale_up f incl r (10 * s) mp (k + 1)
      else (s, k)
  end.

Fixpoint ff_scale_down (fuel : nat) (incl : bool) (r s mp mm k : Z) : Z * Z * Z * Z :=
  match fuel with
  | O => (r, mp, mm, k)
  | S f =>
      if (if incl then 10 * (r + mp) <? s else 10 * (r + mp) <=? s)
      then ff_scale_down f incl (10 * r) s (10 * mp) (10 * mm) (k - 1)
      else (r, mp, mm, k)
  end.

(* digits of r/s until the rest can be dropped (tc1: what is left is below the lower half-gap) or rounded
   up (tc2: what is missing is below the upper half-gap) without leaving the rounding interval of v *)
Fixpoint ff_digits (fuel : nat) (incl : bool) (r s mp mm : Z) : list Z :=
  match fuel with
  | O => []
  | S f =>
      let '(d, r') := ff_small_div 10 (10 * r) s 0 in
      let mp' := 10 * mp in
      let mm' := 10 * mm in
      let tc1 := if incl then r' <=? mm' else r' <? mm' in
      let tc2 := if incl then s <=? r' + mp' else s <? r' + mp' in
      match tc1, tc2 with
      | false, false => d :: ff_digits f incl r' s mp' mm'
      | true, false => [d]
      | false, true => [d + 1]
      | true, true =>   (* both admissible: the closer one; exactly half way (x.25 / x.75 at 2^49 <= |v| < 2^51): the even digit *)
          if 2 * r' <? s then [d] else if s <? 2 * r' then [d + 1] else if Z.even d then [d] else [d + 1]
      end
  end.

(* (digits d1 d2 .. dn, k) with v = 0.d1d2..dn * 10^k, for v = f * 2^e, f > 0.  [gap_low_half]: v is a
   power of two above the smallest normal exponent, so the next float below is only half as far away *)
Definition ff_shortest (f e : Z) : list Z * Z :=
  let incl := Z.even f in
  let gap_low_half := (f =? 2 ^ 52) && negb (e =? -1074) in
  let '(r0, s0, mp0, mm0) :=
    if 0 <=? e then
      let be := Z.shiftl 1 e in
      if gap_low_half then (4 * (f * be), 4, 2 * be, be) else (2 * (f * be), 2, be, be)
    else
      let be := Z.shiftl 1 (- e) in
      if gap_low_half then (4 * f, 4 * be, 2, 1) else (2 * f, 2 * be, 1, 1) in
  let '(s1, k1) := ff_scale_up 400 incl r0 s0 mp0 0 in
  let '(r2, mp2, mm2, k2) := ff_scale_down 400 incl r0 s1 mp0 mm0 k1 in
  (ff_digits 30 incl r2 s1 mp2 mm2, k2).

Definition ff_digit_bytes (ds : list Z) : str := map (fun d => Z.to_N (48 + d)) ds.
Definition ff_zeros (n : Z) : str := repeat 48%N (Z.to_nat n).

(* the %f layout of strconv (fmtF with the shortest precision): no exponent, no trailing ".0" *)
Definition ff_layout (ds : list Z) (k : Z) : str :=
  let nd := Z.of_nat (length ds) in
  if k <=? 0 then [48; 46]%N ++ ff_zeros (- k) ++ ff_digit_bytes ds
  else if nd <=? k then ff_digit_bytes ds ++ ff_zeros (k - nd)
  else ff_digit_bytes (firstn (Z.to_nat k) ds) ++ [46%N] ++ ff_digit_bytes (skipn (Z.to_nat k) ds).

Definition str_nan : str := [78; 97; 78]%N.
Definition str_pinf : str := [43; 73; 110; 102]%N.
Definition str_ninf : str := [45; 73; 110; 102]%N.

Definition fmt_float_go (b : f64) : str :=
  let e := Z.of_N (f_exp b) in
  let m := Z.of_N (f_man b) in
  let sign := if f_sign b then [45%N] else [] in
  if e =? 2047 then (if m =? 0 then (if f_sign b then str_ninf else str_pinf) else str_nan)
  else if (e =? 0) && (m =? 0) then sign ++ [48%N]
  else
    let '(ds, k) := if e =? 0 then ff_shortest m (-1074) else ff_shortest (m + 2 ^ 52) (e - 1075) in
    sign ++ ff_layout ds k.
