(* C20 - proofs about the store-configuration model Ast/PublicCfg.v: public-ness is a matter of
   symbol NAMES; bucket keys never enter. *)
From Coq Require Import List Bool NArith.
From Storage Require Import Base.Bytes Ast.AstTable Ast.Visitor Ast.VisitorProofs Ast.PublicCfg.
Import ListNotations.

Lemma str_eqb_refl : forall a : str, str_eqb a a = true.
Proof. intro a. apply str_eqb_eq. reflexivity. Qed.

Lemma str_eqb_sym : forall a b : str, str_eqb a b = str_eqb b a.
Proof.
  intros a b. destruct (str_eqb a b) eqn:E.
  - apply str_eqb_eq in E. subst. symmetry. apply str_eqb_refl.
  - destruct (str_eqb b a) eqn:F. 2: reflexivity.
    apply str_eqb_eq in F. subst. rewrite str_eqb_refl in E. discriminate.
Qed.

(* ---------------------------------------------------------------- the map-element rule, whatever the key *)

Lemma cfg_map_element_public_lemma : forall s m k rest,
  In (m, k) (cs_maps s) -> before_dot m = None ->
  mem_str (m ++ dot :: rest) (cs_pub s) = false ->
  cs_is_public s (m ++ dot :: rest) = mem_str m (cs_pub s).
Proof.
  intros s m k rest Hin Hb Hl. unfold cs_is_public.
  assert (Hm : mem_str m (cs_map_names s) = true).
  { apply mem_str_In. unfold cs_map_names. apply (in_map fst) in Hin. exact Hin. }
  rewrite (map_element_public_lemma _ _ _ _ Hb Hm Hl). apply plain_public_lemma. exact Hb.
Qed.

(* ---------------------------------------------------------------- MakeSymbolPublic *)

Lemma cfg_make_public_unknown_noop_lemma : forall s n linked,
  mem_str n (cs_map_names s) = false -> cs_resolves s n linked = false ->
  cs_make_public s n linked = s.
Proof. intros s n linked H1 H2. unfold cs_make_public. rewrite H1, H2. reflexivity. Qed.

Lemma map_fst_filter_ne : forall (n : sym) (l : list (sym * sym)),
  map fst (filter (fun e => negb (str_eqb (fst e) n)) l) = filter (fun x => negb (str_eqb x n)) (map fst l).
Proof.
  intros n l. induction l as [|[a b] l IH]. reflexivity.
  simpl. destruct (str_eqb a n); simpl; rewrite IH; reflexivity.
Qed.

Lemma cs_set_map_names : forall s n k,
  cs_map_names (cs_set_map s n k) = n :: filter (fun x => negb (str_eqb x n)) (cs_map_names s).
Proof.
  intros s n k. unfold cs_map_names, cs_set_map. cbn [cs_maps map fst]. rewrite map_fst_filter_ne. reflexivity.
Qed.

Lemma mem_str_filter_ne : forall x n l,
  mem_str x (filter (fun y => negb (str_eqb y n)) l) = negb (str_eqb x n) && mem_str x l.
Proof.
  intros x n l. induction l as [|y l IH]; simpl.
  - rewrite andb_false_r. reflexivity.
  - destruct (str_eqb y n) eqn:E; simpl.
    + rewrite IH. destruct (str_eqb x y) eqn:F; simpl. 2: reflexivity.
      apply str_eqb_eq in F. subst. rewrite E. reflexivity.
    + rewrite IH. destruct (str_eqb x y) eqn:F; simpl.
      * apply str_eqb_eq in F. subst. rewrite E. reflexivity.
      * reflexivity.
Qed.

Lemma mem_set_map_names : forall s n k x,
  mem_str x (cs_map_names (cs_set_map s n k)) = str_eqb x n || mem_str x (cs_map_names s).
Proof.
  intros s n k x. rewrite cs_set_map_names. simpl. rewrite mem_str_filter_ne.
  destruct (str_eqb x n); reflexivity.
Qed.

(* AddMapSymbol(m, _, k) then MakeSymbolPublic(m): every element of m is public, whatever k *)
Lemma cfg_make_public_after_add_map_lemma : forall s m k rest,
  before_dot m = None ->
  cs_is_public (cs_make_public (cs_set_map s m k) m false) (m ++ dot :: rest) = true.
Proof.
  intros s m k rest Hb. unfold cs_make_public.
  rewrite mem_set_map_names, str_eqb_refl. simpl.
  unfold cs_is_public, is_public. simpl.
  rewrite (before_dot_app m rest Hb).
  change (map fst ((m, k) :: filter (fun e => negb (str_eqb (fst e) m)) (cs_maps s)))
    with (m :: map fst (filter (fun e => negb (str_eqb (fst e) m)) (cs_maps s))).
  simpl. rewrite str_eqb_refl. simpl. apply orb_true_r.
Qed.

(* ---------------------------------------------------------------- keys are irrelevant (no GrantSymbols) *)

Definition cs_sim (a b : cfg_store) : Prop :=
  cs_known a = cs_known b /\ cs_pub a = cs_pub b /\ cs_map_names a = cs_map_names b.

Lemma cs_sim_is_public : forall a b x, cs_sim a b -> cs_is_public a x = cs_is_public b x.
Proof. intros a b x [_ [Hp Hm]]. unfold cs_is_public. rewrite Hp, Hm. reflexivity. Qed.

Lemma cs_sim_add : forall a b n p, cs_sim a b -> cs_sim (cs_add_symbol a n p) (cs_add_symbol b n p).
Proof.
  intros a b n p [Hk [Hp Hm]]. unfold cs_sim, cs_add_symbol, cs_map_names in *. simpl.
  rewrite Hk, Hp, Hm. auto.
Qed.

Lemma cs_sim_set_map : forall a b n k1 k2, cs_sim a b -> cs_sim (cs_set_map a n k1) (cs_set_map b n k2).
Proof.
  intros a b n k1 k2 [Hk [Hp Hm]]. unfold cs_sim. rewrite !cs_set_map_names, Hm. simpl. auto.
Qed.

Lemma cs_sim_resolves : forall a b n l, cs_sim a b -> cs_resolves a n l = cs_resolves b n l.
Proof. intros a b n l [Hk [_ Hm]]. unfold cs_resolves. rewrite Hk, Hm. reflexivity. Qed.

Lemma cs_sim_make_public : forall a b n l, cs_sim a b -> cs_sim (cs_make_public a n l) (cs_make_public b n l).
Proof.
  intros a b n l H. unfold cs_make_public. rewrite (cs_sim_resolves a b n l H).
  destruct H as [Hk [Hp Hm]]. rewrite Hm.
  destruct (mem_str n (cs_map_names b) || cs_resolves b n l).
  - unfold cs_sim, cs_map_names in *. simpl. rewrite Hk, Hp, Hm. auto.
  - unfold cs_sim. auto.
Qed.

Definition st_sim (s t : cfg_state) : Prop := cs_sim (fst s) (fst t) /\ cs_sim (snd s) (snd t).

Lemma st_sim_on : forall st f g s t, st_sim s t ->
  (forall a b, cs_sim a b -> cs_sim (f a) (g b)) -> st_sim (cfg_on st f s) (cfg_on st g t).
Proof.
  intros st f g s t [H1 H2] Hfg. unfold cfg_on, st_sim. destruct st; simpl; auto.
Qed.

Lemma st_sim_step : forall s t o1 o2, st_sim s t ->
  op_is_grant o1 = false -> op_forget_key o1 = op_forget_key o2 ->
  st_sim (cfg_step s o1) (cfg_step t o2).
Proof.
  intros s t o1 o2 H Hg He.
  destruct o1; destruct o2; simpl in *; try discriminate; inversion He; subst;
    apply st_sim_on; try exact H; intros a b Hab.
  - apply cs_sim_add. exact Hab.
  - apply cs_sim_add. exact Hab.
  - apply cs_sim_set_map. exact Hab.
  - apply cs_sim_make_public. exact Hab.
Qed.

Lemma st_sim_run : forall p1 p2 s t, st_sim s t ->
  forallb (fun o => negb (op_is_grant o)) p1 = true ->
  map op_forget_key p1 = map op_forget_key p2 ->
  st_sim (fold_left cfg_step p1 s) (fold_left cfg_step p2 t).
Proof.
  induction p1 as [|o1 p1 IH]; intros p2 s t H Hg He; destruct p2 as [|o2 p2]; simpl in *; try discriminate.
  - exact H.
  - apply andb_true_iff in Hg. destruct Hg as [Hg1 Hg2]. inversion He.
    apply IH; try assumption. apply st_sim_step; try assumption.
    destruct (op_is_grant o1). discriminate. reflexivity.
Qed.

(* two configurations that make the same calls with the same NAMES - the keys may differ in any
   way - have the same public symbols *)
Lemma cfg_public_is_by_name_lemma : forall p1 p2,
  forallb (fun o => negb (op_is_grant o)) p1 = true ->
  map op_forget_key p1 = map op_forget_key p2 ->
  forall st x, cs_is_public (cfg_store_of (cfg_run p1) st) x = cs_is_public (cfg_store_of (cfg_run p2) st) x.
Proof.
  intros p1 p2 Hg He st x. unfold cfg_run.
  assert (H0 : st_sim (cs_empty, cs_empty) (cs_empty, cs_empty)) by (unfold st_sim, cs_sim; simpl; auto).
  destruct (st_sim_run p1 p2 _ _ H0 Hg He) as [H1 H2].
  apply cs_sim_is_public. destruct st; simpl; assumption.
Qed.

(* ---------------------------------------------------------------- GrantSymbols *)

Lemma grant_sym_fold : forall p l c,
  let c' := fold_left (cs_grant_sym p) l c in
  cs_maps c' = cs_maps c /\
  (forall x, mem_str x (cs_known c') = mem_str x (cs_known c) || mem_str x l) /\
  (forall x, mem_str x (cs_pub c') = mem_str x (cs_pub c) || (mem_str x l && cs_is_public p x)).
Proof.
  intros p l. induction l as [|n l IH]; intro c; simpl.
  - repeat split; intros; try rewrite andb_false_l; rewrite ?orb_false_r; reflexivity.
  - destruct (IH (cs_grant_sym p c n)) as [Hm [Hk Hp]]. simpl in *. repeat split.
    + rewrite Hm. reflexivity.
    + intro x. rewrite Hk. simpl. rewrite orb_assoc. f_equal. apply orb_comm.
    + intro x. rewrite Hp. unfold cs_grant_sym, cs_add_symbol. simpl.
      destruct (str_eqb x n) eqn:E.
      * apply str_eqb_eq in E. subst x. simpl.
        destruct (cs_is_public p n); simpl.
        -- rewrite str_eqb_refl. simpl. rewrite orb_true_r. reflexivity.
        -- rewrite andb_false_r, orb_false_r. destruct (mem_str n (cs_pub c)); reflexivity.
      * simpl. destruct (cs_is_public p n); simpl; try rewrite E; reflexivity.
Qed.

Lemma cs_make_public_names : forall s n l, cs_map_names (cs_make_public s n l) = cs_map_names s.
Proof. intros s n l. unfold cs_make_public. destruct (_ || _); reflexivity. Qed.

Lemma cs_make_public_known : forall s n l, cs_known (cs_make_public s n l) = cs_known s.
Proof. intros s n l. unfold cs_make_public. destruct (_ || _); reflexivity. Qed.

Lemma cs_grant_map_names : forall p c e x, fst e = snd e ->
  mem_str x (cs_map_names (cs_grant_map p c e)) = str_eqb x (fst e) || mem_str x (cs_map_names c).
Proof.
  intros p c e x He. unfold cs_grant_map, cs_inherit. rewrite <- He.
  destruct (cs_is_public p (fst e)); [rewrite cs_make_public_names|]; apply mem_set_map_names.
Qed.

Lemma cs_grant_map_known : forall p c e, cs_known (cs_grant_map p c e) = cs_known c.
Proof.
  intros p c e. unfold cs_grant_map, cs_inherit.
  destruct (cs_is_public p (fst e)); [rewrite cs_make_public_known|]; reflexivity.
Qed.

Lemma cs_grant_map_pub : forall p c e x, fst e = snd e ->
  mem_str x (cs_pub (cs_grant_map p c e)) = mem_str x (cs_pub c) || (str_eqb x (fst e) && cs_is_public p x).
Proof.
  intros p c e x He. unfold cs_grant_map, cs_inherit. rewrite <- He.
  destruct (cs_is_public p (fst e)) eqn:Epub.
  - unfold cs_make_public. rewrite mem_set_map_names, str_eqb_refl. simpl.
    destruct (str_eqb x (fst e)) eqn:E; simpl.
    + apply str_eqb_eq in E. subst x. rewrite Epub, orb_true_r. reflexivity.
    + rewrite orb_false_r. reflexivity.
  - simpl. destruct (str_eqb x (fst e)) eqn:E; simpl.
    + apply str_eqb_eq in E. subst x. rewrite Epub, orb_false_r. reflexivity.
    + rewrite orb_false_r. reflexivity.
Qed.

Lemma grant_map_fold : forall p l c,
  (forall e, In e l -> fst e = snd e) ->
  let c' := fold_left (cs_grant_map p) l c in
  cs_known c' = cs_known c /\
  (forall x, mem_str x (cs_map_names c') = mem_str x (cs_map_names c) || mem_str x (map fst l)) /\
  (forall x, mem_str x (cs_pub c') = mem_str x (cs_pub c) || (mem_str x (map fst l) && cs_is_public p x)).
Proof.
  intros p l. induction l as [|e l IH]; intros c Hl; simpl.
  - repeat split; intros; try rewrite andb_false_l; rewrite ?orb_false_r; reflexivity.
  - assert (He : fst e = snd e) by (apply Hl; left; reflexivity).
    assert (Hl' : forall e', In e' l -> fst e' = snd e') by (intros e' H; apply Hl; right; exact H).
    destruct (IH (cs_grant_map p c e) Hl') as [Hk [Hm Hp]]. simpl in *.
    repeat split.
    + rewrite Hk. apply cs_grant_map_known.
    + intro x. rewrite Hm, (cs_grant_map_names p c e x He).
      rewrite (orb_comm (str_eqb x (fst e))), orb_assoc. reflexivity.
    + intro x. rewrite Hp, (cs_grant_map_pub p c e x He).
      rewrite <- orb_assoc. f_equal. rewrite <- andb_orb_distrib_l. reflexivity.
Qed.

(* GrantSymbols into a fresh child store, when every map symbol of the parent has name = key: the
   child knows the same symbol names and map names, and a name is listed public in the child iff
   it is a symbol / map name of the parent and public there.
   PARTIAL: (1) composite names published on their own (MakeSymbolPublic("places.name")) are not
   handed down; (2) a map whose name differs from its key is re-registered in the child under its
   KEY (inheritMapSymbol), see Examples grant_renames_map_refuted. *)
Lemma cfg_grant_by_name_partial_lemma : forall p,
  (forall m k, In (m, k) (cs_maps p) -> m = k) ->
  let c := cs_grant p cs_empty in
  (forall x, mem_str x (cs_known c) = mem_str x (cs_known p)) /\
  (forall x, mem_str x (cs_map_names c) = mem_str x (cs_map_names p)) /\
  (forall x, mem_str x (cs_pub c) = (mem_str x (cs_known p) || mem_str x (cs_map_names p)) && cs_is_public p x).
Proof.
  intros p H. unfold cs_grant.
  destruct (grant_sym_fold p (cs_known p) cs_empty) as [Sm [Sk Sp]].
  assert (Hl : forall e, In e (cs_maps p) -> fst e = snd e).
  { intros [m k] Hin. simpl. apply H. exact Hin. }
  destruct (grant_map_fold p (cs_maps p) (fold_left (cs_grant_sym p) (cs_known p) cs_empty) Hl) as [Mk [Mm Mp]].
  simpl in *. repeat split.
  - intro x. rewrite Mk. rewrite Sk. reflexivity.
  - intro x. rewrite Mm. unfold cs_map_names at 1. rewrite Sm. reflexivity.
  - intro x. rewrite Mp, Sp. simpl. fold (cs_map_names p). rewrite <- andb_orb_distrib_l. reflexivity.
Qed.
