(* boltz stackedCursor / calculateNextCursorPosition (boltz/query_symbols.go): the explicit-stack
   depth-first cursor over a chain of linked symbols.  No proofs in this file. *)
From Coq Require Import List ZArith NArith Bool.
From Storage Require Import Base.Bytes Ast.F64 Ast.Values Ast.Schema.
Import ListNotations.

(* The cursor state: for every level below the current one the link of that level and what is left of
   its queryPathElem; at the current level the link, the pending keys (current key first) and the links
   of the levels above.  One [S fuel] is one iteration of the loop in calculateNextCursorPosition or one
   call of stackedCursor.Next; the keys the cursor stands on are collected. *)
Fixpoint drain (fuel : nat) (d : db) (below : list (link * list sval)) (curl : link) (pend : list sval)
         (up : list link) : option (list sval) :=
  match fuel with
  | O => None
  | S fuel' =>
      match pend with
      | [] =>
          match below with
          | [] => Some []                                           (* index 0 exhausted: cursor.key = nil *)
          | (l', f') :: b => drain fuel' d b l' f' (curl :: up)      (* back up the stack, advance that level *)
          end
      | k :: f =>
          match up with
          | [] =>                                                    (* top of the stack: a position of the cursor *)
              match drain fuel' d below curl f [] with
              | Some r => Some (k :: r)
              | None => None
              end
          | nl :: up' =>                                             (* hop up: open the next level on the row of k *)
              drain fuel' d ((curl, f) :: below) nl (link_step d nl (id_of k)) up'
          end
      end
  end.

(* loop iterations needed to exhaust the keys of one level / the pending lower levels *)
Fixpoint work (d : db) (up : list link) (k : sval) {struct up} : nat :=
  match up with
  | [] => 1%nat
  | nl :: up' => S (S (fold_right (fun k' acc => Nat.add (work d up' k') acc) O (link_step d nl (id_of k))))
  end.
Definition work_list (d : db) (up : list link) (l : list sval) : nat :=
  fold_right (fun k acc => Nat.add (work d up k) acc) O l.

(* compositeEntitySetSymbol.OpenCursor + Next until invalid: the keys the cursor enumerates *)
Definition stacked_keys (d : db) (chain : list link) (row : str) : list sval :=
  match chain with
  | [] => []
  | l0 :: up =>
      let frame0 := link_step d l0 row in
      match drain (S (work_list d up frame0)) d [] l0 frame0 up with
      | Some r => r
      | None => []
      end
  end.
