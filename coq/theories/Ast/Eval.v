(* Evaluation of a typed filter against one row: ast/node_expr.go, node_arrays.go, node_set.go,
   node_symbol.go, node_convert.go (StringFuncNode, Int64ToFloat64Node) over boltz.rowCursorImpl
   (boltz/query_cursor.go, query_symbols.go) and the sub-query / IterateIds scanner
   uniqueIndexScanner.Next (boltz/query_scanners.go).  Mirrors the FIXED code.
   No proofs in this file. *)
From Coq Require Import List ZArith NArith Bool.
From Storage Require Import Base.Bytes Ast.F64 Ast.Values Ast.Schema Ast.Stacked Ast.Untyped Ast.Typed.
Import ListNotations.
Open Scope Z_scope.

Definition max_int64 : Z := 2 ^ 63 - 1.

(* scanner.setPaging *)
Definition paging_offset (skip : option Z) : Z :=
  match skip with Some s => if s <? 0 then 0 else s | None => 0 end.
Definition paging_limit (limit : option Z) : Z :=
  match limit with Some l => if l <? 0 then max_int64 else l | None => max_int64 end.

(* a row cursor: the store being scanned, the current row id and the set symbol whose cursor is open
   together with the element the cursor stands on *)
Record env := { en_sch : schema; en_db : db; en_store : nat; en_row : str; en_cur : option (str * sval) }.

Definition set_cur (E : env) (n : str) (v : sval) : env :=
  {| en_sch := en_sch E; en_db := en_db E; en_store := en_store E; en_row := en_row E; en_cur := Some (n, v) |}.
Definition row_env (E : env) (S : nat) (id : str) : env :=
  {| en_sch := en_sch E; en_db := en_db E; en_store := S; en_row := id; en_cur := None |}.

(* ---- cursors over an element list (bolt key order) ---- *)
(* does the raw key of [e] sort at or after the key  TypeString ++ v  (bolt Seek) *)
Definition seek_ge (v : str) (e : sval) : bool :=
  match e with
  | VStr s => str_leb v s
  | VTime _ _ | VNil => true
  | _ => false
  end.
Fixpoint cur_seek (c : list sval) (v : str) : list sval :=
  match c with
  | [] => []
  | e :: c' => if seek_ge v e then c else cur_seek c' v
  end.

(* for cursor.IsValid() { if !pred { return false }; cursor.Next() }; return true *)
Fixpoint all_loop (pred : sval -> res bool) (c : list sval) : res bool :=
  match c with
  | [] => Ok true
  | e :: c' => b <- pred e ;; if b then all_loop pred c' else Ok false
  end.
Fixpoint any_loop (pred : sval -> res bool) (c : list sval) : res bool :=
  match c with
  | [] => Ok false
  | e :: c' => b <- pred e ;; if b then Ok true else any_loop pred c'
  end.

(* uniqueIndexScanner.Next, called until the scanner is exhausted: the ids it yields.
   fixes/C01-scanner-null-element.patch: elements without an id are skipped *)
Fixpoint scan_next (evalrow : str -> res bool) (toff tlim : Z) (c : list sval) (offset collected : Z)
  : res (list str) :=
  match c with
  | [] => Ok []
  | e :: c' =>
      if tlim <=? collected then Ok []
      else match elem_id e with
           | None => scan_next evalrow toff tlim c' offset collected
           | Some id =>
               m <- evalrow id ;;
               if m then
                 if offset <? toff then scan_next evalrow toff tlim c' (offset + 1) collected
                 else r <- scan_next evalrow toff tlim c' offset (collected + 1) ;; Ok (id :: r)
               else scan_next evalrow toff tlim c' offset collected
           end
  end.

(* uniqueIndexScanner.ScanCursor (QueryIds): nextUnpaged + the paging loop *)
Fixpoint scan_cursor (evalrow : str -> res bool) (toff tlim : Z) (ids : list str) (offset collected : Z)
  : res (list str) :=
  match ids with
  | [] => Ok []
  | id :: ids' =>
      m <- evalrow id ;;
      if m then
        if offset <? toff then scan_cursor evalrow toff tlim ids' (offset + 1) collected
        else if collected <? tlim then r <- scan_cursor evalrow toff tlim ids' offset (collected + 1) ;; Ok (id :: r)
        else scan_cursor evalrow toff tlim ids' offset collected
      else scan_cursor evalrow toff tlim ids' offset collected
  end.

Section Eval.
  Variable fmt_float : f64 -> str.
  Variable fmt_time : Z -> Z -> str.

  (* ---- symbols ---- *)
  (* rowCursorImpl symbol.Eval(tx, currentRow) for the named symbol *)
  Definition sym_eval (E : env) (n : str) : res sval :=
    match (match en_cur E with Some (m, v) => if str_eqb m n then Some v else None | None => None end) with
    | Some v => Ok v                              (* set symbol with an open cursor: the current element *)
    | None =>
        match resolve (en_sch E) (en_store E) n with
        | None => Ok VNil                         (* unknown symbol: logged, nil *)
        | Some (RSimple l) => Ok (link_value (en_db E) l (en_row E))
        | Some (RChainVal ty chain) => Ok (link_value (en_db E) (LkComp ty chain) (en_row E))
        | Some (RChainSet _ _ _) => Panic         (* compositeEntitySetSymbol.Eval with a nil cursor *)
        end
    end.

  (* rowCursorImpl.OpenSetCursor: the keys the cursor will enumerate (entitySetSymbolRuntime over the
     set bucket, stackedCursor for a composite set symbol, EmptyCursor otherwise) *)
  Definition set_keys (E : env) (n : str) : list sval :=
    match resolve (en_sch E) (en_store E) n with
    | Some (RSimple (LkSet st _ key _)) => set_get (en_db E) st (en_row E) key
    | Some (RChainSet _ chain _) => stacked_keys (en_db E) chain (en_row E)
    | _ => []
    end.
  (* what the set symbol evaluates to on each cursor position (symbol.Eval while the cursor is open) *)
  Definition set_elems (E : env) (n : str) : list sval :=
    match resolve (en_sch E) (en_store E) n with
    | Some (RChainSet _ _ last) => map (last_value (en_db E) last) (set_keys E n)
    | _ => set_keys E n
    end.
  (* is the opened cursor an entitySetSymbolRuntime (TypeSeekableSetCursor) *)
  Definition set_seekable (E : env) (n : str) : bool :=
    match resolve (en_sch E) (en_store E) n with
    | Some (RSimple (LkSet _ _ _ _)) => true
    | _ => false
    end.
  Definition is_set_sym (E : env) (n : str) : bool :=
    match resolve (en_sch E) (en_store E) n with Some r => rsym_is_set r | None => false end.

  Definition to_bool (v : sval) : bool := match field_to_bool v with Some true => true | _ => false end.

  Section Operands.
    Variable Q : Type.
    Variable evq : env -> Q -> res bool.            (* Query.EvalBool on another row cursor *)
    Variable pgq : Q -> option Z * option Z.        (* Query.GetSkip / GetLimit *)

    (* rowCursorImpl.OpenSetCursorForQuery + newCursorScanner: the ids the scanner yields *)
    Definition sub_scan (E : env) (n : str) (q : Q) : res (list str) :=
      if is_set_sym E n then
        match (match resolve (en_sch E) (en_store E) n with Some r => rsym_linked r | None => None end) with
        | None => Panic                             (* newCursorScanner with a nil store *)
        | Some S' =>
            scan_next (fun id => evq (row_env E S' id) q)
                      (paging_offset (fst (pgq q))) (paging_limit (snd (pgq q)))
                      (set_keys E n) 0 0
        end
      else Ok [].

    Definition eval_i64 (E : env) (i : i64node Q) : res (option Z) :=
      match i with
      | I64Const z => Ok (Some z)
      | I64Sym n | I64Any n => v <- sym_eval E n ;; Ok (field_to_int64 v)
      | I64Count n None => Ok (Some (Z.of_nat (length (set_elems E n))))
      | I64Count n (Some q) => ids <- sub_scan E n q ;; Ok (Some (Z.of_nat (length ids)))
      end.

    Definition eval_f64 (E : env) (f : f64node Q) : res (option f64) :=
      match f with
      | F64Const b => Ok (Some b)
      | F64Sym n | F64Any n => v <- sym_eval E n ;; Ok (field_to_float64 v)
      | F64OfInt i => z <- eval_i64 E i ;; Ok (option_map of_int64 z)
      end.

    Fixpoint eval_str (E : env) (s : strnode Q) : res (option str) :=
      match s with
      | SConst v => Ok (Some v)
      | SSym n | SAny n => v <- sym_eval E n ;; Ok (field_to_string fmt_float fmt_time v)
      | SOfI64 i => z <- eval_i64 E i ;; Ok (option_map dec z)
      | SOfF64 (F64OfInt i) => z <- eval_i64 E i ;; Ok (option_map dec z)
      | SOfF64 f => b <- eval_f64 E f ;; Ok (option_map fmt_float b)
      | SUpper s' => r <- eval_str E s' ;; Ok (option_map to_upper r)   (* fixes/C01-icontains-nil.patch *)
      end.

    Definition eval_dt (E : env) (d : dtnode) : res (option (Z * Z)) :=
      match d with
      | DConst s n => Ok (Some (s, n))
      | DSym n | DAny n => v <- sym_eval E n ;; Ok (field_to_datetime v)
      end.

  End Operands.

  Fixpoint res_seq {B : Type} (l : list (res B)) : res (list B) :=
    match l with
    | [] => Ok []
    | a :: r => b <- a ;; bs <- res_seq r ;; Ok (b :: bs)
    end.
  Definition eval_list {A B : Type} (f : A -> res B) (l : list A) : res (list B) := res_seq (map f l).

  Definition query_paging (t : typed) : option Z * option Z :=
    match t with TQuery _ s l => (s, l) | _ => (None, None) end.

  Fixpoint eval (E : env) (t : typed) {struct t} : res bool :=
    let ev := fun E' q => eval E' q in
    match t with
    | TBoolConst b => Ok b
    | TBoolSym n | TAnyBool n => v <- sym_eval E n ;; Ok (to_bool v)
    | TNot a => b <- eval E a ;; Ok (negb b)
    | TAnd a b => x <- eval E a ;; if x then eval E b else Ok false
    | TOr a b => x <- eval E a ;; if x then Ok true else eval E b
    | TBinBool l r op => a <- eval E l ;; b <- eval E r ;; Ok (cmp_bool op a b)
    | TBinDt l r op => a <- eval_dt E l ;; b <- eval_dt E r ;; Ok (cmp_dt op a b)
    | TBinF64 l r op => a <- eval_f64 typed ev query_paging E l ;; b <- eval_f64 typed ev query_paging E r ;; Ok (cmp_f64 op a b)
    | TBinI64 l r op => a <- eval_i64 typed ev query_paging E l ;; b <- eval_i64 typed ev query_paging E r ;; Ok (cmp_i64 op a b)
    | TBinStr l r op => a <- eval_str typed ev query_paging E l ;; b <- eval_str typed ev query_paging E r ;; Ok (cmp_str op a b)
    | TIsNil n op =>
        v <- sym_eval E n ;;
        Ok (match op with OpEQ => is_nil v | OpNEQ => negb (is_nil v) | _ => true end)
    | TBtwI64 x lo hi =>
        a <- eval_i64 typed ev query_paging E x ;; b <- eval_i64 typed ev query_paging E lo ;;
        c <- eval_i64 typed ev query_paging E hi ;; Ok (btw_i64 a b c)
    | TBtwF64 x lo hi =>
        a <- eval_f64 typed ev query_paging E x ;; b <- eval_f64 typed ev query_paging E lo ;;
        c <- eval_f64 typed ev query_paging E hi ;; Ok (btw_f64 a b c)
    | TBtwDt x lo hi => a <- eval_dt E x ;; b <- eval_dt E lo ;; c <- eval_dt E hi ;; Ok (btw_dt a b c)
    | TInStr x vs => a <- eval_str typed ev query_paging E x ;; bs <- eval_list (eval_str typed ev query_paging E) vs ;; Ok (in_str a bs)
    | TInI64 x vs => a <- eval_i64 typed ev query_paging E x ;; bs <- eval_list (eval_i64 typed ev query_paging E) vs ;; Ok (in_i64 a bs)
    | TInF64 x vs => a <- eval_f64 typed ev query_paging E x ;; bs <- eval_list (eval_f64 typed ev query_paging E) vs ;; Ok (in_f64 a bs)
    | TInDt x vs => a <- eval_dt E x ;; bs <- eval_list (eval_dt E) vs ;; Ok (in_dt a bs)
    | TAllOf n p => all_loop (fun e => eval (set_cur E n e) p) (set_elems E n)
    | TAnyOf n p => any_loop (fun e => eval (set_cur E n e) p) (set_elems E n)
    | TAnyOfSeek n l r op =>
        if set_seekable E n then
          (* BinaryStringExprNode.EvalBoolWithSeek *)
          rv <- eval_str typed ev query_paging E r ;;
          match rv with
          | None => Ok false
          | Some v =>
              match cur_seek (set_elems E n) v with
              | [] => Ok false
              | e :: _ =>
                  a <- eval_str typed ev query_paging (set_cur E n e) l ;;
                  b <- eval_str typed ev query_paging (set_cur E n e) r ;;
                  Ok (cmp_str op a b)
              end
          end
        else
          any_loop (fun e => a <- eval_str typed ev query_paging (set_cur E n e) l ;;
                             b <- eval_str typed ev query_paging (set_cur E n e) r ;;
                             Ok (cmp_str op a b)) (set_elems E n)
    | TIsEmpty n None => Ok (match set_elems E n with [] => true | _ => false end)
    | TIsEmpty n (Some q) =>
        ids <- sub_scan typed ev query_paging E n q ;;
        Ok (match ids with [] => true | _ => false end)
    | TQuery p _ _ => eval E p
    end.

  (* Store.QueryIds without sort: uniqueIndexScanner.Scan over the entities bucket in id order *)
  Definition query_ids (sch : schema) (d : db) (S : nat) (t : typed) : res (list str) :=
    let E0 := {| en_sch := sch; en_db := d; en_store := S; en_row := []; en_cur := None |} in
    scan_cursor (fun id => eval (row_env E0 S id) t)
                (paging_offset (fst (query_paging t))) (paging_limit (snd (query_paging t)))
                (map fst (d S)) 0 0.

  (* Store.IterateIds: newFilteredCursor + Next until exhausted *)
  Definition iterate_ids (sch : schema) (d : db) (S : nat) (t : typed) : res (list str) :=
    let E0 := {| en_sch := sch; en_db := d; en_store := S; en_row := []; en_cur := None |} in
    scan_next (fun id => eval (row_env E0 S id) t)
              (paging_offset (fst (query_paging t))) (paging_limit (snd (query_paging t)))
              (map (fun x => VStr (fst x)) (d S)) 0 0.
End Eval.
