(* The typed filter AST (ast/node_expr.go, node_arrays.go, node_set.go, node_symbol.go, node_const.go,
   node_convert.go).  One inductive per Go node interface, so that the static typing of the Go fields
   is reflected.  No proofs in this file. *)
From Coq Require Import List ZArith NArith Bool.
From Storage Require Import Base.Bytes Ast.F64 Ast.Values.
Import ListNotations.

Section Nodes.
  Variable Q : Type.   (* ast.Query *)
  (* Int64Node: Int64ConstNode | Int64SymbolNode | AnyTypeSymbolNode | CountSetExprNode{symbol,query} *)
  Inductive i64node := I64Const (z : Z) | I64Sym (n : str) | I64Any (n : str) | I64Count (n : str) (q : option Q).
  (* Float64Node: Float64ConstNode | Float64SymbolNode | AnyTypeSymbolNode | Int64ToFloat64Node *)
  Inductive f64node := F64Const (b : f64) | F64Sym (n : str) | F64Any (n : str) | F64OfInt (i : i64node).
  (* StringNode: StringConstNode | StringSymbolNode | AnyTypeSymbolNode | every Int64Node / Float64Node | StringFuncNode{toUpper} *)
  Inductive strnode := SConst (s : str) | SSym (n : str) | SAny (n : str) | SOfI64 (i : i64node) | SOfF64 (f : f64node) | SUpper (s : strnode).
  (* DatetimeNode *)
  Inductive dtnode := DConst (sec nsec : Z) | DSym (n : str) | DAny (n : str).
End Nodes.
Arguments I64Const {Q} z.
Arguments I64Sym {Q} n.
Arguments I64Any {Q} n.
Arguments I64Count {Q} n q.
Arguments F64Const {Q} b.
Arguments F64Sym {Q} n.
Arguments F64Any {Q} n.
Arguments F64OfInt {Q} i.
Arguments SConst {Q} s.
Arguments SSym {Q} n.
Arguments SAny {Q} n.
Arguments SOfI64 {Q} i.
Arguments SOfF64 {Q} f.
Arguments SUpper {Q} s.

(* BoolNode *)
Inductive typed :=
| TBoolConst (b : bool)
| TBoolSym (n : str)                                   (* BoolSymbolNode *)
| TAnyBool (n : str)                                   (* AnyTypeSymbolNode used as BoolNode *)
| TNot (a : typed) | TAnd (a b : typed) | TOr (a b : typed)
| TBinBool (l r : typed) (op : binop)
| TBinDt (l r : dtnode) (op : binop)
| TBinF64 (l r : f64node typed) (op : binop)
| TBinI64 (l r : i64node typed) (op : binop)
| TBinStr (l r : strnode typed) (op : binop)
| TIsNil (n : str) (op : binop)
| TBtwI64 (x lo hi : i64node typed)
| TBtwF64 (x lo hi : f64node typed)
| TBtwDt (x lo hi : dtnode)
| TInStr (x : strnode typed) (vs : list (strnode typed))
| TInI64 (x : i64node typed) (vs : list (i64node typed))
| TInF64 (x : f64node typed) (vs : list (f64node typed))
| TInDt (x : dtnode) (vs : list dtnode)
| TAllOf (n : str) (p : typed)                         (* AllOfSetExprNode *)
| TAnyOf (n : str) (p : typed)                         (* AnyOfSetExprNode, seekablePredicate = nil *)
| TAnyOfSeek (n : str) (l r : strnode typed) (op : binop)  (* AnyOfSetExprNode whose predicate is a seekable BinaryStringExprNode *)
| TIsEmpty (n : str) (q : option typed)                (* IsEmptySetExprNode *)
| TQuery (p : typed) (skip limit : option Z).          (* queryNode *)

(* Node.IsConst *)
Definition i64_is_const {Q} (i : i64node Q) : bool := match i with I64Const _ => true | _ => false end.
Definition f64_is_const {Q} (f : f64node Q) : bool :=
  match f with F64Const _ => true | F64OfInt i => i64_is_const i | _ => false end.
Definition str_is_const {Q} (s : strnode Q) : bool :=
  match s with SConst _ => true | SOfI64 i => i64_is_const i | SOfF64 f => f64_is_const f | _ => false end.
