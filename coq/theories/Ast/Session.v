(* Sequences of queries within one process (ast/helper.go Parse, ast/node_query.go queryNode).

   ast.Parse returns a query OBJECT: predicate, sort fields, skip, limit.  The object is mutable through the
   ast.Query interface - SetPredicate, SetSkip, SetLimit, AdoptSortFields - so that a caller can refine the filter
   it parsed (and the scanners call SetSkip / SetLimit themselves: scanner.setPaging).  Parse ALLOCATES the object
   (`&queryNode{...}` for the empty filter, listener.getQuery -> untypedQueryNode.TypeTransformBool -> `&queryNode{...}`
   otherwise); a mutator changes the object its caller holds and nothing else.

   The model: a heap of query objects.  A step of a session = one caller: Parse(text) allocates a fresh object, the
   caller's mutators update the object at that address, then the caller evaluates the object it holds.  The theorems
   (Ast/SessionProofs.v, Properties/C01.v) say that the object a step evaluates - hence the entities it selects - is a
   function of the step's own filter text, its own mutators and the database, whatever the earlier steps of the
   session did: queries are independent of earlier queries.

   [run_session_shared] is the process in which Parse hands out ONE object for every empty filter (kept for the
   refuted witness only).
   No proofs in this file. *)
From Coq Require Import List ZArith NArith Bool.
From Storage Require Import Base.Bytes Ast.F64 Ast.Values Ast.Schema Ast.Untyped Ast.Typed Ast.Typer Ast.Eval Ast.Spec.
Import ListNotations.
Open Scope Z_scope.

(* what of a query object decides WHICH entities are selected (the sort fields decide the order only: C02) *)
Record qobj := { q_pred : untyped; q_skip : option Z; q_limit : option Z }.

(* the object Parse builds for a filter text (the text as the tree the listener builds, Ast/Untyped.v): the empty
   filter and the forms without a predicate (`sort by ..`, `skip ..`, `limit ..`) get the predicate true *)
Definition parse_obj (u : untyped) : qobj :=
  match u with
  | UQuery p s l => {| q_pred := p; q_skip := s; q_limit := l |}
  | _ => {| q_pred := u; q_skip := None; q_limit := None |}
  end.

Definition obj_query (o : qobj) : untyped := UQuery (q_pred o) (q_skip o) (q_limit o).

(* the mutators of ast.Query *)
Inductive mutator :=
| MSetPredicate (p : untyped)   (* SetPredicate(p): p = GetPredicate() of another parsed query of the same store *)
| MSetSkip (n : Z)              (* SetSkip(n) *)
| MSetLimit (n : Z)             (* SetLimit(n) *)
| MAdoptSort.                   (* AdoptSortFields(q): the sort fields of another query; order only *)

Definition mutate (o : qobj) (m : mutator) : qobj :=
  match m with
  | MSetPredicate p => {| q_pred := p; q_skip := q_skip o; q_limit := q_limit o |}
  | MSetSkip n => {| q_pred := q_pred o; q_skip := Some n; q_limit := q_limit o |}
  | MSetLimit n => {| q_pred := q_pred o; q_skip := q_skip o; q_limit := Some n |}
  | MAdoptSort => o
  end.

(* the query a caller holds after refining the filter it parsed *)
Definition refine (u : untyped) (ms : list mutator) : untyped :=
  obj_query (fold_left mutate ms (parse_obj u)).

(* ---- the process: a heap of query objects ---- *)
Definition heap := list qobj.

Fixpoint update (h : heap) (a : nat) (f : qobj -> qobj) : heap :=
  match h, a with
  | [], _ => []
  | o :: r, O => f o :: r
  | o :: r, S a' => o :: update r a' f
  end.

Record step := { s_store : nat; s_text : untyped; s_muts : list mutator }.

(* Parse: a new object at a fresh address *)
Definition parse_alloc (h : heap) (u : untyped) : nat * heap := (length h, h ++ [parse_obj u]).

Definition apply_muts (h : heap) (a : nat) (ms : list mutator) : heap :=
  fold_left (fun h' m => update h' a (fun o => mutate o m)) ms h.

(* one caller: parse, refine, and the object it then evaluates *)
Definition run_step (h : heap) (s : step) : heap * option qobj :=
  let (a, h1) := parse_alloc h (s_text s) in
  let h2 := apply_muts h1 a (s_muts s) in
  (h2, nth_error h2 a).

Fixpoint run_session (h : heap) (l : list step) : list (option qobj) :=
  match l with
  | [] => []
  | s :: r => let (h', o) := run_step h s in o :: run_session h' r
  end.

(* the process with ONE object for every empty filter (address 0 of a heap that starts as [parse_obj empty]) *)
Definition is_empty_filter (u : untyped) : bool :=
  match u with UQuery (UBoolConst true) None None => true | _ => false end.

Definition run_step_shared (h : heap) (s : step) : heap * option qobj :=
  let (a, h1) := if is_empty_filter (s_text s) then (O, h) else parse_alloc h (s_text s) in
  let h2 := apply_muts h1 a (s_muts s) in
  (h2, nth_error h2 a).

Fixpoint run_session_shared (h : heap) (l : list step) : list (option qobj) :=
  match l with
  | [] => []
  | s :: r => let (h', o) := run_step_shared h s in o :: run_session_shared h' r
  end.

Section Answers.
  Variable fmt_float : f64 -> str.
  Variable fmt_time : Z -> Z -> str.

  (* Store.QueryIdsC on the object a caller holds *)
  Definition eval_obj (sch : schema) (d : db) (S : nat) (o : option qobj) : res (list str) :=
    match o with
    | None => Err
    | Some o' => match typer sch S (obj_query o') with
                 | Ok t => query_ids fmt_float fmt_time sch d S t
                 | Err => Err
                 | Panic => Panic
                 end
    end.

  Fixpoint eval_all (sch : schema) (d : db) (l : list step) (os : list (option qobj)) : list (res (list str)) :=
    match l, os with
    | s :: r, o :: os' => eval_obj sch d (s_store s) o :: eval_all sch d r os'
    | _, _ => []
    end.

  (* the answers the callers of a session get, in order *)
  Definition session_answers (sch : schema) (d : db) (h : heap) (l : list step) : list (res (list str)) :=
    eval_all sch d l (run_session h l).

  Definition session_answers_shared (sch : schema) (d : db) (h : heap) (l : list step) : list (res (list str)) :=
    eval_all sch d l (run_session_shared h l).

  (* what C01 demands of the answer of a step: the entities its own (refined) filter selects *)
  Definition step_spec (sch : schema) (d : db) (s : step) : list str :=
    spec_ids fmt_float fmt_time sch d (s_store s) (refine (s_text s) (s_muts s)).
End Answers.

(* ---- interleavings: several callers hold query objects at the same time ----
   An event is one action of one caller: parse a filter (the caller now holds the new object), apply a mutator to the
   object it holds, evaluate the object it holds.  The events of different callers interleave arbitrarily (a caller
   refines its object, another caller parses and evaluates a query of its own - the scanners call SetSkip / SetLimit on
   THAT object -, then the first caller evaluates).  [run_events] is the process (heap + which address each caller
   holds); [spec_events] is what every caller may rely on: the object it evaluates is built from its own events. *)
Inductive event :=
| EParse (c : nat) (u : untyped)
| EMutate (c : nat) (m : mutator)
| EEval (c : nat).

Definition event_caller (e : event) : nat :=
  match e with EParse c _ => c | EMutate c _ => c | EEval c => c end.

Record pstate := { p_heap : heap; p_holds : list (nat * nat) }.   (* caller -> address, latest first *)

Fixpoint addr_of (hs : list (nat * nat)) (c : nat) : option nat :=
  match hs with
  | [] => None
  | (c', a) :: r => if Nat.eqb c c' then Some a else addr_of r c
  end.

Definition ev_step (st : pstate) (e : event) : pstate :=
  match e with
  | EParse c u => {| p_heap := p_heap st ++ [parse_obj u]; p_holds := (c, length (p_heap st)) :: p_holds st |}
  | EMutate c m =>
      match addr_of (p_holds st) c with
      | Some a => {| p_heap := update (p_heap st) a (fun o => mutate o m); p_holds := p_holds st |}
      | None => st
      end
  | EEval _ => st
  end.

(* the object caller c would evaluate now *)
Definition held (st : pstate) (c : nat) : option qobj :=
  match addr_of (p_holds st) c with
  | Some a => nth_error (p_heap st) a
  | None => None
  end.

(* the observations of a run: (caller, object evaluated) for every EEval, in order *)
Fixpoint run_events (st : pstate) (l : list event) : list (nat * option qobj) :=
  match l with
  | [] => []
  | EEval c :: r => (c, held st c) :: run_events st r
  | e :: r => run_events (ev_step st e) r
  end.

(* each caller's own view: what it parsed, then its own mutators *)
Definition view := nat -> option qobj.

Definition view_step (v : view) (e : event) : view :=
  match e with
  | EParse c u => fun c' => if Nat.eqb c' c then Some (parse_obj u) else v c'
  | EMutate c m => fun c' => if Nat.eqb c' c then option_map (fun o => mutate o m) (v c') else v c'
  | EEval _ => v
  end.

Fixpoint spec_events (v : view) (l : list event) : list (nat * option qobj) :=
  match l with
  | [] => []
  | EEval c :: r => (c, v c) :: spec_events v r
  | e :: r => spec_events (view_step v e) r
  end.

Definition no_view : view := fun _ => None.
Definition start : pstate := {| p_heap := []; p_holds := [] |}.

(* the events of one caller *)
Definition own_events (c : nat) (l : list event) : list event :=
  filter (fun e => Nat.eqb (event_caller e) c) l.
