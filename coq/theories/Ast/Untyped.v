(* The untyped trees the ZitiQL grammar + ast.ToBoltListener can build (ast/bolt_listener.go).
   No proofs in this file. *)
From Coq Require Import List ZArith NArith Bool.
From Storage Require Import Base.Bytes Ast.F64 Ast.Values.
Import ListNotations.

(* operand literals *)
Inductive lit :=
| LStr (s : str) | LInt (z : Z) | LFloat (b : f64) | LDate (sec nsec : Z) | LBool (b : bool) | LNull.

(* array literals: stringArray / numberArray / datetimeArray, in source order *)
Inductive arr := AStr (l : list str) | ANum (l : list lit) | ADate (l : list (Z * Z)).

Section Lhs.
  Variable Q : Type.
  (* setExpr: IDENTIFIER | FROM IDENTIFIER WHERE query *)
  Inductive setexpr := SESym (n : str) | SESub (n : str) (q : Q).
  (* binaryLhs: IDENTIFIER | allOf(IDENTIFIER) | anyOf(IDENTIFIER) | count(setExpr) *)
  Inductive lhs := LSym (n : str) | LAllOf (n : str) | LAnyOf (n : str) | LCount (se : setexpr).
End Lhs.
Arguments SESym {Q} n.
Arguments SESub {Q} n q.
Arguments LSym {Q} n.
Arguments LAllOf {Q} n.
Arguments LAnyOf {Q} n.
Arguments LCount {Q} se.

Inductive untyped :=
| UBin (l : lhs untyped) (op : binop) (r : lit)            (* BinaryExprNode *)
| UIn (neg : bool) (l : lhs untyped) (a : arr)             (* InArrayExprNode, "not in" *)
| UBetween (neg : bool) (l : lhs untyped) (lo hi : lit)    (* BetweenExprNode, "not between" *)
| UIsEmpty (se : setexpr untyped)                          (* SetFunctionNode{isEmpty} *)
| UBoolConst (b : bool)
| UBoolSym (n : str)                                       (* IDENTIFIER used as boolExpr *)
| UNot (a : untyped)                                       (* UntypedNotExprNode *)
| UAnd (a b : untyped) | UOr (a b : untyped)               (* BooleanLogicExprNode *)
| UQuery (p : untyped) (skip limit : option Z).            (* untypedQueryNode (no sort); limit none = -1 *)

(* what the grammar can put where (the listener accepts exactly these): *)
Definition is_num (l : lit) : bool := match l with LInt _ | LFloat _ => true | _ => false end.
Definition is_date (l : lit) : bool := match l with LDate _ _ => true | _ => false end.

Definition op_lit_ok (op : binop) (r : lit) : bool :=
  match op with
  | OpEQ | OpNEQ => true
  | OpLT | OpLTE | OpGT | OpGTE => match r with LStr _ | LInt _ | LFloat _ | LDate _ _ => true | _ => false end
  | OpContains | OpNotContains => match r with LStr _ | LInt _ | LFloat _ => true | _ => false end
  | OpIContains | OpNotIContains => match r with LStr _ => true | _ => false end
  end.

Definition arr_ok (a : arr) : bool :=
  match a with
  | AStr l => negb (Nat.eqb (length l) 0)
  | ANum l => negb (Nat.eqb (length l) 0) && forallb is_num l
  | ADate l => negb (Nat.eqb (length l) 0)
  end.

Definition between_ok (lo hi : lit) : bool := (is_num lo && is_num hi) || (is_date lo && is_date hi).

Fixpoint grammar_shaped (u : untyped) : bool :=
  let se_ok (se : setexpr untyped) :=
    match se with SESym _ => true | SESub _ q => match q with UQuery p _ _ => grammar_shaped p | _ => false end end in
  let lhs_ok (l : lhs untyped) := match l with LCount se => se_ok se | _ => true end in
  match u with
  | UBin l op r => lhs_ok l && op_lit_ok op r
  | UIn _ l a => lhs_ok l && arr_ok a
  | UBetween _ l lo hi => lhs_ok l && between_ok lo hi
  | UIsEmpty se => se_ok se
  | UBoolConst _ | UBoolSym _ => true
  | UNot a => grammar_shaped a
  | UAnd a b | UOr a b => grammar_shaped a && grammar_shaped b
  | UQuery p _ _ => grammar_shaped p
  end.
