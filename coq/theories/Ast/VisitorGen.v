(* C20 - the generic visitor model instantiated with the table regenerated from the Go source
   (Gen/GenAstTable.v) and the explicit list of excluded (derived) fields.  Model only: this
   file must compile even when the regenerated table no longer passes [table_complete], because
   the failing-input search runs the extracted [gen_gaps]. *)
From Coq Require Import List Bool NArith.
From Storage Require Import Base.Bytes Ast.AstTable Ast.Visitor Gen.GenAstTable.
Import ListNotations.
Open Scope name_scope.

(* Fields that Accept does not look at on purpose, each with the child field under which the
   same symbols occur.  ast/node_convert.go, SetFunctionNode.MoveUpTree / specializeSetAnyOf:
     &AllOfSetExprNode{name: node.symbol.Symbol(), predicate: boolNode}
     &AnyOfSetExprNode{name: node.symbol.Symbol(), predicate: boolNode, seekablePredicate: seekOptimizable}
   where node.symbol has become the left operand of boolNode and seekOptimizable IS boolNode.
   [shaped] demands the duplication of every tree, and the harness evaluates [gen_shaped] on
   every tree the real parser produces. *)
Definition gen_aliases : list alias :=
  [ ("AllOfSetExprNode", "name", "predicate");
    ("AnyOfSetExprNode", "name", "predicate");
    ("AnyOfSetExprNode", "seekablePredicate", "predicate") ].

Definition gen_table : list kdesc := GenAstTable.table.
Definition gen_latch : bool := validator_latch GenAstTable.validator.

Definition gen_visit : tree -> list sym := visit gen_table.
Definition gen_all_syms : tree -> list sym := all_syms gen_table.
Definition gen_shaped_b : tree -> bool := shaped_b gen_table gen_aliases.
Definition gen_validate : list sym -> list sym -> tree -> verdict := validate gen_table gen_latch.
Definition gen_table_complete : bool := table_complete gen_table gen_aliases.
Definition gen_gaps : list gap := table_gaps gen_table gen_aliases.
Definition gen_validator_ok : bool := validator_ok GenAstTable.validator.
Definition gen_kind_names : list name := map k_name gen_table.
