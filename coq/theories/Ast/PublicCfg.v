(* C20 - how the public symbols of a store come about: the configuration API of boltz BaseStore
   (boltz/store_query.go addSymbol / AddSymbolWithKey / AddMapSymbol / MakeSymbolPublic /
   inheritMapSymbol / GrantSymbols).  Model only; proofs are in Ast/PublicCfgProofs.v.

   A symbol has a NAME (what queries write, what store.symbols / store.mapSymbols /
   store.publicSymbols are indexed by) and a bucket KEY (where its value is read from).  The two
   may differ (AddSymbolWithKey, AddFkSymbolWithKey, AddMapSymbol(name, type, key)).
   EVERYTHING THE PROPERTY SAYS ABOUT "PUBLIC" IS ABOUT NAMES: [is_public pub maps x] of
   Ast/Visitor.v takes the list [pub] of public NAMES and the list [maps] of the NAMES under which
   map symbols are registered; a key never enters.  This file makes that explicit: the store
   state below records the key of every map symbol, and [cs_is_public] does not read it. *)
From Coq Require Import List Bool NArith.
From Storage Require Import Base.Bytes Ast.AstTable Ast.Visitor.
Import ListNotations.

Record cfg_store := mk_store {
  cs_known : list sym;           (* the names in store.symbols *)
  cs_maps  : list (sym * sym);   (* store.mapSymbols: (name the entry is registered under, key of the value) *)
  cs_pub   : list sym            (* store.publicSymbols (names) *)
}.

Definition cs_empty : cfg_store := mk_store [] [] [].

Definition cs_map_names (s : cfg_store) : list sym := map fst (cs_maps s).

(* BaseStore.IsPublicSymbol of a configured store.  By name: the second components of [cs_maps]
   (the keys) are not consulted. *)
Definition cs_is_public (s : cfg_store) (x : sym) : bool := is_public (cs_pub s) (cs_map_names s) x.

(* addSymbol(name, public, symbol): store.symbols.Put(name, _); publicSymbols[name] when public *)
Definition cs_add_symbol (s : cfg_store) (n : sym) (public : bool) : cfg_store :=
  mk_store (n :: cs_known s) (cs_maps s) (if public then n :: cs_pub s else cs_pub s).

(* store.mapSymbols[n] = &entityMapSymbol{key: k}; assigning to a Go map replaces an earlier entry *)
Definition cs_set_map (s : cfg_store) (n k : sym) : cfg_store :=
  mk_store (cs_known s) ((n, k) :: filter (fun e => negb (str_eqb (fst e) n)) (cs_maps s)) (cs_pub s).

(* GetSymbol(x) != nil.  [linked]: the harness' statement that, when the part before the first dot
   is a linked (fk / fk-set) symbol, the linked store resolves the rest. *)
Definition cs_resolves (s : cfg_store) (x : sym) (linked : bool) : bool :=
  mem_str x (cs_known s) ||
  match before_dot x with
  | Some (c :: b) => mem_str (c :: b) (cs_map_names s) || (mem_str (c :: b) (cs_known s) && linked)
  | _ => false       (* strings.IndexRune(name, '.') > 0 *)
  end.

(* MakeSymbolPublic: only a registered map name or a resolvable symbol can be published; anything
   else is logged and ignored (so publishing a map BEFORE AddMapSymbol has no effect) *)
Definition cs_make_public (s : cfg_store) (n : sym) (linked : bool) : cfg_store :=
  if mem_str n (cs_map_names s) || cs_resolves s n linked
  then mk_store (cs_known s) (cs_maps s) (n :: cs_pub s)
  else s.

(* inheritMapSymbol(symbol): store.mapSymbols[symbol.key] = symbol  - registered under the KEY *)
Definition cs_inherit (c : cfg_store) (e : sym * sym) : cfg_store := cs_set_map c (snd e) (snd e).

Definition cs_grant_sym (p : cfg_store) (c : cfg_store) (n : sym) : cfg_store :=
  cs_add_symbol c n (cs_is_public p n).

Definition cs_grant_map (p : cfg_store) (c : cfg_store) (e : sym * sym) : cfg_store :=
  let c' := cs_inherit c e in
  if cs_is_public p (fst e) then cs_make_public c' (fst e) false else c'.

(* parent.GrantSymbols(child).  Go ranges over its maps in an unspecified order; the model uses
   the list order.  The order is immaterial unless a map whose name differs from its key is
   registered under a name that is the key of another map (the harness does not generate that). *)
Definition cs_grant (p c : cfg_store) : cfg_store :=
  fold_left (cs_grant_map p) (cs_maps p) (fold_left (cs_grant_sym p) (cs_known p) c).

(* One call of the configuration API; [st] = false: the (parent) store, true: the child store. *)
Inductive cfg_op :=
| OAddPublic (st : bool) (n k : sym)    (* AddIdSymbol, AddSymbol, AddSymbolWithKey, AddFkSymbol, AddFkSymbolWithKey,
                                           AddPublicSetSymbol: registered and published under the name n; k = bucket key *)
| OAddPrivate (st : bool) (n : sym)     (* AddEntitySymbol, AddSetSymbol, AddFkSetSymbol *)
| OAddMap (st : bool) (n k : sym)       (* AddMapSymbol(n, _, k) *)
| OMakePublic (st : bool) (n : sym) (linked : bool)
| OGrant.                               (* parent.GrantSymbols(child) *)

Definition cfg_state := (cfg_store * cfg_store)%type.

Definition cfg_store_of (s : cfg_state) (st : bool) : cfg_store := if st then snd s else fst s.

Definition cfg_on (st : bool) (f : cfg_store -> cfg_store) (s : cfg_state) : cfg_state :=
  if st then (fst s, f (snd s)) else (f (fst s), snd s).

Definition cfg_step (s : cfg_state) (o : cfg_op) : cfg_state :=
  match o with
  | OAddPublic st n _ => cfg_on st (fun c => cs_add_symbol c n true) s
  | OAddPrivate st n => cfg_on st (fun c => cs_add_symbol c n false) s
  | OAddMap st n k => cfg_on st (fun c => cs_set_map c n k) s
  | OMakePublic st n l => cfg_on st (fun c => cs_make_public c n l) s
  | OGrant => (fst s, cs_grant (fst s) (snd s))
  end.

Definition cfg_run (p : list cfg_op) : cfg_state := fold_left cfg_step p (cs_empty, cs_empty).

(* the same call with the bucket key forgotten *)
Definition op_forget_key (o : cfg_op) : cfg_op :=
  match o with
  | OAddPublic st n _ => OAddPublic st n []
  | OAddMap st n _ => OAddMap st n []
  | _ => o
  end.

Definition op_is_grant (o : cfg_op) : bool := match o with OGrant => true | _ => false end.

(* what the harness observes of a configured store: GetPublicSymbols, the names under which map
   symbols are registered, and IsPublicSymbol on a list of probe names *)
Definition cfg_observe (p : list cfg_op) (st : bool) (probes : list sym) : list sym * list sym * list bool :=
  let s := cfg_store_of (cfg_run p) st in
  (cs_pub s, cs_map_names s, map (cs_is_public s) probes).
