(* Stored values, result type, the FieldTo* conversions of boltz/typed_bucket.go and the
   primitive comparisons used by both the evaluator model (Eval.v) and the declarative
   semantics (Spec.v).  No proofs in this file. *)
From Coq Require Import List ZArith NArith Bool.
From Storage Require Import Base.Bytes Ast.F64.
Import ListNotations.
Open Scope Z_scope.

Inductive res (A : Type) : Type := Ok (a : A) | Err | Panic.
Arguments Ok {A} a.
Arguments Err {A}.
Arguments Panic {A}.

Definition rbind {A B : Type} (r : res A) (f : A -> res B) : res B :=
  match r with Ok a => f a | Err => Err | Panic => Panic end.
Notation "x <- e ;; f" := (rbind e (fun x => f)) (at level 61, e at next level, right associativity).

(* ast.NodeType *)
Inductive ntype := TBool | TDatetime | TFloat64 | TInt64 | TString | TAny | TOther.

Definition ntype_eqb (a b : ntype) : bool :=
  match a, b with
  | TBool, TBool | TDatetime, TDatetime | TFloat64, TFloat64 | TInt64, TInt64
  | TString, TString | TAny, TAny | TOther, TOther => true
  | _, _ => false
  end.

(* a stored field / set element: boltz FieldType + payload, as written by the TypedBucket setters.
   VTime is an instant (unix seconds, nanoseconds in [0,1e9)). *)
Inductive sval :=
| VNil | VBool (b : bool) | VInt32 (z : Z) | VInt64 (z : Z) | VFloat (bits : f64) | VStr (s : str) | VTime (sec nsec : Z).

(* ---- decimal formatting (strconv.FormatInt / Itoa) ---- *)
Fixpoint dec_digits (fuel : nat) (n : N) (acc : str) : str :=
  match fuel with
  | O => acc
  | S f => let d := (48 + N.modulo n 10)%N in
           if (n <? 10)%N then d :: acc else dec_digits f (N.div n 10) (d :: acc)
  end.
Definition dec_N (n : N) : str := dec_digits (S (N.size_nat n)) n [].
Definition dec (z : Z) : str := if z <? 0 then 45%N :: dec_N (Z.to_N (- z)) else dec_N (Z.to_N z).

(* ---- strings ---- *)
Definition upper_byte (b : byte) : byte := if ((97 <=? b) && (b <=? 122))%N then (b - 32)%N else b.
(* strings.ToUpper restricted to ASCII letters (non-ASCII case folding is not modelled) *)
Definition to_upper (s : str) : str := map upper_byte s.

Fixpoint contains (s sub : str) : bool :=
  has_prefix sub s || match s with [] => false | _ :: s' => contains s' sub end.

Definition str_true : str := [116; 114; 117; 101]%N.
Definition str_false : str := [102; 97; 108; 115; 101]%N.

(* ---- time ---- *)
Definition time_cmp (s1 n1 s2 n2 : Z) : comparison :=
  match s1 ?= s2 with Eq => n1 ?= n2 | c => c end.

Section Fmt.
  (* strconv.FormatFloat(v,'f',-1,64) and time.Time.MarshalText are external: the theorems hold for
     every formatter; the executable model instantiates them (see fmt_float_int below) *)
  Variable fmt_float : f64 -> str.
  Variable fmt_time : Z -> Z -> str.

  (* boltz.FieldToBool etc.: None = nil pointer *)
  Definition field_to_bool (v : sval) : option bool := match v with VBool b => Some b | _ => None end.
  Definition field_to_int64 (v : sval) : option Z :=
    match v with VInt32 z | VInt64 z => Some z | _ => None end.
  Definition field_to_float64 (v : sval) : option f64 :=
    match v with VInt32 z | VInt64 z => Some (of_int64 z) | VFloat b => Some b | _ => None end.
  Definition field_to_datetime (v : sval) : option (Z * Z) :=
    match v with VTime s n => Some (s, n) | _ => None end.
  Definition field_to_string (v : sval) : option str :=
    match v with
    | VStr s => Some s
    | VBool b => Some (if b then str_true else str_false)
    | VInt32 z | VInt64 z => Some (dec z)
    | VFloat b => Some (fmt_float b)
    | VTime s n => Some (fmt_time s n)
    | VNil => None
    end.
  Definition is_nil (v : sval) : bool := match v with VNil => true | _ => false end.
End Fmt.

(* executable instance of the float formatter: exact for integral values of magnitude < 2^53
   (e.g. 3.0 -> "3", -0.0 -> "-0"); everything else is outside the model and yields "?" *)
Definition fmt_float_int (b : f64) : str :=
  let e := Z.of_N (f_exp b) in
  let m := Z.of_N (f_man b) in
  let sign := if f_sign b then [45%N] else [] in
  if (e =? 0) && (m =? 0) then sign ++ [48%N]
  else if (1023 <=? e) && (e <=? 1075) then
    let sh := 1075 - e in
    let full := m + 2 ^ 52 in
    if Z.shiftl (Z.shiftr full sh) sh =? full then sign ++ dec_N (Z.to_N (Z.shiftr full sh)) else [63%N]
  else [63%N].
Definition fmt_time_none (s n : Z) : str := [63%N].

(* ---- operators that reach a BinaryExprNode ---- *)
Inductive binop := OpEQ | OpNEQ | OpLT | OpLTE | OpGT | OpGTE | OpContains | OpNotContains | OpIContains | OpNotIContains.

Definition is_contains_op (op : binop) : bool :=
  match op with OpContains | OpNotContains | OpIContains | OpNotIContains => true | _ => false end.
Definition is_icase_op (op : binop) : bool :=
  match op with OpIContains | OpNotIContains => true | _ => false end.

(* the nil rule shared by Binary{Int64,Float64,Datetime}ExprNode.EvalBool: with a nil operand only
   != can hold, and it compares the pointers (nil != nil is false) *)
Definition nil_rule {A B : Type} (op : binop) (a : option A) (b : option B) : bool :=
  match op with
  | OpNEQ => match a, b with None, None => false | _, _ => true end
  | _ => false
  end.

Definition cmp_i64 (op : binop) (a b : option Z) : bool :=
  match a, b with
  | Some x, Some y =>
      match op with
      | OpEQ => x =? y | OpNEQ => negb (x =? y) | OpLT => x <? y | OpLTE => x <=? y
      | OpGT => y <? x | OpGTE => y <=? x | _ => false
      end
  | _, _ => nil_rule op a b
  end.

Definition cmp_f64 (op : binop) (a b : option f64) : bool :=
  match a, b with
  | Some x, Some y =>
      match op with
      | OpEQ => feq x y | OpNEQ => negb (feq x y) | OpLT => flt x y | OpLTE => fle x y
      | OpGT => flt y x | OpGTE => fle y x | _ => false
      end
  | _, _ => nil_rule op a b
  end.

Definition cmp_dt (op : binop) (a b : option (Z * Z)) : bool :=
  match a, b with
  | Some (s1, n1), Some (s2, n2) =>
      let c := time_cmp s1 n1 s2 n2 in
      match op with
      | OpEQ => match c with Eq => true | _ => false end
      | OpNEQ => match c with Eq => false | _ => true end
      | OpLT => match c with Lt => true | _ => false end
      | OpLTE => match c with Gt => false | _ => true end
      | OpGT => match c with Gt => true | _ => false end
      | OpGTE => match c with Lt => false | _ => true end
      | _ => false
      end
  | _, _ => nil_rule op a b
  end.

(* BinaryStringExprNode.EvalBool *)
Definition cmp_str (op : binop) (a b : option str) : bool :=
  match a, b with
  | Some x, Some y =>
      match op with
      | OpEQ => str_eqb x y | OpNEQ => negb (str_eqb x y)
      | OpLT => str_ltb x y | OpLTE => str_leb x y
      | OpGT => str_ltb y x | OpGTE => str_leb y x
      | OpContains => contains x y | OpNotContains => negb (contains x y)
      | _ => false
      end
  | _, _ =>
      match op with
      | OpNEQ => match a, b with None, None => false | _, _ => true end
      | OpNotContains | OpNotIContains => true
      | _ => false
      end
  end.

Definition cmp_bool (op : binop) (a b : bool) : bool :=
  match op with OpEQ => Bool.eqb a b | OpNEQ => negb (Bool.eqb a b) | _ => false end.

(* lo <= x < hi, false when any operand is nil *)
Definition btw_i64 (x lo hi : option Z) : bool :=
  match x, lo, hi with Some x, Some lo, Some hi => (lo <=? x) && (x <? hi) | _, _, _ => false end.
Definition btw_f64 (x lo hi : option f64) : bool :=
  match x, lo, hi with Some x, Some lo, Some hi => fle lo x && flt x hi | _, _, _ => false end.
Definition btw_dt (x lo hi : option (Z * Z)) : bool :=
  match x, lo, hi with
  | Some (s, n), Some (s1, n1), Some (s2, n2) =>
      (match time_cmp s n s1 n1 with Lt => false | _ => true end) &&
      (match time_cmp s n s2 n2 with Lt => true | _ => false end)
  | _, _, _ => false
  end.

Definition in_i64 (x : option Z) (vs : list (option Z)) : bool :=
  existsb (fun v => match x, v with Some a, Some b => a =? b | _, _ => false end) vs.
Definition in_f64 (x : option f64) (vs : list (option f64)) : bool :=
  existsb (fun v => match x, v with Some a, Some b => feq a b | _, _ => false end) vs.
Definition in_str (x : option str) (vs : list (option str)) : bool :=
  existsb (fun v => match x, v with Some a, Some b => str_eqb a b | _, _ => false end) vs.
Definition in_dt (x : option (Z * Z)) (vs : list (option (Z * Z))) : bool :=
  existsb (fun v => match x, v with
                    | Some (s1, n1), Some (s2, n2) => match time_cmp s1 n1 s2 n2 with Eq => true | _ => false end
                    | _, _ => false end) vs.
