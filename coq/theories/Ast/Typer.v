(* The typing pass: ast.PostProcess = SymbolValidator + transformTypes / TypeTransform* / getTypedExpr /
   handle*Ops / MoveUpTree (ast/node_convert.go, node_symbol.go, node_query.go, helper.go), as fixed by
   fixes/C01-*.patch and fixes/C10-between-unchecked-assert.patch.
   Unchecked Go type assertions yield [Panic].  No proofs in this file. *)
From Coq Require Import List ZArith NArith Bool.
From Storage Require Import Base.Bytes Ast.F64 Ast.Values Ast.Schema Ast.Untyped Ast.Typed.
Import ListNotations.

(* operand nodes after transformTypes (the concrete Go node kinds that can sit left or right of an operator) *)
Inductive onode :=
| OStrConst (s : str) | OIntConst (z : Z) | OFloatConst (b : f64) | ODateConst (sec nsec : Z)
| OBoolConst (b : bool) | ONull
| OSym (k : ntype) (n : str)          (* String/Bool/Int64/Float64/Datetime/AnyType SymbolNode *)
| OCount (n : str) (q : option typed). (* CountSetExprNode *)

Inductive oarr := OStrArr (l : list str) | OIntArr (l : list Z) | OFloatArr (l : list f64) | ODateArr (l : list (Z * Z)).

(* Node.GetType *)
Definition otype (o : onode) : ntype :=
  match o with
  | OStrConst _ => TString | OIntConst _ => TInt64 | OFloatConst _ => TFloat64 | ODateConst _ _ => TDatetime
  | OBoolConst _ => TBool | ONull => TOther
  | OSym k _ => k
  | OCount _ _ => TInt64
  end.

(* which node kinds implement which interface (x.(Int64Node) etc.) *)
Definition as_i64 (o : onode) : option (i64node typed) :=
  match o with
  | OIntConst z => Some (I64Const z)
  | OSym TInt64 n => Some (I64Sym n)
  | OSym TAny n => Some (I64Any n)
  | OCount n q => Some (I64Count n q)
  | _ => None
  end.
Definition as_f64 (o : onode) : option (f64node typed) :=
  match o with
  | OFloatConst b => Some (F64Const b)
  | OSym TFloat64 n => Some (F64Sym n)
  | OSym TAny n => Some (F64Any n)
  | _ => None
  end.
Definition as_dt (o : onode) : option dtnode :=
  match o with
  | ODateConst s n => Some (DConst s n)
  | OSym TDatetime n => Some (DSym n)
  | OSym TAny n => Some (DAny n)
  | _ => None
  end.
Definition as_bool (o : onode) : option typed :=
  match o with
  | OBoolConst b => Some (TBoolConst b)
  | OSym TBool n => Some (TBoolSym n)
  | OSym TAny n => Some (TAnyBool n)
  | _ => None
  end.
(* the StringNode view: Int64Node and Float64Node embed StringNode *)
Definition i64_as_str (i : i64node typed) : strnode typed :=
  match i with I64Any n => SAny n | _ => SOfI64 i end.
Definition f64_as_str (f : f64node typed) : strnode typed :=
  match f with F64Any n => SAny n | F64OfInt i => i64_as_str i | _ => SOfF64 f end.
Definition as_str (o : onode) : option (strnode typed) :=
  match o with
  | OStrConst s => Some (SConst s)
  | OSym TString n => Some (SSym n)
  | OSym TAny n => Some (SAny n)
  | _ => match as_i64 o with
         | Some i => Some (i64_as_str i)
         | None => match as_f64 o with Some f => Some (f64_as_str f) | None => None end
         end
  end.
Definition as_symbol (o : onode) : option str :=
  match o with OSym _ n => Some n | OCount n _ => Some n | _ => None end.

(* Int64Node.ToFloat64 *)
Definition to_float64 (i : i64node typed) : f64node typed :=
  match i with
  | I64Const z => F64Const (of_int64 z)
  | I64Any n => F64Any n
  | _ => F64OfInt i
  end.

Definition lit_node (l : lit) : onode :=
  match l with
  | LStr s => OStrConst s | LInt z => OIntConst z | LFloat b => OFloatConst b
  | LDate s n => ODateConst s n | LBool b => OBoolConst b | LNull => ONull
  end.

(* ExitStringArray / ExitNumberArray / ExitDatetimeArray: elements are popped, i.e. reversed *)
Definition arr_node (a : arr) : res oarr :=
  match a with
  | AStr l => Ok (OStrArr (rev l))
  | ADate l => Ok (ODateArr (rev l))
  | ANum l =>
      if forallb (fun x => match x with LInt _ => true | _ => false end) l
      then Ok (OIntArr (rev (map (fun x => match x with LInt z => z | _ => 0%Z end) l)))
      else if forallb is_num l
      then Ok (OFloatArr (rev (map (fun x => match x with LInt z => of_int64 z | LFloat b => b | _ => 0%N end) l)))
      else Err
  end.

(* ---- BinaryExprNode.getTypedExpr ---- *)
Definition handle_is_null (l : onode) (op : binop) : res typed :=
  match l with
  | OCount _ _ => Err       (* fixes/C01-count-null.patch: count(..) = null is a typing error *)
  | _ =>
    match as_symbol l, op with
    | Some n, OpEQ | Some n, OpNEQ => Ok (TIsNil n op)
    | _, _ => Err
    end
  end.

Definition upper_node (s : strnode typed) : strnode typed :=
  match s with
  | SConst v => SConst (to_upper v)
  | _ => SUpper s
  end.

Definition handle_string_ops (l r : onode) (op : binop) : res typed :=
  match as_str l, as_str r with
  | Some sl, Some sr =>
      if is_icase_op op
      then Ok (TBinStr (upper_node sl) (upper_node sr)
                       (match op with OpNotIContains => OpNotContains | _ => OpContains end))
      else Ok (TBinStr sl sr op)
  | _, _ => Err
  end.

Definition handle_bool_ops (l r : onode) (op : binop) : res typed :=
  if ntype_eqb (otype r) TBool && (match op with OpEQ | OpNEQ => true | _ => false end)
  then match as_bool l, as_bool r with
       | Some a, Some b => Ok (TBinBool a b op)
       | _, _ => Panic          (* node.left.(BoolNode), node.right.(BoolNode) *)
       end
  else Err.

Definition handle_int64_ops (l r : onode) (op : binop) : res typed :=
  match as_i64 l with
  | None => Panic               (* left := node.left.(Int64Node) *)
  | Some li =>
      if ntype_eqb (otype r) TInt64
      then match as_i64 r with Some ri => Ok (TBinI64 li ri op) | None => Panic end
      else if ntype_eqb (otype r) TFloat64
      then match as_f64 r with Some rf => Ok (TBinF64 (to_float64 li) rf op) | None => Panic end
      else Err
  end.

Definition handle_float64_ops (l r : onode) (op : binop) : res typed :=
  match as_f64 l with
  | None => Panic
  | Some lf =>
      if ntype_eqb (otype r) TFloat64
      then match as_f64 r with Some rf => Ok (TBinF64 lf rf op) | None => Panic end
      else if ntype_eqb (otype r) TInt64
      then match as_i64 r with Some ri => Ok (TBinF64 lf (to_float64 ri) op) | None => Panic end
      else Err
  end.

Definition handle_datetime_ops (l r : onode) (op : binop) : res typed :=
  match as_dt l with
  | None => Panic
  | Some ld =>
      if ntype_eqb (otype r) TDatetime
      then match as_dt r with Some rd => Ok (TBinDt ld rd op) | None => Panic end
      else Err
  end.

Definition typed_bin (l r : onode) (op : binop) : res typed :=
  match r with
  | ONull => handle_is_null l op
  | _ =>
      if (match op with OpContains | OpNotContains => true | _ => false end) then handle_string_ops l r op
      else
        let nt := match otype l with TAny => otype r | t => t end in
        match nt with
        | TBool => handle_bool_ops l r op
        | TDatetime => handle_datetime_ops l r op
        | TFloat64 => handle_float64_ops l r op
        | TInt64 => handle_int64_ops l r op
        | TString => handle_string_ops l r op
        | _ => Err
        end
  end.

(* ---- InArrayExprNode.getTypedExpr ---- *)
Definition typed_in (l : onode) (a : oarr) : res typed :=
  match (match as_dt l, a with
         | Some d, ODateArr ts => Some (TInDt d (map (fun t => DConst (fst t) (snd t)) ts))
         | _, _ => None end) with
  | Some t => Ok t
  | None =>
  match (match as_i64 l, a with
         | Some i, OIntArr zs => Some (TInI64 i (map (fun z => I64Const z) zs))
         | Some i, OFloatArr bs => Some (TInF64 (to_float64 i) (map (fun b => F64Const b) bs))
         | _, _ => None end) with
  | Some t => Ok t
  | None =>
  match (match as_f64 l, a with
         | Some f, OIntArr zs => Some (TInF64 f (map (fun z => F64Const (of_int64 z)) zs))
         | Some f, OFloatArr bs => Some (TInF64 f (map (fun b => F64Const b) bs))
         | _, _ => None end) with
  | Some t => Ok t
  | None =>
  match as_str l, a with
  | Some s, OStrArr vs => Ok (TInStr s (map (fun v => SConst v) vs))
  | Some s, OIntArr zs => Ok (TInStr s (map (fun z => SOfI64 (I64Const z)) zs))
  | Some s, OFloatArr bs => Ok (TInStr s (map (fun b => SOfF64 (F64Const b)) bs))
  | _, _ => Err
  end end end end.

(* ---- BetweenExprNode.getTypedExpr (with checked datetime assertions) ---- *)
Definition to_f64_node (o : onode) : option (f64node typed) :=
  match as_i64 o with
  | Some i => Some (to_float64 i)
  | None => as_f64 o
  end.

Definition typed_between (x lo hi : onode) : res typed :=
  match (match as_dt x with
         | Some d => match as_dt lo, as_dt hi with Some a, Some b => Some (TBtwDt d a b) | _, _ => None end
         | None => None end) with
  | Some t => Ok t
  | None =>
  match as_i64 x, as_i64 lo, as_i64 hi with
  | Some a, Some b, Some c => Ok (TBtwI64 a b c)
  | _, _, _ =>
  match to_f64_node x, to_f64_node lo, to_f64_node hi with
  | Some a, Some b, Some c => Ok (TBtwF64 a b c)
  | _, _, _ => Err
  end end end.

(* ---- SetFunctionNode.MoveUpTree / specializeSetAnyOf ---- *)
Definition specialize_any_of (n : str) (p : typed) : typed :=
  match p with
  | TBinStr l r op =>
      (* BinaryStringExprNode.IsSeekable, fixes/C01-seek-neq.patch: only = *)
      if (match op with OpEQ => true | _ => false end) && (str_is_const l || str_is_const r)
      then TAnyOfSeek n l r op else TAnyOf n p
  | _ => TAnyOf n p
  end.

(* UntypedSymbolNode.TypeTransform *)
Definition transform_sym (sch : schema) (S : nat) (n : str) : res onode :=
  match resolve sch S n with
  | None => Err
  | Some r => match rsym_type r with TOther => Err | k => Ok (OSym k n) end
  end.

Definition linked_store (sch : schema) (S : nat) (n : str) : option nat :=
  match resolve sch S n with Some r => rsym_linked r | None => None end.

(* SetFunctionNode{count|isEmpty}.TypeTransform over a setExpr: the set symbol and the typed sub-query *)
Definition transform_setexpr (rec : nat -> untyped -> res typed) (sch : schema) (S : nat)
           (se : setexpr untyped) : res (str * option typed) :=
  match se with
  | SESym n => _ <- transform_sym sch S n ;; Ok (n, None)
  | SESub n q =>
      _ <- transform_sym sch S n ;;
      match linked_store sch S n with
      | None => Err
      | Some S' =>
          match q with
          | UQuery _ _ _ => tq <- rec S' q ;; Ok (n, Some tq)
          | _ => Err
          end
      end
  end.

(* the left operand and the set function to hoist *)
Inductive hoist := HNone | HAll (n : str) | HAny (n : str).

Definition transform_lhs (rec : nat -> untyped -> res typed) (sch : schema) (S : nat)
           (l : lhs untyped) : res (onode * hoist) :=
  match l with
  | LSym n => o <- transform_sym sch S n ;; Ok (o, HNone)
  | LAllOf n => o <- transform_sym sch S n ;; Ok (o, HAll n)
  | LAnyOf n => o <- transform_sym sch S n ;; Ok (o, HAny n)
  | LCount se => nq <- transform_setexpr rec sch S se ;; Ok (OCount (fst nq) (snd nq), HNone)
  end.

Definition move_up (h : hoist) (p : typed) : typed :=
  match h with HNone => p | HAll n => TAllOf n p | HAny n => specialize_any_of n p end.

Fixpoint transform (sch : schema) (S : nat) (u : untyped) {struct u} : res typed :=
  match u with
  | UBin l op r =>
      if op_lit_ok op r then
        lo <- transform_lhs (fun S' q => transform sch S' q) sch S l ;;
        p <- typed_bin (fst lo) (lit_node r) op ;;
        Ok (move_up (snd lo) p)
      else Err
  | UIn neg l a =>
      if arr_ok a then
        lo <- transform_lhs (fun S' q => transform sch S' q) sch S l ;;
        oa <- arr_node a ;;
        p <- typed_in (fst lo) oa ;;
        (* fixes/C01-setfn-negation.patch: the negation is applied to the element predicate *)
        Ok (move_up (snd lo) (if neg then TNot p else p))
      else Err
  | UBetween neg l lo hi =>
      if between_ok lo hi then
        lo' <- transform_lhs (fun S' q => transform sch S' q) sch S l ;;
        p <- typed_between (fst lo') (lit_node lo) (lit_node hi) ;;
        Ok (move_up (snd lo') (if neg then TNot p else p))
      else Err
  | UIsEmpty se =>
      nq <- transform_setexpr (fun S' q => transform sch S' q) sch S se ;;
      Ok (TIsEmpty (fst nq) (snd nq))
  | UBoolConst b => Ok (TBoolConst b)
  | UBoolSym n =>
      o <- transform_sym sch S n ;;
      match as_bool o with Some t => Ok t | None => Err end
  | UNot a => t <- transform sch S a ;; Ok (TNot t)
  | UAnd a b => x <- transform sch S a ;; y <- transform sch S b ;; Ok (TAnd x y)
  | UOr a b => x <- transform sch S a ;; y <- transform sch S b ;; Ok (TOr x y)
  | UQuery p skip limit => t <- transform sch S p ;; Ok (TQuery t skip limit)
  end.

(* ---- SymbolValidator ---- *)
(* returns the inSetFunction flag after the visit, None when an error was recorded *)
Definition validate_sym (sch : schema) (S : nat) (inset : bool) (n : str) : option unit :=
  match resolve sch S n with
  | None => None
  | Some r => if negb inset && rsym_is_set r then None else Some tt
  end.

Definition validate_setfn (rec : nat -> bool -> untyped -> option bool) (sch : schema) (S : nat)
           (se : setexpr untyped) : option bool :=
  match se with
  | SESym n =>
      match validate_sym sch S true n with
      | None => None
      | Some _ => match resolve sch S n with Some r => if rsym_is_set r then Some false else None | None => None end
      end
  | SESub n q =>
      match linked_store sch S n with
      | None => None
      | Some S' =>
          match validate_sym sch S true n with
          | None => None
          | Some _ =>
              (* fixes/C01-validator-subquery.patch: the sub-query starts outside of any set function *)
              match rec S' false q with
              | None => None
              | Some _ => match resolve sch S n with Some r => if rsym_is_set r then Some false else None | None => None end
              end
          end
      end
  end.

Definition validate_lhs (rec : nat -> bool -> untyped -> option bool) (sch : schema) (S : nat) (inset : bool)
           (l : lhs untyped) : option bool :=
  match l with
  | LSym n => match validate_sym sch S inset n with Some _ => Some inset | None => None end
  | LAllOf n | LAnyOf n => validate_setfn rec sch S (SESym n)
  | LCount se => validate_setfn rec sch S se
  end.

Fixpoint validate (sch : schema) (S : nat) (inset : bool) (u : untyped) {struct u} : option bool :=
  match u with
  | UBin l _ _ | UIn _ l _ | UBetween _ l _ _ => validate_lhs (fun S' i q => validate sch S' i q) sch S inset l
  | UIsEmpty se => validate_setfn (fun S' i q => validate sch S' i q) sch S se
  | UBoolConst _ => Some inset
  | UBoolSym n => match validate_sym sch S inset n with Some _ => Some inset | None => None end
  | UNot a => validate sch S inset a
  | UAnd a b | UOr a b =>
      match validate sch S inset a with Some i => validate sch S i b | None => None end
  | UQuery p _ _ => validate sch S inset p
  end.

(* ast.PostProcess on the query the listener built *)
Definition typer (sch : schema) (S : nat) (u : untyped) : res typed :=
  match validate sch S false u with
  | None => Err
  | Some _ => transform sch S u
  end.
