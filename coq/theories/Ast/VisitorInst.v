(* C20 - the finite obligations on the regenerated table, and the generic theorems instantiated
   with it.  This is the file that stops compiling when an Accept method of package ast forgets
   a child or a symbol, when a new node kind does, or when the validating visitor of
   boltz/validate.go is no longer the one modelled. *)
From Coq Require Import List Bool NArith.
From Storage Require Import Base.Bytes Ast.AstTable Ast.Visitor Ast.VisitorProofs Ast.VisitorGen Gen.GenAstTable.
Import ListNotations.

(* finite: a forallb over the generated kind descriptions (53 on the pinned tree) and the
   three exclusions; recomputed by the kernel on every run *)
Lemma generated_table_complete_lemma : table_complete GenAstTable.table gen_aliases = true.
Proof. vm_compute. reflexivity. Qed.

Lemma generated_validator_ok_lemma : validator_ok GenAstTable.validator = true.
Proof. vm_compute. reflexivity. Qed.

Definition gen_shaped (t : tree) : Prop := shaped gen_table gen_aliases t.

Lemma c20_visit_covers_lemma : forall t, gen_shaped t ->
  forall x, In x (gen_all_syms t) <-> In x (gen_visit t).
Proof. exact (visit_covers_all_symbols_lemma gen_table gen_aliases generated_table_complete_lemma). Qed.

Lemma c20_validator_iff_all_public_lemma : forall pub maps t, gen_shaped t ->
  (gen_validate pub maps t = Accept <-> forall x, In x (gen_all_syms t) -> is_public pub maps x = true).
Proof. exact (validator_iff_all_public_lemma gen_table gen_aliases generated_table_complete_lemma gen_latch). Qed.

Lemma c20_rejection_names_nonpublic_lemma : forall pub maps t x, gen_shaped t ->
  gen_validate pub maps t = Reject x -> In x (gen_all_syms t) /\ is_public pub maps x = false.
Proof. exact (rejection_names_nonpublic_lemma gen_table gen_aliases generated_table_complete_lemma gen_latch). Qed.

Lemma c20_single_nonpublic_rejected_lemma : forall pub maps t x, gen_shaped t ->
  In x (gen_all_syms t) -> is_public pub maps x = false ->
  (forall y, In y (gen_all_syms t) -> y <> x -> is_public pub maps y = true) ->
  gen_validate pub maps t = Reject x.
Proof. exact (single_nonpublic_rejected_lemma gen_table gen_aliases generated_table_complete_lemma gen_latch). Qed.

Lemma c20_accepted_everywhere_public_lemma : forall pub maps t, gen_shaped t ->
  gen_validate pub maps t = Accept ->
  forall s, subtree s t -> forall x, In x (root_syms gen_table s) -> is_public pub maps x = true.
Proof. exact (accepted_everywhere_public_lemma gen_table gen_aliases generated_table_complete_lemma gen_latch). Qed.
