(* Store schemas (the symbols a boltz.BaseStore exposes), the stored dataset, and symbol resolution:
   model of BaseStore.GetSymbol / createCompositeEntitySymbol / entityMapSymbol.createElementSymbol
   (boltz/store_query.go, boltz/query_symbols.go).  No proofs in this file. *)
From Coq Require Import List ZArith NArith Bool.
From Storage Require Import Base.Bytes Ast.F64 Ast.Values.
Import ListNotations.

(* ---- schema ---- *)
Inductive symdecl :=
| DId                                                                    (* AddIdSymbol *)
| DField (ty : ntype) (prefix : list str) (key : str) (linked : option nat) (* AddSymbol / AddSymbolWithKey / AddFkSymbol *)
| DSet (ty : ntype) (key : str) (linked : option nat).                     (* AddSetSymbol / AddFkSetSymbol *)

Record mapdecl := { m_ty : ntype; m_prefix : list str; m_key : str }.     (* AddMapSymbol *)

Record storedecl := { st_syms : list (str * symdecl); st_maps : list (str * mapdecl) }.
Definition schema := list storedecl.

Fixpoint assoc {A : Type} (k : str) (l : list (str * A)) : option A :=
  match l with
  | [] => None
  | (k', a) :: r => if str_eqb k k' then Some a else assoc k r
  end.

Fixpoint path_eqb (a b : list str) : bool :=
  match a, b with
  | [], [] => true
  | x :: a', y :: b' => str_eqb x y && path_eqb a' b'
  | _, _ => false
  end.

Fixpoint passoc {A : Type} (k : list str) (l : list (list str * A)) : option A :=
  match l with
  | [] => None
  | (k', a) :: r => if path_eqb k k' then Some a else passoc k r
  end.

(* ---- dataset ---- *)
(* an entity bucket: scalar fields addressed by their bucket path ++ [key]; string-list style
   sub-buckets (sets) by key, their elements in bolt key order *)
Record entity := { e_fields : list (list str * sval); e_sets : list (str * list sval) }.
(* store index -> entities in id (= bolt key) order *)
Definition db := nat -> list (str * entity).

Definition get_entity (d : db) (S : nat) (id : str) : option entity := assoc id (d S).

(* entitySymbol.Eval: missing entity, missing bucket on the path or missing key -> TypeNil *)
Definition field_get (d : db) (S : nat) (id : str) (path : list str) : sval :=
  match get_entity d S id with
  | None => VNil
  | Some e => match passoc path (e_fields e) with Some v => v | None => VNil end
  end.

(* entitySetSymbolImpl.openBoltCursor + First/Next: the keys of the sub-bucket, none if absent *)
Definition set_get (d : db) (S : nat) (id : str) (key : str) : list sval :=
  match get_entity d S id with
  | None => []
  | Some e => match assoc key (e_sets e) with Some l => l | None => [] end
  end.

(* ---- resolved symbols ---- *)
(* one EntitySymbol of a chain *)
Inductive link :=
| LkId                                                                     (* entityIdSymbol *)
| LkField (S : nat) (ty : ntype) (path : list str) (linked : option nat)    (* entitySymbol *)
| LkSet (S : nat) (ty : ntype) (key : str) (linked : option nat)            (* entitySetSymbolImpl / Runtime *)
| LkComp (ty : ntype) (chain : list link).                                  (* nonSetCompositeEntitySymbol used as a chain element *)

Inductive rsym :=
| RSimple (l : link)                                   (* a symbol of the store itself, or a map element symbol *)
| RChainVal (ty : ntype) (chain : list link)           (* nonSetCompositeEntitySymbol *)
| RChainSet (ty : ntype) (chain : list link) (last : option link).
   (* compositeEntitySetSymbol: iterable chain; [last] = Some l when cursorLastF is l.Eval, None when it is GetTypeAndValue *)

Definition link_type (l : link) : ntype :=
  match l with
  | LkId => TString
  | LkField _ ty _ _ => ty
  | LkSet _ ty _ _ => ty
  | LkComp ty _ => ty
  end.
Definition link_is_set (l : link) : bool := match l with LkSet _ _ _ _ => true | _ => false end.
Fixpoint last_link (c : list link) : option link :=
  match c with [] => None | [l] => Some l | _ :: r => last_link r end.
Fixpoint link_linked (l : link) : option nat :=
  match l with
  | LkId => None
  | LkField _ _ _ lk => lk
  | LkSet _ _ _ lk => lk
  | LkComp _ chain =>
      (fix go (c : list link) : option nat :=
         match c with
         | [] => None
         | x :: r => match r with [] => link_linked x | _ :: _ => go r end
         end) chain
  end.
(* iterableEntitySymbol: has newQueryPath *)
Definition link_iterable (l : link) : bool :=
  match l with LkField _ _ _ _ | LkSet _ _ _ _ => true | _ => false end.

Definition rsym_type (r : rsym) : ntype :=
  match r with RSimple l => link_type l | RChainVal ty _ => ty | RChainSet ty _ _ => ty end.
Definition rsym_is_set (r : rsym) : bool :=
  match r with RSimple l => link_is_set l | RChainVal _ _ => false | RChainSet _ _ _ => true end.
Definition rsym_linked (r : rsym) : option nat :=
  match r with
  | RSimple l => link_linked l
  | RChainVal _ chain => match last_link chain with Some l => link_linked l | None => None end
  | RChainSet _ chain _ => match last_link chain with Some l => link_linked l | None => None end
  end.

(* strings.Split(name, ".") *)
Fixpoint split_dot_aux (s : str) (cur : str) : list str :=
  match s with
  | [] => [rev cur]
  | c :: r => if N.eqb c 46 then rev cur :: split_dot_aux r [] else split_dot_aux r (c :: cur)
  end.
Definition split_dot (s : str) : list str := split_dot_aux s [].

Fixpoint join_dot (parts : list str) : str :=
  match parts with
  | [] => []
  | [p] => p
  | p :: r => p ++ 46%N :: join_dot r
  end.

Definition decl_link (S : nat) (d : symdecl) : link :=
  match d with
  | DId => LkId
  | DField ty prefix key lk => LkField S ty (prefix ++ [key]) lk
  | DSet ty key lk => LkSet S ty key lk
  end.

(* createCompositeEntitySymbol *)
Definition make_composite (first : link) (rest : rsym) : option rsym :=
  let chain0 :=
    match rest with
    | RChainSet _ c _ => first :: c      (* getChain() returns the iterable chain only *)
    | RChainVal ty c => [first; LkComp ty c]
    | RSimple l => [first; l]
    end in
  let none_set := forallb (fun l => negb (link_is_set l)) chain0 in
  let iterable := filter link_iterable chain0 in
  let ty := rsym_type rest in
  let '(chain, stripped_to_one) :=
    match last_link chain0 with
    | Some LkId => let c := removelast chain0 in (c, Nat.eqb (length c) 1)
    | _ => (chain0, false)
    end in
  if stripped_to_one then match chain with [l] => Some (RSimple l) | _ => None end
  else if none_set then Some (RChainVal ty chain)
  else match last_link chain with
       | None => None
       | Some last =>
           if Nat.eqb (length chain) (length iterable) || link_is_set last
           then Some (RChainSet ty iterable None)
           else Some (RChainSet ty iterable (Some last))
       end.

(* BaseStore.GetSymbol on the name split at dots; [fuel] bounds the number of hops *)
Fixpoint resolve_parts (sch : schema) (fuel : nat) (S : nat) (parts : list str) : option rsym :=
  match nth_error sch S with
  | None => None
  | Some sd =>
      match assoc (join_dot parts) (st_syms sd) with
      | Some d => Some (RSimple (decl_link S d))
      | None =>
          match parts with
          | p0 :: ((_ :: _) as rest_parts) =>
              match p0 with
              | [] => None     (* strings.IndexRune(name, '.') > 0 *)
              | _ =>
                match assoc p0 (st_maps sd) with
                | Some m => Some (RSimple (LkField S (m_ty m) (m_prefix m ++ [m_key m] ++ removelast rest_parts ++ [last rest_parts []]) None))
                | None =>
                    match fuel with
                    | O => None
                    | S fuel' =>
                        match assoc p0 (st_syms sd) with
                        | Some d =>
                            let first := decl_link S d in
                            if link_iterable first then
                              match link_linked first with
                              | Some S' =>
                                  match resolve_parts sch fuel' S' rest_parts with
                                  | Some rest => make_composite first rest
                                  | None => None
                                  end
                              | None => None
                              end
                            else None
                        | None => None
                        end
                    end
                end
              end
          | _ => None
          end
      end
  end.

Definition resolve (sch : schema) (S : nat) (name : str) : option rsym :=
  let parts := split_dot name in resolve_parts sch (length parts) S parts.

(* ---- the meaning of resolved symbols on a dataset ---- *)
(* SetCursor.Current() / GetTypeAndValue of a key used as a row id: the key without its type tag *)
Definition elem_id (v : sval) : option str := match v with VStr s => Some s | _ => None end.
Definition id_of (v : sval) : str := match elem_id v with Some s => s | None => [] end.

(* EntitySymbol.Eval of one chain element on a row id *)
Fixpoint link_value (d : db) (l : link) (id : str) : sval :=
  match l with
  | LkId => VStr id
  | LkField st _ path _ => field_get d st id path
  | LkSet _ _ _ _ => VNil                      (* entitySetSymbolImpl.Eval: (0, nil) *)
  | LkComp _ chain =>                           (* nonSetCompositeEntitySymbol.Eval: follow the chain *)
      (fix go (c : list link) (cur : sval) : sval :=
         match c with
         | [] => cur
         | x :: r => go r (link_value d x (id_of cur))
         end) chain (VStr id)
  end.

(* iterableEntitySymbol.newQueryPath: the keys one chain element contributes for a row:
   a single-valued symbol its (possibly null) value, a set symbol its elements *)
Definition link_step (d : db) (l : link) (id : str) : list sval :=
  match l with
  | LkField st _ path _ => [field_get d st id path]
  | LkSet st _ key _ => set_get d st id key
  | _ => []
  end.

(* all keys reached from [key] through the chain, depth first, in order *)
Fixpoint chain_enum (d : db) (chain : list link) (key : sval) : list sval :=
  match chain with
  | [] => [key]
  | l :: up => flat_map (chain_enum d up) (link_step d l (id_of key))
  end.

(* compositeEntitySetSymbol.Eval on a cursor key (cursorLastF, fixes/C01-composite-last-eval.patch) *)
Definition last_value (d : db) (last : option link) (key : sval) : sval :=
  match last with None => key | Some l => link_value d l (id_of key) end.
