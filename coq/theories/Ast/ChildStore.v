(* Child stores and scan strategies (boltz/store.go GetEntitiesBucket / GetEntityBucket / IsEntityPresent,
   boltz/store_query.go GrantSymbols / NewScanner, boltz/query_scanners.go the three presence tests).

   A child store has no entities bucket of its own: it scans the entities bucket of its parent, its own
   fields live in the sub-bucket <entity>/<entityPath...> of the parent's entity bucket and the symbols it
   inherits (GrantSymbols) are the parent's symbols, evaluated on the parent's entity bucket.  Hence a child
   store is a VIEW of the parent store: same entity buckets, own symbols = field symbols whose bucket path
   starts with the child's entity path, and
     - a plain child store contains the parent entities that have the sub-bucket
       (IsChildStore && !IsEntityPresent && !IsExtended => the row is skipped, in every scanner),
     - an Extended() child store contains every parent entity (own fields are nil without the sub-bucket).
   The dataset model has no empty buckets: the sub-bucket exists iff some stored field lies below it (the
   harness writes at least one field, possibly a nil, for every member).

   Strategies: Store.QueryIds picks uniqueIndexScanner (no sort / first sort field id; forward or reverse
   bolt cursor) or sortingScanner (llrb tree ordered by the sort fields); QueryWithCursorC runs the same
   scanners over a caller-provided cursor.  [strategy_ok] is what property C01 demands of the answer of ANY
   of them: the total count is the number of matching entities, the returned ids are matching entities, none
   twice, as many as skip / limit leave - and exactly the page of the id order when the strategy scans in id
   order.  Which of the matching entities a SORTED page holds is C02.
   No proofs in this file. *)
From Coq Require Import List ZArith NArith Bool.
From Storage Require Import Base.Bytes Ast.F64 Ast.Values Ast.Schema Ast.Untyped Ast.Spec.
Import ListNotations.
Open Scope Z_scope.

Record childdecl := { ch_store : nat; ch_parent : nat; ch_path : list str; ch_ext : bool }.

Fixpoint is_prefix (p l : list str) : bool :=
  match p, l with
  | [], _ => true
  | x :: p', y :: l' => str_eqb x y && is_prefix p' l'
  | _ :: _, [] => false
  end.

(* IsEntityPresent: GetEntityBucket(id) != nil, i.e. the bucket <entity>/<path...> exists *)
Definition has_child_data (path : list str) (e : entity) : bool :=
  existsb (fun f => is_prefix path (fst f)) (e_fields e).

Definition child_entities (c : childdecl) (ents : list (str * entity)) : list (str * entity) :=
  if ch_ext c then ents else filter (fun x => has_child_data (ch_path c) (snd x)) ents.

Fixpoint find_child (h : list childdecl) (S : nat) : option childdecl :=
  match h with
  | [] => None
  | c :: r => if Nat.eqb (ch_store c) S then Some c else find_child r S
  end.

(* the dataset as the stores see it: a child store index shows the member entities of its parent *)
Definition child_db (h : list childdecl) (d : db) : db :=
  fun S => match find_child h S with
           | Some c => child_entities c (d (ch_parent c))
           | None => d S
           end.

(* GrantSymbols followed by the child's own Add*Symbol calls: what the child store exposes, as field symbols
   over the PARENT's entity bucket.  Inherited symbols keep name, key and prefix; inherited map symbols are
   registered under their bucket KEY (inheritMapSymbol: store.mapSymbols[symbol.key] = symbol); own symbols get
   the child's entity path in front of their prefix.  Later registrations win (symbols.Put). *)
Definition own_sym (path : list str) (x : str * symdecl) : str * symdecl :=
  match snd x with
  | DField ty prefix key lk => (fst x, DField ty (path ++ prefix) key lk)
  | _ => x
  end.
Definition own_map (path : list str) (x : str * mapdecl) : str * mapdecl :=
  (fst x, {| m_ty := m_ty (snd x); m_prefix := path ++ m_prefix (snd x); m_key := m_key (snd x) |}).
Definition inherited_map (x : str * mapdecl) : str * mapdecl := (m_key (snd x), snd x).

Definition child_decl (path : list str) (parent own : storedecl) : storedecl :=
  {| st_syms := map (own_sym path) (st_syms own) ++ st_syms parent;
     st_maps := map (own_map path) (st_maps own) ++ map inherited_map (st_maps parent) |}.

(* ---- what every scan strategy has to return ---- *)
Inductive order_kind := OFwd | ORev | OAny.

Fixpoint mem_str (x : str) (l : list str) : bool :=
  match l with [] => false | y :: r => str_eqb x y || mem_str x r end.
Fixpoint nodup_b (l : list str) : bool :=
  match l with [] => true | x :: r => negb (mem_str x r) && nodup_b r end.
Fixpoint list_eqb (a b : list str) : bool :=
  match a, b with
  | [], [] => true
  | x :: a', y :: b' => str_eqb x y && list_eqb a' b'
  | _, _ => false
  end.

(* the cursor handed to QueryWithCursorC restricts the scan to a universe of ids (None = the entities bucket) *)
Definition restrict (univ : option (list str)) (M : list str) : list str :=
  match univ with None => M | Some u => filter (fun x => mem_str x u) M end.

Definition count_ok (M : list str) (count : option Z) : bool :=
  match count with None => true | Some c => c =? Z.of_nat (length M) end.

(* [M] = the matching entities in id order (spec_ids of the unpaged filter, restricted to the universe) *)
Definition strategy_ok (k : order_kind) (M : list str) (skip limit : option Z) (ids : list str) (count : option Z) : bool :=
  count_ok M count &&
  match k with
  | OFwd => list_eqb ids (page skip limit M)
  | ORev => list_eqb ids (page skip limit (rev M))
  | OAny => nodup_b ids && forallb (fun x => mem_str x M) ids && Nat.eqb (length ids) (length (page skip limit M))
  end.

(* the matching entities of the unpaged filter *)
Definition unpaged (u : untyped) : untyped :=
  match u with UQuery p _ _ => UQuery p None None | _ => u end.
Definition query_skip (u : untyped) : option Z := match u with UQuery _ s _ => s | _ => None end.
Definition query_limit (u : untyped) : option Z := match u with UQuery _ _ l => l | _ => None end.

Section Strategy.
  Variable fmt_float : f64 -> str.
  Variable fmt_time : Z -> Z -> str.

  Definition matching (sch : schema) (d : db) (S : nat) (univ : option (list str)) (u : untyped) : list str :=
    restrict univ (spec_ids fmt_float fmt_time sch d S (unpaged u)).

  Definition strategy_check (sch : schema) (d : db) (S : nat) (k : order_kind) (univ : option (list str)) (u : untyped)
             (ids : list str) (count : option Z) : bool :=
    strategy_ok k (matching sch d S univ u) (query_skip u) (query_limit u) ids count.
End Strategy.
