(* The two ways AnyOfSetExprNode.EvalBool answers  anyOf(set) = constant : the seek shortcut
   (BinaryStringExprNode.EvalBoolWithSeek over entitySetSymbolRuntime.SeekToString) and the scan loop,
   as functions of the element list.  No proofs in this file. *)
From Coq Require Import List ZArith NArith Bool Sorting.Sorted.
From Storage Require Import Base.Bytes Ast.F64 Ast.Values Ast.Schema Ast.Stacked Ast.Untyped Ast.Typed Ast.Eval.
Import ListNotations.

Definition str_lt (a b : str) : Prop := str_cmp a b = Lt.

(* a set bucket of strings: bolt keeps the keys sorted and duplicate free *)
Definition sorted_strs (l : list sval) : Prop :=
  exists ss, l = map VStr ss /\ StronglySorted str_lt ss.

Section Fmt.
  Variable fmt_float : f64 -> str.
  Variable fmt_time : Z -> Z -> str.

  Definition eq_elem (v : str) (e : sval) : bool := cmp_str OpEQ (field_to_string fmt_float fmt_time e) (Some v).

  (* seek to the first key >= v, evaluate the predicate there *)
  Definition seek_path (l : list sval) (v : str) : bool :=
    match cur_seek l v with [] => false | e :: _ => eq_elem v e end.
  (* for cursor.IsValid() { if predicate { return true }; cursor.Next() } *)
  Definition scan_path (l : list sval) (v : str) : bool := existsb (eq_elem v) l.
End Fmt.
