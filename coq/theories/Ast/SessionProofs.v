(* Proofs about Ast/Session.v: the query object a caller evaluates, and therefore the entities it selects, do not
   depend on what earlier callers of the same process parsed, refined or evaluated. *)
From Coq Require Import List ZArith NArith Bool Lia.
From Storage Require Import Base.Bytes Ast.F64 Ast.Values Ast.Schema Ast.Untyped Ast.Typed Ast.Typer Ast.Eval Ast.Spec
  Ast.TyperProofs Ast.Session.
Import ListNotations.

(* the object a step holds after its own mutators, as a function of the step alone *)
Definition step_obj (s : step) : qobj := fold_left mutate (s_muts s) (parse_obj (s_text s)).

Lemma update_fresh : forall (h : heap) (o : qobj) (f : qobj -> qobj),
  update (h ++ [o]) (length h) f = h ++ [f o].
Proof.
  induction h as [|x h IH]; intros o f; cbn.
  - reflexivity.
  - rewrite IH. reflexivity.
Qed.

Lemma apply_muts_fresh : forall (ms : list mutator) (h : heap) (o : qobj),
  apply_muts (h ++ [o]) (length h) ms = h ++ [fold_left mutate ms o].
Proof.
  unfold apply_muts. induction ms as [|m ms IH]; intros h o; cbn.
  - reflexivity.
  - rewrite update_fresh. apply IH.
Qed.

Lemma nth_error_fresh : forall (h : heap) (o : qobj), nth_error (h ++ [o]) (length h) = Some o.
Proof.
  intros h o. rewrite nth_error_app2 by lia. rewrite Nat.sub_diag. reflexivity.
Qed.

Lemma run_step_fresh : forall (h : heap) (s : step),
  run_step h s = (h ++ [step_obj s], Some (step_obj s)).
Proof.
  intros h s. unfold run_step, parse_alloc, step_obj.
  rewrite apply_muts_fresh. rewrite nth_error_fresh. reflexivity.
Qed.

(* whatever the heap the earlier callers left behind *)
Lemma session_objects_lemma : forall (l : list step) (h : heap),
  run_session h l = map (fun s => Some (step_obj s)) l.
Proof.
  induction l as [|s l IH]; intros h; cbn [run_session map].
  - reflexivity.
  - rewrite run_step_fresh. rewrite IH. reflexivity.
Qed.

Lemma refine_step_obj : forall s, refine (s_text s) (s_muts s) = obj_query (step_obj s).
Proof. reflexivity. Qed.

Section Answers.
  Variable fmt_float : f64 -> str.
  Variable fmt_time : Z -> Z -> str.

  Lemma eval_all_map : forall sch d (l : list step),
    eval_all fmt_float fmt_time sch d l (map (fun s => Some (step_obj s)) l) =
    map (fun s => eval_obj fmt_float fmt_time sch d (s_store s) (Some (step_obj s))) l.
  Proof.
    induction l as [|s l IH]; cbn; [reflexivity|]. rewrite IH. reflexivity.
  Qed.

  (* the answers of a session = each step evaluated on its own *)
  Lemma session_answers_pointwise : forall sch d h (l : list step),
    session_answers fmt_float fmt_time sch d h l =
    map (fun s => eval_obj fmt_float fmt_time sch d (s_store s) (Some (step_obj s))) l.
  Proof.
    intros. unfold session_answers. rewrite session_objects_lemma. apply eval_all_map.
  Qed.

  Lemma session_history_irrelevant_lemma : forall sch d h h' (pre pre' post post' : list step) (s : step),
    nth_error (session_answers fmt_float fmt_time sch d h (pre ++ s :: post)) (length pre) =
    nth_error (session_answers fmt_float fmt_time sch d h' (pre' ++ s :: post')) (length pre').
  Proof.
    intros. rewrite !session_answers_pointwise. rewrite !map_app. cbn [map].
    rewrite !nth_error_app2 by (rewrite map_length; lia).
    rewrite !map_length, !Nat.sub_diag. reflexivity.
  Qed.

  Lemma session_step_exact_lemma : forall sch d h (pre post : list step) (s : step) (t : typed),
    typer sch (s_store s) (refine (s_text s) (s_muts s)) = Ok t ->
    wf_db sch d ->
    nth_error (session_answers fmt_float fmt_time sch d h (pre ++ s :: post)) (length pre) =
      Some (Ok (step_spec fmt_float fmt_time sch d s)).
  Proof.
    intros sch d h pre post s t Ht Hw.
    rewrite session_answers_pointwise. rewrite map_app. cbn [map].
    rewrite nth_error_app2 by (rewrite map_length; lia).
    rewrite map_length, Nat.sub_diag. cbn [nth_error]. f_equal.
    unfold step_spec. rewrite refine_step_obj in *. unfold eval_obj. rewrite Ht.
    unfold obj_query in *.
    exact (proj1 (query_ids_exact_lemma fmt_float fmt_time sch (s_store s) _ _ _ t Ht d Hw)).
  Qed.

  (* a plain query (no mutators of its own) after ANY history selects exactly the entities of its own text *)
  Lemma session_query_exact_lemma : forall sch d h (pre post : list step) (S : nat) (p : untyped) (skip limit : option Z) (t : typed),
    typer sch S (UQuery p skip limit) = Ok t ->
    wf_db sch d ->
    nth_error (session_answers fmt_float fmt_time sch d h
                 (pre ++ {| s_store := S; s_text := UQuery p skip limit; s_muts := [] |} :: post)) (length pre) =
      Some (Ok (spec_ids fmt_float fmt_time sch d S (UQuery p skip limit))).
  Proof.
    intros sch d h pre post S p skip limit t Ht Hw.
    exact (session_step_exact_lemma sch d h pre post
             {| s_store := S; s_text := UQuery p skip limit; s_muts := [] |} t Ht Hw).
  Qed.
End Answers.

(* ---- interleavings ---- *)
Lemma update_length : forall (h : heap) a f, length (update h a f) = length h.
Proof. induction h as [|o h IH]; intros [|a] f; cbn; auto. Qed.

Lemma nth_error_update_same : forall (h : heap) a f,
  nth_error (update h a f) a = option_map f (nth_error h a).
Proof. induction h as [|o h IH]; intros [|a] f; cbn; auto. Qed.

Lemma nth_error_update_other : forall (h : heap) a a' f, a <> a' ->
  nth_error (update h a f) a' = nth_error h a'.
Proof.
  induction h as [|o h IH]; intros [|a] [|a'] f Hne; cbn; auto;
    try (exfalso; apply Hne; reflexivity);
    try (apply IH; intros He; apply Hne; f_equal; exact He).
Qed.

(* what holds between the process and the callers' own views *)
Definition inv (st : pstate) (v : view) : Prop :=
  (forall c, held st c = v c) /\
  (forall c a, addr_of (p_holds st) c = Some a -> (a < length (p_heap st))%nat) /\
  (forall c c' a, addr_of (p_holds st) c = Some a -> addr_of (p_holds st) c' = Some a -> c = c').

Lemma inv_start : inv start no_view.
Proof. unfold inv, held, start, no_view. cbn. repeat split; intros; discriminate. Qed.

Lemma inv_step : forall st v e, inv st v -> inv (ev_step st e) (view_step v e).
Proof.
  intros [h hs] v e (Hv & Hb & Hi). unfold held in *. cbn [p_heap p_holds] in *.
  destruct e as [c u | c m | c]; cbn [ev_step view_step p_heap p_holds].
  - (* Parse: a fresh address *)
    repeat split; unfold held; cbn [p_heap p_holds addr_of].
    + intros c'. destruct (Nat.eqb c' c) eqn:E.
      * apply nth_error_fresh.
      * specialize (Hv c'). destruct (addr_of hs c') as [a|] eqn:Ea; [|exact Hv].
        rewrite nth_error_app1 by (eapply Hb; exact Ea). exact Hv.
    + intros c' a. rewrite app_length. cbn. destruct (Nat.eqb c' c).
      * intros H. injection H as H. lia.
      * intros H. specialize (Hb c' a H). lia.
    + intros c1 c2 a. destruct (Nat.eqb c1 c) eqn:E1; destruct (Nat.eqb c2 c) eqn:E2; intros H1 H2.
      * apply Nat.eqb_eq in E1. apply Nat.eqb_eq in E2. congruence.
      * injection H1 as H1. specialize (Hb c2 a H2). lia.
      * injection H2 as H2. specialize (Hb c1 a H1). lia.
      * eapply Hi; eassumption.
  - (* a mutator: the object the caller holds, nothing else *)
    destruct (addr_of hs c) as [a|] eqn:Ea; cbn [p_heap p_holds].
    + repeat split; unfold held; cbn [p_heap p_holds].
      * intros c'. destruct (Nat.eqb c' c) eqn:E.
        -- apply Nat.eqb_eq in E. subst c'. rewrite Ea. rewrite nth_error_update_same.
           specialize (Hv c). rewrite Ea in Hv. rewrite Hv. reflexivity.
        -- specialize (Hv c'). destruct (addr_of hs c') as [a'|] eqn:Ea'; [|exact Hv].
           rewrite nth_error_update_other; [exact Hv|].
           intros He. subst a'. apply Nat.eqb_neq in E. apply E. eapply Hi; eassumption.
      * intros c' a' H. rewrite update_length. eapply Hb; exact H.
      * exact Hi.
    + repeat split; unfold held; cbn [p_heap p_holds]; auto.
      intros c'. destruct (Nat.eqb c' c) eqn:E; [|apply Hv].
      apply Nat.eqb_eq in E. subst c'. specialize (Hv c). rewrite Ea in Hv. rewrite Ea. rewrite <- Hv. reflexivity.
  - repeat split; auto.
Qed.

Lemma run_events_spec : forall (l : list event) (st : pstate) (v : view),
  inv st v -> run_events st l = spec_events v l.
Proof.
  induction l as [|e l IH]; intros st v H; [reflexivity|].
  destruct e as [c u | c m | c]; cbn [run_events spec_events].
  - apply IH. exact (inv_step st v (EParse c u) H).
  - apply IH. exact (inv_step st v (EMutate c m) H).
  - destruct H as (Hv & Hr). rewrite Hv. f_equal. apply IH. split; assumption.
Qed.

Lemma events_interleaving_lemma : forall l, run_events start l = spec_events no_view l.
Proof. intros l. apply run_events_spec. exact inv_start. Qed.

(* a caller's view is built from its own events only *)
Lemma view_own_events_lemma : forall (l : list event) (v : view) (c : nat),
  fold_left view_step l v c = fold_left view_step (own_events c l) v c.
Proof.
  induction l as [|e l IH]; intros v c; [reflexivity|].
  cbn [fold_left own_events filter]. destruct (Nat.eqb (event_caller e) c) eqn:E.
  - cbn [fold_left]. apply IH.
  - rewrite IH. fold (own_events c l).
    assert (Hsame : forall l' (v1 v2 : view), v1 c = v2 c ->
              (forall e', In e' l' -> event_caller e' = c) ->
              fold_left view_step l' v1 c = fold_left view_step l' v2 c).
    { induction l' as [|e' l' IH']; intros v1 v2 H12 Hall; [exact H12|].
      cbn [fold_left]. apply IH'.
      - assert (Hc : event_caller e' = c) by (apply Hall; left; reflexivity).
        destruct e' as [c' u | c' m | c']; cbn in Hc; subst c'; cbn [view_step]; auto;
          rewrite Nat.eqb_refl; [reflexivity | rewrite H12; reflexivity].
      - intros e'' H. apply Hall. right. exact H. }
    apply Hsame.
    + destruct e as [c' u | c' m | c']; cbn in E; cbn [view_step]; auto;
        rewrite Nat.eqb_sym in E; rewrite E; reflexivity.
    + intros e' H. unfold own_events in H. apply filter_In in H. destruct H as [_ H].
      apply Nat.eqb_eq. exact H.
Qed.
