(* C20 - HISTORIES of validations.
   boltz.ValidateSymbolsArePublic(query, store) is a function of the query and of the store's
   public set: [validate_seq] answers every step of a history by [validate] of that step alone -
   nothing is carried from one call to the next (no cache, no pooled visitor, no state in the
   store or in the query).  The harness runs the same histories against real stores that live
   through them; every verdict must be the one the step gets on its own.

   [validate_memo] is the validator with a memo of ACCEPTED steps under a key function - the shape
   of change this stream is there to find; Ast/ValidateSeqProofs.v shows it equals [validate_seq]
   exactly when the key never identifies an accepted step with a step that is not accepted.
   Model only; proofs in Ast/ValidateSeqProofs.v. *)
From Coq Require Import List Bool NArith.
From Storage Require Import Base.Bytes Ast.AstTable Ast.Visitor Ast.VisitorGen.
Import ListNotations.

(* one call: the store's public names, its map symbols, the query *)
Definition vstep := (list sym * list sym * tree)%type.

Section Seq.
  Variable tbl : list kdesc.
  Variable latch : bool.

  Definition validate_step (s : vstep) : verdict :=
    let '(pub, maps, t) := s in validate tbl latch pub maps t.

  Definition validate_seq (h : list vstep) : list verdict := map validate_step h.

  (* a validator that remembers the keys of the steps it accepted and accepts on a hit *)
  Variable K : Type.
  Variable key : vstep -> K.
  Variable keq : K -> K -> bool.

  Fixpoint validate_memo (cache : list K) (h : list vstep) : list verdict :=
    match h with
    | [] => []
    | s :: r =>
      if existsb (fun c => keq c (key s)) cache then Accept :: validate_memo cache r
      else match validate_step s with
           | Accept => Accept :: validate_memo (key s :: cache) r
           | Reject x => Reject x :: validate_memo cache r
           end
    end.
End Seq.

Definition gen_validate_seq : list vstep -> list verdict := validate_seq gen_table gen_latch.
