(* Types of the table that translators/asttable regenerates from the Go source on every run
   (coq/theories/Gen/GenAstTable.v).  One [kdesc] per Go type of package ast that implements
   ast.Node; it states which fields the struct has and what its Accept method does with them.
   No proofs in this file. *)
From Coq Require Import List String Bool.
Import ListNotations.

(* a field of a node struct whose Go type is string (or a named string type) *)
Record sfield := {
  sf_name : string;        (* field name; fields of structs embedded by value appear as "Outer.inner" *)
  sf_issym : bool;         (* the field holds a symbol name: it is returned by Symbol(), handed to
                              a method of ast.Symbols / ast.SymbolTypes, or to visitor.VisitSymbol *)
  sf_evidence : list string (* where the translator saw that use (documentation only) *)
}.

Inductive fshape := FSingle | FSlice.

(* a field that can hold child nodes *)
Record cfield := {
  cf_name : string;
  cf_shape : fshape;       (* one value (interface or pointer) / slice or array of such *)
  cf_type : string;        (* static Go type, as written relative to package ast *)
  cf_hidden : bool;        (* the static type does NOT implement ast.Node, yet node kinds implement it
                              (e.g. SeekOptimizableBoolNode): a child the type system does not announce *)
  cf_nilable : bool        (* Accept tolerates nil here: guarded by `if node.f != nil`, or the static
                              type is a pointer kind whose own Accept starts with `if node != nil`, or a slice *)
}.

(* how a kind answers Symbol() (ast.SymbolNode) *)
Inductive symsrc :=
| SymNone                      (* no Symbol() method *)
| SymOwn (f : string)          (* return node.f *)
| SymVia (c : string)          (* return node.c.Symbol() *)
| SymOther (text : string).    (* anything else *)

(* one statement of an Accept body *)
Inductive act :=
| AVisitSym (f : string)        (* visitor.VisitSymbol(node.f, ...) *)
| ACallback (m : string)        (* visitor.<m>(node) -- any other method of the Visitor interface *)
| AAccept (f : string)          (* node.f.Accept(visitor) *)
| AAcceptIfNonNil (f : string)  (* if node.f != nil { node.f.Accept(visitor) } *)
| AAcceptEach (f : string)      (* for _, c := range node.f { c.Accept(visitor) } *)
| AUnknown (text : string).     (* a statement the translator does not understand *)

Record kdesc := {
  k_name : string;              (* Go type name *)
  k_ptr : bool;                 (* Node is implemented by *T (true) or by T (false) *)
  k_file : string;              (* source file of the type declaration *)
  k_strs : list sfield;         (* every string-typed field, in declaration order *)
  k_children : list cfield;     (* every field that can hold child nodes, in declaration order *)
  k_symbol : symsrc;
  k_recv_guard : bool;          (* the whole Accept body is wrapped in `if node != nil { ... }` *)
  k_accept : list act;          (* the statements of Accept (inside the receiver guard, if any), in order *)
  k_unsupported : list string   (* constructs the translator cannot classify (must be empty) *)
}.

(* what a method of the validating visitor (boltz/validate.go) does *)
Record vmethod := {
  vm_name : string;                  (* the Visitor method it overrides *)
  vm_checks_public_on : option nat;  (* calls store.IsPublicSymbol(<parameter #n>) *)
  vm_latch : bool;                   (* only acts while no error was recorded (first error wins) *)
  vm_reports_param : option nat      (* records NewUnknownSymbolError(<parameter #n>) when the check fails *)
}.

Record vdesc := {
  v_type : string;                   (* the visitor struct *)
  v_embeds_default : bool;           (* embeds ast.DefaultVisitor (all other callbacks are no-ops) *)
  v_overrides : list vmethod;
  v_entry : string;                  (* the entry point *)
  v_entry_pointer : bool;            (* the visitor handed to Accept is &T{...}, so T's overrides are dispatched *)
  v_entry_accepts_query : bool;      (* calls query.Accept(visitor) unconditionally *)
  v_entry_returns_err : bool         (* returns the recorded error *)
}.
