(* Types of the table that translators/asttable regenerates from the Go source on every run
   (coq/theories/Gen/GenAstTable.v).  One [kdesc] per Go type of package ast that implements
   ast.Node; it states which fields the struct has and what its Accept method does with them.
   No proofs in this file. *)
From Coq Require Import List Bool NArith.
From Coq.Strings Require Import Byte.
From Storage Require Import Base.Bytes.
Import ListNotations.

(* Identifiers of the Go source (type, field and method names) and quoted source text.  A name
   is a byte name like every other name of the models ([str] = list N); the wrapper only
   serves the literal syntax "AndExprNode"%name.  (Coq's [name] is avoided on purpose: its
   extraction would shadow OCaml's name type in the shared driver glue.) *)
Inductive name := Nm (l : str).
Definition nm_parse (l : list Byte.byte) : name := Nm (map (fun b => N.of_nat (Byte.to_nat b)) l).
Definition nm_print (n : name) : list Byte.byte :=
  match n with Nm l => map (fun x => match Byte.of_nat (N.to_nat x) with Some b => b | None => Byte.x00 end) l end.
Declare Scope name_scope.
Delimit Scope name_scope with name.
String Notation name nm_parse nm_print : name_scope.

Definition name_bytes (n : name) : str := match n with Nm l => l end.
Definition name_eqb (a b : name) : bool := str_eqb (name_bytes a) (name_bytes b).

(* a field of a node struct whose Go type is string (or a named string type) *)
Record sfield := {
  sf_name : name;        (* field name; fields of structs embedded by value appear as "Outer.inner" *)
  sf_issym : bool;         (* the field holds a symbol name: it is returned by Symbol(), handed to
                              a method of ast.Symbols / ast.SymbolTypes, or to visitor.VisitSymbol *)
  sf_evidence : list name (* where the translator saw that use (documentation only) *)
}.

Inductive fshape := FSingle | FSlice.

(* a field that can hold child nodes *)
Record cfield := {
  cf_name : name;
  cf_shape : fshape;       (* one value (interface or pointer) / slice or array of such *)
  cf_type : name;        (* static Go type, as written relative to package ast *)
  cf_hidden : bool;        (* the static type does NOT implement ast.Node, yet node kinds implement it
                              (e.g. SeekOptimizableBoolNode): a child the type system does not announce *)
  cf_nilable : bool        (* Accept tolerates nil here: guarded by `if node.f != nil`, or the static
                              type is a pointer kind whose own Accept starts with `if node != nil`, or a slice *)
}.

(* how a kind answers Symbol() (ast.SymbolNode) *)
Inductive symsrc :=
| SymNone                      (* no Symbol() method *)
| SymOwn (f : name)          (* return node.f *)
| SymVia (c : name)          (* return node.c.Symbol() *)
| SymOther (text : name).    (* anything else *)

(* one statement of an Accept body *)
Inductive act :=
| AVisitSym (f : name)        (* visitor.VisitSymbol(node.f, ...) *)
| ACallback (m : name)        (* visitor.<m>(node) -- any other method of the Visitor interface *)
| AAccept (f : name)          (* node.f.Accept(visitor) *)
| AAcceptIfNonNil (f : name)  (* if node.f != nil { node.f.Accept(visitor) } *)
| AAcceptEach (f : name)      (* for _, c := range node.f { c.Accept(visitor) } *)
| AUnknown (text : name).     (* a statement the translator does not understand *)

Record kdesc := {
  k_name : name;              (* Go type name *)
  k_ptr : bool;                 (* Node is implemented by *T (true) or by T (false) *)
  k_file : name;              (* source file of the type declaration *)
  k_strs : list sfield;         (* every string-typed field, in declaration order *)
  k_children : list cfield;     (* every field that can hold child nodes, in declaration order *)
  k_symbol : symsrc;
  k_recv_guard : bool;          (* the whole Accept body is wrapped in `if node != nil { ... }` *)
  k_accept : list act;          (* the statements of Accept (inside the receiver guard, if any), in order *)
  k_unsupported : list name   (* constructs the translator cannot classify (must be empty) *)
}.

(* what a method of the validating visitor (boltz/validate.go) does *)
Record vmethod := {
  vm_name : name;                  (* the Visitor method it overrides *)
  vm_checks_public_on : option nat;  (* calls store.IsPublicSymbol(<parameter #n>) *)
  vm_latch : bool;                   (* only acts while no error was recorded (first error wins) *)
  vm_reports_param : option nat      (* records NewUnknownSymbolError(<parameter #n>) when the check fails *)
}.

Record vdesc := {
  v_type : name;                   (* the visitor struct *)
  v_embeds_default : bool;           (* embeds ast.DefaultVisitor (all other callbacks are no-ops) *)
  v_overrides : list vmethod;
  v_entry : name;                  (* the entry point *)
  v_entry_pointer : bool;            (* the visitor handed to Accept is &T{...}, so T's overrides are dispatched *)
  v_entry_accepts_query : bool;      (* calls query.Accept(visitor) unconditionally *)
  v_entry_returns_err : bool         (* returns the recorded error *)
}.
