(* C07 - "... and no commit action or listener runs": the silence of EVERY kind of hook for a failed transaction.
   Store/TxQuiet.v transcribes the one mechanism all hooks hang on (bbolt's tx.OnCommit: mutateContext.handleCommit for
   the commit actions of every context of the transaction, EntityChangeState.processPostCommit for the store-level
   listeners and constraints of every registration style, the closure DbImpl.Update / Batch registers over the
   tx-complete listeners after the function and the pre-commit actions returned nil) on top of the C07 context machine
   (Store/TxCtx.v).  No hypotheses on schema, state, fuel, program, registered hooks. *)
From Coq Require Import List NArith Bool.
From Storage Require Import Base.Bytes Store.Model Store.XOps Store.Events Store.TxCtx Store.TxQuiet Store.TxQuietProofs.
Import ListNotations.

(* the machine with all hooks is the C07 context machine: every theorem of Properties/C07Ctx.v (hence of C07.v and
   C07Derived.v, through ctx_tx_is_xtx and xtx_is_tx) covers it *)
Theorem quiet_tx_is_ctx_tx : forall sch fuel st sys vetoes p,
  let o := ctx_update_q sch fuel st sys vetoes p in
  let c := ctx_update sch fuel st sys vetoes p in
  q_results o = co_results c /\ q_committed o = co_committed c /\ q_state o = co_state c /\
  q_events o = co_events c /\ q_commit_runs o = co_commit_runs c.
Proof. exact ctx_update_q_refines. Qed.
Print Assumptions quiet_tx_is_ctx_tx.

(* THE statement.  A transaction that does not commit: the database is as before; bbolt ran no handler; no store-level
   registration l - ANY style (typed object, typed function, untyped function, id only, typed / untyped constraint),
   ANY list of change types, synchronous or asynchronous - was invoked; no commit action of any context of the
   transaction ran; no tx-complete listener ran, however many are registered. *)
Theorem failed_tx_is_silent : forall sch fuel st sys vetoes p,
  let o := ctx_update_q sch fuel st sys vetoes p in
  q_committed o = false ->
  q_state o = st /\ q_fired o = [] /\ q_events o = [] /\ (forall l, q_delivered l o = []) /\
  q_commit_runs o = [] /\ (forall hk, q_tx_complete hk o = 0%nat).
Proof. exact failed_tx_is_silent_lemma. Qed.
Print Assumptions failed_tx_is_silent.

(* when that is: some operation returned an error, or a failing pre-commit action was registered through a context
   that belongs to the transaction *)
Theorem quiet_tx_fails_iff : forall sch fuel st sys vetoes p,
  let o := ctx_update_q sch fuel st sys vetoes p in
  q_committed o = false <-> (ctx_precommit_fails p = true \/ exists k, In (Some k) (q_results o)).
Proof. exact tx_fails_iff_lemma. Qed.
Print Assumptions quiet_tx_fails_iff.

(* every failure kind at every position.  An operation that returns an error - caller error, rejected operation
   (duplicate, missing reference, restricted delete, unusable key), constraint veto, value PersistEntity refuses: all
   are [Some k] results of the machine - wherever it stands in the function: silence. *)
Theorem failing_operation_is_silent : forall sch fuel st sys vetoes p k,
  let o := ctx_update_q sch fuel st sys vetoes p in
  In (Some k) (q_results o) -> q_committed o = false /\ silent st o.
Proof. exact failing_operation_is_silent_lemma. Qed.
Print Assumptions failing_operation_is_silent.

(* The failure at the very end: a failing pre-commit action, registered at any position of the function through any
   context that belongs to the transaction, or before the transaction - it runs after the WHOLE function succeeded,
   and still nothing is told to anybody. *)
Theorem failing_precommit_in_function_is_silent : forall sch fuel st sys vetoes p path k,
  In (IReg path (APre k true)) (cp_body p) -> belongs path = true ->
  let o := ctx_update_q sch fuel st sys vetoes p in
  q_committed o = false /\ silent st o.
Proof. exact failing_precommit_in_body_is_silent_lemma. Qed.
Print Assumptions failing_precommit_in_function_is_silent.

Theorem failing_precommit_before_tx_is_silent : forall sch fuel st sys vetoes p w k,
  cp_nil p = false -> In (w, APre k true) (cp_before p) ->
  let o := ctx_update_q sch fuel st sys vetoes p in
  q_committed o = false /\ silent st o.
Proof. exact failing_precommit_before_is_silent_lemma. Qed.
Print Assumptions failing_precommit_before_tx_is_silent.

(* the other side (the hooks are not silent by being dead): a committed transaction runs every tx-complete listener
   once, hands every store-level registration the invocations Store/Events.v defines for the delivered events, and
   runs the commit actions of the C07 context machine *)
Theorem committed_tx_notifies : forall sch fuel st sys vetoes p,
  let o := ctx_update_q sch fuel st sys vetoes p in
  let c := ctx_update sch fuel st sys vetoes p in
  q_committed o = true ->
  (forall hk, q_tx_complete hk o = hk_tx_complete hk) /\
  (forall l, q_delivered l o = delivered_to l (co_events c)) /\
  q_commit_runs o = co_commit_runs c.
Proof. exact committed_tx_notifies_lemma. Qed.
Print Assumptions committed_tx_notifies.

(* the numbers the correspondence check prints per transaction (extracted [hook_counts] of the commit flag and the
   delivered events, for the harness's registrations [std_hooks]) are the invocation counts of this machine *)
Theorem printed_hook_counts_are_the_machines : forall sch fuel st sys vetoes p hk,
  let o := ctx_update_q sch fuel st sys vetoes p in
  hook_counts hk (q_committed o) (q_events o) =
  (map (fun l => (l, length (q_delivered l o))) (hk_listeners hk), q_tx_complete hk o).
Proof. exact hook_counts_spec. Qed.
Print Assumptions printed_hook_counts_are_the_machines.
