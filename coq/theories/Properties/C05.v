(* C05 - Link collections stay symmetric; ref-counted links agree on both sides.
   Statements only; each closed by [exact] and followed by Print Assumptions.

   Model: Links/LinkModel.v (link_collection.go), Links/SetLinksMerge.v (SetLinks),
   Links/RefCount.v (link_collection_rc.go, typed_bucket.go link counts), Links/LinkMachine.v
   (operations, transactions, histories).  [side] true = store A, false = store B.
   [U] is the pair of id universes the bucket cursors enumerate; [hist_in U h] says that
   entities are created with ids of U.  A history is a list of transactions; a transaction
   in which an operation fails is rolled back as a whole (bolt). *)
From Coq Require Import List NArith ZArith Bool.
From Storage Require Import Base.Bytes Links.LinkModel Links.LinkModelProofs Links.SetLinksMerge
  Links.SetLinksMergeProofs Links.RefCount Links.RefCountProofs Links.LinkMachine Links.LinkMachineProofs
  Links.HierMachine Links.HierProofs Links.HierWhere Links.HierWhereProofs Links.HierStrategy.
Import ListNotations.
Local Open Scope Z_scope.

(* After ANY history of create / delete / AddLinks / RemoveLinks / SetLinks / AddLink /
   RemoveLink / Increment / Decrement / SetLinkCount in any number of transactions (failed
   ones rolled back): b is in a's link bucket iff a is in b's, for the raw buckets, for
   GetLinks / IterateLinks and for IsLinked. *)
Theorem links_symmetric : forall (U : univ) (h : history), hist_in U h ->
  let s := run_hist U h init_state in
  forall sd a b,
    (lnk s sd a b = true <-> lnk s (other sd) b a = true) /\
    (In b (get_links U s sd a) <-> In a (get_links U s (other sd) b)) /\
    is_linked s sd a b = is_linked s (other sd) b a.
Proof. exact links_symmetric_lemma. Qed.
Print Assumptions links_symmetric.

(* ... and links only exist between entities that exist *)
Theorem links_between_present : forall (U : univ) (h : history), hist_in U h ->
  let s := run_hist U h init_state in
  forall sd a b, lnk s sd a b = true -> pres s sd a = true /\ pres s (other sd) b = true.
Proof. exact links_between_present_lemma. Qed.
Print Assumptions links_between_present.

(* every state a history can reach satisfies the invariants the statements below assume *)
Theorem reachable_invariants : forall (U : univ) (h : history), hist_in U h -> hist_counts_ok h ->
  hist_bound 0 h <= max_int32 ->
  linv U (run_hist U h init_state) /\ rinv (hist_bound 0 h) (run_hist U h init_state).
Proof. exact reachable_invariants_lemma. Qed.
Print Assumptions reachable_invariants.

(* The merge loop of SetLinks, for EVERY current row list (strictly sorted, as a bolt cursor
   yields it) and EVERY requested list (any order, any duplicates): it terminates within its
   fuel, removes only current rows, adds only requested ids, and removing toRemove and adding
   toAdd leaves exactly the requested ids. *)
Theorem set_links_diff_exact : forall (rws keys : list id), sorted_lt rws ->
  exists toAdd toRemove, set_links_diff rws keys = Some (toAdd, toRemove) /\
    (forall x, In x toRemove -> In x rws) /\
    (forall x, In x toAdd -> In x keys) /\
    (forall x, (In x rws /\ ~ In x toRemove) \/ In x toAdd <-> In x keys).
Proof. exact set_links_diff_exact_lemma. Qed.
Print Assumptions set_links_diff_exact.

Theorem set_links_never_out_of_fuel : forall U sd a keys s, univ_ok U -> set_links U sd a keys s <> NoFuel.
Proof. exact set_links_fuel. Qed.
Print Assumptions set_links_never_out_of_fuel.

(* SetLinks in any state satisfying the link invariant (every reachable state does), for every
   current set of a and every requested list of existing ids: a's set becomes exactly the
   requested ids; b holds a exactly when b was requested; all other buckets, the entities and
   the ref counts are unchanged; the invariant is kept. *)
Theorem set_links_exact : forall U s sd a keys, univ_ok U -> linv U s -> pres s sd a = true ->
  (forall k, In k keys -> pres s (other sd) k = true) ->
  exists s', set_links U sd a keys s = Done s' /\ linv U s' /\
    (forall b, In b (get_links U s' sd a) <-> In b keys) /\
    (forall b, In a (get_links U s' (other sd) b) <-> In b keys) /\
    (forall a' b, a' <> a -> lnk s' sd a' b = lnk s sd a' b) /\
    (forall b a', a' <> a -> lnk s' (other sd) b a' = lnk s (other sd) b a') /\
    pres s' = pres s /\ rc s' = rc s.
Proof. exact set_links_exact_lemma. Qed.
Print Assumptions set_links_exact.

(* Linking from a missing entity or to a missing entity is an error (AddLinks, SetLinks ...) *)
Theorem link_missing_fails : forall U s sd a keys, univ_ok U -> linv U s ->
  (pres s sd a = false \/ exists k, In k keys /\ pres s (other sd) k = false) ->
  add_links sd a keys s = Failed /\ set_links U sd a keys s = Failed.
Proof. exact link_missing_fails_lemma. Qed.
Print Assumptions link_missing_fails.

(* ... AddLink, IncrementLinkCount, SetLinkCount *)
Theorem link_missing_fails_single : forall s sd a k,
  (pres s sd a = false \/ pres s (other sd) k = false) ->
  add_link sd a k s = Failed /\ rc_incr sd a k s = Failed /\ forall n, rc_set sd a k n s = Failed.
Proof. exact link_missing_single_lemma. Qed.
Print Assumptions link_missing_fails_single.

(* ... and the failing operation changes nothing: its transaction leaves the state it started from *)
Theorem failed_tx_changes_nothing : forall U pre o post s s1,
  run_ops U pre s = Done s1 -> step U o s1 = Failed -> run_tx U (pre ++ o :: post) s = (false, s).
Proof. exact failed_tx_changes_nothing_lemma. Qed.
Print Assumptions failed_tx_changes_nothing.

(* Ref-counted links: after ANY history with non-negative SetLinkCount arguments whose counts
   stay within int32 ([hist_bound]: largest SetLinkCount argument plus later increments), both
   sides hold the same count > 0, or both hold none. *)
Theorem rc_counts_agree_positive : forall (U : univ) (h : history), hist_in U h -> hist_counts_ok h ->
  hist_bound 0 h <= max_int32 ->
  let s := run_hist U h init_state in
  forall sd a b,
    match rc s sd a b, rc s (other sd) b a with
    | Some c, Some c' => c = c' /\ 0 < c <= max_int32
    | None, None => True
    | _, _ => False
    end.
Proof. exact rc_counts_agree_positive_lemma. Qed.
Print Assumptions rc_counts_agree_positive.

(* the same through the observer GetLinkCounts: source and target value agree *)
Theorem get_link_counts_agree : forall (U : univ) (h : history), hist_in U h -> hist_counts_ok h ->
  hist_bound 0 h <= max_int32 ->
  let s := run_hist U h init_state in
  forall sd a b, fst (get_link_counts s sd a b) = snd (get_link_counts s sd a b) /\
                 fst (get_link_counts s sd a b) = rc s sd a b.
Proof. exact get_link_counts_agree_lemma. Qed.
Print Assumptions get_link_counts_agree.

(* The ref-counted link disappears from BOTH sides when the count reaches zero (SetLinkCount 0;
   c decrements of a count c) and when either entity is deleted; a delete also removes the plain
   links of the entity on both sides and touches nothing else. *)
Theorem rc_vanish_on_zero_or_delete : forall U M s, linv U s -> rinv M s -> M <= max_int32 ->
  (forall sd a k, pres s sd a = true -> pres s (other sd) k = true ->
     exists s', rc_set sd a k 0 s = Done s' /\ rc s' sd a k = None /\ rc s' (other sd) k a = None) /\
  (forall sd a k c, pres s sd a = true -> rc s sd a k = Some c ->
     exists s', run_ops U (repeat (ODecr sd a k) (Z.to_nat c)) s = Done s' /\
                rc s' sd a k = None /\ rc s' (other sd) k a = None) /\
  (forall sd x, pres s sd x = true ->
     exists s', delete_entity U sd x s = Done s' /\ linv U s' /\ rinv M s' /\ pres s' sd x = false /\
       (forall k, lnk s' sd x k = false /\ lnk s' (other sd) k x = false /\
                  rc s' sd x k = None /\ rc s' (other sd) k x = None) /\
       (forall sd' p q, (sd', p) <> (sd, x) -> (sd', q) <> (other sd, x) ->
                  lnk s' sd' p q = lnk s sd' p q /\ rc s' sd' p q = rc s sd' p q)).
Proof. exact rc_vanish_on_zero_or_delete_lemma. Qed.
Print Assumptions rc_vanish_on_zero_or_delete.

(* in every reachable state an entity that does not exist (never created, deleted, not yet
   re-created) has no link and no count on either side *)
Theorem absent_entity_has_no_links : forall (U : univ) (h : history), hist_in U h -> hist_counts_ok h ->
  hist_bound 0 h <= max_int32 ->
  let s := run_hist U h init_state in
  forall sd x, pres s sd x = false ->
    forall k, lnk s sd x k = false /\ lnk s (other sd) k x = false /\
              rc s sd x k = None /\ rc s (other sd) k x = None.
Proof. exact absent_entity_has_no_links_lemma. Qed.
Print Assumptions absent_entity_has_no_links.

(* ==== collections owned by the stores of a parent / child hierarchy (Links/HierMachine.v) =================

   Each side is a family of stores: the root store (level 0) and its child stores (levels 1..n, plain
   or Extended()).  A topology [T] lists collection pairs; pair p joins the store of level [lvl T p A]
   of family A with the store of level [lvl T p B] of family B by a link collection ([has_plain T p]),
   a ref-counted link collection ([has_rc T p]), both or neither - so a store may register only plain
   collections, only ref-counted ones, both, several of one kind, or none.  [hp h sd k x]: store k of family sd holds entity x; [hl h p] / [hr h p]: the link
   and count buckets of pair p.  Creates and deletes go through ANY store of a family. *)

(* every state a history reaches satisfies, for every pair, the invariants of the flat machine on the
   view of that pair; child stores only hold entities their root store holds *)
Theorem hier_reachable_invariants : forall (T : topo) (U : univ) (hs : hhistory), hhist_in U hs ->
  hhist_counts_ok hs -> hhist_bound 0 hs <= max_int32 -> hinv T U (hhist_bound 0 hs) (run_hhist T U hs hinit).
Proof. exact hier_reachable_lemma. Qed.
Print Assumptions hier_reachable_invariants.

(* After ANY history over ANY topology: every pair of collections - on root stores, on child stores,
   mixed - is symmetric (raw buckets, GetLinks, IsLinked), joins only entities that its two stores
   (and therefore the two root stores) hold, and both sides hold the same positive count or none. *)
Theorem hier_links_symmetric_counts_agree : forall (T : topo) (U : univ) (hs : hhistory), hhist_in U hs ->
  hhist_counts_ok hs -> hhist_bound 0 hs <= max_int32 ->
  let h := run_hhist T U hs hinit in
  forall p, (p < npairs T)%nat -> forall sd a b,
  (hl h p sd a b = true <-> hl h p (other sd) b a = true) /\
  (In b (get_links U (view T p h) sd a) <-> In a (get_links U (view T p h) (other sd) b)) /\
  is_linked (view T p h) sd a b = is_linked (view T p h) (other sd) b a /\
  (hl h p sd a b = true ->
     hp h sd (lvl T p sd) a = true /\ hp h (other sd) (lvl T p (other sd)) b = true /\
     hp h sd 0%nat a = true /\ hp h (other sd) 0%nat b = true) /\
  match hr h p sd a b, hr h p (other sd) b a with
  | Some c, Some c' => c = c' /\ 0 < c <= max_int32
  | None, None => True
  | _, _ => False
  end.
Proof. exact hier_pairs_lemma. Qed.
Print Assumptions hier_links_symmetric_counts_agree.

(* an entity that the root store of its family does not hold (never created, deleted through whichever
   store, not yet re-created) is held by no child store and has no link and no count in ANY pair of
   ANY store level, on either side *)
Theorem hier_absent_entity_has_no_links : forall (T : topo) (U : univ) (hs : hhistory), hhist_in U hs ->
  hhist_counts_ok hs -> hhist_bound 0 hs <= max_int32 ->
  let h := run_hhist T U hs hinit in
  forall sd x, hp h sd 0%nat x = false ->
  (forall k, hp h sd k x = false) /\
  forall p, (p < npairs T)%nat -> forall k,
    hl h p sd x k = false /\ hl h p (other sd) k x = false /\ hr h p sd x k = None /\ hr h p (other sd) k x = None.
Proof. exact hier_absent_lemma. Qed.
Print Assumptions hier_absent_entity_has_no_links.

(* DeleteById through ANY store of the family (root or child, whether or not the entity was created
   through it), in any state satisfying the invariants: afterwards no store of the family holds the
   entity; no pair of any store level keeps a link or a count from it or to it; every other entity,
   link and count is untouched; the invariants hold again. *)
Theorem hier_delete_cleans_every_level : forall T U M sd lv x h h', hinv T U M h ->
  hdelete T U sd lv x h = HDone h' ->
  hinv T U M h' /\ (forall k, hp h' sd k x = false) /\
  (forall sd' k x', (sd', x') <> (sd, x) -> hp h' sd' k x' = hp h sd' k x') /\
  (forall p, (p < npairs T)%nat -> forall k,
     hl h' p sd x k = false /\ hl h' p (other sd) k x = false /\ hr h' p sd x k = None /\ hr h' p (other sd) k x = None) /\
  (forall p, (p < npairs T)%nat -> forall sd' a b, (sd', a) <> (sd, x) -> (sd', b) <> (other sd, x) ->
     hl h' p sd' a b = hl h p sd' a b /\ hr h' p sd' a b = hr h p sd' a b).
Proof. exact hdelete_cleans_lemma. Qed.
Print Assumptions hier_delete_cleans_every_level.

(* the delete of an existing entity through an existing store succeeds, except when an Extended child
   store that owns a collection has no data for the entity (EntityDeleted of that collection reports
   "not found"; behaviour of the code as it is, see design/C05.md) - then it is refused *)
Theorem hier_delete_succeeds : forall T U sd lv x h, level_ok T sd lv = true -> hp h sd 0%nat x = true ->
  ext_blocked T h sd x = false -> exists h', hdelete T U sd lv x h = HDone h'.
Proof. exact hdelete_succeeds_lemma. Qed.
Print Assumptions hier_delete_succeeds.

Theorem hier_delete_refused_when_ext_blocked : forall T U sd lv x h h', ext_blocked T h sd x = true ->
  hdelete T U sd lv x h <> HDone h'.
Proof. exact hdelete_blocked_lemma. Qed.
Print Assumptions hier_delete_refused_when_ext_blocked.

(* ==== which kinds of collection a store registers (third wave of the hierarchy model) ====================

   All statements above hold for EVERY topology, in particular for stores that register only ref-counted
   collections (cleanupLinks must run its second loop although store.links is empty), only plain ones,
   several of one kind, or none.  In addition: *)

(* a kind of collection the stores of a pair did not register never holds anything for that pair *)
Theorem hier_unregistered_kind_holds_nothing : forall (T : topo) (U : univ) (hs : hhistory), hhist_in U hs ->
  hhist_counts_ok hs -> hhist_bound 0 hs <= max_int32 ->
  let h := run_hhist T U hs hinit in
  forall p, (p < npairs T)%nat ->
  (has_plain T p = false -> forall sd a b, hl h p sd a b = false) /\
  (has_rc T p = false -> forall sd a b, hr h p sd a b = None).
Proof. exact hier_kinds_lemma. Qed.
Print Assumptions hier_unregistered_kind_holds_nothing.

(* ... and its operations are refused *)
Theorem hier_unregistered_op_refused : forall T U p o h, op_registered T p o = false ->
  hstep T U (HLink p o) h = HFailed.
Proof. exact hstep_unregistered_lemma. Qed.
Print Assumptions hier_unregistered_op_refused.

(* ==== DeleteWhere (Links/HierWhere.v) ==========================================================================

   DeleteWhere through store (sd, lv) = DeleteById, through the same store, of every entity the store's
   scan yields (root: the family; plain child: its own entities; Extended child: the parent's) and the
   filter accepts. *)

(* a transaction with DeleteWhere calls is the transaction of the DeleteById calls they made *)
Theorem delete_where_is_delete_by_id : forall T U ops h,
  (forall h', run_xops T U ops h = HDone h' -> run_hops T U (flatten T U ops h) h = HDone h') /\
  (Forall (fun o => xop_ok T o = true) ops -> run_xops T U ops h = run_hops T U (flatten T U ops h) h) /\
  (forall hs, run_xhist T U (embed_xhist hs) h = run_hhist T U hs h).
Proof. exact delete_where_expansion_lemma. Qed.
Print Assumptions delete_where_is_delete_by_id.

(* every state a history with DeleteWhere calls reaches satisfies the invariants *)
Theorem where_reachable_invariants : forall (T : topo) (U : univ) (hs : xhistory), xhist_in U hs ->
  xhist_counts_ok hs -> xhist_bound 0 hs <= max_int32 -> hinv T U (xhist_bound 0 hs) (run_xhist T U hs hinit).
Proof. exact where_reachable_lemma. Qed.
Print Assumptions where_reachable_invariants.

Theorem where_links_symmetric_counts_agree : forall (T : topo) (U : univ) (hs : xhistory), xhist_in U hs ->
  xhist_counts_ok hs -> xhist_bound 0 hs <= max_int32 ->
  let h := run_xhist T U hs hinit in
  forall p, (p < npairs T)%nat -> forall sd a b,
  (hl h p sd a b = true <-> hl h p (other sd) b a = true) /\
  (In b (get_links U (view T p h) sd a) <-> In a (get_links U (view T p h) (other sd) b)) /\
  is_linked (view T p h) sd a b = is_linked (view T p h) (other sd) b a /\
  (hl h p sd a b = true ->
     hp h sd (lvl T p sd) a = true /\ hp h (other sd) (lvl T p (other sd)) b = true /\
     hp h sd 0%nat a = true /\ hp h (other sd) 0%nat b = true) /\
  match hr h p sd a b, hr h p (other sd) b a with
  | Some c, Some c' => c = c' /\ 0 < c <= max_int32
  | None, None => True
  | _, _ => False
  end.
Proof. exact where_pairs_lemma. Qed.
Print Assumptions where_links_symmetric_counts_agree.

Theorem where_absent_entity_has_no_links : forall (T : topo) (U : univ) (hs : xhistory), xhist_in U hs ->
  xhist_counts_ok hs -> xhist_bound 0 hs <= max_int32 ->
  let h := run_xhist T U hs hinit in
  forall sd x, hp h sd 0%nat x = false ->
  (forall k, hp h sd k x = false) /\
  forall p, (p < npairs T)%nat -> forall k,
    hl h p sd x k = false /\ hl h p (other sd) k x = false /\ hr h p sd x k = None /\ hr h p (other sd) k x = None.
Proof. exact where_absent_lemma. Qed.
Print Assumptions where_absent_entity_has_no_links.

(* DeleteWhere through ANY store, any filter, in any state satisfying the invariants: every entity it
   selected is gone from every store of the family and from every pair of every level and kind, on
   both sides; what names none of them is untouched; the invariants hold again *)
Theorem delete_where_cleans : forall T U M sd lv all ids h h', hinv T U M h ->
  xstep T U (XDeleteWhere sd lv all ids) h = HDone h' ->
  let l := where_ids T U h sd lv all ids in
  hinv T U M h' /\
  (forall x, In x l -> (forall k, hp h' sd k x = false) /\
     forall p, (p < npairs T)%nat -> forall k,
       hl h' p sd x k = false /\ hl h' p (other sd) k x = false /\ hr h' p sd x k = None /\ hr h' p (other sd) k x = None) /\
  (forall sd' k x', ~ (sd' = sd /\ In x' l) -> hp h' sd' k x' = hp h sd' k x') /\
  (forall p, (p < npairs T)%nat -> forall sd' a b, ~ (sd' = sd /\ In a l) -> ~ (sd' = other sd /\ In b l) ->
     hl h' p sd' a b = hl h p sd' a b /\ hr h' p sd' a b = hr h p sd' a b).
Proof. exact delete_where_cleans_lemma. Qed.
Print Assumptions delete_where_cleans.

(* ---- links written through the entity strategy (Links/HierStrategy.v) ------------------------------------
   store.Create / store.Update of an entity whose strategy persists a link field with
   PersistContext.SetLinkedIds (= SetLinks of the field's collection), through the store that owns the
   field or through a child store of it (ctx.GetParentContext()).  They are derived operations: a
   successful transaction is the transaction of the Create / SetLinks calls they amount to ... *)
Theorem strategy_ops_are_set_links : forall T U ops h,
  (forall h', run_sops T U ops h = HDone h' -> run_xops T U (sflatten T U ops h) h = HDone h') /\
  (forall hs, run_shist T U (embed_shist hs) h = run_xhist T U hs h).
Proof. intros T U ops h. split; [intros h'; apply run_sops_flatten | intros hs; apply run_shist_embed]. Qed.
Print Assumptions strategy_ops_are_set_links.

(* ... every state a history with such creates / updates reaches satisfies the invariants, so in every
   pair of every level the links are symmetric and join existing entities, the counts agree ... *)
Theorem strategy_reachable_invariants : forall (T : topo) (U : univ) (hs : shistory), shist_in U hs ->
  shist_counts_ok hs -> shist_bound 0 hs <= max_int32 -> hinv T U (shist_bound 0 hs) (run_shist T U hs hinit).
Proof. exact strategy_reachable_lemma. Qed.
Print Assumptions strategy_reachable_invariants.

Theorem strategy_links_symmetric_counts_agree : forall (T : topo) (U : univ) (hs : shistory), shist_in U hs ->
  shist_counts_ok hs -> shist_bound 0 hs <= max_int32 ->
  let h := run_shist T U hs hinit in
  forall p, (p < npairs T)%nat -> forall sd a b,
  (hl h p sd a b = true <-> hl h p (other sd) b a = true) /\
  (In b (get_links U (view T p h) sd a) <-> In a (get_links U (view T p h) (other sd) b)) /\
  is_linked (view T p h) sd a b = is_linked (view T p h) (other sd) b a /\
  (hl h p sd a b = true ->
     hp h sd (lvl T p sd) a = true /\ hp h (other sd) (lvl T p (other sd)) b = true /\
  hp h sd 0%nat a = true /\ hp h (other sd) 0%nat b = true) /\
  match hr h p sd a b, hr h p (other sd) b a with
  | Some c, Some c' => c = c' /\ 0 < c <= max_int32
  | None, None => True
  | _, _ => False
  end.
Proof. exact strategy_pairs_lemma. Qed.
Print Assumptions strategy_links_symmetric_counts_agree.

(* ... and a link field that names an entity the peer store of its collection does not hold fails the
   Create / Update - through whichever store of the family the call goes - and with it the transaction,
   which leaves the state it started from *)
Theorem strategy_missing_target_fails : forall T U M h sd lv x p ids k, univ_ok U -> hinv T U M h -> 0 <= M ->
  M <= max_int32 -> In x (uni U sd) ->
  In k ids -> hp h (other sd) (lvl T p (other sd)) k = false ->
  sstep T U (SCreate sd lv x p ids) h = HFailed /\ sstep T U (SUpdate sd lv x p ids) h = HFailed /\
  (forall pre post h0, run_sops T U pre h0 = HDone h ->
     run_stx T U (pre ++ SCreate sd lv x p ids :: post) h0 = (false, h0) /\
  run_stx T U (pre ++ SUpdate sd lv x p ids :: post) h0 = (false, h0)).
Proof. exact strategy_missing_lemma. Qed.
Print Assumptions strategy_missing_target_fails.
