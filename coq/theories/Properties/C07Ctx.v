(* C07 for pre-commit and commit actions registered through contexts DERIVED from the transaction's context
   (Store/TxCtx.v): ctx.GetSystemContext() - a fresh wrapper per call -, boltz.NewSystemMutateContext(ctx),
   ctx.UpdateContext(..), the context a joined nested db.Update / db.Batch hands to its function, any composition of
   these, registered before the transaction or at any position of the function, the transaction being opened with a
   plain context, a system context or nil. *)
From Coq Require Import List NArith Bool.
From Storage Require Import Base.Bytes Store.Model Store.XOps Store.TxCtx Store.TxCtxProofs.
Import ListNotations.

(* every context that belongs to the transaction is a reference to the mutateContext object Db.Update runs the
   pre-commit actions of; deriving it allocates nothing *)
Theorem belonging_context_is_the_transactions_context : forall p c h,
  belongs p = true -> root (fst (derive p c h)) = root c /\ snd (derive p c h) = h.
Proof. exact derive_belongs. Qed.
Print Assumptions belonging_context_is_the_transactions_context.

(* AddPreCommitAction through it appends to the slice runPreCommitActions of the original context ranges over *)
Theorem registration_through_belonging_context_is_run : forall p c h k f,
  belongs p = true -> (root c < length h)%nat ->
  let ch := derive p c h in
  pre_actions_of c (register (APre k f) (fst ch) (snd ch)) = pre_actions_of c h ++ [(k, f)].
Proof. exact registration_reaches_queue. Qed.
Print Assumptions registration_through_belonging_context_is_run.

(* Db.Update / Db.Batch over such a program IS the machine's transaction over the program's operations whose
   pre-commit flag says: some failing action was registered through a context that belongs to the transaction.
   Every theorem of Properties/C07.v and Properties/C07Derived.v therefore covers it. *)
Theorem ctx_tx_is_xtx : forall sch fuel st sys vetoes p,
  let o := ctx_update sch fuel st sys vetoes p in
  (co_results o, co_committed o, co_state o, co_events o) = run_xtx sch fuel st (ctx_xtx sys vetoes p).
Proof. exact ctx_update_refines. Qed.
Print Assumptions ctx_tx_is_xtx.

(* all-or-nothing, and no commit action of ANY context of the transaction runs after a failure *)
Theorem ctx_tx_all_or_nothing : forall sch fuel st sys vetoes p,
  let o := ctx_update sch fuel st sys vetoes p in
  co_committed o = false -> co_state o = st /\ co_events o = [] /\ co_commit_runs o = [].
Proof. exact ctx_update_rollback_runs_nothing. Qed.
Print Assumptions ctx_tx_all_or_nothing.

Theorem ctx_tx_error_iff : forall sch fuel st sys vetoes p,
  let o := ctx_update sch fuel st sys vetoes p in
  co_committed o = false <-> (ctx_precommit_fails p = true \/ exists k, In (Some k) (co_results o)).
Proof. exact ctx_update_error_iff. Qed.
Print Assumptions ctx_tx_error_iff.

(* THE statement: a failing pre-commit action registered at any position of the function through any context that
   belongs to the transaction fails the transaction - the caller gets the error, the database is as before, no
   listener and no commit action runs *)
Theorem failing_precommit_through_any_context_fails_tx : forall sch fuel st sys vetoes p path k,
  In (IReg path (APre k true)) (cp_body p) -> belongs path = true ->
  let o := ctx_update sch fuel st sys vetoes p in
  co_committed o = false /\ co_state o = st /\ co_events o = [] /\ co_commit_runs o = [].
Proof. exact failing_precommit_in_body. Qed.
Print Assumptions failing_precommit_through_any_context_fails_tx.

(* ... and so does one registered before the transaction through any wrapper of the context handed to Db.Update *)
Theorem failing_precommit_registered_before_fails_tx : forall sch fuel st sys vetoes p w k,
  cp_nil p = false -> In (w, APre k true) (cp_before p) ->
  let o := ctx_update sch fuel st sys vetoes p in
  co_committed o = false /\ co_state o = st /\ co_events o = [] /\ co_commit_runs o = [].
Proof. exact failing_precommit_before. Qed.
Print Assumptions failing_precommit_registered_before_fails_tx.
