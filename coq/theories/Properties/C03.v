(* C03 - Unique and set indexes mirror entity state; uniqueness is enforced.
   Statements over the store machine Store/Model.v, for EVERY schema that passes the boolean
   well-formedness check, every fuel and every history of transactions. *)
From Coq Require Import List NArith Bool.
From Storage Require Import Base.Bytes Store.Model Store.UniqueProofs Store.WfSchema.
Import ListNotations.

(* After any history of committed / rolled-back transactions (creates, full and field-restricted
   updates, deletes incl. cascades, link operations, through parent and child stores), the unique
   index of root store s on field f maps v to i exactly when v is non-empty and i is the present
   entity whose field holds v: no stale entries, no missing entries, no entry for deleted entities. *)
Theorem unique_index_mirrors : forall sch s f fuel (txs : list tx),
  wf_unique_b sch s f = true ->
  let st := run_txs sch fuel st_empty txs in
  forall v i, al_get v (uidx st s f) = Some i <->
              (nonempty v = true /\ present sch st s i = true /\ fv_bytes (get_field sch st s i f) = v).
Proof.
  intros sch s f fuel txs Hwf. destruct (wf_unique_b_sound sch s f Hwf) as [H1 [H2 [H3 [H4 H5]]]].
  exact (unique_index_mirrors_lemma sch s f H1 H2 H3 H4 H5 fuel txs).
Qed.
Print Assumptions unique_index_mirrors.

(* uniqueness: in every reachable state two entities never hold the same non-empty indexed value *)
Theorem unique_values_distinct : forall sch s f fuel (txs : list tx),
  wf_unique_b sch s f = true ->
  let st := run_txs sch fuel st_empty txs in
  forall i j, present sch st s i = true -> present sch st s j = true ->
              fv_bytes (get_field sch st s i f) = fv_bytes (get_field sch st s j f) ->
              nonempty (fv_bytes (get_field sch st s i f)) = true -> i = j.
Proof.
  intros sch s f fuel txs Hwf. destruct (wf_unique_b_sound sch s f Hwf) as [H1 [H2 [H3 [H4 H5]]]].
  exact (unique_values_distinct_lemma sch s f H1 H2 H3 H4 H5 fuel txs).
Qed.
Print Assumptions unique_values_distinct.

(* the invariant is preserved by every single transaction from ANY state satisfying it
   (not only from the empty database) *)
Theorem unique_index_step : forall sch s f fuel st (t : tx),
  wf_unique_b sch s f = true ->
  UInv sch s f st -> UInv sch s f (match run_tx sch fuel st t with (_, _, st', _) => st' end).
Proof.
  intros sch s f fuel st t Hwf. destruct (wf_unique_b_sound sch s f Hwf) as [H1 [H2 [H3 [H4 H5]]]].
  exact (run_tx_inv sch s f H1 H2 H3 H4 H5 fuel st t).
Qed.
Print Assumptions unique_index_step.
