(* C03 - Unique and set indexes mirror entity state; uniqueness is enforced.
   Statements over the store machine Store/Model.v, for EVERY schema that passes the boolean
   well-formedness check, every fuel and every history of transactions. *)
From Coq Require Import List NArith Bool.
From Storage Require Import Base.Bytes Store.Model Store.UniqueProofs Store.WfSchema Store.SetIdxProofs Store.WfSetIdx Store.UniqueRejectProofs Store.UniqueOnlyIfProofs.
Import ListNotations.

(* After any history of committed / rolled-back transactions (creates, full and field-restricted
   updates, deletes incl. cascades, link operations, through parent and child stores), the unique
   index of root store s on field f maps v to i exactly when v is non-empty and i is the present
   entity whose field holds v: no stale entries, no missing entries, no entry for deleted entities. *)
Theorem unique_index_mirrors : forall sch s f fuel (txs : list tx),
  wf_unique_b sch s f = true ->
  let st := run_txs sch fuel st_empty txs in
  forall v i, al_get v (uidx st s f) = Some i <->
              (nonempty v = true /\ present sch st s i = true /\ fv_bytes (get_field sch st s i f) = v).
Proof.
  intros sch s f fuel txs Hwf. destruct (wf_unique_b_sound sch s f Hwf) as [H1 [H2 [H3 [H4 H5]]]].
  exact (unique_index_mirrors_lemma sch s f H1 H2 H3 H4 H5 fuel txs).
Qed.
Print Assumptions unique_index_mirrors.

(* uniqueness: in every reachable state two entities never hold the same non-empty indexed value *)
Theorem unique_values_distinct : forall sch s f fuel (txs : list tx),
  wf_unique_b sch s f = true ->
  let st := run_txs sch fuel st_empty txs in
  forall i j, present sch st s i = true -> present sch st s j = true ->
              fv_bytes (get_field sch st s i f) = fv_bytes (get_field sch st s j f) ->
              nonempty (fv_bytes (get_field sch st s i f)) = true -> i = j.
Proof.
  intros sch s f fuel txs Hwf. destruct (wf_unique_b_sound sch s f Hwf) as [H1 [H2 [H3 [H4 H5]]]].
  exact (unique_values_distinct_lemma sch s f H1 H2 H3 H4 H5 fuel txs).
Qed.
Print Assumptions unique_values_distinct.

(* the invariant is preserved by every single transaction from ANY state satisfying it
   (not only from the empty database) *)
Theorem unique_index_step : forall sch s f fuel st (t : tx),
  wf_unique_b sch s f = true ->
  UInv sch s f st -> UInv sch s f (match run_tx sch fuel st t with (_, _, st', _) => st' end).
Proof.
  intros sch s f fuel st t Hwf. destruct (wf_unique_b_sound sch s f Hwf) as [H1 [H2 [H3 [H4 H5]]]].
  exact (run_tx_inv sch s f H1 H2 H3 H4 H5 fuel st t).
Qed.
Print Assumptions unique_index_step.

(* ---------------------------------------------------------------- set indexes *)
(* After any history, the set index of root store s on set field f lists id i under key v exactly
   when i is a present entity whose set f currently contains v: no entries for deleted entities,
   no stale values, no missing entries.  [wf_setidx_b]: s is a root store, store names are unique,
   parents are roots, among the stores with root s only s carries the set index on f (once), and f is
   neither the back-reference set of an fk index targeting (a store with root) s nor a link field of it. *)
Theorem set_index_mirrors : forall sch s f fuel (txs : list tx),
  wf_setidx_b sch s f = true ->
  let st := run_txs sch fuel st_empty txs in
  forall v i, In i (match al_get v (sidx st s f) with Some l => l | None => [] end) <->
              (present sch st s i = true /\ In v (get_set sch st s i f)).
Proof.
  intros sch s f fuel txs Hwf. destruct (wf_setidx_b_sound sch s f Hwf) as [H1 [H2 [H3 [H4 [H5 [H6 H7]]]]]].
  exact (set_index_mirrors_lemma sch s f H1 H2 H3 H4 H5 H6 H7 fuel txs).
Qed.
Print Assumptions set_index_mirrors.

(* no empty index keys are left behind: every key present in the index holds a non-empty id list *)
Theorem no_empty_index_keys : forall sch s f fuel (txs : list tx),
  wf_setidx_b sch s f = true ->
  let st := run_txs sch fuel st_empty txs in
  forall v l, al_get v (sidx st s f) = Some l -> l <> [].
Proof.
  intros sch s f fuel txs Hwf. destruct (wf_setidx_b_sound sch s f Hwf) as [H1 [H2 [H3 [H4 [H5 [H6 H7]]]]]].
  exact (no_empty_index_keys_lemma sch s f H1 H2 H3 H4 H5 H6 H7 fuel txs).
Qed.
Print Assumptions no_empty_index_keys.

(* the set-index invariant (mirror + no empty keys) is preserved by every single transaction from
   ANY state satisfying it *)
Theorem set_index_step : forall sch s f fuel st (t : tx),
  wf_setidx_b sch s f = true ->
  SInv sch s f st -> SInv sch s f (match run_tx sch fuel st t with (_, _, st', _) => st' end).
Proof.
  intros sch s f fuel st t Hwf. destruct (wf_setidx_b_sound sch s f Hwf) as [H1 [H2 [H3 [H4 [H5 [H6 H7]]]]]].
  exact (run_tx_sinv sch s f H1 H2 H3 H4 H5 H6 H7 fuel st t).
Qed.
Print Assumptions set_index_step.

(* ---------------------------------------------------------------- uniqueness is enforced *)
(* Vocabulary (Store/UniqueRejectProofs.v):
   [dup_at sch s f st i v]   : v is non-empty and some present entity j <> i of s holds v in field f;
   [new_f sch s f cr sys fv ch e] : the bytes PersistEntity leaves in field f of the root entity when it
       persists the field values fv under field checker ch over entity e ([new_f_is_supplied_value]: it is
       v whenever f is a declared field allowed by the checker and the entity supplies Some v);
   [before_unique f ks]      : the constraints registered before the unique index on f;
   [upd_store sch st s0 i]   : the store BaseStore.Update really runs in (a root store hands over to the
       first child store holding data for i). *)

(* A create, through store s0 of root s, of an entity i whose persisted value of f is already held by
   another present entity NEVER returns Ok.  It returns exactly Err EDuplicate whenever none of the
   earlier checks fails first: id non-blank / not taken / a legal key, no pre-commit veto, and the hooks
   of the constraints registered before the unique index succeed. *)
Theorem unique_duplicate_rejected_create : forall sch s f oc st evs s0 i sys fv sv v,
  wf_unique_b sch s f = true -> UInv sch s f st ->
  root_of sch s0 = s -> dup_at sch s f st i v -> new_f sch s f true sys fv None ent_empty = v ->
  exists k, op_create sch oc (st, evs) s0 i sys fv sv = Err k /\
    (forall evs1 stm,
       nonempty i = true -> present sch st s i = false -> key_ok i = true ->
       fire_cu sch oc evs s0 Created i = Ok evs1 ->
       after_update_all sch (set_ent st s i (persist sch s0 true sys fv sv None ent_empty))
                        (mkIctx true (oc_sys oc) s i) (before_unique f (cons_of sch s)) [] = Ok stm ->
       k = EDuplicate).
Proof.
  intros sch s f oc st evs s0 i sys fv sv v Hwf. destruct (wf_unique_b_sound sch s f Hwf) as [H1 [H2 [H3 [H4 H5]]]].
  exact (op_create_dup sch s f H1 H4 oc st evs s0 i sys fv sv v).
Qed.
Print Assumptions unique_duplicate_rejected_create.

(* The same for an update (full or field-restricted, entered through any store of root s): never Ok;
   exactly Err EDuplicate when the entity is found, nothing vetoes, the before-hooks (system-entity
   check) pass and the hooks registered before the unique index succeed. *)
Theorem unique_duplicate_rejected_update : forall sch s f oc st evs s0 i fv sv ch v,
  wf_unique_b sch s f = true -> UInv sch s f st ->
  root_of sch s0 = s -> dup_at sch s f st i v -> new_f sch s f false false fv ch (cur_ent s st i) = v ->
  exists k, op_update sch oc (st, evs) s0 i fv sv ch = Err k /\
    (forall evs1 svs stm,
       nonempty i = true -> present sch st (upd_store sch st s0 i) i = true ->
       fire_cu sch oc evs (upd_store sch st s0 i) Updated i = Ok evs1 ->
       before_chain sch st false (oc_sys oc) i (chain sch (upd_store sch st s0 i)) = Ok svs ->
       after_update_all sch (set_ent st s i (persist sch (upd_store sch st s0 i) false false fv sv ch (cur_ent s st i)))
                        (mkIctx false (oc_sys oc) s i) (before_unique f (cons_of sch s)) (hd [] svs) = Ok stm ->
       k = EDuplicate).
Proof.
  intros sch s f oc st evs s0 i fv sv ch v Hwf. destruct (wf_unique_b_sound sch s f Hwf) as [H1 [H2 [H3 [H4 H5]]]].
  exact (op_update_dup sch s f H1 H4 H5 oc st evs s0 i fv sv ch v).
Qed.
Print Assumptions unique_duplicate_rejected_update.

(* ... and changes nothing: a transaction whose operations reach such a create / update (after any
   successful prefix, from any state satisfying the invariant) is rolled back - run_tx returns the state
   it started from, commits nothing, delivers no events and reports the operation's error last. *)
Theorem unique_duplicate_changes_nothing : forall sch s f fuel st (t : tx) pre o post st1 evs1,
  wf_unique_b sch s f = true -> UInv sch s f st ->
  tx_ops t = pre ++ o :: post ->
  snd (run_ops sch fuel (mkOctx (tx_sys t) (tx_vetoes t)) (st, []) pre) = Ok (st1, evs1) ->
  dup_op sch s f st1 o ->
  exists rs k, run_op sch fuel (mkOctx (tx_sys t) (tx_vetoes t)) (st1, evs1) o = Err k /\
               run_tx sch fuel st t = (rs ++ [Some k], false, st, []).
Proof.
  intros sch s f fuel st t pre o post st1 evs1 Hwf. destruct (wf_unique_b_sound sch s f Hwf) as [H1 [H2 [H3 [H4 H5]]]].
  exact (dup_tx_rolled_back sch s f H1 H2 H3 H4 H5 fuel st t pre o post st1 evs1).
Qed.
Print Assumptions unique_duplicate_changes_nothing.

(* the same in every reachable state (the invariant needs no assumption there) *)
Theorem unique_duplicate_changes_nothing_reachable : forall sch s f fuel (txs : list tx) (t : tx) pre o post st1 evs1,
  wf_unique_b sch s f = true ->
  let st := run_txs sch fuel st_empty txs in
  tx_ops t = pre ++ o :: post ->
  snd (run_ops sch fuel (mkOctx (tx_sys t) (tx_vetoes t)) (st, []) pre) = Ok (st1, evs1) ->
  dup_op sch s f st1 o ->
  exists rs k, run_tx sch fuel st t = (rs ++ [Some k], false, st, []).
Proof.
  intros sch s f fuel txs t pre o post st1 evs1 Hwf st Hops Hpre Hd.
  destruct (wf_unique_b_sound sch s f Hwf) as [H1 [H2 [H3 [H4 H5]]]].
  assert (UInv sch s f st) as HU by (apply (run_txs_inv sch s f H1 H2 H3 H4 H5); apply UInv_empty).
  destruct (dup_tx_rolled_back sch s f H1 H2 H3 H4 H5 fuel st t pre o post st1 evs1 HU Hops Hpre Hd) as [rs [k [_ Hr]]].
  exists rs, k. exact Hr.
Qed.
Print Assumptions unique_duplicate_changes_nothing_reachable.

(* what "the persisted value of f" is for an entity that supplies one *)
Theorem new_f_is_supplied_value : forall sch s f cr sys fv ch e v d,
  is_child sch s = false -> find_store sch s = Some d -> declares_field d f = true ->
  lookup_fv fv f = Some (Some v) -> checked ch f = true -> (cr && sys = false \/ f <> isSystemF) ->
  new_f sch s f cr sys fv ch e = v.
Proof. intros sch s f cr sys fv ch e v d H. exact (new_f_supplied sch s f H cr sys fv ch e v d). Qed.
Print Assumptions new_f_is_supplied_value.

(* A non-nullable unique index never accepts an empty value: in every reachable state every present
   entity of s holds a non-empty value in f. *)
Theorem nonnull_unique_never_empty : forall sch s f fuel (txs : list tx),
  wf_unique_b sch s f = true -> In (CUnique f false) (cons_of sch s) ->
  let st := run_txs sch fuel st_empty txs in
  forall i, present sch st s i = true -> nonempty (fv_bytes (get_field sch st s i f)) = true.
Proof.
  intros sch s f fuel txs Hwf Hnn. destruct (wf_unique_b_sound sch s f Hwf) as [H1 [H2 [H3 [H4 H5]]]].
  exact (nonnull_unique_never_empty_lemma sch s f H1 H2 H3 H4 H5 Hnn fuel txs).
Qed.
Print Assumptions nonnull_unique_never_empty.

(* ---------------------------------------------------------------- ... and only then *)
(* The duplicate error is raised ONLY when the operation would give two entities the same unique value.
   [all_unique_ok sch s st]: every unique index declared on the root store s passes wf_unique_b and mirrors the
   entities of st (true in every reachable state: all_unique_ok_in_reachable_states below).
   [update_in sch oc (st, evs) s1 ...] is BaseStore.Update running in store s1 - the root store s itself or the child
   store the entity was routed to (op_update = update_in on upd_store, UniqueRejectProofs.op_update_eq).
   If it fails with EDuplicate then EITHER for one of the unique indexes (s, f) another present entity j <> i of the
   state the update started in holds the non-empty value the update persists in f ([dup_at] of [new_f]: the supplied
   value when the field checker lets f through, the entity's own old value - which nobody else holds - otherwise),
   OR s1 is a child store, every hook of the root store succeeded and the error was raised by the constraint list of
   that child store (a unique index declared on the child store). *)
Theorem unique_duplicate_only_when_held_update : forall sch s oc st evs s1 i fv sv ch,
  is_child sch s = false -> all_unique_ok sch s st -> root_of sch s1 = s ->
  update_in sch oc (st, evs) s1 i fv sv ch = Err EDuplicate ->
  (exists f nl, In (CUnique f nl) (cons_of sch s) /\
                dup_at sch s f st i (new_f sch s f false false fv ch (cur_ent s st i)))
  \/ (is_child sch s1 = true /\ exists svs stA,
        after_update_all sch (set_ent st s i (persist sch s1 false false fv sv ch (cur_ent s st i)))
                         (mkIctx false (oc_sys oc) s i) (cons_of sch s) (hd [] svs) = Ok stA /\
        after_update_all sch stA (mkIctx false (oc_sys oc) s1 i) (cons_of sch s1) (hd [] (tl svs)) = Err EDuplicate).
Proof. exact update_in_dup_only_if. Qed.
Print Assumptions unique_duplicate_only_when_held_update.

(* the same for a create through store s1 (root store or child store) *)
Theorem unique_duplicate_only_when_held_create : forall sch s oc st evs s1 i sys fv sv,
  is_child sch s = false -> all_unique_ok sch s st -> root_of sch s1 = s ->
  op_create sch oc (st, evs) s1 i sys fv sv = Err EDuplicate ->
  (exists f nl, In (CUnique f nl) (cons_of sch s) /\
                dup_at sch s f st i (new_f sch s f true sys fv None ent_empty))
  \/ (is_child sch s1 = true /\ exists stA,
        after_update_all sch (set_ent st s i (persist sch s1 true sys fv sv None ent_empty))
                         (mkIctx true (oc_sys oc) s i) (cons_of sch s) [] = Ok stA /\
        after_update_all sch stA (mkIctx true (oc_sys oc) s1 i) (cons_of sch s1) [] = Err EDuplicate).
Proof. exact op_create_dup_only_if. Qed.
Print Assumptions unique_duplicate_only_when_held_create.

(* the hypothesis of the two theorems holds in every reachable state *)
Theorem all_unique_ok_in_reachable_states : forall sch s fuel (txs : list tx),
  (forall f nl, In (CUnique f nl) (cons_of sch s) -> wf_unique_b sch s f = true) ->
  all_unique_ok sch s (run_txs sch fuel st_empty txs).
Proof. exact all_unique_ok_reachable. Qed.
Print Assumptions all_unique_ok_in_reachable_states.
