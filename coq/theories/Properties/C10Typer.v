(* C10 (typer / evaluator half) - typing and evaluation are total: no panics.
   [Panic] marks exactly the unchecked Go type assertions of ast/node_convert.go (handleBoolOps,
   handleInt64Ops, handleFloat64Ops, handleDatetimeOps) and the nil dereferences of the evaluator
   (compositeEntitySetSymbol.Eval without an open cursor, newCursorScanner with a nil store).
   Statements only. *)
From Coq Require Import List ZArith NArith Bool.
From Storage Require Import Base.Bytes Ast.F64 Ast.Values Ast.Schema Ast.Untyped Ast.Typed Ast.Typer
  Ast.Eval Ast.TyperProofs.

(* for every symbol table and every tree the listener can build (and every other tree), the typing pass
   returns a typed query or an error: none of its unchecked assertions can fail *)
Theorem typer_total :
  forall (sch : schema) (S : nat) (u : untyped), typer sch S u <> Panic.
Proof. exact typer_total_lemma. Qed.
Print Assumptions typer_total.

(* every query that types can be evaluated on any entity of any dataset - null fields, empty sets, dangling
   references, empty stores, even sets that are not sorted - without panicking *)
Theorem eval_total :
  forall (fmt_float : f64 -> str) (fmt_time : Z -> Z -> str) (sch : schema) (S : nat) (u : untyped) (t : typed),
    typer sch S u = Ok t ->
    forall (d : db) (id : str), eval fmt_float fmt_time (mk sch d S id) t <> Panic.
Proof. exact eval_total_lemma. Qed.
Print Assumptions eval_total.
