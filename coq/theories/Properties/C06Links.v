(* C06 for histories that use the single-link API of a link collection (LinkCollection.AddLink / RemoveLink - the
   variants that report whether they changed anything - and the IsLinked / IsEntityRelated probes), Store/LinkOne.v.
   These operations expand to plain operations of the store machine (one AddLinks / RemoveLinks with a single target per
   call), so the statements of Properties/C06.v carry over; they are restated here for such histories, together with
   what the returned bool must be when the link was written or removed EARLIER IN THE SAME TRANSACTION. *)
From Coq Require Import List NArith Bool.
From Storage Require Import Base.Bytes Store.Model Store.XOps Store.LinkOne Store.LinkOneProofs Store.NoTrace.
Import ListNotations.

(* Db.Update over a body with single-link operations = Db.Update over the plain operations it performs: same commit flag,
   same resulting database, same delivered events *)
Theorem ltx_is_tx : forall sch fuel st t rs bss c st' evs,
  run_ltx sch fuel st t = (rs, bss, c, st', evs) ->
  exists rs0, run_tx sch fuel st (ltx_flat sch fuel st t) = (rs0, c, st', evs).
Proof. exact run_ltx_is_run_tx. Qed.
Print Assumptions ltx_is_tx.

(* ... and a history of such transactions reaches the state its plain history reaches *)
Theorem ltxs_are_txs : forall sch fuel ts st,
  run_ltxs sch fuel st ts = run_txs sch fuel st (ltxs_flat sch fuel st ts).
Proof. exact run_ltxs_flat. Qed.
Print Assumptions ltxs_are_txs.

(* every operation leaves the database its expansion leaves: AddLink(i, t) that of AddLinks(i, [t]), RemoveLink(i, t)
   that of RemoveLinks(i, [t]), the probes none *)
Theorem single_link_op_is_its_expansion : forall sch fuel oc stev l,
  snd (run_lop sch fuel oc stev l) = snd (run_ops sch fuel oc stev (lexpand sch (fst stev) l)).
Proof. exact run_lop_expand. Qed.
Print Assumptions single_link_op_is_its_expansion.

(* a committed transaction that ends with the delete of x leaves a database without x - after any history in which
   links were added / removed one by one, inside or across transactions *)
Theorem committed_delete_leaves_no_trace_single_links : forall sch fuel (lts : list ltx) t pre s x rs bss st' evs,
  wf_notrace_b sch = true ->
  ltx_ops t = pre ++ [LBase (XBase (ODelete s x))] ->
  run_ltx sch fuel (run_ltxs sch fuel st_empty lts) t = (rs, bss, true, st', evs) ->
  ~ mentions sch st' (root_of sch s) x.
Proof. intros sch fuel lts t pre s x rs bss st' evs Hwf. exact (ltx_committed_delete sch Hwf fuel lts t pre s x rs bss st' evs). Qed.
Print Assumptions committed_delete_leaves_no_trace_single_links.

Theorem links_symmetric_single_links : forall sch fuel (lts : list ltx) s lf os of_ x t,
  wf_notrace_b sch = true -> In (lf, os, of_) (links_of sch s) ->
  let st := run_ltxs sch fuel st_empty lts in
  (In t (eset st (root_of sch s) x lf) <-> In x (eset st (root_of sch os) t of_)) /\
  (In t (eset st (root_of sch s) x lf) -> present sch st s x = true /\ present sch st os t = true).
Proof. intros sch fuel lts s lf os of_ x t Hwf. exact (ltx_links_symmetric sch Hwf fuel lts s lf os of_ x t). Qed.
Print Assumptions links_symmetric_single_links.

Theorem mentions_only_entities_single_links : forall sch fuel (lts : list ltx) R x,
  wf_notrace_b sch = true -> root_of sch R = R ->
  get_ent (run_ltxs sch fuel st_empty lts) R x = None -> ~ mentions sch (run_ltxs sch fuel st_empty lts) R x.
Proof. intros sch fuel lts R x Hwf. exact (ltx_absent sch Hwf fuel lts R x). Qed.
Print Assumptions mentions_only_entities_single_links.

(* the returned bool: a successful AddLink makes the link a member, a successful RemoveLink makes it a non-member - in
   the state the NEXT operation of the same transaction starts in (nothing needs to be committed in between) ... *)
Theorem add_link_then_member : forall sch fuel oc stev s i lf t stev1,
  run_op sch fuel oc stev (add1 s i lf t) = Ok stev1 -> link_member sch (fst stev1) s i lf t = true.
Proof. exact add1_then_member. Qed.
Print Assumptions add_link_then_member.

Theorem remove_link_then_not_member : forall sch fuel oc stev s i lf t stev1,
  run_op sch fuel oc stev (remove1 s i lf t) = Ok stev1 -> link_member sch (fst stev1) s i lf t = false.
Proof. exact remove1_then_not_member. Qed.
Print Assumptions remove_link_then_not_member.

(* ... so RemoveLink right after AddLink reports true (and really removes), AddLink after AddLink reports false, AddLink
   after RemoveLink reports true, RemoveLink after RemoveLink reports false *)
Theorem remove_after_add_reports_change : forall sch fuel oc stev s i lf t stev1,
  run_op sch fuel oc stev (add1 s i lf t) = Ok stev1 -> remove1_reports sch s i lf (fst stev1) t = true.
Proof. exact remove_after_add_reports_true. Qed.
Print Assumptions remove_after_add_reports_change.

Theorem add_after_add_reports_no_change : forall sch fuel oc stev s i lf t stev1,
  run_op sch fuel oc stev (add1 s i lf t) = Ok stev1 -> add1_reports sch s i lf (fst stev1) t = false.
Proof. exact add_after_add_reports_false. Qed.
Print Assumptions add_after_add_reports_no_change.

Theorem add_after_remove_reports_change : forall sch fuel oc stev s i lf t stev1,
  run_op sch fuel oc stev (remove1 s i lf t) = Ok stev1 -> add1_reports sch s i lf (fst stev1) t = true.
Proof. exact add_after_remove_reports_true. Qed.
Print Assumptions add_after_remove_reports_change.

Theorem remove_after_remove_reports_no_change : forall sch fuel oc stev s i lf t stev1,
  run_op sch fuel oc stev (remove1 s i lf t) = Ok stev1 -> remove1_reports sch s i lf (fst stev1) t = false.
Proof. exact remove_after_remove_reports_false. Qed.
Print Assumptions remove_after_remove_reports_no_change.

Theorem add_then_remove_in_one_transaction : forall sch fuel oc stev s i lf t bs stev2,
  run_lops sch fuel oc stev [LAddLink s i lf [t]; LRemoveLink s i lf [t]] = ([None; None], bs, Ok stev2) ->
  exists b, bs = [[b]; [true]] /\ link_member sch (fst stev2) s i lf t = false.
Proof. exact add_remove_in_one_body. Qed.
Print Assumptions add_then_remove_in_one_transaction.
