(* C02 - Sort order, skip, limit and total count are exact.
   Statements only; each closed by [exact] and followed by Print Assumptions.

   Vocabulary (models in Query/*.v):
     rows        the entities bucket, in ascending id order ([id_sorted]), fewer than 2^63 rows
     matches     the filter, as a predicate on rows (its evaluation is property C01)
     fs          the sort specification (0, 1, ... fields; id or a typed field, asc / desc)
     p           skip / limit as written in the query (absent, or an int64; `limit none` = -1)
     query_spec  ids of (page p (sort (filter matches rows))) and length (filter matches rows)
   [rows_ok] : no NaN among the float fields (the stated hypothesis on sort keys). *)
From Coq Require Import List ZArith NArith Bool Sorted Permutation.
From Storage Require Import Base.Bytes Query.Compare Query.CompareProofs Query.Paging Query.PagingProofs
  Query.ScanUnique Query.ScanUniqueProofs Query.ScanSort Query.ScanSortProofs
  Query.ChildScan Query.ChildScanProofs Query.Provider Query.ProviderProofs.
Import ListNotations.
Open Scope Z_scope.

(* the comparator built from ANY sort specification is a total preorder on NaN-free rows
   (antisymmetric up to sign, "not greater" transitive) and only rows with the same id tie *)
Theorem row_order_total_preorder : forall (fs : list sort_field) (a b c : row),
  row_ok a -> row_ok b -> row_ok c ->
  row_cmp fs b a = CompOpp (row_cmp fs a b) /\
  (row_cmp fs a b <> Gt -> row_cmp fs b c <> Gt -> row_cmp fs a c <> Gt) /\
  (row_cmp fs a b = Eq -> r_id a = r_id b).
Proof. exact row_order_total_preorder_lemma. Qed.
Print Assumptions row_order_total_preorder.

(* the order used by the specification is the unique ordered arrangement of the rows: the
   specification's sort returns l' iff l' is a permutation ordered by the comparator *)
Theorem spec_sort_characterised : forall (fs : list sort_field) (l l' : list row),
  rows_ok l -> NoDup (map r_id l) ->
  (sort_by (row_cmp fs) l = l' <-> Permutation l l' /\ StronglySorted (cle (row_cmp fs)) l').
Proof. exact spec_sort_characterised_lemma. Qed.
Print Assumptions spec_sort_characterised.

(* the page of the specification, in standard-library terms: drop max(skip,0), keep limit;
   absent / negative / none limit = unbounded *)
Theorem spec_page_meaning : forall (A : Type) (p : paging) (l : list A),
  page p l =
  let d := skipn (Z.to_nat (match pg_skip p with None => 0 | Some s => Z.max s 0 end)) l in
  match pg_limit p with
  | None => d
  | Some k => if k <? 0 then d else firstn (Z.to_nat k) d
  end.
Proof. exact spec_page_meaning_lemma. Qed.
Print Assumptions spec_page_meaning.

(* the id-ordered scan (forward / reverse bolt cursor with the offset/collected/count counters)
   is exact for every sort specification it is chosen for *)
Theorem scan_unique_exact : forall (matches : row -> bool) (fs : list sort_field) (p : paging)
                                   (forward : bool) (rows : list row),
  (if forward then fs = [] \/ id_first true fs else id_first false fs) ->
  id_sorted rows -> rows_ok rows -> Z.of_nat (length rows) <= max_int64 ->
  scan_unique matches p forward rows = query_spec fs p matches rows.
Proof. exact scan_unique_exact_lemma. Qed.
Print Assumptions scan_unique_exact.

(* the sorting scan (ordered tree pruned to offset+limit entries) is exact for EVERY sort
   specification, every skip and limit in the int64 range, whatever order the rows arrive in *)
Theorem scan_sorting_exact : forall (matches : row -> bool) (fs : list sort_field) (p : paging)
                                    (rows : list row),
  wf_paging p -> NoDup (map r_id rows) -> Z.of_nat (length rows) <= max_int64 ->
  scan_sorting matches fs p rows = query_spec fs p matches rows.
Proof. exact scan_sorting_exact_lemma. Qed.
Print Assumptions scan_sorting_exact.

(* key lemma of the bounded tree: inserting into the k smallest and dropping the largest
   yields the k smallest of the list with the element inserted *)
Theorem insert_then_trim_is_firstn : forall (A : Type) (cmp : A -> A -> comparison) (x : A)
                                            (s : list A) (k : Z),
  0 <= k -> k <= Z.of_nat (length s) ->
  removelast (insert_by cmp x (firstn (Z.to_nat k) s)) = firstn (Z.to_nat k) (insert_by cmp x s).
Proof. exact insert_then_trim_is_firstn_lemma. Qed.
Print Assumptions insert_then_trim_is_firstn.

(* QueryIds: whichever strategy NewScanner selects, the answer is the specified one *)
Theorem query_ids_exact : forall (matches : row -> bool) (fs : list sort_field) (p : paging)
                                 (rows : list row),
  wf_paging p -> id_sorted rows -> rows_ok rows -> Z.of_nat (length rows) <= max_int64 ->
  query_ids matches fs p rows = query_spec fs p matches rows.
Proof. exact query_ids_exact_lemma. Qed.
Print Assumptions query_ids_exact.

(* cursor-style iteration (IterateIds with a paged query): exactly the specified page of the
   matching rows in id order *)
Theorem iterate_paged_exact : forall (matches : row -> bool) (p : paging) (rows : list row),
  Z.of_nat (length rows) <= max_int64 ->
  iterate_ids matches p rows = map r_id (page p (filter matches rows)).
Proof. exact iterate_paged_exact_lemma. Qed.
Print Assumptions iterate_paged_exact.

(* ... which is the id list QueryIds returns for the same query in the default order *)
Theorem iterate_matches_query : forall (matches : row -> bool) (p : paging) (rows : list row),
  wf_paging p -> id_sorted rows -> rows_ok rows -> Z.of_nat (length rows) <= max_int64 ->
  iterate_ids matches p rows = fst (query_ids matches [] p rows).
Proof. exact iterate_matches_query_lemma. Qed.
Print Assumptions iterate_matches_query.

(* the count is the number of matching rows, whatever skip and limit are *)
Theorem count_independent_of_paging : forall (matches : row -> bool) (fs : list sort_field)
                                             (p p' : paging) (rows : list row),
  wf_paging p -> wf_paging p' -> id_sorted rows -> rows_ok rows ->
  Z.of_nat (length rows) <= max_int64 ->
  snd (query_ids matches fs p rows) = Z.of_nat (length (filter matches rows)) /\
  snd (query_ids matches fs p rows) = snd (query_ids matches fs p' rows).
Proof. exact count_independent_lemma. Qed.
Print Assumptions count_independent_of_paging.

(* the two scan strategies return the same answer wherever the id cursor is applicable *)
Theorem scanners_agree : forall (matches : row -> bool) (fs : list sort_field) (p : paging)
                                (forward : bool) (rows : list row),
  (if forward then fs = [] \/ id_first true fs else id_first false fs) ->
  wf_paging p -> id_sorted rows -> rows_ok rows -> Z.of_nat (length rows) <= max_int64 ->
  scan_unique matches p forward rows = scan_sorting matches fs p rows.
Proof. exact scanners_agree_lemma. Qed.
Print Assumptions scanners_agree.

(* paging parameters at the numeric extremes: an explicit limit that is at least the number of
   matching rows - n, 2^62, MaxInt64 - 1, ... with any skip, so also when skip + limit exceeds
   MaxInt64 - answers exactly like `limit none`, through QueryIds (either scan strategy) and
   through the paged iteration *)
Theorem huge_limit_is_unbounded : forall (matches : row -> bool) (fs : list sort_field)
                                         (sk : option Z) (k : Z) (rows : list row),
  wf_paging {| pg_skip := sk; pg_limit := Some k |} -> id_sorted rows -> rows_ok rows ->
  Z.of_nat (length rows) <= max_int64 ->
  Z.of_nat (length (filter matches rows)) <= k ->
  query_ids matches fs {| pg_skip := sk; pg_limit := Some k |} rows
    = query_ids matches fs {| pg_skip := sk; pg_limit := limit_none |} rows /\
  iterate_ids matches {| pg_skip := sk; pg_limit := Some k |} rows
    = iterate_ids matches {| pg_skip := sk; pg_limit := limit_none |} rows.
Proof. exact huge_limit_is_unbounded_lemma. Qed.
Print Assumptions huge_limit_is_unbounded.

(* a skip that reaches the number of matching rows (n, 2^62, MaxInt64, ...) returns no ids, whatever
   the limit, and the count is still the number of matching rows *)
Theorem skip_beyond_count : forall (matches : row -> bool) (fs : list sort_field)
                                   (p : paging) (rows : list row),
  wf_paging p -> id_sorted rows -> rows_ok rows -> Z.of_nat (length rows) <= max_int64 ->
  Z.of_nat (length (filter matches rows)) <= spec_skip p ->
  query_ids matches fs p rows = ([], Z.of_nat (length (filter matches rows))) /\
  iterate_ids matches p rows = [].
Proof. exact skip_beyond_count_lemma. Qed.
Print Assumptions skip_beyond_count.

(* ---- queries through child stores (Query/ChildScan.v) ---------------------------------------------
   A child store scans the entities bucket of its root store; [sv] says whether the queried store is
   a child store and whether it is extended, [present] is IsEntityPresent.  The entities of the store
   are [store_rows sv present rows]: every row for a root store and for an extended child store, the
   rows that have the child's bucket otherwise. *)
Theorem child_store_entities : forall (present : row -> bool) (rows : list row),
  store_rows root_view present rows = rows /\
  store_rows {| sv_child := true; sv_extended := true |} present rows = rows /\
  store_rows {| sv_child := true; sv_extended := false |} present rows = filter present rows.
Proof. exact store_rows_cases_lemma. Qed.
Print Assumptions child_store_entities.

(* QueryIds / QueryWithCursorC (whichever strategy NewScanner selects), the sorting scan on its own
   and the paged iteration of ANY store of a parent / child chain answer exactly as specified over the
   entities of that store: rows of the parent that are not part of the store are neither returned,
   nor counted, nor do they take a place in the bounded result tree *)
Theorem child_store_query_exact : forall (sv : store_view) (present matches : row -> bool)
    (fs : list sort_field) (p : paging) (rows : list row),
  wf_paging p -> id_sorted rows -> rows_ok rows -> Z.of_nat (length rows) <= max_int64 ->
  child_query_ids sv present matches fs p rows = query_spec fs p matches (store_rows sv present rows) /\
  child_scan_sorting sv present matches fs p rows = query_spec fs p matches (store_rows sv present rows) /\
  child_iterate_ids sv present matches p rows = map r_id (page p (filter matches (store_rows sv present rows))).
Proof. exact child_store_exact_lemma. Qed.
Print Assumptions child_store_query_exact.

(* the count is the number of matching entities OF THE QUERIED STORE, for every sort specification
   (= every scan strategy) and every skip / limit *)
Theorem child_store_count : forall (sv : store_view) (present matches : row -> bool)
    (fs : list sort_field) (p p' : paging) (rows : list row),
  wf_paging p -> wf_paging p' -> id_sorted rows -> rows_ok rows -> Z.of_nat (length rows) <= max_int64 ->
  snd (child_query_ids sv present matches fs p rows)
    = Z.of_nat (length (filter matches (store_rows sv present rows))) /\
  snd (child_query_ids sv present matches fs p rows) = snd (child_query_ids sv present matches fs p' rows).
Proof. exact child_count_lemma. Qed.
Print Assumptions child_store_count.

Theorem child_store_scanners_agree : forall (sv : store_view) (present matches : row -> bool)
    (fs : list sort_field) (p : paging) (forward : bool) (rows : list row),
  (if forward then fs = [] \/ id_first true fs else id_first false fs) ->
  wf_paging p -> id_sorted rows -> rows_ok rows -> Z.of_nat (length rows) <= max_int64 ->
  child_scan_unique sv present matches p forward rows = child_scan_sorting sv present matches fs p rows.
Proof. exact child_strategies_agree_lemma. Qed.
Print Assumptions child_store_scanners_agree.

(* ---- re-execution of a compiled query --------------------------------------------------------------
   [run_prog] threads the query object through the executions the way the code does (every execution
   leaves the object with the skip / limit that setPaging wrote back); [pure_prog] evaluates every
   execution on the query as the caller's own mutators (SetSkip, SetLimit, AdoptSortFields,
   SetPredicate) left it.  They are the same, without any hypothesis: the answer of a compiled query
   depends on the query text, the caller's mutators and the state only - not on how often, through
   which entry point (QueryIdsC, QueryWithCursorC, IterateIds, the objectz twin) or in which
   interleaving it has been run before *)
Theorem compiled_query_rerun_pure : forall (sv : store_view) (present : row -> bool) (rows : list row)
    (q : cquery) (ops : list qop),
  run_prog sv present rows q ops = pure_prog sv present rows q ops.
Proof. exact rerun_pure_lemma. Qed.
Print Assumptions compiled_query_rerun_pure.

(* one execution returns the query meaning the same: predicate and sort fields untouched, the
   effective (skip, limit) - what setPaging hands to the scanner - unchanged *)
Theorem execution_preserves_query_meaning : forall (sv : store_view) (present : row -> bool)
    (rows : list row) (e : entry) (q : cquery),
  cq_match (snd (exec sv present rows e q)) = cq_match q /\
  cq_sort (snd (exec sv present rows e q)) = cq_sort q /\
  effective_paging (snd (exec sv present rows e q)) = effective_paging q.
Proof. exact exec_qeq. Qed.
Print Assumptions execution_preserves_query_meaning.

(* ... and every answer of such a program is the specified answer of the query as the mutators left it *)
Theorem compiled_query_rerun_exact : forall (sv : store_view) (present : row -> bool) (rows : list row),
  id_sorted rows -> rows_ok rows -> Z.of_nat (length rows) <= max_int64 ->
  forall (q : cquery) (ops : list qop),
  Forall qop_wf ops -> wf_paging (cq_paging q) ->
  run_prog sv present rows q ops = spec_prog sv present rows q ops.
Proof. exact rerun_exact_lemma. Qed.
Print Assumptions compiled_query_rerun_exact.

(* ---- QueryWithCursorC over a cursor provider (Query/Provider.v) ------------------------------------------
   [cand] is the raw list of candidate ids as the provider's sources name them (the members of several index
   values, the insertions into a tree set, the two sides of a union ...): any order, repetitions allowed.  The
   provider's cursor is a set cursor over them, so the scan walks [provider_rows cand rows].  The specification
   [provider_query_spec]: the specified answer for "is a candidate and matches" over the entities of the store.

   QueryWithCursorC over a provider - whichever strategy NewScanner selects, and the sorting scan on its own -
   answers exactly as specified, through any store of a chain, for every int64 skip / limit *)
Theorem provider_query_exact : forall (sv : store_view) (present : row -> bool) (cand : list str)
    (matches : row -> bool) (fs : list sort_field) (p : paging) (rows : list row),
  wf_paging p -> id_sorted rows -> rows_ok rows -> Z.of_nat (length rows) <= max_int64 ->
  provider_query_ids sv present cand matches fs p rows = provider_query_spec sv present cand matches fs p rows /\
  provider_scan_sorting sv present cand matches fs p rows = provider_query_spec sv present cand matches fs p rows.
Proof. exact provider_query_exact_lemma. Qed.
Print Assumptions provider_query_exact.

(* the answer depends on the SET of candidate ids only - no hypotheses: two candidate lists with the same members, in
   any order and with any repetitions, give the same ids in the same order and the same count *)
Theorem provider_answer_depends_on_candidate_set_only : forall (sv : store_view) (present : row -> bool)
    (c1 c2 : list str) (matches : row -> bool) (fs : list sort_field) (p : paging) (rows : list row),
  (forall id, In id c1 <-> In id c2) ->
  provider_query_ids sv present c1 matches fs p rows = provider_query_ids sv present c2 matches fs p rows /\
  provider_scan_sorting sv present c1 matches fs p rows = provider_scan_sorting sv present c2 matches fs p rows /\
  provider_query_spec sv present c1 matches fs p rows = provider_query_spec sv present c2 matches fs p rows.
Proof. exact provider_set_only_lemma. Qed.
Print Assumptions provider_answer_depends_on_candidate_set_only.

(* the count is the number of distinct matching candidates among the entities of the store (the rows counted have
   pairwise different ids), whatever the sort specification (scan strategy), skip and limit are *)
Theorem provider_count_distinct_candidates : forall (sv : store_view) (present : row -> bool) (cand : list str)
    (matches : row -> bool) (fs fs' : list sort_field) (p p' : paging) (rows : list row),
  wf_paging p -> wf_paging p' -> id_sorted rows -> rows_ok rows -> Z.of_nat (length rows) <= max_int64 ->
  snd (provider_query_ids sv present cand matches fs p rows)
    = Z.of_nat (length (filter (fun r => cand_mem cand r && matches r) (store_rows sv present rows))) /\
  snd (provider_query_ids sv present cand matches fs p rows) = snd (provider_query_ids sv present cand matches fs' p' rows) /\
  NoDup (map r_id (filter (fun r => cand_mem cand r && matches r) (store_rows sv present rows))).
Proof. exact provider_count_lemma. Qed.
Print Assumptions provider_count_distinct_candidates.

(* the entities bucket is one provider among the others: candidates that include every row change nothing *)
Theorem bucket_is_a_provider : forall (sv : store_view) (present : row -> bool) (cand : list str)
    (matches : row -> bool) (fs : list sort_field) (p : paging) (rows : list row),
  (forall r, In r rows -> In (r_id r) cand) ->
  provider_query_ids sv present cand matches fs p rows = child_query_ids sv present matches fs p rows.
Proof. exact provider_all_rows_lemma. Qed.
Print Assumptions bucket_is_a_provider.
