(* C02 - Sort order, skip, limit and total count are exact.
   Statements only; each closed by [exact] and followed by Print Assumptions.

   Vocabulary (models in Query/*.v):
     rows        the entities bucket, in ascending id order ([id_sorted]), fewer than 2^63 rows
     matches     the filter, as a predicate on rows (its evaluation is property C01)
     fs          the sort specification (0, 1, ... fields; id or a typed field, asc / desc)
     p           skip / limit as written in the query (absent, or an int64; `limit none` = -1)
     query_spec  ids of (page p (sort (filter matches rows))) and length (filter matches rows)
   [rows_ok] : no NaN among the float fields (the stated hypothesis on sort keys). *)
From Coq Require Import List ZArith NArith Bool Sorted Permutation.
From Storage Require Import Base.Bytes Query.Compare Query.CompareProofs Query.Paging Query.PagingProofs
  Query.ScanUnique Query.ScanUniqueProofs Query.ScanSort Query.ScanSortProofs.
Import ListNotations.
Open Scope Z_scope.

(* the comparator built from ANY sort specification is a total preorder on NaN-free rows
   (antisymmetric up to sign, "not greater" transitive) and only rows with the same id tie *)
Theorem row_order_total_preorder : forall (fs : list sort_field) (a b c : row),
  row_ok a -> row_ok b -> row_ok c ->
  row_cmp fs b a = CompOpp (row_cmp fs a b) /\
  (row_cmp fs a b <> Gt -> row_cmp fs b c <> Gt -> row_cmp fs a c <> Gt) /\
  (row_cmp fs a b = Eq -> r_id a = r_id b).
Proof. exact row_order_total_preorder_lemma. Qed.
Print Assumptions row_order_total_preorder.

(* the order used by the specification is the unique ordered arrangement of the rows: the
   specification's sort returns l' iff l' is a permutation ordered by the comparator *)
Theorem spec_sort_characterised : forall (fs : list sort_field) (l l' : list row),
  rows_ok l -> NoDup (map r_id l) ->
  (sort_by (row_cmp fs) l = l' <-> Permutation l l' /\ StronglySorted (cle (row_cmp fs)) l').
Proof. exact spec_sort_characterised_lemma. Qed.
Print Assumptions spec_sort_characterised.

(* the page of the specification, in standard-library terms: drop max(skip,0), keep limit;
   absent / negative / none limit = unbounded *)
Theorem spec_page_meaning : forall (A : Type) (p : paging) (l : list A),
  page p l =
  let d := skipn (Z.to_nat (match pg_skip p with None => 0 | Some s => Z.max s 0 end)) l in
  match pg_limit p with
  | None => d
  | Some k => if k <? 0 then d else firstn (Z.to_nat k) d
  end.
Proof. exact spec_page_meaning_lemma. Qed.
Print Assumptions spec_page_meaning.

(* the id-ordered scan (forward / reverse bolt cursor with the offset/collected/count counters)
   is exact for every sort specification it is chosen for *)
Theorem scan_unique_exact : forall (matches : row -> bool) (fs : list sort_field) (p : paging)
                                   (forward : bool) (rows : list row),
  (if forward then fs = [] \/ id_first true fs else id_first false fs) ->
  id_sorted rows -> rows_ok rows -> Z.of_nat (length rows) <= max_int64 ->
  scan_unique matches p forward rows = query_spec fs p matches rows.
Proof. exact scan_unique_exact_lemma. Qed.
Print Assumptions scan_unique_exact.

(* the sorting scan (ordered tree pruned to offset+limit entries) is exact for EVERY sort
   specification, every skip and limit in the int64 range, whatever order the rows arrive in *)
Theorem scan_sorting_exact : forall (matches : row -> bool) (fs : list sort_field) (p : paging)
                                    (rows : list row),
  wf_paging p -> NoDup (map r_id rows) -> Z.of_nat (length rows) <= max_int64 ->
  scan_sorting matches fs p rows = query_spec fs p matches rows.
Proof. exact scan_sorting_exact_lemma. Qed.
Print Assumptions scan_sorting_exact.

(* key lemma of the bounded tree: inserting into the k smallest and dropping the largest
   yields the k smallest of the list with the element inserted *)
Theorem insert_then_trim_is_firstn : forall (A : Type) (cmp : A -> A -> comparison) (x : A)
                                            (s : list A) (k : Z),
  0 <= k -> k <= Z.of_nat (length s) ->
  removelast (insert_by cmp x (firstn (Z.to_nat k) s)) = firstn (Z.to_nat k) (insert_by cmp x s).
Proof. exact insert_then_trim_is_firstn_lemma. Qed.
Print Assumptions insert_then_trim_is_firstn.

(* QueryIds: whichever strategy NewScanner selects, the answer is the specified one *)
Theorem query_ids_exact : forall (matches : row -> bool) (fs : list sort_field) (p : paging)
                                 (rows : list row),
  wf_paging p -> id_sorted rows -> rows_ok rows -> Z.of_nat (length rows) <= max_int64 ->
  query_ids matches fs p rows = query_spec fs p matches rows.
Proof. exact query_ids_exact_lemma. Qed.
Print Assumptions query_ids_exact.

(* cursor-style iteration (IterateIds with a paged query): exactly the specified page of the
   matching rows in id order *)
Theorem iterate_paged_exact : forall (matches : row -> bool) (p : paging) (rows : list row),
  Z.of_nat (length rows) <= max_int64 ->
  iterate_ids matches p rows = map r_id (page p (filter matches rows)).
Proof. exact iterate_paged_exact_lemma. Qed.
Print Assumptions iterate_paged_exact.

(* ... which is the id list QueryIds returns for the same query in the default order *)
Theorem iterate_matches_query : forall (matches : row -> bool) (p : paging) (rows : list row),
  wf_paging p -> id_sorted rows -> rows_ok rows -> Z.of_nat (length rows) <= max_int64 ->
  iterate_ids matches p rows = fst (query_ids matches [] p rows).
Proof. exact iterate_matches_query_lemma. Qed.
Print Assumptions iterate_matches_query.

(* the count is the number of matching rows, whatever skip and limit are *)
Theorem count_independent_of_paging : forall (matches : row -> bool) (fs : list sort_field)
                                             (p p' : paging) (rows : list row),
  wf_paging p -> wf_paging p' -> id_sorted rows -> rows_ok rows ->
  Z.of_nat (length rows) <= max_int64 ->
  snd (query_ids matches fs p rows) = Z.of_nat (length (filter matches rows)) /\
  snd (query_ids matches fs p rows) = snd (query_ids matches fs p' rows).
Proof. exact count_independent_lemma. Qed.
Print Assumptions count_independent_of_paging.

(* the two scan strategies return the same answer wherever the id cursor is applicable *)
Theorem scanners_agree : forall (matches : row -> bool) (fs : list sort_field) (p : paging)
                                (forward : bool) (rows : list row),
  (if forward then fs = [] \/ id_first true fs else id_first false fs) ->
  wf_paging p -> id_sorted rows -> rows_ok rows -> Z.of_nat (length rows) <= max_int64 ->
  scan_unique matches p forward rows = scan_sorting matches fs p rows.
Proof. exact scanners_agree_lemma. Qed.
Print Assumptions scanners_agree.

(* paging parameters at the numeric extremes: an explicit limit that is at least the number of
   matching rows - n, 2^62, MaxInt64 - 1, ... with any skip, so also when skip + limit exceeds
   MaxInt64 - answers exactly like `limit none`, through QueryIds (either scan strategy) and
   through the paged iteration *)
Theorem huge_limit_is_unbounded : forall (matches : row -> bool) (fs : list sort_field)
                                         (sk : option Z) (k : Z) (rows : list row),
  wf_paging {| pg_skip := sk; pg_limit := Some k |} -> id_sorted rows -> rows_ok rows ->
  Z.of_nat (length rows) <= max_int64 ->
  Z.of_nat (length (filter matches rows)) <= k ->
  query_ids matches fs {| pg_skip := sk; pg_limit := Some k |} rows
    = query_ids matches fs {| pg_skip := sk; pg_limit := limit_none |} rows /\
  iterate_ids matches {| pg_skip := sk; pg_limit := Some k |} rows
    = iterate_ids matches {| pg_skip := sk; pg_limit := limit_none |} rows.
Proof. exact huge_limit_is_unbounded_lemma. Qed.
Print Assumptions huge_limit_is_unbounded.

(* a skip that reaches the number of matching rows (n, 2^62, MaxInt64, ...) returns no ids, whatever
   the limit, and the count is still the number of matching rows *)
Theorem skip_beyond_count : forall (matches : row -> bool) (fs : list sort_field)
                                   (p : paging) (rows : list row),
  wf_paging p -> id_sorted rows -> rows_ok rows -> Z.of_nat (length rows) <= max_int64 ->
  Z.of_nat (length (filter matches rows)) <= spec_skip p ->
  query_ids matches fs p rows = ([], Z.of_nat (length (filter matches rows))) /\
  iterate_ids matches p rows = [].
Proof. exact skip_beyond_count_lemma. Qed.
Print Assumptions skip_beyond_count.
