(* C18 - Concurrent use: snapshot-isolated reads and no data races.
   Statements only; each closed by [exact] and followed by Print Assumptions.
   First half (Db/Mvcc.v): for ALL interleavings of reader steps with writer commits.  Queries,
   states and writer transactions are arbitrary (Section variables made explicit here).
   Second half (Db/Access.v + Gen/GenAccess.v): a finite-domain proof over the table that
   translators/access regenerates from the Go source on every run - the obligation about the
   generated table itself is in Properties/C18Table.v, so that a source change which breaks it
   leaves the theorems of this file checked.  Data races as such are a notion
   of the Go memory model; what is proved is the absence of conflicting unsynchronised accesses in
   that table - the race detector run of the harness is the schedule search (design/C18.md). *)
From Coq Require Import List String Bool Arith.
From Storage Require Import Db.Mvcc Db.MvccProofs Db.MvccKeepProofs Db.MvccFailProofs Db.Access Db.AccessProofs Db.Workload Db.WorkloadProofs.
Import ListNotations.

(* Every read transaction observes exactly one committed state: each answer is the evaluation of
   its query on a version of the committed history, and all answers given inside one transaction
   come from the same version - whatever the writer commits meanwhile, for every schedule [es] of
   begin / read / end events of any number of readers and writer transactions. *)
Theorem reader_sees_one_committed_state :
  forall (state query answer : Type) (eval : query -> state -> answer)
         (wtx : Type) (apply_tx : wtx -> state -> option state)
         (v0 : state) (n : nat) (es : list (event query wtx)) (r : reader query answer),
  let s := run state query answer eval wtx apply_tx (init state query answer v0 n) es in
  In r (readers state query answer s) ->
  (forall o, In o (r_obs query answer r) ->
     exists st, nth_error (versions state query answer s) (o_ver query answer o) = Some st
                /\ o_a query answer o = eval (o_q query answer o) st)
  /\ (forall o1 o2, In o1 (r_obs query answer r) -> In o2 (r_obs query answer r) ->
        o_tx query answer o1 = o_tx query answer o2 -> o_ver query answer o1 = o_ver query answer o2).
Proof. exact reader_sees_one_committed_state_lemma. Qed.
Print Assumptions reader_sees_one_committed_state.

(* ... and that version is a state of the SERIAL execution of the writer's transactions alone
   (all of a transaction's effects or none of them): the reader's answer equals what a serial
   execution returns on that state. *)
Theorem reader_equals_serial :
  forall (state query answer : Type) (eval : query -> state -> answer)
         (wtx : Type) (apply_tx : wtx -> state -> option state)
         (v0 : state) (n : nat) (es : list (event query wtx)) (r : reader query answer) (o : obs query answer),
  In r (readers state query answer (run state query answer eval wtx apply_tx (init state query answer v0 n) es)) ->
  In o (r_obs query answer r) ->
  exists st, nth_error (serial_versions state wtx apply_tx v0 (commits query wtx es)) (o_ver query answer o) = Some st
             /\ o_a query answer o = eval (o_q query answer o) st.
Proof. exact reader_equals_serial_lemma. Qed.
Print Assumptions reader_equals_serial.

(* the meaning of the boolean check, for any table *)
Theorem no_conflict_means_reads_only : forall t, no_conflict t = true ->
  forall h1 h2, In h1 t -> In h2 t ->
  forall a b, In a (h_acc h1) -> In b (h_acc h2) ->
    a_loc a = a_loc b -> a_sync a = false -> a_sync b = false ->
    a_kind a = ARead /\ a_kind b = ARead.
Proof. exact no_conflict_sound. Qed.
Print Assumptions no_conflict_means_reads_only.

(* The correspondence harness runs the same stores at several places of one database (base paths of
   depth 0 to 3) and lets a reader address one of them per query: the serial answer it is compared
   with is the answer of the query itself, whatever the place - so the two theorems above, taken at
   query type [placed] with [eval_placed], speak about exactly the answers of [eval_query]. *)
Theorem placed_answer_independent_of_place : forall (d1 d2 : nat) (q : query) (s : wstate),
  eval_placed (d1, q) s = eval_placed (d2, q) s.
Proof. exact eval_placed_place_irrelevant. Qed.
Print Assumptions placed_answer_independent_of_place.

(* What a reader has read stays what it was: whatever happens after an observation was made - further
   reads, the end of its transaction, any number of writer transactions - the reader still holds it,
   unchanged, below everything it observed later.  (The harness keeps entities, maps and id lists beyond
   the read transaction and compares them with their rendering at load time after later commits and
   restores: case lines "K".) *)
Theorem kept_observations_persist :
  forall (state query answer : Type) (eval : query -> state -> answer)
         (wtx : Type) (apply_tx : wtx -> state -> option state)
         (es : list (event query wtx)) (s : sys state query answer) (i : nat) (r : reader query answer),
  nth_error (readers state query answer s) i = Some r ->
  exists r', nth_error (readers state query answer (run state query answer eval wtx apply_tx s es)) i = Some r'
             /\ exists newer, r_obs query answer r' = newer ++ r_obs query answer r.
Proof. exact kept_observations_persist_lemma. Qed.
Print Assumptions kept_observations_persist.

(* A writer transaction that fails leaves no trace, wherever it stands in the schedule: if [w] fails on the
   newest version when its turn comes ([apply_tx w] answers [None] - whatever it wrote before it failed), the
   run with it IS the run without it - the same versions, the same readers with the same observations, for
   every prefix [es1] and every continuation [es2] of reader steps and writer transactions.  (The harness
   lets transactions fail part-way - after entity, index and link writes - through Db.Update and Db.Batch,
   alone and coalesced with other callers, next to the readers: case lines "W 0 .. fail <kind> <k>".) *)
Theorem failed_transaction_leaves_no_trace :
  forall (state query answer : Type) (eval : query -> state -> answer)
         (wtx : Type) (apply_tx : wtx -> state -> option state)
         (s : sys state query answer) (es1 : list (event query wtx)) (w : wtx) (es2 : list (event query wtx)),
  let s1 := run state query answer eval wtx apply_tx s es1 in
  (forall st, nth_error (versions state query answer s1) (current state query answer s1) = Some st -> apply_tx w st = None) ->
  run state query answer eval wtx apply_tx s (es1 ++ ECommit query wtx w :: es2)
  = run state query answer eval wtx apply_tx s (es1 ++ es2).
Proof. exact failed_transaction_leaves_no_trace_lemma. Qed.
Print Assumptions failed_transaction_leaves_no_trace.

(* ... and it is not a version of the serial execution the readers' answers are compared with: the version
   sequence does not advance on a failed transaction. *)
Theorem failed_transaction_not_a_version :
  forall (state : Type) (wtx : Type) (apply_tx : wtx -> state -> option state)
         (v0 : state) (ws1 : list wtx) (w : wtx) (ws2 : list wtx),
  apply_tx w (last (serial state wtx apply_tx v0 ws1) v0) = None ->
  serial_versions state wtx apply_tx v0 (ws1 ++ w :: ws2) = serial_versions state wtx apply_tx v0 (ws1 ++ ws2).
Proof. exact failed_transaction_not_a_version_lemma. Qed.
Print Assumptions failed_transaction_not_a_version.
