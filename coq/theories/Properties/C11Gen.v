(* C11, translator path: the replacement pairs and the statement shape of ParseZqlString as read from
   zitiql/util.go on this run (Gen/GenUnescape.v) are the ones the model Lang/Unescape.v was proved for,
   hence the code as written computes the model function - for every input. *)
From Coq Require Import List NArith Bool.
From Storage Require Import Base.Bytes Lang.Unescape Lang.UnescapeGen Lang.UnescapeGenProofs Gen.GenUnescape.
Import ListNotations.

Theorem generated_pairs_expected : GenUnescape.pairs = expected_pairs.
Proof. vm_compute. reflexivity. Qed.
Print Assumptions generated_pairs_expected.

Theorem generated_body_expected : GenUnescape.body = expected_body.
Proof. vm_compute. reflexivity. Qed.
Print Assumptions generated_body_expected.

(* the source, read as "trim the quotes, then one strings.NewReplacer pass over these pairs", is the model *)
Theorem source_is_model : forall s, run_body GenUnescape.pairs GenUnescape.body s = Some (parse_zql_string s).
Proof. rewrite generated_pairs_expected, generated_body_expected. exact expected_is_model. Qed.
Print Assumptions source_is_model.
