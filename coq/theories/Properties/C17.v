(* C17 - Snapshot and restore reproduce the database exactly.
   Statements only; each closed by [exact] and followed by Print Assumptions.
   Models: Db/Content.v (bucket tree), Db/Timeline.v (GetTimelineId), Db/Snapshot.v (the handle
   as a state machine), Db/RwLock.v (reloadLock protocol).  The file-system rename, bbolt
   open/close and sync.RWMutex themselves are trusted (design/C17.md). *)
From Coq Require Import List NArith Bool Arith.
From Storage Require Import Base.Bytes Db.RwLock Db.RwLockProofs Db.Content Db.Timeline Db.Snapshot Db.SnapshotProofs.
From Storage Require Import Db.Reader Db.ReaderProofs Db.RestoreX Db.RestoreXProofs Db.RestoreJoin Db.RestoreJoinProofs.
From Storage Require Import Db.SnapPath Db.SnapPathProofs Db.RestoreMeta Db.RestoreMetaProofs.
Import ListNotations.

(* For every database state d0 and every history  pre ; snapshot (any of Snapshot, SnapshotInTx in
   a read transaction, SnapshotInTx in a write transaction) ; post ; restore of that snapshot -
   where pre and post are arbitrary lists of operations (transactions committed or rolled back,
   further snapshots, streams, other restores, timeline requests, listener registrations):
   the content after the restore is the content committed at snapshot time plus the two markers
   (and the meta bucket that holds them); every other path reads exactly as at snapshot time. *)
Theorem restore_reproduces_snapshot : forall (d0 : db) (pre post : list op) (k : snap_kind),
  let at_snapshot := live (run d0 pre) in
  let after := live (restored d0 pre k post) in
  let id := snap_id d0 pre k in
  after = mark id at_snapshot
  /\ (forall p, p <> p_snapshotId -> p <> p_resetTimeline -> p <> p_meta -> lookup p after = lookup p at_snapshot)
  /\ lookup p_meta after = Some EBucket
  /\ lookup p_snapshotId after = Some (EVal (enc_string id))
  /\ lookup p_resetTimeline after = Some (EVal (enc_bool true)).
Proof. exact restore_reproduces_snapshot_lemma. Qed.
Print Assumptions restore_reproduces_snapshot.

(* taking a snapshot does not change the live database (the markers go into the copy only) *)
Theorem snapshot_leaves_live : forall d : db,
  live (fst (snapshot_step d SKPlain)) = live d /\ live (fst (snapshot_step d SKInView)) = live d
  /\ forall b a, live (fst (snapshot_step d (SKInUpdate b a false))) = live d.
Proof. exact snapshot_leaves_live_lemma. Qed.
Print Assumptions snapshot_leaves_live.

(* after the restore GetSnapshotId reports the id that the snapshot call returned ... *)
Theorem snapshot_id_reported : forall (d0 : db) (pre : list op) (k : snap_kind) (post : list op),
  snd (step (restored d0 pre k post) OGetSnapshotId) = ObSnapId (Some (snap_id d0 pre k)).
Proof. exact snapshot_id_reported_lemma. Qed.
Print Assumptions snapshot_id_reported.

(* ... and that id identifies the snapshot: two snapshots of one history never share an id *)
Theorem snapshot_ids_distinct : forall (d0 : db) (pre : list op) (k1 : snap_kind) (mid : list op) (k2 : snap_kind),
  let d1 := run d0 pre in
  let id1 := snd (snapshot_step d1 k1) in
  let d2 := run (fst (snapshot_step d1 k1)) mid in
  let id2 := snd (snapshot_step d2 k2) in
  id1 <> id2.
Proof. exact snapshot_ids_distinct_lemma. Qed.
Print Assumptions snapshot_ids_distinct.

(* every restore listener registered at that time is started once by the restore *)
Theorem restore_listeners_fire : forall (d0 : db) (pre : list op) (k : snap_kind) (post : list op),
  let d3 := run (fst (snapshot_step (run d0 pre) k)) post in
  fired (restored d0 pre k post) = (fired d3 + listeners d3)%nat.
Proof. exact restore_listeners_fire_lemma. Qed.
Print Assumptions restore_listeners_fire.

(* the first GetTimelineId after the restore - in any mode - calls idF and returns its id; the
   next request in default or initIfEmpty mode returns the same id without calling idF, whatever
   idF would have returned *)
Theorem timeline_fresh_once : forall (d0 : db) (pre : list op) (k : snap_kind) (post : list op)
    (m m2 : tmode) (t : str) (idf2 : option str),
  let d4 := restored d0 pre k post in
  let d5 := timeline_db d4 m (Some t) in
  m2 <> MForceReset ->
  timeline_obs d4 m (Some t) = ObTimeline (Some t) true
  /\ idf_calls d5 = S (idf_calls d4)
  /\ timeline_obs d5 m2 idf2 = ObTimeline (Some t) false
  /\ idf_calls (timeline_db d5 m2 idf2) = idf_calls d5.
Proof. exact timeline_fresh_once_lemma. Qed.
Print Assumptions timeline_fresh_once.

(* forceReset mode asks idF on every call, in every state *)
Theorem timeline_force_reset : forall (d : db) (m : tmode) (t t2 : str),
  timeline_obs (timeline_db d m (Some t)) MForceReset (Some t2) = ObTimeline (Some t2) true.
Proof. exact timeline_force_reset_lemma. Qed.
Print Assumptions timeline_force_reset.

(* when idF fails the request fails, nothing is written, and the next request is still the fresh one *)
Theorem timeline_error_keeps_flag : forall (d0 : db) (pre : list op) (k : snap_kind) (post : list op)
    (m m2 : tmode) (t : str),
  let d4 := restored d0 pre k post in
  let d5 := timeline_db d4 m None in
  timeline_obs d4 m None = ObTimeline None true
  /\ live d5 = live d4
  /\ timeline_obs d5 m2 (Some t) = ObTimeline (Some t) true.
Proof. exact timeline_error_keeps_flag_lemma. Qed.
Print Assumptions timeline_error_keeps_flag.

(* the decision table of GetTimelineId for all three modes: idF is asked iff the reset flag is
   set, or the mode is forceReset, or the mode is initIfEmpty and no id is stored *)
Theorem timeline_called_iff : forall (m : tmode) (idf : option str) (c : content),
  tl_called (get_timeline_id m idf c) =
    get_bool_default (lookup p_resetTimeline c) false
    || match m with
       | MForceReset => true
       | MInitIfEmpty => match get_string (lookup p_timelineId c) with None => true | Some _ => false end
       | MDefault => false
       end.
Proof. exact timeline_called_iff_lemma. Qed.
Print Assumptions timeline_called_iff.

(* For any number of transaction threads and restorers, any transaction bodies, either lock
   preference and EVERY interleaving (schedule): all steps of a transaction observe one and the
   same open handle - the one bound when it began - and while it runs that handle is the current
   one.  So a transaction sees the old database or the new one in full, never a mixture and never
   a closed handle. *)
Theorem restore_atomic_wrt_tx : forall (p : bool) (ths : list thread) (sched : list nat),
  Forall initial_thread ths ->
  let s := RwLock.run (init p ths) sched in
  forall i pc plan inner b seen,
    nth_error (threads s) i = Some (Tx pc plan inner b seen) ->
    Forall (eq b) seen
    /\ (seen <> [] -> b <> None)
    /\ (pc = TxInTx \/ pc = TxCommitted -> b = cur s /\ cur s <> None).
Proof. exact restore_atomic_wrt_tx_lemma. Qed.
Print Assumptions restore_atomic_wrt_tx.

(* When transaction bodies take no read lock of their own (the code after fix
   C17-recursive-rlock), some thread can always move until every thread has finished: restores
   and transactions never block each other for ever, whatever the lock's preference. *)
Theorem no_deadlock : forall (p : bool) (ths : list thread) (sched : list nat),
  Forall initial_thread ths -> forallb no_recursion ths = true ->
  let s := RwLock.run (init p ths) sched in
  forallb finished (threads s) = true \/ exists i, RwLock.step s i <> s.
Proof. exact no_deadlock_lemma. Qed.
Print Assumptions no_deadlock.

(* ---------------------------------------------------------------------------------------------
   RestoreFromReader fed by ANY behaviour the io.Reader contract allows (Db/Reader.v).

   What the copy loop of persistSnapshot puts into the file that replaces the database is a
   function of the byte sequence and of the position at which the reader fails (if it does) -
   not of the sizes of the reads, of zero-length reads, of the buffers offered, nor of whether
   io.EOF arrives with the last bytes or in a separate call. *)
Theorem copy_is_concatenation : forall (A : Type) (sc : script) (caps : nat -> nat) (bs : list A),
  copy sc caps bs = (firstn (limit sc (length bs)) bs, if failing sc (length bs) then CFail else COk).
Proof. exact (@copy_spec). Qed.
Print Assumptions copy_is_concatenation.

(* over chunkings: any two ways of cutting one byte sequence into reads give the same file, the
   sequence itself *)
Theorem copy_chunkings_agree : forall (A : Type) (bs : list A) (pieces1 pieces2 : list (list A)) (eofd1 eofd2 : bool)
    (caps1 caps2 : nat -> nat),
  chunking bs pieces1 -> chunking bs pieces2 ->
  copy (script_of_pieces pieces1 eofd1) caps1 bs = copy (script_of_pieces pieces2 eofd2) caps2 bs
  /\ copy (script_of_pieces pieces1 eofd1) caps1 bs = (bs, COk).
Proof. exact (@copy_chunkings_agree_lemma). Qed.
Print Assumptions copy_chunkings_agree.

(* hence the database after RestoreFromReader does not depend on the reader's behaviour: two
   readers over the same file that do not fail leave the same state and observations ... *)
Theorem restore_reader_independent : forall (caps1 caps2 : nat -> nat) (x : xdb) (k len : nat) (sc1 sc2 : script),
  failing sc1 len = false -> failing sc2 len = false ->
  xstep caps1 x (XRestoreReader k len sc1) = xstep caps2 x (XRestoreReader k len sc2).
Proof. exact restore_reader_independent_lemma. Qed.
Print Assumptions restore_reader_independent.

(* ... namely those of RestoreSnapshot(bytes of that file) *)
Theorem restore_reader_is_restore_snapshot : forall (caps caps' : nat -> nat) (x : xdb) (k len : nat) (sc : script),
  failing sc len = false ->
  xstep caps x (XRestoreReader k len sc) = xstep caps' x (XBase (ORestore k)).
Proof. exact xstep_reader_ok. Qed.
Print Assumptions restore_reader_is_restore_snapshot.

(* a reader that fails after any number of bytes - also right after the last one, instead of
   EOF -: the restore is refused and database, files, listeners and counters are unchanged *)
Theorem restore_reader_error_changes_nothing : forall (caps : nat -> nat) (x : xdb) (k len : nat) (sc : script),
  failing sc len = true ->
  fst (xstep caps x (XRestoreReader k len sc)) = x
  /\ (nth_error (files (base x)) k <> None -> snd (xstep caps x (XRestoreReader k len sc)) = XoRefused).
Proof. exact xstep_reader_refused_lemma. Qed.
Print Assumptions restore_reader_error_changes_nothing.

(* the property itself for histories whose restore goes through a reader (and whose other
   restores may, too; listeners that read the database may be registered anywhere): content and
   reported snapshot id are those of restore_reproduces_snapshot for the plain history *)
Theorem restore_from_reader_reproduces_snapshot : forall (caps : nat -> nat) (x0 : xdb) (pre : list xop)
    (k : snap_kind) (post : list xop) (len : nat) (sc : script),
  forallb readonly (bodies x0) = true -> forallb adds_readonly pre = true -> forallb adds_readonly post = true ->
  failing sc len = false ->
  let at_snapshot := live (run (base x0) (flat_map erase pre)) in
  let after := live (base (xrestored caps x0 pre k post len sc)) in
  let id := snap_id (base x0) (flat_map erase pre) k in
  after = mark id at_snapshot
  /\ snd (step (base (xrestored caps x0 pre k post len sc)) OGetSnapshotId) = ObSnapId (Some id).
Proof. exact restore_from_reader_reproduces_snapshot_lemma. Qed.
Print Assumptions restore_from_reader_reproduces_snapshot.

(* ---------------------------------------------------------------------------------------------
   Restore listeners that use the database (read transaction, GetSnapshotId, GetTimelineId, a
   write).  Whatever they do, every path outside the lsn bucket they write to, the timeline id,
   the reset flag and the meta bucket's own entry reads as in the restored file; all of them run. *)
Theorem restore_listeners_frame : forall (x : xdb) (c : content) (p : path),
  listener_touched p = false -> lookup p (live (base (fst (xrestore x c)))) = lookup p c.
Proof. exact xrestore_frame_lemma. Qed.
Print Assumptions restore_listeners_frame.

Theorem restore_runs_every_listener : forall (bs : list lbody) (d : db), length (snd (fire d bs)) = length bs.
Proof. exact fire_length. Qed.
Print Assumptions restore_runs_every_listener.

(* Listeners are started when the new file is open and the restore does not wait for them: with
   any number of transaction threads, restorers and listener threads (transactions that cannot
   start before some restore reopened the database), either lock preference and every schedule,
   some thread can move until all have finished ... *)
Theorem listeners_no_deadlock : forall (p : bool) (ths : list thread) (ls : list nat) (sched : list nat),
  Forall initial_thread ths -> forallb no_recursion ths = true -> existsb is_restorer ths = true ->
  let s := jrun false ls (init p ths) sched in
  forallb finished (threads s) = true \/ exists i, jstep false ls s i <> s.
Proof. exact listeners_no_deadlock_lemma. Qed.
Print Assumptions listeners_no_deadlock.

(* ... and a listener's transaction sees one open handle, like every other transaction *)
Theorem listeners_see_one_handle : forall (p : bool) (ths : list thread) (ls : list nat) (sched : list nat),
  Forall initial_thread ths ->
  let s := jrun false ls (init p ths) sched in
  forall i pc plan inner b seen,
    nth_error (threads s) i = Some (Tx pc plan inner b seen) ->
    Forall (eq b) seen
    /\ (seen <> [] -> b <> None)
    /\ (pc = TxInTx \/ pc = TxCommitted -> b = cur s /\ cur s <> None).
Proof. exact listeners_see_one_handle_lemma. Qed.
Print Assumptions listeners_see_one_handle.

(* ---------------------------------------------------------------------------------------------
   Snapshot PATHS (Db/SnapPath.v): Snapshot / SnapshotInTx expand the placeholders __DATE__,
   __TIME__, __DB_DIR__, __DB_FILE__ and the bare DATE, TIME, DB_DIR, DB_FILE of the path they are
   given ([expand]: the eight strings.ReplaceAll of the code, in its order; [TDefault]:
   GetDefaultSnapshotPath) and return the expanded path.  The path is a NAME: it has no influence
   on what the snapshot holds nor on the database.

   Whatever the templates and the environment (date, time, location of the database file) of the
   snapshots of a history, the database, the snapshot files, the ids and the listeners are those of
   the history without paths - so every theorem above applies to histories with paths. *)
Theorem snapshot_path_erasure : forall (caps : nat -> nat) (ops : list pop) (p : pdb),
  px (prun caps p ops) = xrun caps (px p) (flat_map perase ops).
Proof. exact prun_erase_lemma. Qed.
Print Assumptions snapshot_path_erasure.

Theorem snapshot_path_independent : forall (caps : nat -> nat) (ops1 ops2 : list pop) (p1 p2 : pdb),
  px p1 = px p2 -> flat_map perase ops1 = flat_map perase ops2 ->
  px (prun caps p1 ops1) = px (prun caps p2 ops2).
Proof. exact path_independent_lemma. Qed.
Print Assumptions snapshot_path_independent.

(* One snapshot: the path returned is the expansion of the template; the file of THAT name holds
   the committed content plus the markers of the id returned - whatever file had that name before;
   the file of every other name is what it was (in particular the spelling of the template itself
   is not created); the database state is that of the snapshot without a path. *)
Theorem snapshot_written_at_returned_path : forall (caps : nat -> nat) (p : pdb) (e : penv) (t : ptemplate) (k : snap_kind),
  pwf p ->
  let d := base (px p) in
  let id := fresh (uuids d) in
  let path := actual_path e t in
  let p' := fst (pstep caps p (PSnap e t false k)) in
  snd (pstep caps p (PSnap e t false k)) = PoSnap path id
  /\ file_at p' path = Some (mark id (live d))
  /\ (forall n, n <> path -> file_at p' n = file_at p n)
  /\ px p' = fst (xstep caps (px p) (XBase (OSnap k))).
Proof. exact snapshot_path_lemma. Qed.
Print Assumptions snapshot_written_at_returned_path.

(* pre ; Snapshot(template) ; post - any operations that do not write the same name again: the
   file at the returned path still is the snapshot (the committed content at snapshot time plus the
   markers), it is the file restore_reproduces_snapshot speaks about, and restoring what is read
   from the returned path reproduces the database as of the snapshot. *)
Theorem returned_path_keeps_snapshot : forall (caps : nat -> nat) (p0 : pdb) (pre : list pop)
    (e : penv) (t : ptemplate) (k : snap_kind) (post : list pop),
  pwf p0 ->
  let p1 := prun caps p0 pre in
  let d1 := base (px p1) in
  let id := fresh (uuids d1) in
  let path := actual_path e t in
  let p3 := prun caps (fst (pstep caps p1 (PSnap e t false k))) post in
  forallb (fun o => negb (rewrites path o)) post = true ->
  file_at p3 path = Some (mark id (live d1))
  /\ nth_error (files (base (px p3))) (length (files d1)) = Some (mark id (live d1))
  /\ forall c, file_at p3 path = Some c -> live (restore_step (base (px p3)) c) = mark id (live d1).
Proof. exact returned_path_keeps_snapshot_lemma. Qed.
Print Assumptions returned_path_keeps_snapshot.

(* the invariant the two theorems assume holds in every reachable state *)
Theorem snapshot_names_wf : forall (caps : nat -> nat) (ops : list pop), pwf (prun caps empty_pdb ops).
Proof. intros caps ops. apply pwf_run. exact pwf_empty. Qed.
Print Assumptions snapshot_names_wf.

(* a snapshot whose file cannot be written fails and changes nothing *)
Theorem snapshot_blocked_changes_nothing : forall (caps : nat -> nat) (p : pdb) (e : penv) (t : ptemplate) (k : snap_kind),
  pstep caps p (PSnap e t true k) = (p, PoSnapFailed).
Proof. exact snapshot_blocked_lemma. Qed.
Print Assumptions snapshot_blocked_changes_nothing.

(* a path in which none of DATE, TIME, DB_DIR, DB_FILE occurs is used as it is *)
Theorem expand_plain : forall (e : penv) (p : str),
  occursb k_date p = false -> occursb k_time p = false ->
  occursb k_db_dir p = false -> occursb k_db_file p = false ->
  expand e p = p.
Proof. exact expand_plain_lemma. Qed.
Print Assumptions expand_plain.

(* ---------------------------------------------------------------------------------------------
   Readers of database-level METADATA while a restore is under way (Db/RestoreMeta.v):
   GetSnapshotId, GetTimelineId in its three modes, a read transaction over everything, Stats,
   GetDefaultSnapshotPath - called from inside the reader that feeds RestoreFromReader (i.e.
   while the snapshot is still streaming to disk, before the reload lock is taken), by other
   goroutines racing the restore, and afterwards.

   For every history  pre ; snapshot ; post ; RestoreFromReader(a non-failing reader of any
   behaviour over that file that makes any calls at any positions)  - pre and post arbitrary,
   also such restores and calls: every path the restore listeners do not write reads as in the
   snapshot, GetSnapshotId answers the id the snapshot call returned, and so does every
   GetSnapshotId among any number of further metadata calls, and one made after them. *)
Theorem restore_with_metadata_readers : forall (caps : nat -> nat) (p0 : pdb) (pre : list mop) (k : snap_kind)
    (post : list mop) (len : nat) (sc : script) (cbs : list (nat * mcall)),
  failing sc len = false ->
  let d1 := base (px (mrun caps p0 pre)) in
  let id := fresh (uuids d1) in
  let d4 := base (px (mrestored caps p0 pre k post len sc cbs)) in
  (forall q, listener_touched q = false -> lookup q (live d4) = lookup q (mark id (live d1)))
  /\ get_snapshot_id (live d4) = Some id
  /\ forall polls, snapids_are (Some id) (snd (mcalls d4 polls))
                   /\ get_snapshot_id (live (fst (mcalls d4 polls))) = Some id.
Proof. exact restore_with_metadata_readers_lemma. Qed.
Print Assumptions restore_with_metadata_readers.

(* What the restore leaves and what its listeners see do not depend on what was asked while the
   snapshot was streaming in. *)
Theorem restore_independent_of_reader_calls : forall (caps : nat -> nat) (p : pdb) (k len : nat) (sc : script)
    (cbs : list (nat * mcall)) (c : content),
  nth_error (files (base (px p))) k = Some c -> failing sc len = false ->
  let with_calls := mstep caps p (MRestoreReader k len sc cbs) in
  let without := mstep caps p (MRestoreReader k len sc []) in
  live (base (px (fst with_calls))) = live (base (px (fst without)))
  /\ (forall os b os' b', snd with_calls = MoRestore os b -> snd without = MoRestore os' b' -> b = b').
Proof. exact restore_independent_of_calls_lemma. Qed.
Print Assumptions restore_independent_of_reader_calls.

(* A call made from inside the reader is the same call made in front of the restore (the
   snapshot is persisted before anything of the database is touched): the history with calls
   inside readers is the history [mflatten] without them - every theorem above applies. *)
Theorem reader_calls_are_calls_before : forall (caps : nat -> nat) (p : pdb) (o : mop),
  (forall k len sc cbs, o = MRestoreReader k len sc cbs -> nth_error (files (base (px p))) k <> None) ->
  fst (mstep caps p o) = mrun caps p (mflatten o).
Proof. exact mstep_flatten. Qed.
Print Assumptions reader_calls_are_calls_before.

(* ... and when the reader fails, the restore is refused: the database is what the calls that
   were made before the failure left, nothing else changed *)
Theorem restore_reader_error_with_calls : forall (caps : nat -> nat) (p : pdb) (k len : nat) (sc : script)
    (cbs : list (nat * mcall)),
  nth_error (files (base (px p))) k <> None -> failing sc len = true ->
  let r := mcalls (base (px p)) (due sc len cbs) in
  mstep caps p (MRestoreReader k len sc cbs) = (with_base p (fst r), MoRestore (snd r) XoRefused).
Proof. exact mstep_reader_refused. Qed.
Print Assumptions restore_reader_error_with_calls.

(* Calls of other goroutines racing the restore of a snapshot file: each is one transaction under
   the read lock, the swap happens under the write lock (restore_atomic_wrt_tx), so an execution
   is [before] ; swap ; [after].  Every GetSnapshotId before the swap answers what the database
   answered before the restore (OLD), every one after it - among them all that begin once the
   restore has returned - the id of the restored snapshot (NEW): never anything else, and never
   the old id once the new one is in place. *)
Theorem metadata_read_during_restore_old_or_new : forall (x : xdb) (id : str) (c : content) (before after : list mcall),
  meta_wf (live (base x)) ->
  let '(x', o1, o2) := racing_restore x (mark id c) before after in
  snapids_are (get_snapshot_id (live (base x))) o1
  /\ snapids_are (Some id) o2
  /\ get_snapshot_id (live (base x')) = Some id.
Proof. exact racing_restore_old_or_new_lemma. Qed.
Print Assumptions metadata_read_during_restore_old_or_new.

(* the first timeline request after the swap - whoever makes it - gets the fresh id *)
Theorem timeline_fresh_for_first_poller : forall (x : xdb) (id : str) (c : content) (before : list mcall)
    (m : tmode) (t : str) (rest : list mcall),
  forallb readonly (bodies x) = true ->
  let '(_, _, o2) := racing_restore x (mark id c) before (MTimeline m (Some t) :: rest) in
  exists o2', o2 = MoTimeline (Some t) true :: o2'.
Proof. exact racing_restore_timeline_fresh_lemma. Qed.
Print Assumptions timeline_fresh_for_first_poller.

(* ---- seventh wave: the view of the transaction a snapshot is taken in; listeners that wait ---- *)
From Storage Require Import Db.SnapView Db.SnapViewProofs.

(* SnapshotInTx is a function of the view of the transaction it is given.  Db.Snapshot and
   SnapshotInTx in a transaction that begins at the moment of the call: the view is what is
   committed now ... *)
Theorem snapshot_now_is_view : forall d : db,
  snapshot_step d SKPlain = snapshot_of_view d (live d) /\ snapshot_step d SKInView = snapshot_of_view d (live d).
Proof. exact snapshot_now_is_view_lemma. Qed.
Print Assumptions snapshot_now_is_view.

(* ... in a write transaction: the file is the snapshot of what was committed when the transaction
   began, whatever the transaction itself has written before / writes after the call, committed
   or rolled back (its own writes reach the bolt file at commit) ... *)
Theorem snapshot_in_update_is_view : forall (d : db) (before after : list wop) (commit : bool),
  files (fst (snapshot_step d (SKInUpdate before after commit))) = files (fst (snapshot_of_view d (live d)))
  /\ snd (snapshot_step d (SKInUpdate before after commit)) = snd (snapshot_of_view d (live d)).
Proof. exact snapshot_in_update_is_view_lemma. Qed.
Print Assumptions snapshot_in_update_is_view.

(* ... in a read transaction that was opened BEFORE other goroutines ran the transactions [txs]
   (any number, committed or rolled back): exactly the view goes into the file; the later commits
   are in the live database and not in the file. *)
Theorem stale_snapshot_holds_the_view : forall (d : db) (txs : list (list wop * bool)),
  let d' := fst (stale_snapshot d txs) in
  let id := snd (stale_snapshot d txs) in
  id = fresh (uuids d)
  /\ files d' = files d ++ [mark id (live d)]
  /\ live d' = commit_all (live d) txs
  /\ uuids d' = S (uuids d) /\ listeners d' = listeners d /\ fired d' = fired d /\ idf_calls d' = idf_calls d.
Proof. exact stale_snapshot_lemma. Qed.
Print Assumptions stale_snapshot_holds_the_view.

(* It is the snapshot taken when the View began followed by the other transactions, so every
   theorem above applies to histories with such snapshots ... *)
Theorem stale_snapshot_commutes : forall (d : db) (txs : list (list wop * bool)),
  stale_snapshot d txs = (run (fst (snapshot_step d SKInView)) (tx_ops txs), snd (snapshot_step d SKInView)).
Proof. exact stale_snapshot_commutes_lemma. Qed.
Print Assumptions stale_snapshot_commutes.

(* ... in particular: pre ; View begins ; txs of other goroutines ; SnapshotInTx in the View ; post ;
   restore of that file  gives the view of that transaction plus the markers, and GetSnapshotId
   the id the call returned. *)
Theorem stale_restore_reproduces_view : forall (d0 : db) (pre : list op) (txs : list (list wop * bool)) (post : list op),
  let view := live (run d0 pre) in
  let id := snd (stale_snapshot (run d0 pre) txs) in
  live (stale_restored d0 pre txs post) = mark id view
  /\ get_snapshot_id (live (stale_restored d0 pre txs post)) = Some id.
Proof. exact stale_restore_reproduces_view_lemma. Qed.
Print Assumptions stale_restore_reproduces_view.

(* the history layer the correspondence driver runs is a history of Db/RestoreMeta.v *)
Theorem snapshot_view_erasure : forall (caps : nat -> nat) (ops : list vop) (v : vdb),
  vm (vrun caps v ops) = mrun caps (vm v) (flat_map verase ops).
Proof. exact vrun_erase_lemma. Qed.
Print Assumptions snapshot_view_erasure.

(* Restore listeners, each started in a goroutine of its own: for every list of listeners - any
   of them blocking for good or waiting for any other, registered earlier or later, cycles
   included - and every schedule, every registered listener has been started ... *)
Theorem restore_starts_every_listener : forall (ls : list lkind) (sched : list nat),
  all_started (lrun ls (spawn_all ls) sched) /\ length (lrun ls (spawn_all ls) sched) = length ls.
Proof. exact listeners_all_started_lemma. Qed.
Print Assumptions restore_starts_every_listener.

(* ... only listeners that can return have returned ... *)
Theorem listeners_return_only_when_served : forall (ls : list lkind) (sched : list nat) (i : nat),
  nth_error (lrun ls (spawn_all ls) sched) i = Some LDone -> Returns ls i.
Proof. exact listeners_done_sound_lemma. Qed.
Print Assumptions listeners_return_only_when_served.

(* ... and a listener that can return is never kept from it by the others: from every state in
   which all are started some schedule makes it return (the order of registration plays no role). *)
Theorem returning_listener_returns : forall (ls : list lkind) (i : nat), Returns ls i ->
  forall st, all_started st -> length st = length ls ->
  exists sched, nth_error (lrun ls st sched) i = Some LDone.
Proof. exact listeners_returning_complete_lemma. Qed.
Print Assumptions returning_listener_returns.

(* what the driver prints is sound for [Returns] *)
Theorem returnsb_is_returns : forall (fuel : nat) (ls : list lkind) (i : nat), returnsb fuel ls i = true -> Returns ls i.
Proof. exact returnsb_sound. Qed.
Print Assumptions returnsb_is_returns.
