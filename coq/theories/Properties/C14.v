(* C14 - Every set cursor enumerates its set exactly, in order, and seeks correctly.
   Statements only; each closed by [exact] and followed by Print Assumptions.

   Vocabulary (Cursor/Core.v, Cursor/Cases.v):
     [K_run ... ops] / [K_run ... n]   observations (IsValid, Current) after the constructor and after
                                       each operation of the line-by-line model of cursor kind K
     [spec_run leb L ops]              the abstract position machine (pos : option nat into L)
     [seekable_props run fw l]         refinement for EVERY interleaving of Next/Seek  /\  exact, ordered,
                                       once-only, panic-free enumeration  /\  Seek lands on the first
                                       element >= v (reverse: largest <= v) or is invalid
     [nextonly_props run L]            the same for cursors without Seek
   Sets are strictly ascending lists [sorted_asc l] of arbitrary byte strings - the empty string, shared
   prefixes and the empty set included; reverse cursors enumerate [rev l]. *)
From Coq Require Import List NArith Bool Arith Sorting.Sorted.
From Storage Require Import Base.Bytes Cursor.StrOrder Cursor.Core Cursor.BoltCursor Cursor.Typed
  Cursor.Filtered Cursor.Union Cursor.Tree Cursor.SetSym Cursor.Cases Cursor.SetSymProofs Cursor.C14Lemmas
  Cursor.Reuse Cursor.ReuseProofs Cursor.Scanner Cursor.ScannerProofs
  Cursor.Product Cursor.ProductProofs.
Import ListNotations.
Open Scope nat_scope.

(* ---- bolt-backed, seekable ------------------------------------------------------------------------- *)

(* ForwardBoltCursor / ReverseBoltCursor (NewBoltCursor) over a bucket with the given keys *)
Theorem bolt_cursor_refines_enumerates_seeks : forall keys fw, sorted_asc keys ->
  seekable_props (bolt_run keys fw) fw keys.
Proof. exact bolt_props. Qed.
Print Assumptions bolt_cursor_refines_enumerates_seeks.

(* TypedForwardBoltCursor / TypedReverseBoltCursor over the bucket { tag :: e | e in l }, for every type
   tag: values come back WITHOUT the tag, the empty-string element is an element like any other *)
Theorem typed_cursor_refines_enumerates_seeks : forall fw tag l, sorted_asc l ->
  seekable_props (typed_run fw tag l) fw l.
Proof. exact typed_props. Qed.
Print Assumptions typed_cursor_refines_enumerates_seeks.

(* entitySetSymbolRuntime (Seek = SeekToString) over a list bucket that may be missing *)
Theorem setsym_cursor_refines_enumerates_seeks : forall tag b,
  seekable_props (setsym_run tag b) true (bucket_elems b).
Proof. exact setsym_props. Qed.
Print Assumptions setsym_cursor_refines_enumerates_seeks.

(* its raw Seek([]byte), given the stored key of v, is SeekToString(v) *)
Theorem setsym_raw_seek_is_string_seek : forall tag keys v s,
  ss_seek_raw keys (prepend_field_type tag v) s = k_seek (setsym_cursor tag keys) v s.
Proof. exact setsym_raw_seek_lemma. Qed.
Print Assumptions setsym_raw_seek_is_string_seek.

(* setIndex.OpenValueCursor, BaseStore.GetRelatedEntitiesCursor, TypedBucket.OpenTypedCursor /
   IterateStringList(InDirection), link and ref-counted link IterateLinks: the emptyCursor when the
   bucket does not exist, else the typed cursor *)
Theorem typed_handout_refines_enumerates_seeks : forall fw tag b, sorted_asc (bucket_elems b) ->
  seekable_props (handout_run fw tag b) fw (bucket_elems b).
Proof. exact handout_props. Qed.
Print Assumptions typed_handout_refines_enumerates_seeks.

(* setIndex.OpenKeyCursor, TypedBucket.OpenCursor / OpenSeekableCursor *)
Theorem raw_handout_refines_enumerates_seeks : forall fw b, sorted_asc (bucket_elems b) ->
  seekable_props (rawhand_run fw b) fw (bucket_elems b).
Proof. exact rawhand_props. Qed.
Print Assumptions raw_handout_refines_enumerates_seeks.

(* ast.emptyCursor *)
Theorem empty_cursor_refines_enumerates_seeks : forall fw, seekable_props empty_run fw [].
Proof. exact empty_props. Qed.
Print Assumptions empty_cursor_refines_enumerates_seeks.

(* ---- in-memory, Next only ---------------------------------------------------------------------------- *)

(* ast.filteredCursor over ANY cursor that enumerates L (simulation R): enumerates filter f L *)
Theorem filtered_cursor_refines_enumerates : forall St (W : scursor St) R f fuel s0 L,
  sim W R -> R s0 L -> length L <= fuel ->
  nextonly_props (srun (filtered_cursor St W f fuel) (f_open St W f fuel (Some s0))) (filter f L).
Proof. exact filtered_props. Qed.
Print Assumptions filtered_cursor_refines_enumerates.

(* ast.unionSetCursor over ANY two cursors that enumerate L1, L2 and never return a nil Current while
   valid: enumerates merge fw L1 L2 ... *)
Theorem union_cursor_refines_enumerates : forall S1 S2 (W1 : scursor S1) (W2 : scursor S2) fw R1 R2 s1 s2 L1 L2,
  sim W1 R1 -> sim W2 R2 -> nonnil W1 R1 -> nonnil W2 R2 -> R1 s1 L1 -> R2 s2 L2 ->
  nextonly_props (srun (union_cursor S1 S2 W1 W2 fw) (u_open S1 S2 W1 W2 fw s1 s2)) (merge fw L1 L2).
Proof. exact union_props. Qed.
Print Assumptions union_cursor_refines_enumerates.

(* ... which for inputs sorted in the direction is the sorted duplicate-free union *)
Theorem union_output_is_sorted_merge : forall fw L1 L2, sorted_dir fw L1 -> sorted_dir fw L2 ->
  sorted_dir fw (merge fw L1 L2) /\ NoDup (merge fw L1 L2) /\
  (forall z, In z (merge fw L1 L2) <-> In z L1 \/ In z L2).
Proof. exact union_merge_lemma. Qed.
Print Assumptions union_output_is_sorted_merge.

(* ast.treeCursor over ANY tree shape, the empty tree included: the in-order sequence *)
Theorem tree_cursor_refines_enumerates : forall t, nextonly_props (tree_run t) (map gb_str (inorder t)).
Proof. exact tree_props. Qed.
Print Assumptions tree_cursor_refines_enumerates.

(* in-order of a search tree (either direction) is strictly sorted *)
Theorem bst_inorder_sorted : forall fw t, is_bst fw t -> sorted_dir fw (map gb_str (inorder t)).
Proof. exact is_bst_sorted_lemma. Qed.
Print Assumptions bst_inorder_sorted.

(* ast.TreeSet: NewTreeSet(forward), Add in any order with any duplicates, ToCursor *)
Theorem treeset_cursor_refines_enumerates : forall fw adds,
  nextonly_props (treeset_run fw adds) (dir_list fw (sort_dedup adds)).
Proof. exact treeset_props. Qed.
Print Assumptions treeset_cursor_refines_enumerates.

(* sort_dedup l is "the" ascending duplicate-free list of the set of l *)
Theorem sort_dedup_is_the_sorted_set : forall l,
  sorted_asc (sort_dedup l) /\ NoDup (sort_dedup l) /\ (forall z, In z (sort_dedup l) <-> In z l).
Proof. exact sort_dedup_lemma. Qed.
Print Assumptions sort_dedup_is_the_sorted_set.

(* ---- index-driven iterators ---------------------------------------------------------------------------- *)

(* BaseStore.IteratorMatchingAllOf: ids of the first value's bucket carrying all other values *)
Theorem allof_iterator_refines_enumerates : forall tag fuel ix rows values fw, index_sorted ix ->
  (forall v, length (bucket_elems (lookup ix v)) <= fuel) ->
  nextonly_props (allof_run tag fuel ix rows values fw) (allof_list ix rows values fw).
Proof. exact allof_props. Qed.
Print Assumptions allof_iterator_refines_enumerates.

(* BaseStore.IteratorMatchingAnyOf: sorted duplicate-free union of the buckets - also when nothing matches *)
Theorem anyof_iterator_refines_enumerates : forall tag ix values fw, index_sorted ix ->
  nextonly_props (anyof_run tag ix values fw) (dir_list fw (anyof_list ix values)).
Proof. exact anyof_props. Qed.
Print Assumptions anyof_iterator_refines_enumerates.

(* ---- the compositions the harness runs against the real code --------------------------------------------- *)

Theorem filtered_over_typed : forall fw tag fuel a accept, sorted_asc a -> length a <= fuel ->
  nextonly_props (filtered_typed_run fw tag fuel a accept) (dir_list fw (filter (fun x => mem x accept) a)).
Proof. exact filtered_typed_props. Qed.
Print Assumptions filtered_over_typed.

Theorem filtered_over_nil : nextonly_props filtered_nil_run [].
Proof. exact filtered_nil_props. Qed.
Print Assumptions filtered_over_nil.

Theorem union_over_typed : forall fw tag a b, sorted_asc a -> sorted_asc b ->
  nextonly_props (union_typed_run fw tag a b) (dir_list fw (sort_dedup (a ++ b))).
Proof. exact union_typed_props. Qed.
Print Assumptions union_over_typed.

Theorem union_over_treesets : forall fw a b,
  nextonly_props (union_tree_run fw a b) (dir_list fw (sort_dedup (a ++ b))).
Proof. exact union_tree_props. Qed.
Print Assumptions union_over_treesets.

Theorem union_over_filtered : forall fw tag fuel a b, sorted_asc a -> sorted_asc b -> length a <= fuel ->
  nextonly_props (union_filtered_run fw tag fuel a b) (dir_list fw b).
Proof. exact union_filtered_props. Qed.
Print Assumptions union_over_filtered.

(* ---- reading the statements ------------------------------------------------------------------------------ *)

(* the enumeration trace: the elements, then invalid for ever; never a panic; all-invalid for the empty set *)
Theorem enum_trace_long : forall L n, length L <= n ->
  enum_trace L n = map OCur L ++ repeat OInvalid (S n - length L).
Proof. exact enum_trace_long_lemma. Qed.
Print Assumptions enum_trace_long.

Theorem enum_trace_no_panic : forall L n, Forall (fun o => o <> OPanic /\ o <> OFuel) (enum_trace L n).
Proof. exact enum_trace_no_panic_lemma. Qed.
Print Assumptions enum_trace_no_panic.

Theorem enum_trace_empty_set : forall n, enum_trace [] n = repeat OInvalid (S n).
Proof. exact enum_trace_nil_lemma. Qed.
Print Assumptions enum_trace_empty_set.

(* the loop  for c.IsValid() { collect c.Current(); c.Next() }  returns exactly the set, in order *)
Theorem typed_cursor_drains_to_the_set : forall fw tag l fuel, sorted_asc l -> length l < fuel ->
  drain_init (plain (typed_cursor fw tag (tagged tag l))) fuel (typed_open fw (tagged tag l)) = Ok (dir_list fw l).
Proof. exact typed_drain_lemma. Qed.
Print Assumptions typed_cursor_drains_to_the_set.

Theorem tree_cursor_drains_in_order : forall t fuel, length (inorder t) < fuel ->
  drain_init tree_cursor fuel (t_open t) = Ok (map gb_str (inorder t)).
Proof. exact tree_drain_lemma. Qed.
Print Assumptions tree_cursor_drains_in_order.

(* the Seek target: least element >= v (forward), greatest element <= v (reverse), none iff no such element *)
Theorem seek_target_meaning : forall l v, sorted_asc l ->
  (forall x, seek_target true l v = Some x ->
     In x l /\ str_leb v x = true /\ forall y, In y l -> str_leb v y = true -> str_leb x y = true) /\
  (seek_target true l v = None -> forall y, In y l -> str_leb v y = false) /\
  (forall x, seek_target false l v = Some x ->
     In x l /\ str_leb x v = true /\ forall y, In y l -> str_leb y v = true -> str_leb y x = true) /\
  (seek_target false l v = None -> forall y, In y l -> str_leb y v = false).
Proof. exact seek_target_meaning_lemma. Qed.
Print Assumptions seek_target_meaning.

(* ---- re-opened cursors ------------------------------------------------------------------------------------
   The query engine caches ONE runtime set symbol per scan (rowCursorImpl.symbolCache) and calls OpenCursor
   on it for every row; the symbol is the cursor.  (Cursor/Reuse.v) *)

(* entitySetSymbolRuntime.OpenCursor is a state reset: in whatever state the previous use left the symbol
   (cursor in the middle of another row's bucket, exhausted, moved by a Seek, nil cursor with or without a
   value) it yields the state a fresh symbol gets - in particular value = nil when the row has no bucket *)
Theorem reopen_is_fresh : forall keys present prev,
  ss_reopen keys present prev = ss_open keys present.
Proof. exact reopen_is_fresh_lemma. Qed.
Print Assumptions reopen_is_fresh.

(* one symbol used for the rows [segs] one after the other, with ANY interleaving of Next/Seek on each row:
   every use produces the observations of a fresh cursor over that row's bucket ... *)
Theorem setsym_reused_is_fresh_on_every_row : forall tag before b ops after,
  nth_error (setsym_reuse_run tag (before ++ (b, ops) :: after)) (length before) = Some (setsym_run tag b ops).
Proof. exact setsym_reuse_nth. Qed.
Print Assumptions setsym_reused_is_fresh_on_every_row.

(* ... i.e. those of the position machine over that row's set (empty when the row has no bucket: invalid
   immediately and for ever, whatever the previous row held) *)
Theorem setsym_reused_refines_enumerates_seeks : forall tag segs,
  setsym_reuse_run tag segs = map (fun sg => spec_ops true (bucket_elems (fst sg)) (snd sg)) segs.
Proof. exact setsym_reuse_run_spec. Qed.
Print Assumptions setsym_reused_refines_enumerates_seeks.

(* the scan: any not/and/or combination of isEmpty / anyOf = (seek) / anyOf != (loop) / allOf = (loop) /
   count (loop), each predicate evaluation re-opening the one cached symbol (several times per row), selects
   exactly the rows whose SET satisfies the filter - in any row order, rows without a bucket included;
   in particular no evaluation runs out of fuel (every loop ends) *)
Theorem scan_over_reused_symbol_selects_by_set : forall tag fuel f rows, filter_wf f -> rows_ok fuel rows ->
  scan_run tag fuel f rows = Ok (scan_spec f rows).
Proof. exact scan_run_spec. Qed.
Print Assumptions scan_over_reused_symbol_selects_by_set.

(* ---- scanners layered over cursors -------------------------------------------------------------------------
   uniqueIndexScanner used as a cursor (newFilteredCursor: Store.IterateIds / IterateValidIds) reads ONE ELEMENT
   AHEAD of what it shows: while the client stands on the last accepted element - on a one-entity store right after
   the constructor - the wrapped cursor is already exhausted.  (Cursor/Scanner.v) *)

(* the look-ahead scanner over ANY seekable cursor W that enumerates an ordered list L (given by a simulation
   relation only, with non-nil elements): EVERY Next/Seek program observes exactly what the position machine over
   the accepted elements [filter accept L] shows - whatever the wrapped cursor's own validity at the time of a Seek *)
Theorem lookahead_scanner_is_the_cursor_over_the_filtered_list :
  forall St (W : kcursor St) R fw L present matches fuel w0,
  ksim W (dir_leb fw) L R -> nonnil (plain W) R -> sorted_dir fw L -> length L <= fuel -> R w0 L ->
  forall ops,
  krun (scanner_cursor St W present matches fuel 0 None) (sc_open St W present matches fuel 0 None w0) ops =
  spec_run (dir_leb fw) (filter (accept_of present matches) L) ops.
Proof. exact lookahead_scanner_lemma. Qed.
Print Assumptions lookahead_scanner_is_the_cursor_over_the_filtered_list.

(* Seek and filtering commute on an ordered enumeration: the first accepted element at or after v *)
Theorem seek_commutes_with_filter : forall fw (f : str -> bool) v l, sorted_dir fw l ->
  filter f (drop_until (dir_leb fw) v l) = drop_until (dir_leb fw) v (filter f l).
Proof. intros fw f v l Hs. apply drop_until_filter. apply sorted_closed_up. exact Hs. Qed.
Print Assumptions seek_commutes_with_filter.

(* Store.IterateIds(tx, filter) (and IterateValidIds of a store that is not extended): the seekable cursor over the
   ids of the entities bucket that the store owns ([present]: a child store skips parent entities without its data)
   and the filter accepts; the emptyCursor when the entities bucket does not exist *)
Theorem ids_cursor_refines_enumerates_seeks : forall present matches fuel ids,
  sorted_asc (bucket_elems ids) -> length (bucket_elems ids) <= fuel ->
  seekable_props (ids_run present matches fuel 0 None ids) true (filter (accept_of present matches) (bucket_elems ids)).
Proof. exact ids_props. Qed.
Print Assumptions ids_cursor_refines_enumerates_seeks.

(* Store.IterateValidIds(tx, filter) of an Extended() store: ValidIdsCursors over IterateIds *)
Theorem valid_ids_cursor_refines_enumerates_seeks : forall present matches ext fuel ids,
  sorted_asc (bucket_elems ids) -> length (bucket_elems ids) <= fuel ->
  seekable_props (valid_ids_run present matches ext fuel ids) true
                 (filter ext (filter (accept_of present matches) (bucket_elems ids))).
Proof. exact valid_ids_props. Qed.
Print Assumptions valid_ids_cursor_refines_enumerates_seeks.

(* a filter that carries paging (ast.Query with skip / limit): Next-only programs enumerate the page *)
Theorem ids_cursor_paged_enumerates_the_page : forall present matches fuel off lim ids,
  length (bucket_elems ids) <= fuel ->
  nextonly_props (fun n => ids_run present matches fuel off lim ids (repeat CNext n))
                 (page off lim (filter (accept_of present matches) (bucket_elems ids))).
Proof. exact ids_paged_props. Qed.
Print Assumptions ids_cursor_paged_enumerates_the_page.

(* Store.QueryWithCursorC / Scan with the unique-index scanner (ScanCursor) over the raw cursor of a bucket in the
   direction of the scan: the page of the accepted ids, and the number of accepted ids *)
Theorem scan_cursor_returns_the_page_and_the_count : forall present matches fuel off lim fw l,
  sorted_asc l -> length l <= fuel ->
  scan_bolt_run present matches fuel off lim fw l =
  Ok (page off lim (filter (accept_of present matches) (dir_list fw l)),
      length (filter (accept_of present matches) l)).
Proof. exact scan_bolt_run_spec. Qed.
Print Assumptions scan_cursor_returns_the_page_and_the_count.

(* ... and over ANY cursor that enumerates L (typed, filtered, tree, union providers) *)
Theorem scan_cursor_over_any_provider : forall St (W : kcursor St) present matches fuel off lim R,
  sim (plain W) R -> nonnil (plain W) R -> forall w0 L, R w0 L -> length L <= fuel ->
  scan_cursor St W present matches fuel off lim w0 =
  Ok (page off lim (filter (accept_of present matches) L), length (filter (accept_of present matches) L)).
Proof. exact scan_cursor_spec. Qed.
Print Assumptions scan_cursor_over_any_provider.

(* ---- SEVERAL cursors alive at once (Cursor/Product.v) -----------------------------------------------------------------

   A family of cursors of ANY kinds ([machine]: state, step, observation, constructor result), each with its own
   Next/Seek program, the programs interleaved by ANY schedule (a list of "whose turn"; first turn = constructor,
   later turns = next operation, turns after the end of the program do nothing), the client looking at ALL cursors
   after every turn: the views are those of the solo runs, each read at its own pace.  Nothing is assumed about the
   machines - cursors are values, a turn of one member touches no other - and THAT is what the code must refine:
   no two hand-outs may share their position. *)
Theorem interleaved_cursors_do_not_interfere : forall (progs : list (machine * list cop)) sched,
  prod_views (map start progs) sched = solo_views (map (fun p => solo (fst p) (snd p)) progs) sched.
Proof. exact non_interference. Qed.
Print Assumptions interleaved_cursors_do_not_interfere.

(* the same pointwise: after turn k cursor i shows the entry of its solo trace numbered by ITS OWN turns so far *)
Theorem interleaved_cursor_shows_its_own_trace : forall (progs : list (machine * list cop)) sched k i M ops,
  nth_error progs i = Some (M, ops) -> k < length sched ->
  exists v, nth_error (prod_views (map start progs) sched) k = Some v /\
            nth_error v i = Some (trace_view (solo M ops) (count_occ Nat.eq_dec (firstn (S k) sched) i)).
Proof. exact non_interference_pointwise. Qed.
Print Assumptions interleaved_cursor_shows_its_own_trace.

(* [solo] is the single-cursor run the theorems above speak about *)
Theorem solo_is_the_single_cursor_run : forall St (K : kcursor St) init ops, solo (of_k K init) ops = krun K init ops.
Proof. exact solo_of_k. Qed.
Print Assumptions solo_is_the_single_cursor_run.
Theorem solo_is_the_single_cursor_run_nextonly : forall St (C : scursor St) init n,
  solo (of_s C init) (repeat CNext n) = srun C init n.
Proof. exact solo_of_s. Qed.
Print Assumptions solo_is_the_single_cursor_run_nextonly.

(* product of the refinement theorems: members that refine their position machines alone do so together *)
Theorem interleaved_cursors_show_their_own_sets : forall (progs : list (machine * list cop)) (sets : list (bool * list str)) sched,
  Forall2 (fun p fl => solo (fst p) (snd p) = spec_ops (fst fl) (snd fl) (snd p)) progs sets ->
  prod_views (map start progs) sched =
  solo_views (map (fun x => spec_ops (fst (snd x)) (snd (snd x)) (snd (fst x))) (combine progs sets)) sched.
Proof. exact non_interference_spec. Qed.
Print Assumptions interleaved_cursors_show_their_own_sets.

(* the families the harness puts into one transaction ([cdesc]: runtime set symbols, typed / raw hand-outs, bolt and typed
   adapters, the id scanner, tree / union / filtered cursors), under the side conditions of the single-cursor theorems *)
Theorem interleaved_cursor_families_refine : forall tag (progs : list (cdesc * list cop)) sched,
  Forall (fun p => desc_ok (fst p) (snd p)) progs -> multi_run tag progs sched = multi_spec progs sched.
Proof. exact multi_run_spec. Qed.
Print Assumptions interleaved_cursor_families_refine.

(* several cursors of ONE set symbol (GetSymbol(set) .. OpenCursor), on any rows - the same row several times, rows
   without the bucket - in any interleaving: each shows the position machine over its own row's set *)
Theorem interleaved_setsym_cursors_show_their_own_rows : forall tag (rows : list (option (list str) * list cop)) sched,
  multi_run tag (map (fun r => (DSetsym (fst r), snd r)) rows) sched =
  solo_views (map (fun r => spec_ops true (bucket_elems (fst r)) (snd r)) rows) sched.
Proof. exact setsym_family_spec. Qed.
Print Assumptions interleaved_setsym_cursors_show_their_own_rows.
