(* C08 - placeholder while the pipeline is assembled *)
From Coq Require Import List NArith Bool.
From Storage Require Import Base.Bytes Store.Model Store.TxProofs Store.Events.
Import ListNotations.

Theorem no_events_for_undone_work : forall sch fuel st t rs st' evs,
  run_tx sch fuel st t = (rs, false, st', evs) -> evs = [].
Proof. intros. eapply run_tx_all_or_nothing_lemma; eauto. Qed.
Print Assumptions no_events_for_undone_work.
