(* C08 - Entity events: exactly once per committed change, none for undone work.
   Statements over the store machine Store/Model.v (run_tx: the post-commit event queue) and its
   listener layer Store/Events.v, for every fuel, state and transaction body; the exactly-once
   statements for EVERY schema that passes the boolean check wf_events_b (unique store names, parents
   are root stores, cascade deletes follow a strictly increasing store rank, i.e. no cascade cycle). *)
From Coq Require Import List NArith Bool Permutation.
From Storage Require Import Base.Bytes Store.Model Store.Events Store.EventProofs Store.EventAnyProofs
  Store.TxHooks Store.TxHooksProofs Store.EventsMulti Store.EventMultiProofs Store.TxShared Store.TxSharedProofs Store.EventsReg Store.EventRegProofs
  Store.EventsCaller Store.EventCallerProofs.
Import ListNotations.

(* A committed transaction delivers, as a multiset, exactly the expected events: for each successful
   create / update through store s of entity i one event (s, change, i, parent = false) and, if s is a
   child store, one event (root s, change, i, parent = true) - an update entered through a root store is
   carried out by the child store holding the entity's data -; for each successful delete, for EVERY
   entity that disappeared between the states before and after the operation (the named one and
   every cascade-deleted referrer) one event on its root store (parent flag = has child flows) plus
   one per child store whose FindById found it.  [expected_events] is a function of the operations
   and the intermediate states only. *)
Theorem events_exactly_once : forall sch rkl, wf_events_b sch rkl = true ->
  forall fuel st t rs st' evs,
  run_tx sch fuel st t = (rs, true, st', evs) ->
  forall e, count_ev e evs = expected_events sch (tx_trace sch fuel st t) e.
Proof. exact events_exactly_once_wf. Qed.
Print Assumptions events_exactly_once.

(* the same as a statement about permutations: a list is a reordering of what was delivered iff it
   has the expected multiplicities (delivery order is not part of the property) *)
Theorem events_exactly_once_perm : forall sch rkl, wf_events_b sch rkl = true ->
  forall fuel st t rs st' evs l,
  run_tx sch fuel st t = (rs, true, st', evs) ->
  (Permutation evs l <-> forall e, count_ev e l = expected_events sch (tx_trace sch fuel st t) e).
Proof. exact events_exactly_once_perm_wf. Qed.
Print Assumptions events_exactly_once_perm.

(* create and update, every schema: the exact events in the order the code queues them *)
Theorem create_events_exact : forall sch oc st evs s i sys fv sv st' evs',
  op_create sch oc (st, evs) s i sys fv sv = Ok (st', evs') -> evs' = evs ++ ev_cu sch s Created i.
Proof. exact op_create_events. Qed.
Print Assumptions create_events_exact.

Theorem update_events_exact : forall sch oc st evs s i fv sv ch st' evs',
  op_update sch oc (st, evs) s i fv sv ch = Ok (st', evs') ->
  evs' = evs ++ ev_cu sch (update_target sch st s i) Updated i.
Proof. exact op_update_events. Qed.
Print Assumptions update_events_exact.

(* rolled-back or rejected work: nothing is delivered (and the database is unchanged) *)
Theorem no_events_for_undone_work : forall sch fuel st t rs st' evs l,
  run_tx sch fuel st t = (rs, false, st', evs) -> delivered_to l evs = [] /\ st' = st.
Proof. exact no_deliveries_for_undone_work_lemma. Qed.
Print Assumptions no_events_for_undone_work.

(* a change through a child store additionally produces exactly one parent-store event, flagged *)
Theorem parent_event_for_child_change : forall sch oc st evs s i sys fv sv st' evs',
  is_child sch s = true ->
  op_create sch oc (st, evs) s i sys fv sv = Ok (st', evs') ->
  evs' = evs ++ [mkEvent (root_of sch s) Created i true; mkEvent s Created i false].
Proof. exact parent_event_create_lemma. Qed.
Print Assumptions parent_event_for_child_change.

Theorem parent_event_for_child_update : forall sch oc st evs s i fv sv ch st' evs',
  is_child sch (update_target sch st s i) = true ->
  op_update sch oc (st, evs) s i fv sv ch = Ok (st', evs') ->
  evs' = evs ++ [mkEvent (root_of sch (update_target sch st s i)) Updated i true;
                 mkEvent (update_target sch st s i) Updated i false].
Proof. exact parent_event_update_lemma. Qed.
Print Assumptions parent_event_for_child_update.

(* a plain parent entity (no data of the plain child store c) produces no event on c, whatever
   operation touches it (create / update / delete through the parent, cascades included) *)
Theorem no_child_event_for_plain_parent : forall sch rkl, wf_events_b sch rkl = true ->
  forall fuel oc st evs o st' new c i,
  is_child sch c = true -> is_ext sch c = false ->
  present sch st c i = false -> (forall sys fv sv, o <> OCreate c i sys fv sv) ->
  run_op sch fuel oc (st, evs) o = Ok (st', evs ++ new) ->
  forall e, In e new -> ~ (ev_store e = c /\ ev_id e = i).
Proof. exact no_child_event_for_plain_parent_wf. Qed.
Print Assumptions no_child_event_for_plain_parent.

(* every delivered event stems from a successful operation of that transaction *)
Theorem events_only_from_ops : forall sch rkl, wf_events_b sch rkl = true ->
  forall fuel st t rs st' evs e,
  run_tx sch fuel st t = (rs, true, st', evs) -> In e evs ->
  exists st0 o st1, In o (tx_ops t) /\ In (st0, o, st1) (tx_trace sch fuel st t) /\
                    (exists q q', run_op sch fuel (mkOctx (tx_sys t) (tx_vetoes t)) (st0, q) o = Ok (st1, q')) /\
                    (0 < expected_op sch st0 st1 o e)%nat.
Proof. exact events_only_from_ops_wf. Qed.
Print Assumptions events_only_from_ops.

(* a delete with all its cascades: one root-store event for EVERY entity that disappeared, none for
   an entity that is still there *)
Theorem cascade_delete_events_every_referrer : forall sch rkl, wf_events_b sch rkl = true ->
  forall fuel oc st evs s x st' evs',
  run_op sch fuel oc (st, evs) (ODelete s x) = Ok (st', evs') ->
  exists new, evs' = evs ++ new /\
    (forall r i, root_of sch r = r -> vanished st st' r i = true ->
       count_ev (mkEvent r Deleted i (match flows_of sch st r i with [] => false | _ => true end)) new = 1%nat) /\
    (forall e, In e new -> ev_change e = Deleted /\ vanished st st' (root_of sch (ev_store e)) (ev_id e) = true).
Proof. exact cascade_delete_events_wf. Qed.
Print Assumptions cascade_delete_events_every_referrer.

(* listener styles: a listener registered (by any of the four filtering styles) for one change type on
   store s is invoked, for a committed transaction, exactly as often as the expected multiset holds
   events of that type on s - and every invocation is in the mode (sync / async) it asked for *)
Theorem listener_invoked_exactly_once : forall sch rkl fuel st t rs st' evs l ty e,
  wf_events_b sch rkl = true ->
  run_tx sch fuel st t = (rs, true, st', evs) ->
  style_filters (l_style l) = true -> l_types l = [ty] ->
  count_ev e (map fst (delivered_to l evs)) =
  (if str_eqb (ev_store e) (l_store l) && change_eqb (et_change ty) (ev_change e)
   then expected_events sch (tx_trace sch fuel st t) e else 0%nat) /\
  Forall (fun p => snd p = et_is_async ty) (delivered_to l evs).
Proof. exact listener_invoked_exactly_once_lemma. Qed.
Print Assumptions listener_invoked_exactly_once.

(* a registration that names SEVERAL change types in one Add*Listener call (any of the four filtering styles, the
   types in any order, every change kind at most once - EntityCreated and EntityCreatedAsync are one kind): for a
   committed transaction it is notified exactly as often as the expected multiset holds events on its store whose
   change kind it names - once per committed change, never for a kind it does not name - and every notification
   runs in the mode (sync / async) of the entry of that kind *)
Theorem listener_multi_type_invoked_exactly_once : forall sch rkl fuel st t rs st' evs l e,
  wf_events_b sch rkl = true ->
  run_tx sch fuel st t = (rs, true, st', evs) ->
  style_filters (l_style l) = true -> kinds_distinct (l_types l) = true ->
  count_ev e (map fst (delivered_to l evs)) =
  (if str_eqb (ev_store e) (l_store l) && registers l (ev_change e)
   then expected_events sch (tx_trace sch fuel st t) e else 0%nat) /\
  Forall (fun p => registered_mode l (ev_change (fst p)) = Some (snd p)) (delivered_to l evs).
Proof. exact listener_multi_invoked_exactly_once_lemma. Qed.
Print Assumptions listener_multi_type_invoked_exactly_once.

(* "registered for that change type" is decided WHEN THE REGISTRATION IS MADE.  The listener theorems above take
   [l_types] as an immutable list; in Go the additional types arrive as the caller's slice (Add*Listener(l, first,
   sl...): same backing array, same spare capacity) and the adapter ranges over what the library kept whenever an
   event is delivered.  Store/EventsReg.v models the slices, the built-in append and the registration expression of
   store_crud.go (append([]EntityEventType{first}, rest...), [reg_pinned]).  For EVERY program of the caller - slices
   with or without spare capacity, the same slice passed to any number of registrations, cells overwritten at any time
   before or after - the types read through the slice kept for the registration made after [pre] are, at the end,
   first :: (the additional types as they were at that moment), and the registrations made before it hold what they
   held: a later registration or a later write of the caller never changes the kinds of an earlier listener.  So the
   [l_types] of the theorems above is "the types named in the call".  (The shorter append(rest, first) keeps the
   caller's array when it has spare capacity: Examples/C08Regs.v shared_slice_alias_refuted.) *)
Theorem registration_types_fixed : forall spare pre first rest post h1 regs1 hf regsf,
  run_caller (reg_pinned spare) (heap_empty, []) pre = (h1, regs1) ->
  run_caller (reg_pinned spare) (h1, regs1) (CRegister first rest :: post) = (hf, regsf) ->
  nth_error (reg_types (hf, regsf)) (length regs1) = Some (first :: sread h1 rest) /\
  firstn (length regs1) (reg_types (hf, regsf)) = reg_types (h1, regs1).
Proof. exact registration_types_fixed_lemma. Qed.
Print Assumptions registration_types_fixed.

(* constraints (typed and untyped) see every event of their store once *)
Theorem constraint_invoked_exactly_once : forall sch rkl fuel st t rs st' evs l e,
  wf_events_b sch rkl = true ->
  run_tx sch fuel st t = (rs, true, st', evs) ->
  style_filters (l_style l) = false ->
  count_ev e (map fst (delivered_to l evs)) =
  (if str_eqb (ev_store e) (l_store l) then expected_events sch (tx_trace sch fuel st t) e else 0%nat).
Proof. exact constraint_invoked_exactly_once_lemma. Qed.
Print Assumptions constraint_invoked_exactly_once.

(* the filtering itself, for any event list: exactly the events of the registered change type *)
Theorem delivered_to_filters_by_change_type : forall l t evs,
  style_filters (l_style l) = true -> l_types l = [t] ->
  delivered_to l evs =
  map (fun e => (e, et_is_async t))
      (filter (fun e => str_eqb (ev_store e) (l_store l) && change_eqb (et_change t) (ev_change e)) evs).
Proof. exact delivered_to_single. Qed.
Print Assumptions delivered_to_filters_by_change_type.

(* the adapters' test (ChangeType == EntityCreated && changeType.IsCreate() || ...) is "same change" *)
Theorem adapter_fires_iff_same_change : forall t c, adapter_fires t c = change_eqb (et_change t) c.
Proof. exact adapter_fires_spec. Qed.
Print Assumptions adapter_fires_iff_same_change.

(* the instrumented run used by the correspondence check delivers exactly the events of run_tx *)
Theorem run_tx_v_events : forall sch fuel st t,
  let o := run_tx_v sch fuel st t in
  run_tx sch fuel st t = (to_results o, to_committed o, to_state o, map se_ev (to_events o)).
Proof. exact run_tx_v_events_lemma. Qed.
Print Assumptions run_tx_v_events.

(* the entity state handed to a listener: the state right after the operation that caused the event
   (create, update: final state) or right before it (delete: last state) *)
Theorem delivered_state : forall sch fuel st t se,
  In se (to_events (run_tx_v sch fuel st t)) ->
  exists st0 o st1, In (st0, o, st1) (tx_trace sch fuel st t) /\
    se_view se = ent_view sch (match ev_change (se_ev se) with Deleted => st0 | _ => st1 end)
                          (ev_store (se_ev se)) (ev_id (se_ev se)).
Proof. exact delivered_state_lemma. Qed.
Print Assumptions delivered_state.

(* commit actions and tx-complete listeners run once per committed transaction, never otherwise *)
Theorem commit_hooks_once : forall sch fuel st t,
  let o := run_tx_v sch fuel st t in
  to_commit_actions o = (if to_committed o then 1 else 0)%nat /\
  to_tx_complete o = (if to_committed o then 1 else 0)%nat /\
  (to_committed o = false -> to_events o = [] /\ to_state o = st).
Proof. exact commit_hooks_once_lemma. Qed.
Print Assumptions commit_hooks_once.

(* Schemas whose cascade wiring has cycles (e.g. a self-referential tree with cascade delete; wf_events_b
   refuses them): every expected event is still delivered AT LEAST once and nothing else is delivered -
   only "at most once" needs the acyclicity of wf_events_b. *)
Theorem events_at_least_once_any_cascade : forall sch, wf_events0_b sch = true ->
  forall fuel st t rs st' evs,
  run_tx sch fuel st t = (rs, true, st', evs) ->
  (forall e, (expected_events sch (tx_trace sch fuel st t) e <= count_ev e evs)%nat) /\
  (forall e, In e evs -> exists st0 o st1, In (st0, o, st1) (tx_trace sch fuel st t) /\
                                           (0 < expected_op sch st0 st1 o e)%nat).
Proof. exact events_any_cascade_wf. Qed.
Print Assumptions events_at_least_once_any_cascade.

(* ---- the hooks of a transaction as the caller registers them (Store/TxHooks.v: mutateContext + DbImpl.Update /
   DbImpl.Batch): commit actions and pre-commit actions registered on the context object BEFORE the transaction
   (ctx0), inside the function, and inside nested Db.Update / Db.Batch calls that join the running transaction ---- *)

(* Whatever the program registers and however it nests, results, commit flag, state and delivered events are those
   of the instrumented machine run on the program's operations; so every theorem above applies to it. *)
Theorem db_update_refines_run_tx_v : forall sch fuel st sys vetoes ctx0 body,
  let o := db_update sch fuel st sys vetoes ctx0 body in
  let v := run_tx_v sch fuel st (hook_tx sys vetoes ctx0 body) in
  ho_results o = to_results v /\ ho_committed o = to_committed v /\ ho_state o = to_state v /\ ho_events o = to_events v.
Proof. exact db_update_refines_lemma. Qed.
Print Assumptions db_update_refines_run_tx_v.

(* Commit: the commit-action executions are exactly the registrations (context-before-the-transaction ++ body incl.
   nested calls ++ those added by pre-commit actions), each once; every registered pre-commit action ran once, in
   order; each tx-complete listener once.  Rollback: no commit action, no tx-complete listener, no event, state
   unchanged.  A failed operation: rollback, and no pre-commit action ran. *)
Theorem hooks_exactly_once : forall sch fuel st sys vetoes ctx0 body,
  let o := db_update sch fuel st sys vetoes ctx0 body in
  (ho_committed o = true ->
     ho_commit_runs o = registered_commits ctx0 body /\
     ho_pre_runs o = map fst (registered_pres ctx0 body) /\
     ho_tc o = 1%nat) /\
  (ho_committed o = false ->
     ho_commit_runs o = [] /\ ho_tc o = 0%nat /\ ho_events o = [] /\ ho_state o = st) /\
  (forall k, In (Some k) (ho_results o) -> ho_committed o = false /\ ho_pre_runs o = []).
Proof. exact hooks_exactly_once_lemma. Qed.
Print Assumptions hooks_exactly_once.

(* the same as counts, when every registration has its own label (as in the harness) *)
Theorem hooks_count_once : forall sch fuel st sys vetoes ctx0 body,
  let o := db_update sch fuel st sys vetoes ctx0 body in
  ho_committed o = true ->
  (NoDup (registered_commits ctx0 body) ->
   forall k, In k (registered_commits ctx0 body) -> count_occ PeanoNat.Nat.eq_dec (ho_commit_runs o) k = 1%nat) /\
  (NoDup (map fst (registered_pres ctx0 body)) ->
   forall k, In k (map fst (registered_pres ctx0 body)) -> count_occ PeanoNat.Nat.eq_dec (ho_pre_runs o) k = 1%nat) /\
  (forall k, ~ In k (registered_commits ctx0 body) -> count_occ PeanoNat.Nat.eq_dec (ho_commit_runs o) k = 0%nat).
Proof. exact hooks_count_once_lemma. Qed.
Print Assumptions hooks_count_once.

(* A nested Db.Update / Db.Batch with the context of the running transaction is transparent: the whole observation
   (results, commit, state, events, every hook execution) equals that of the program with the nested calls' items
   spliced in place, at any nesting depth. *)
Theorem nested_join_transparent : forall sch fuel st sys vetoes ctx0 body,
  db_update sch fuel st sys vetoes ctx0 body = db_update sch fuel st sys vetoes ctx0 (flatten body) /\
  nest_free (flatten body) = true.
Proof. exact nested_join_transparent_lemma. Qed.
Print Assumptions nested_join_transparent.

(* ---- contexts built AROUND an existing bbolt transaction (NewTxMutateContext; Store/TxShared.v): the caller manages
   the transaction itself (opener ByCaller: bbolt Begin(true) .. Commit / Rollback, bbolt's own Update / Batch) and wraps
   it, and / or the function of a running transaction builds a SECOND context around ctx.Tx() and does part of its work
   with it ([TCtx body]).  Db.Update / Db.Batch called with such a context join the transaction ([HNest]). ---- *)

(* Results, commit flag, state and delivered events are those of the instrumented machine run on the program's
   operations - a pre-commit action can fail the transaction only when somebody runs it ([live_pres]: the primary
   context of a transaction Db.Update / Db.Batch opened); so every event theorem above applies. *)
Theorem shared_update_refines_run_tx_v : forall sch fuel st sys vetoes opn ctx0 prog,
  let o := shared_update sch fuel st sys vetoes opn ctx0 prog in
  let v := run_tx_v sch fuel st (shared_tx opn sys vetoes ctx0 prog) in
  ho_results o = to_results v /\ ho_committed o = to_committed v /\ ho_state o = to_state v /\ ho_events o = to_events v.
Proof. exact shared_update_refines_lemma. Qed.
Print Assumptions shared_update_refines_run_tx_v.

(* The rule next to hooks_exactly_once.  Commit: the commit-action executions are exactly the registrations on the
   primary context (before the first item, by the items incl. nested joins, by its pre-commit actions when they run)
   followed by those on every secondary context, each once - whoever opened the transaction; the pre-commit actions that
   ran are those of the primary context of a transaction Db.Update / Db.Batch opened, each once ([live_pres] is [] for a
   caller-managed transaction, and never contains a registration on a secondary context); each tx-complete listener once
   iff Db.Update / Db.Batch opened the transaction ([tc_runs]).  Rollback (by Db.Update or by the caller): no commit
   action, no tx-complete listener, no event, state unchanged.  A failed operation: rollback, no pre-commit action ran. *)
Theorem shared_hooks_exactly_once : forall sch fuel st sys vetoes opn ctx0 prog,
  let o := shared_update sch fuel st sys vetoes opn ctx0 prog in
  (ho_committed o = true ->
     ho_commit_runs o = shared_registered_commits opn ctx0 prog /\
     ho_pre_runs o = map fst (live_pres opn ctx0 prog) /\
     ho_tc o = tc_runs opn) /\
  (ho_committed o = false ->
     ho_commit_runs o = [] /\ ho_tc o = 0%nat /\ ho_events o = [] /\ ho_state o = st) /\
  (forall k, In (Some k) (ho_results o) -> ho_committed o = false /\ ho_pre_runs o = []).
Proof. exact shared_hooks_exactly_once_lemma. Qed.
Print Assumptions shared_hooks_exactly_once.

(* The caller-managed transaction spelled out: it commits iff every operation succeeded (no pre-commit action can
   fail it: none runs), no tx-complete listener is involved, and after the commit the commit actions of all its
   contexts ran exactly once each. *)
Theorem caller_tx_hooks : forall sch fuel st sys vetoes ctx0 prog,
  let o := shared_update sch fuel st sys vetoes ByCaller ctx0 prog in
  (ho_committed o = true <-> (forall r, In r (ho_results o) -> r = None)) /\
  ho_pre_runs o = [] /\ ho_tc o = 0%nat /\
  (ho_committed o = true ->
     ho_commit_runs o = (mc_commit ctx0 ++ own_commits prog) ++ flat_map mc_commit (sec_ctxs prog)).
Proof. exact caller_tx_hooks_lemma. Qed.
Print Assumptions caller_tx_hooks.

(* A program without secondary contexts in a transaction Db.Update / Db.Batch opened is a program of Store/TxHooks.v:
   [shared_update] extends [db_update], so hooks_exactly_once is the special case. *)
Theorem shared_update_extends_db_update : forall sch fuel st sys vetoes ctx0 body,
  shared_update sch fuel st sys vetoes ByDb ctx0 (map TOwn body) = db_update sch fuel st sys vetoes ctx0 body.
Proof. exact shared_update_own_lemma. Qed.
Print Assumptions shared_update_extends_db_update.

(* "with the entity's final state (create, update) or last state (delete)" is decided WHEN THE OPERATION RUNS.
   [delivered_state] above takes an event's payload as a value computed from the database states ([attach]); in Go a
   queued EntityChangeState holds POINTERS (FinalState / InitialState), the caller keeps the struct it passed to
   Create / Update - a scratch struct re-filled for the next create of a loop, fields assigned after the call - and
   the listeners run at commit time.  Store/EventsCaller.v models the structs on a heap, a bucket and the event
   code of store_crud.go (every payload is loaded with FindById into a struct only the library knows,
   [LibPinned]).  For EVERY program of the caller - the same struct passed to any number of creates / updates,
   any struct it holds (also one FindById handed to it) overwritten at any time, id included - what the listeners
   are handed at the end for the k-th queued event is the value recorded when it was queued; records are never
   taken back; and the record of an operation is the bucket's content for the event's entity right after that
   create / update, right before that delete.  So the payload of [attach] is "the committed state of that
   operation's entity".  (Create without loadFinalState keeps the caller's pointer: Examples/C08Caller.v
   scratch_loop_alias_refuted - three creates through one scratch struct announce the never-stored last id thrice.) *)
Theorem delivered_state_fixed_at_operation : forall pre c post st1 st2 stf,
  run_ecaller LibPinned estate_empty pre = st1 ->
  estep LibPinned st1 c = st2 ->
  run_ecaller LibPinned st2 post = stf ->
  delivered stf = map Some (es_snap stf) /\
  firstn (length (es_snap st2)) (es_snap stf) = es_snap st2 /\
  (forall q sn, es_queue st2 = es_queue st1 ++ [q] -> es_snap st2 = es_snap st1 ++ [sn] ->
     fst sn = q_id q /\
     db_get (match q_change q with Deleted => es_db st1 | _ => es_db st2 end) (q_id q) = Some (snd sn)).
Proof. exact delivered_state_fixed_lemma. Qed.
Print Assumptions delivered_state_fixed_at_operation.
