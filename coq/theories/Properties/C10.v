(* C10 - Parsing and evaluation are total: no panics, invalid input is rejected.
   LANGUAGE / GLUE PART (lexer error recovery and zitiql.parse / ast.Parse).  The typer / evaluator
   totality theorems are in Properties/C10Typer.v.  Statements only.

   lex_full      model of the ANTLR lexer loop on the complete token rule set of ZitiQl.g4 (rules as
                 regular expressions, derivative scanners; longest match, first rule wins, unrecognised
                 regions reported and DROPPED);  segments are tokens and dropped regions, in input order;
   parse_glue    model of zitiql.parse + ast.Parse: which listener hears the lexer / the parser, what
                 the caller gets;  [fixed_glue]: the collecting ErrorListener is attached to the lexer
                 too and SyntaxError is nil-safe;
   parser        the generated parser + tree walk - a universally quantified function: the theorems
                 hold whatever the ANTLR parser does with the token stream.

   PARTIAL BY NATURE: termination and panic-freedom of the ANTLR runtime itself (ATN interpreter,
   adaptive prediction, pooled lexer/parser instances) are not exhibited by any Gallina model; the
   theorems below say what follows for the caller from the behaviour of the glue, the runtime is
   exercised by the correspondence check only. *)
From Coq Require Import List NArith Bool.
From Storage Require Import Base.Bytes Lang.Tokens Lang.Lexer Lang.Regex Lang.LexerFull Lang.LexerProofs Lang.Glue Lang.C10Proofs Lang.GlueEntry Lang.GlueEntryProofs Lang.ForeignBlank Lang.ForeignBlankProofs.
Import ListNotations.

(* the lexer loses or invents nothing silently: tokens and dropped regions, concatenated in order,
   are the input *)
Theorem lexer_partition : forall s, concat (map seg_text (lex_full s)) = s.
Proof. exact lexer_partition_lemma. Qed.
Print Assumptions lexer_partition.

(* every dropped region contains at least one character of the input *)
Theorem dropped_regions_nonempty : forall s t, In t (drops_of (lex_full s)) -> t <> [].
Proof. exact drops_nonempty_lemma. Qed.
Print Assumptions dropped_regions_nonempty.

(* if the lexer dropped anything - the input contains characters no token rule accepts - the
   caller gets an error, whatever the parser made of the remaining tokens *)
Theorem lexer_error_rejects : forall (Q : Type) (parser : list (nat * str) -> nat * option Q) s,
  drops_of (lex_full s) <> [] -> parse_glue Q parser fixed_glue s = Rejected.
Proof. exact lexer_error_rejects_lemma. Qed.
Print Assumptions lexer_error_rejects.

(* never a silently altered query: an accepted query was built from a token sequence that spells
   the input exactly, and the parser reported no error on it *)
Theorem accepted_query_is_unaltered : forall (Q : Type) (parser : list (nat * str) -> nat * option Q) s q,
  parse_glue Q parser fixed_glue s = Accepted q ->
  drops_of (lex_full s) = [] /\
  concat (map snd (tokens_of (lex_full s))) = s /\
  parser (tokens_of (lex_full s)) = (0, Some q).
Proof. exact accepted_unaltered_lemma. Qed.
Print Assumptions accepted_query_is_unaltered.

(* the glue itself never panics (the listener's SyntaxError is nil-safe).  Partial: says nothing
   about panics inside the ANTLR runtime or the listener, which [parser] abstracts as total *)
Theorem glue_never_panics_partial : forall (Q : Type) (parser : list (nat * str) -> nat * option Q) s,
  parse_glue Q parser fixed_glue s <> Panicked.
Proof. exact glue_no_panic_lemma. Qed.
Print Assumptions glue_never_panics_partial.

(* ENTRY POINTS (Lang/GlueEntry.v: zitiql.parse with its debug flag on pooled lexer / parser instances that
   carry the listeners earlier callers left on them).  Whether a text is refused is a function of the text:
   every public entry point (zitiql.Parse, ParseWithDebug false / true, ast.Parse, the string variants of
   the store query APIs), after any history of earlier calls through any entry points, gives the caller
   the verdict of the glue of Lang/Glue.v *)
Theorem entry_points_agree : forall (Q : Type) (parser : list (nat * str) -> nat * option Q)
    (e1 e2 : entry) (h1 h2 : list (entry * str)) s,
  run_entry Q parser LexerAlways e1 (length h1) (pool_after Q parser LexerAlways 0 fresh_instances h1) s =
  run_entry Q parser LexerAlways e2 (length h2) (pool_after Q parser LexerAlways 0 fresh_instances h2) s.
Proof. exact entry_history_irrelevant_lemma. Qed.
Print Assumptions entry_points_agree.

Theorem entry_point_is_glue : forall (Q : Type) (parser : list (nat * str) -> nat * option Q) e me inst s,
  run_entry Q parser LexerAlways e me inst s = parse_glue Q parser fixed_glue s.
Proof. exact run_entry_is_glue. Qed.
Print Assumptions entry_point_is_glue.

(* text with characters no token rule accepts is refused through every entry point, on any instances *)
Theorem every_entry_rejects_lexer_errors : forall (Q : Type) (parser : list (nat * str) -> nat * option Q) e me inst s,
  drops_of (lex_full s) <> [] -> run_entry Q parser LexerAlways e me inst s = Rejected.
Proof. exact every_entry_rejects_lexer_errors_lemma. Qed.
Print Assumptions every_entry_rejects_lexer_errors.


(* FOREIGN BLANKS (Lang/ForeignBlank.v).  The white space of the grammar is the token rule WS of the rule table, and
   that rule matches exactly space, LF, tab, CR *)
Theorem grammar_ws_is_four_characters :
  In (K_WS, WSc) full_table /\ forall c, matches WSc [c] = is_ws c.
Proof. exact (conj ws_rule_in_table ws_class_exact_lemma). Qed.
Print Assumptions grammar_ws_is_four_characters.

(* every character of the table of blank-like characters - the 21 other runes of Go's unicode.IsSpace (what
   strings.TrimSpace / strings.Fields strip), the other C0 / C1 controls with NUL, BOM and the invisible format
   characters, U+FFFD (a byte that is not UTF-8), look-alikes of ASCII - is not white space of the grammar, is the first
   character of no token and the last character of no token (finite table, checked against the rule table) *)
Theorem blank_like_characters_are_foreign : forall c, In c blank_like_foreign ->
  is_ws c = false /\ matches WSc [c] = false /\ starts_no_token c = true /\ ends_no_token c = true.
Proof. exact blank_table_lemma. Qed.
Print Assumptions blank_like_characters_are_foreign.

Theorem go_space_runes_are_in_the_table : forall c, In c go_space_foreign -> In c blank_like_foreign.
Proof. exact go_space_in_table. Qed.
Print Assumptions go_space_runes_are_in_the_table.

(* a text whose first character - behind any amount of grammar white space - can start no token is refused through every
   entry point, whatever follows; likewise a text whose LAST character can end no token, whatever precedes it
   (every token of the lexer model is a match of its rule, and no match of any rule ends in that character) *)
Theorem text_starting_with_untokenizable_rejected :
  forall (Q : Type) (parser : list (nat * str) -> nat * option Q) e me inst ws c s,
  forallb is_ws ws = true -> starts_no_token c = true ->
  run_entry Q parser LexerAlways e me inst (ws ++ c :: s) = Rejected.
Proof. exact untokenizable_first_rejected_lemma. Qed.
Print Assumptions text_starting_with_untokenizable_rejected.

Theorem text_ending_with_untokenizable_rejected :
  forall (Q : Type) (parser : list (nat * str) -> nat * option Q) e me inst s c,
  ends_no_token c = true ->
  run_entry Q parser LexerAlways e me inst (s ++ [c]) = Rejected.
Proof. exact untokenizable_last_rejected_lemma. Qed.
Print Assumptions text_ending_with_untokenizable_rejected.

(* together: no blank-like foreign character can be trimmed away unnoticed - in front of the text or at its end it makes
   every entry point refuse the text *)
Theorem foreign_blank_at_an_edge_rejected :
  forall (Q : Type) (parser : list (nat * str) -> nat * option Q) e me inst c, In c blank_like_foreign ->
  (forall ws s, forallb is_ws ws = true -> run_entry Q parser LexerAlways e me inst (ws ++ c :: s) = Rejected) /\
  (forall s, run_entry Q parser LexerAlways e me inst (s ++ [c]) = Rejected).
Proof. exact foreign_blank_edges_rejected_lemma. Qed.
Print Assumptions foreign_blank_at_an_edge_rejected.
