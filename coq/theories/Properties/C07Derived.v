(* C07 for histories that contain the derived operations of Store/XOps.v: DeleteWhere and creates / updates
   whose entity carries a value PersistEntity rejects (required string, over-long list element, refused tag value).
   The derived operations expand to plain operations of the store machine, so the statements of Properties/C07.v
   carry over (xtx_is_tx) and are restated here for bodies of extended operations. *)
From Coq Require Import List NArith Bool.
From Storage Require Import Base.Bytes Store.Model Store.XOps Store.XOpsProofs.
Import ListNotations.

(* Db.Update over a body with derived operations = Db.Update over the plain operations it performs: same commit
   flag, same resulting database, same delivered events - every theorem about run_tx covers it *)
Theorem xtx_is_tx : forall sch fuel st t rs c st' evs,
  run_xtx sch fuel st t = (rs, c, st', evs) ->
  exists rs0, run_tx sch fuel st (xtx_flat sch fuel st t) = (rs0, c, st', evs).
Proof. exact run_xtx_is_run_tx. Qed.
Print Assumptions xtx_is_tx.

Theorem xtx_all_or_nothing : forall sch fuel st t rs st' evs,
  run_xtx sch fuel st t = (rs, false, st', evs) -> st' = st /\ evs = [].
Proof. exact run_xtx_all_or_nothing_lemma. Qed.
Print Assumptions xtx_all_or_nothing.

Theorem xtx_error_iff : forall sch fuel st t,
  let '(rs, committed, _, _) := run_xtx sch fuel st t in
  committed = false <-> (xtx_precommit_fails t = true \/ exists k, In (Some k) rs).
Proof. exact run_xtx_error_iff_lemma. Qed.
Print Assumptions xtx_error_iff.

Theorem xfailure_at_any_position : forall sch fuel oc pre x post stev stev' k,
  snd (run_xops sch fuel oc stev pre) = Ok stev' ->
  run_xop sch fuel oc stev' x = Err k ->
  snd (run_xops sch fuel oc stev (pre ++ x :: post)) = Err k.
Proof. exact run_xops_failure_propagates. Qed.
Print Assumptions xfailure_at_any_position.

(* DeleteWhere returns the error of the first DeleteById that fails - of ANY kind, at ANY position of the
   collected id list - and therefore fails the transaction *)
Theorem delete_where_returns_first_failure : forall sch fuel oc stev s flt pre i post stev' k,
  dw_ids sch (fst stev) s flt = pre ++ i :: post ->
  snd (run_ops sch fuel oc stev (map (ODelete s) pre)) = Ok stev' ->
  delete_by_id sch oc fuel stev' s i = Err k ->
  run_xop sch fuel oc stev (XDeleteWhere s flt) = Err k.
Proof. exact delete_where_first_failure. Qed.
Print Assumptions delete_where_returns_first_failure.

(* DeleteWhere reports success only if every DeleteById of the collected ids succeeded *)
Theorem delete_where_nil_means_all_deleted : forall sch fuel oc stev s flt stev',
  run_xop sch fuel oc stev (XDeleteWhere s flt) = Ok stev' ->
  exists rs, run_ops sch fuel oc stev (map (ODelete s) (dw_ids sch (fst stev) s flt)) = (rs, Ok stev') /\
             Forall (fun r => r = None) rs /\ length rs = length (dw_ids sch (fst stev) s flt).
Proof. exact delete_where_ok_all_deleted. Qed.
Print Assumptions delete_where_nil_means_all_deleted.

(* a rejection raised while the entity is persisted - at the level of the store or of its parent - reaches the caller *)
Theorem rejected_persist_fails_create : forall sch fuel oc stev bt req s i sys fv sv,
  persist_rejected bt req sch s fv sv None = true ->
  run_xop sch fuel oc stev (XPersist bt req (OCreate s i sys fv sv)) = Err EOther.
Proof. exact persist_rejection_fails_create. Qed.
Print Assumptions rejected_persist_fails_create.

Theorem rejected_persist_fails_update : forall sch fuel oc stev bt req s i fv sv ch,
  persist_rejected bt req sch (update_target sch (fst stev) s i) fv sv ch = true ->
  exists k, run_xop sch fuel oc stev (XPersist bt req (OUpdate s i fv sv ch)) = Err k.
Proof. exact persist_rejection_fails_update. Qed.
Print Assumptions rejected_persist_fails_update.
