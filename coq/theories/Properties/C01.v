(* C01 - Filter evaluation returns exactly the entities satisfying the predicate.
   Statements only; each closed by [exact] and followed by Print Assumptions.
   Models: Ast/{Schema,Untyped,Typed,Typer,Eval,Stacked,Seek,Spec}.v (typer and evaluator mirror the
   FIXED code, see design/C01.md).  [fmt_float] / [fmt_time] stand for strconv.FormatFloat and
   time.MarshalText: the theorems hold for every such formatter. *)
From Coq Require Import List ZArith NArith Bool.
From Storage Require Import Base.Bytes Ast.F64 Ast.Values Ast.Schema Ast.Stacked Ast.Untyped Ast.Typed Ast.Typer
  Ast.Eval Ast.Spec Ast.Seek Ast.StackedProofs Ast.ScanProofs Ast.TyperProofs.
Import ListNotations.

(* Whatever typed tree the typing pass (symbol validation, operator/type dispatch, hoisting of set functions,
   seek specialisation, sub-queries) selects for a filter, evaluating it on any entity of any dataset bolt can
   hold yields exactly the documented meaning of the filter on that entity: no error, no panic, no
   dependence on dispatch, cursors or shortcuts. *)
Theorem typer_selects_documented_semantics :
  forall (fmt_float : f64 -> str) (fmt_time : Z -> Z -> str) (sch : schema) (S : nat) (u : untyped) (t : typed),
    typer sch S u = Ok t ->
    forall (d : db) (id : str), wf_db sch d ->
      eval fmt_float fmt_time (mk sch d S id) t = Ok (spec fmt_float fmt_time sch d S id u).
Proof. exact typer_selects_documented_semantics_lemma. Qed.
Print Assumptions typer_selects_documented_semantics.

(* On a sorted duplicate-free string set the seek shortcut of anyOf (position the bolt cursor at the first key
   >= the constant, evaluate the predicate there) and the scan loop give the same answer: as functions of the
   element list ... *)
Theorem seek_shortcut_sound_lists :
  forall (fmt_float : f64 -> str) (fmt_time : Z -> Z -> str) (l : list sval) (v : str),
    sorted_strs l -> seek_path fmt_float fmt_time l v = scan_path fmt_float fmt_time l v.
Proof. exact seek_scan_agree. Qed.
Print Assumptions seek_shortcut_sound_lists.

(* ... and as evaluator nodes: AnyOfSetExprNode with a seekable predicate = the same node without it *)
Theorem seek_shortcut_sound :
  forall (fmt_float : f64 -> str) (fmt_time : Z -> Z -> str) (E : env) (n : str) (l r : strnode typed),
    (l = SSym n \/ l = SAny n) -> str_is_const r = true ->
    sorted_strs (set_elems E n) ->
    eval fmt_float fmt_time E (TAnyOfSeek n l r OpEQ) = eval fmt_float fmt_time E (TAnyOf n (TBinStr l r OpEQ)).
Proof. exact seek_shortcut_sound_lemma. Qed.
Print Assumptions seek_shortcut_sound.

(* Store.QueryIds and Store.IterateIds (scan of the entities bucket in id order with the paging counters)
   return exactly the ids of the entities that satisfy the filter, in id order, then skip / limit:
   no omission, no extra. *)
Theorem query_ids_exact :
  forall (fmt_float : f64 -> str) (fmt_time : Z -> Z -> str) (sch : schema) (S : nat)
         (p : untyped) (skip limit : option Z) (t : typed),
    typer sch S (UQuery p skip limit) = Ok t ->
    forall d : db, wf_db sch d ->
      query_ids fmt_float fmt_time sch d S t = Ok (spec_ids fmt_float fmt_time sch d S (UQuery p skip limit)) /\
      iterate_ids fmt_float fmt_time sch d S t = Ok (spec_ids fmt_float fmt_time sch d S (UQuery p skip limit)).
Proof. exact query_ids_exact_lemma. Qed.
Print Assumptions query_ids_exact.

(* The stacked cursor of a dotted set symbol (explicit stack, calculateNextCursorPosition) enumerates every key
   reached through the chain exactly once, depth first in bolt order; a reference that is null or dangling
   contributes a null key at single-valued hops and nothing at set hops. *)
Theorem stacked_cursor_enumerates :
  forall (d : db) (l0 : link) (up : list link) (row : str),
    stacked_keys d (l0 :: up) row = flat_map (chain_enum d up) (link_step d l0 row).
Proof. exact stacked_keys_enum. Qed.
Print Assumptions stacked_cursor_enumerates.

(* The sub-query / IterateIds scanner (uniqueIndexScanner.Next) yields the matching ids after skipping
   [toff] of them, at most [tlim]; null elements of a linked set are not entities. *)
Theorem cursor_scanner_exact :
  forall (f : str -> bool) (evalrow : str -> res bool) (toff tlim : Z) (c : list sval),
    (forall id, evalrow id = Ok (f id)) ->
    scan_next evalrow toff tlim c 0 0 =
      Ok (firstn (Z.to_nat (tlim - 0)) (skipn (Z.to_nat (toff - 0)) (filter f (ids_of c)))).
Proof. exact cursor_scanner_exact_lemma. Qed.
Print Assumptions cursor_scanner_exact.
