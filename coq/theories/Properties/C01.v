(* C01 - Filter evaluation returns exactly the entities satisfying the predicate.
   Statements only; each closed by [exact] and followed by Print Assumptions.
   Models: Ast/{Schema,Untyped,Typed,Typer,Eval,Stacked,Seek,Spec}.v (typer and evaluator mirror the
   FIXED code, see design/C01.md).  [fmt_float] / [fmt_time] stand for strconv.FormatFloat and
   time.MarshalText: the theorems hold for every such formatter. *)
From Coq Require Import List ZArith NArith Bool.
From Storage Require Import Base.Bytes Ast.F64 Ast.Values Ast.Schema Ast.Stacked Ast.Untyped Ast.Typed Ast.Typer
  Ast.Eval Ast.Spec Ast.Seek Ast.StackedProofs Ast.ScanProofs Ast.TyperProofs Ast.ChildStore Ast.ChildStoreProofs
  Ast.Session Ast.SessionProofs.
From Coq Require Import Permutation.
Import ListNotations.

(* Whatever typed tree the typing pass (symbol validation, operator/type dispatch, hoisting of set functions,
   seek specialisation, sub-queries) selects for a filter, evaluating it on any entity of any dataset bolt can
   hold yields exactly the documented meaning of the filter on that entity: no error, no panic, no
   dependence on dispatch, cursors or shortcuts. *)
Theorem typer_selects_documented_semantics :
  forall (fmt_float : f64 -> str) (fmt_time : Z -> Z -> str) (sch : schema) (S : nat) (u : untyped) (t : typed),
    typer sch S u = Ok t ->
    forall (d : db) (id : str), wf_db sch d ->
      eval fmt_float fmt_time (mk sch d S id) t = Ok (spec fmt_float fmt_time sch d S id u).
Proof. exact typer_selects_documented_semantics_lemma. Qed.
Print Assumptions typer_selects_documented_semantics.

(* On a sorted duplicate-free string set the seek shortcut of anyOf (position the bolt cursor at the first key
   >= the constant, evaluate the predicate there) and the scan loop give the same answer: as functions of the
   element list ... *)
Theorem seek_shortcut_sound_lists :
  forall (fmt_float : f64 -> str) (fmt_time : Z -> Z -> str) (l : list sval) (v : str),
    sorted_strs l -> seek_path fmt_float fmt_time l v = scan_path fmt_float fmt_time l v.
Proof. exact seek_scan_agree. Qed.
Print Assumptions seek_shortcut_sound_lists.

(* ... and as evaluator nodes: AnyOfSetExprNode with a seekable predicate = the same node without it *)
Theorem seek_shortcut_sound :
  forall (fmt_float : f64 -> str) (fmt_time : Z -> Z -> str) (E : env) (n : str) (l r : strnode typed),
    (l = SSym n \/ l = SAny n) -> str_is_const r = true ->
    sorted_strs (set_elems E n) ->
    eval fmt_float fmt_time E (TAnyOfSeek n l r OpEQ) = eval fmt_float fmt_time E (TAnyOf n (TBinStr l r OpEQ)).
Proof. exact seek_shortcut_sound_lemma. Qed.
Print Assumptions seek_shortcut_sound.

(* Store.QueryIds and Store.IterateIds (scan of the entities bucket in id order with the paging counters)
   return exactly the ids of the entities that satisfy the filter, in id order, then skip / limit:
   no omission, no extra. *)
Theorem query_ids_exact :
  forall (fmt_float : f64 -> str) (fmt_time : Z -> Z -> str) (sch : schema) (S : nat)
         (p : untyped) (skip limit : option Z) (t : typed),
    typer sch S (UQuery p skip limit) = Ok t ->
    forall d : db, wf_db sch d ->
      query_ids fmt_float fmt_time sch d S t = Ok (spec_ids fmt_float fmt_time sch d S (UQuery p skip limit)) /\
      iterate_ids fmt_float fmt_time sch d S t = Ok (spec_ids fmt_float fmt_time sch d S (UQuery p skip limit)).
Proof. exact query_ids_exact_lemma. Qed.
Print Assumptions query_ids_exact.

(* The stacked cursor of a dotted set symbol (explicit stack, calculateNextCursorPosition) enumerates every key
   reached through the chain exactly once, depth first in bolt order; a reference that is null or dangling
   contributes a null key at single-valued hops and nothing at set hops. *)
Theorem stacked_cursor_enumerates :
  forall (d : db) (l0 : link) (up : list link) (row : str),
    stacked_keys d (l0 :: up) row = flat_map (chain_enum d up) (link_step d l0 row).
Proof. exact stacked_keys_enum. Qed.
Print Assumptions stacked_cursor_enumerates.

(* The sub-query / IterateIds scanner (uniqueIndexScanner.Next) yields the matching ids after skipping
   [toff] of them, at most [tlim]; null elements of a linked set are not entities. *)
Theorem cursor_scanner_exact :
  forall (f : str -> bool) (evalrow : str -> res bool) (toff tlim : Z) (c : list sval),
    (forall id, evalrow id = Ok (f id)) ->
    scan_next evalrow toff tlim c 0 0 =
      Ok (firstn (Z.to_nat (tlim - 0)) (skipn (Z.to_nat (toff - 0)) (filter f (ids_of c)))).
Proof. exact cursor_scanner_exact_lemma. Qed.
Print Assumptions cursor_scanner_exact.

(* ---- child stores and scan strategies (Ast/ChildStore.v) ---- *)

(* A query through a child store (a view of the parent's entity buckets: plain = the parent entities that carry
   the child's sub-bucket, Extended() = every parent entity) returns exactly the MEMBERS that satisfy the filter,
   through QueryIds and through IterateIds. *)
Theorem child_store_query_exact :
  forall (fmt_float : f64 -> str) (fmt_time : Z -> Z -> str) (sch : schema) (h : list childdecl) (S : nat)
         (c : childdecl) (p : untyped) (skip limit : option Z) (t : typed),
    find_child h S = Some c ->
    typer sch S (UQuery p skip limit) = Ok t ->
    forall d : db, wf_db sch (child_db h d) ->
      let members := map fst (child_entities c (d (ch_parent c))) in
      let answer := page skip limit (filter (fun x => spec fmt_float fmt_time sch (child_db h d) S x p) members) in
      query_ids fmt_float fmt_time sch (child_db h d) S t = Ok answer /\
      iterate_ids fmt_float fmt_time sch (child_db h d) S t = Ok answer.
Proof. exact child_store_query_exact_lemma. Qed.
Print Assumptions child_store_query_exact.

Theorem child_store_members_plain :
  forall (c : childdecl) (ents : list (str * entity)) (id : str) (e : entity),
    ch_ext c = false ->
    (In (id, e) (child_entities c ents) <-> In (id, e) ents /\ has_child_data (ch_path c) e = true).
Proof. exact child_members_plain. Qed.
Print Assumptions child_store_members_plain.

Theorem child_store_members_extended :
  forall (c : childdecl) (ents : list (str * entity)), ch_ext c = true -> child_entities c ents = ents.
Proof. exact child_members_extended. Qed.
Print Assumptions child_store_members_extended.

(* The oracle applied to the answer of every scan strategy (id order forward / reverse, sorted by other fields,
   with and without paging, over the entities bucket or a caller-provided cursor):
   (1) it raises no alarm for a scanner that pages ANY ordering of exactly the matching entities; *)
Theorem strategy_oracle_no_false_alarm :
  forall (M order : list str) (skip limit : option Z),
    NoDup M -> Permutation order M ->
    strategy_ok OAny M skip limit (page skip limit order) (Some (Z.of_nat (length M))) = true /\
    strategy_ok OFwd M skip limit (page skip limit M) (Some (Z.of_nat (length M))) = true /\
    strategy_ok ORev M skip limit (page skip limit (rev M)) (Some (Z.of_nat (length M))) = true.
Proof.
  intros M order skip limit Hnd Hp. split; [exact (strategy_any_sound M order skip limit Hnd Hp)|].
  split; [exact (strategy_fwd_sound M skip limit) | exact (strategy_rev_sound M skip limit)].
Qed.
Print Assumptions strategy_oracle_no_false_alarm.

(* (2) an accepted answer holds only matching entities, none twice, as many as skip / limit leave, and the
   reported total is the number of matching entities whatever the paging; *)
Theorem strategy_oracle_no_omission_no_extra :
  forall (M : list str) (skip limit : option Z) (ids : list str) (count : option Z),
    NoDup M -> strategy_ok OAny M skip limit ids count = true ->
    NoDup ids /\ incl ids M /\ length ids = length (page skip limit M) /\
    (forall c, count = Some c -> c = Z.of_nat (length M)).
Proof. exact strategy_any_complete. Qed.
Print Assumptions strategy_oracle_no_omission_no_extra.

(* (3) without paging the selected SET is the matching set, whichever strategy served the query; the id-ordered
   strategies are pinned to the page of the id order. *)
Theorem strategy_selects_matching_set :
  forall (M ids : list str) (count : option Z),
    NoDup M -> strategy_ok OAny M None None ids count = true -> Permutation ids M.
Proof. exact strategy_unpaged_set. Qed.
Print Assumptions strategy_selects_matching_set.

Theorem strategy_id_order_exact :
  forall (k : order_kind) (M : list str) (skip limit : option Z) (ids : list str) (count : option Z),
    k <> OAny -> strategy_ok k M skip limit ids count = true ->
    ids = page skip limit (match k with ORev => rev M | _ => M end) /\ (forall c, count = Some c -> c = Z.of_nat (length M)).
Proof. exact strategy_exact_complete. Qed.
Print Assumptions strategy_id_order_exact.

(* ---- sequences of queries within one process (Ast/Session.v) ---- *)

(* ast.Parse allocates the query object it returns and the mutators of ast.Query (SetPredicate, SetSkip, SetLimit,
   AdoptSortFields) change the object their caller holds: after ANY earlier callers (whatever they parsed, refined
   and evaluated, on whatever store; [h] = the objects they left behind) the object a caller evaluates is the one
   built from its own filter text and its own mutators. *)
Theorem session_objects_independent :
  forall (l : list step) (h : heap),
    run_session h l = map (fun s => Some (fold_left mutate (s_muts s) (parse_obj (s_text s)))) l.
Proof. exact session_objects_lemma. Qed.
Print Assumptions session_objects_independent.

(* Evaluation of a filter text is a function of the text (+ the caller's own refinements) and the database only:
   the answer a step gets is the same in every session that contains the step, at whatever position. *)
Theorem session_history_irrelevant :
  forall (fmt_float : f64 -> str) (fmt_time : Z -> Z -> str) (sch : schema) (d : db) (h h' : heap)
         (pre pre' post post' : list step) (s : step),
    nth_error (session_answers fmt_float fmt_time sch d h (pre ++ s :: post)) (length pre) =
    nth_error (session_answers fmt_float fmt_time sch d h' (pre' ++ s :: post')) (length pre').
Proof. exact session_history_irrelevant_lemma. Qed.
Print Assumptions session_history_irrelevant.

(* ... and it is the documented one: a caller that refined its query gets exactly the entities the refined query
   selects (new predicate, then skip / limit), *)
Theorem session_step_exact :
  forall (fmt_float : f64 -> str) (fmt_time : Z -> Z -> str) (sch : schema) (d : db) (h : heap)
         (pre post : list step) (s : step) (t : typed),
    typer sch (s_store s) (refine (s_text s) (s_muts s)) = Ok t ->
    wf_db sch d ->
    nth_error (session_answers fmt_float fmt_time sch d h (pre ++ s :: post)) (length pre) =
      Some (Ok (spec_ids fmt_float fmt_time sch d (s_store s) (refine (s_text s) (s_muts s)))).
Proof. exact session_step_exact_lemma. Qed.
Print Assumptions session_step_exact.

(* a plain query (textually identical to an earlier, refined one or not) exactly the entities satisfying its
   predicate: no omission, no extra, whatever happened before. *)
Theorem session_query_exact :
  forall (fmt_float : f64 -> str) (fmt_time : Z -> Z -> str) (sch : schema) (d : db) (h : heap)
         (pre post : list step) (S : nat) (p : untyped) (skip limit : option Z) (t : typed),
    typer sch S (UQuery p skip limit) = Ok t ->
    wf_db sch d ->
    nth_error (session_answers fmt_float fmt_time sch d h
                 (pre ++ {| s_store := S; s_text := UQuery p skip limit; s_muts := [] |} :: post)) (length pre) =
      Some (Ok (spec_ids fmt_float fmt_time sch d S (UQuery p skip limit))).
Proof. exact session_query_exact_lemma. Qed.
Print Assumptions session_query_exact.

(* Interleavings: several callers hold query objects at the same time and parse / refine / evaluate in any order
   (in particular: a caller refines its object, meanwhile another caller runs a query of its own - the scanners call
   SetSkip / SetLimit on that one -, then the first caller evaluates).  Every caller evaluates the object built from
   what IT parsed and the mutators IT applied ... *)
Theorem session_interleaving_independent :
  forall l : list event, run_events start l = spec_events no_view l.
Proof. exact events_interleaving_lemma. Qed.
Print Assumptions session_interleaving_independent.

(* ... and that object is a function of the caller's own events only. *)
Theorem caller_view_own_events :
  forall (l : list event) (v : view) (c : nat),
    fold_left view_step l v c = fold_left view_step (own_events c l) v c.
Proof. exact view_own_events_lemma. Qed.
Print Assumptions caller_view_own_events.
