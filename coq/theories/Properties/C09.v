(* C09 - Integrity check: sound, complete, read-only in check mode, convergent in fix.
   Statements over the executable checker model Store/Integrity.v ("the check" = CheckIntegrity of every
   store of the schema in schema order: link collections first, then the constraints in registration
   order), for EVERY value of the store machine's state - any unique-index, set-index, back-reference or
   link component may be corrupt - and, for the fix theorem, every schema passing the boolean check
   [wf_c09].  The model mirrors the code with the C09 repairs (fixes/C09-*.patch). *)
From Coq Require Import List NArith Bool.
From Storage Require Import Base.Bytes Store.Model Store.Integrity Store.IntegrityLoops Store.IntegrityUnique
  Store.IntegritySet Store.IntegrityFk Store.IntegrityLinks Store.IntegrityProofs Store.UniqueProofs Store.WfSchema.
Import ListNotations.

(* [Consistent sch st] = for every link collection and constraint of the schema the C03 / C04 / C05
   mirror statement (unique index <-> entities, set index <-> entities without empty keys, back-references
   exact and fk targets present, links reciprocated and not dangling) and no nil in a non-nullable field. *)

(* sound: on a consistent database the check reports nothing *)
Theorem check_sound : forall sch st, Consistent sch st -> fst (check_all sch false st) = [].
Proof. exact check_sound_lemma. Qed.
Print Assumptions check_sound.

(* complete: if the check reports nothing the database is consistent - for ALL states, i.e. every
   combination of missing / stale / wrong-target / dangling / one-sided index, back-reference and link
   entries, empty index keys, nil or dangling references is reported *)
Theorem check_complete : forall sch st, fst (check_all sch false st) = [] -> Consistent sch st.
Proof. exact check_complete_lemma. Qed.
Print Assumptions check_complete.

(* read-only: check-only mode leaves every state unchanged *)
Theorem check_readonly : forall sch st, snd (check_all sch false st) = st.
Proof. exact check_readonly_lemma. Qed.
Print Assumptions check_readonly.

(* convergent: after ONE fix run an immediate re-check reports only genuine data conflicts (duplicate
   unique values, nil in a non-nullable field, dangling reference in a non-nullable fk), none of them as
   fixed, and every index / back-reference / link component mirrors the entities up to those conflicts *)
Theorem fix_convergent : forall sch st, wf_c09 sch = true ->
  let st' := snd (check_all sch true st) in
  (forall x, In x (fst (check_all sch false st')) -> unfixable (r_kind x) = true /\ r_fixed x = false) /\
  Mirror sch st'.
Proof. exact fix_convergent_lemma. Qed.
Print Assumptions fix_convergent.

(* ... and when the re-check is clean the database is consistent again *)
Theorem fix_clean_consistent : forall sch st,
  fst (check_all sch false (snd (check_all sch true st))) = [] -> Consistent sch (snd (check_all sch true st)).
Proof. exact fix_clean_consistent_lemma. Qed.
Print Assumptions fix_clean_consistent.

(* the remaining KFkDangling reports belong to non-nullable constraints: in a mirrored state a nullable
   fk index / constraint has no dangling reference *)
Theorem mirror_nullable_fk_targets_exist : forall sch st s f t b,
  Mirror sch st -> In (JCons s (CFkIndex f t b true)) (jobs sch) ->
  forall i, present sch st s i = true -> nonempty (fv_bytes (get_field sch st s i f)) = true ->
            present sch st t (fv_bytes (get_field sch st s i f)) = true.
Proof. intros sch st s f t b M Hj. exact (proj2 (proj2 (M _ Hj)) eq_refl). Qed.
Print Assumptions mirror_nullable_fk_targets_exist.

(* [Consistent] in the words of C03 / C04 / C05 *)
Theorem consistent_unique_mirror : forall sch st, Consistent sch st ->
  forall s f nl, In (JCons s (CUnique f nl)) (jobs sch) -> al_get [] (uidx st (root_of sch s) f) = None ->
  forall v i, al_get v (uidx st (root_of sch s) f) = Some i <->
              (nonempty v = true /\ present sch st s i = true /\ fv_bytes (get_field sch st s i f) = v).
Proof. exact IntegrityProofs.consistent_unique_mirror. Qed.
Print Assumptions consistent_unique_mirror.

Theorem consistent_setidx_mirror : forall sch st, Consistent sch st ->
  forall s f, In (JCons s (CSetIdx f)) (jobs sch) ->
  (forall v i, In i (sidx_ids st (root_of sch s) f v) <-> (present sch st s i = true /\ In v (get_set sch st s i f))) /\
  (forall v, al_get v (sidx st (root_of sch s) f) <> Some []).
Proof. exact IntegrityProofs.consistent_setidx_mirror. Qed.
Print Assumptions consistent_setidx_mirror.

Theorem consistent_backrefs_exact : forall sch st, Consistent sch st ->
  forall s f t b nl, In (JCons s (CFkIndex f t b nl)) (jobs sch) ->
  (forall ti x, present sch st t ti = true -> nonempty ti = true ->
     (In x (get_set sch st t ti b) <-> (present sch st s x = true /\ fv_bytes (get_field sch st s x f) = ti))) /\
  (forall i, present sch st s i = true -> nonempty (fv_bytes (get_field sch st s i f)) = true ->
             present sch st t (fv_bytes (get_field sch st s i f)) = true).
Proof. exact IntegrityProofs.consistent_backrefs_exact. Qed.
Print Assumptions consistent_backrefs_exact.

Theorem consistent_links_symmetric : forall sch st, Consistent sch st ->
  forall s lf os of_, In (JLink s (lf, os, of_)) (jobs sch) -> In (JLink os (of_, s, lf)) (jobs sch) ->
  forall i x, present sch st s i = true -> present sch st os x = true ->
    (In x (get_set sch st s i lf) <-> In i (get_set sch st os x of_)).
Proof. exact IntegrityProofs.consistent_links_symmetric. Qed.
Print Assumptions consistent_links_symmetric.

(* end to end with C03: on EVERY database reached through the API (any history of transactions from the
   empty database) the check of a nullable unique index reports nothing.  The pinned tree violated this
   for the empty string (Examples/C09Examples.v, check_sound_legacy_refuted). *)
Theorem check_unique_sound_reachable : forall sch s f fuel (txs : list tx),
  wf_unique_b sch s f = true ->
  fst (check_unique sch false s f true (run_txs sch fuel st_empty txs)) = [].
Proof. exact check_unique_sound_reachable_lemma. Qed.
Print Assumptions check_unique_sound_reachable.

(* completeness, entry by entry - the forms that matter when "the bucket is not there at all": an absent
   back-reference / link set reads as [], an absent set-index key bucket as [].  A referrer that is not in its
   target's back-reference set is reported whatever the reason (entry removed, bucket emptied, bucket removed, or
   the target never had a referrer and the fk field was (re-)pointed to it below the API); likewise a link
   without its reverse entry and a set value without its index entry. *)
Theorem missing_backref_reported : forall sch st s f t b nl i,
  In (JCons s (CFkIndex f t b nl)) (jobs sch) ->
  present sch st s i = true -> nonempty (fv_bytes (get_field sch st s i f)) = true ->
  ~ In i (get_set sch st t (fv_bytes (get_field sch st s i f)) b) ->
  fst (check_all sch false st) <> [].
Proof. exact missing_backref_reported_lemma. Qed.
Print Assumptions missing_backref_reported.

Theorem missing_reverse_link_reported : forall sch st s lf os of_ i x,
  In (JLink s (lf, os, of_)) (jobs sch) ->
  present sch st s i = true -> In x (get_set sch st s i lf) -> ~ In i (get_set sch st os x of_) ->
  fst (check_all sch false st) <> [].
Proof. exact missing_reverse_link_reported_lemma. Qed.
Print Assumptions missing_reverse_link_reported.

Theorem missing_set_entry_reported : forall sch st s f i v,
  In (JCons s (CSetIdx f)) (jobs sch) ->
  present sch st s i = true -> In v (get_set sch st s i f) -> ~ In i (sidx_ids st (root_of sch s) f v) ->
  fst (check_all sch false st) <> [].
Proof. exact missing_set_entry_reported_lemma. Qed.
Print Assumptions missing_set_entry_reported.

(* ... and one fix run puts them back, also into a set / bucket that did not exist before the run *)
Theorem fix_restores_backrefs : forall sch st s f t b nl i,
  wf_c09 sch = true -> In (JCons s (CFkIndex f t b nl)) (jobs sch) ->
  let st' := snd (check_all sch true st) in
  present sch st' s i = true -> nonempty (fv_bytes (get_field sch st' s i f)) = true ->
  present sch st' t (fv_bytes (get_field sch st' s i f)) = true ->
  In i (get_set sch st' t (fv_bytes (get_field sch st' s i f)) b).
Proof. exact fix_restores_backrefs_lemma. Qed.
Print Assumptions fix_restores_backrefs.

Theorem fix_restores_reverse_links : forall sch st s lf os of_ i x,
  wf_c09 sch = true -> In (JLink s (lf, os, of_)) (jobs sch) ->
  let st' := snd (check_all sch true st) in
  present sch st' s i = true -> In x (get_set sch st' s i lf) ->
  present sch st' os x = true /\ In i (get_set sch st' os x of_).
Proof. exact fix_restores_reverse_links_lemma. Qed.
Print Assumptions fix_restores_reverse_links.
