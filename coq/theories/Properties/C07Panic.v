(* C07 - failures that surface as a PANIC (nil dereference in the caller's function, in a constraint's
   ProcessBeforeUpdate / ProcessAfterUpdate / ProcessBeforeDelete / ProcessPreCommit, in the entity strategy's
   PersistEntity, in a pre-commit action, inside a nested joined db.Update / db.Batch), through Db.Update and Db.Batch.
   Store/TxPanic.v transcribes the control flow of DbImpl.Update / bbolt DB.Update for a panic (nothing after the
   panicking call runs, the deferred rollback discards the writes, the panic reaches the caller) next to the one for a
   returned error.  Whatever the caller observes - a returned error or the propagated panic - the database is exactly
   as before and no hook of any kind ran: THE KIND OF FAILURE IS IRRELEVANT.  No hypotheses on schema, state, fuel,
   program, on how rejections surface ([surf], universally quantified) or on which actions panic. *)
From Coq Require Import List NArith Bool.
From Storage Require Import Base.Bytes Store.Model Store.XOps Store.Events Store.TxCtx Store.TxQuiet Store.TxPanic
  Store.TxPanicProofs.
Import ListNotations.

(* the panic machine on a program and the C07 machine with all hooks (Properties/C07Quiet.v) on the same program with
   every panicking step replaced by a step that returns an error: nil for the caller iff committed, same database, same
   context objects, same handlers run by bbolt, the same results are failures.  Every theorem of C07Quiet.v, C07Ctx.v,
   C07Derived.v and C07.v therefore covers transactions with panicking steps. *)
Theorem failure_kind_is_irrelevant : forall sch fuel st sys vetoes surf pp,
  let o := ptx_update sch fuel st sys vetoes surf pp in
  let q := ctx_update_q sch fuel st sys vetoes (erase pp) in
  (p_caller o = CNil <-> q_committed q = true) /\
  p_state o = q_state q /\ p_fired o = q_fired q /\ p_heap o = q_heap q /\
  map pr_failed (p_results o) = map is_some (q_results q).
Proof. exact panic_is_failure_lemma. Qed.
Print Assumptions failure_kind_is_irrelevant.

(* THE statement: the caller did not receive nil - it received an error OR the panic -: the database is as before,
   bbolt ran no handler, no store-level listener of any style, no commit action of any context, no tx-complete listener *)
Theorem error_or_panic_leaves_no_trace : forall sch fuel st sys vetoes surf pp,
  let o := ptx_update sch fuel st sys vetoes surf pp in
  p_caller o <> CNil ->
  p_state o = st /\ p_fired o = [] /\ p_events o = [] /\ (forall l, q_delivered l (p_qobs o) = []) /\
  q_commit_runs (p_qobs o) = [] /\ (forall hk, q_tx_complete hk (p_qobs o) = 0%nat).
Proof. exact not_nil_is_silent_lemma. Qed.
Print Assumptions error_or_panic_leaves_no_trace.

(* nil for the caller means that NOTHING failed: no panicking instruction in the function, no failed result, no failing
   (returning or panicking) pre-commit action on a context of the transaction *)
Theorem nil_means_nothing_failed : forall sch fuel st sys vetoes surf pp,
  let o := ptx_update sch fuel st sys vetoes surf pp in
  p_caller o = CNil ->
  forallb item_panic_free (pp_body pp) = true /\ forallb (fun r => negb (pr_failed r)) (p_results o) = true /\
  ctx_precommit_fails (erase pp) = false.
Proof. exact nil_means_nothing_failed_lemma. Qed.
Print Assumptions nil_means_nothing_failed.

(* a panic at ANY position of the function - in the caller's code (inside any number of nested joined calls) or in the
   entity strategy during an operation *)
Theorem panicking_step_fails_tx : forall sch fuel st sys vetoes surf pp it,
  In it (pp_body pp) -> item_panic_free it = false ->
  let o := ptx_update sch fuel st sys vetoes surf pp in
  p_caller o <> CNil /\ silent st (p_qobs o).
Proof. exact panicking_step_fails_tx_lemma. Qed.
Print Assumptions panicking_step_fails_tx.

(* an operation rejected by a callback that panics (constraint at any stage) or returns an error: any failed result *)
Theorem failed_result_fails_tx : forall sch fuel st sys vetoes surf pp r,
  let o := ptx_update sch fuel st sys vetoes surf pp in
  In r (p_results o) -> pr_failed r = true -> p_caller o <> CNil /\ silent st (p_qobs o).
Proof. exact failed_result_fails_tx_lemma. Qed.
Print Assumptions failed_result_fails_tx.

(* a pre-commit action that fails by returning an error or by panicking ([pp_pre_panics] arbitrary), registered at any
   position through any context that belongs to the transaction, or before the transaction *)
Theorem failing_or_panicking_precommit_fails_tx : forall sch fuel st sys vetoes surf pp path k,
  In (PI (IReg path (APre k true))) (pp_body pp) -> belongs path = true ->
  let o := ptx_update sch fuel st sys vetoes surf pp in
  p_caller o <> CNil /\ silent st (p_qobs o).
Proof. exact failing_or_panicking_precommit_lemma. Qed.
Print Assumptions failing_or_panicking_precommit_fails_tx.

Theorem failing_or_panicking_precommit_before_fails_tx : forall sch fuel st sys vetoes surf pp w k,
  pp_nil pp = false -> In (w, APre k true) (pp_before pp) ->
  let o := ptx_update sch fuel st sys vetoes surf pp in
  p_caller o <> CNil /\ silent st (p_qobs o).
Proof. exact failing_or_panicking_precommit_before_lemma. Qed.
Print Assumptions failing_or_panicking_precommit_before_fails_tx.

(* the machine invents no panic *)
Theorem no_panic_without_panicking_code : forall sch fuel st sys vetoes pp,
  forallb item_panic_free (pp_body pp) = true -> (forall k, pp_pre_panics pp k = false) ->
  p_caller (ptx_update sch fuel st sys vetoes surf_return pp) <> CPanic.
Proof. exact no_panic_without_panicking_code_lemma. Qed.
Print Assumptions no_panic_without_panicking_code.
