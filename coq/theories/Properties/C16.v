(* C16 - stub, replaced below *)
From Coq Require Import List NArith Bool.
From Storage Require Import Base.Bytes Store.Model.
Theorem c16_stub : True. Proof. exact I. Qed.
Print Assumptions c16_stub.
