(* C16 - System entities can only be changed from a system context.
   Statements over the store machine Store/Model.v, for EVERY schema in which the root store s
   carries the system-entity constraint (boolean check wf_system_b: s is a root store, store names
   are unique, CSystem is in the constraint list of s, no store declares a field named isSystem),
   every state, every fuel, every context. *)
From Coq Require Import List NArith Bool.
From Storage Require Import Base.Bytes Store.Model Store.SystemProofs Store.SystemStrip Store.SystemMixed
  Store.SystemChild Store.SystemRestore Store.XOps Store.SystemDeleteWhere.
Import ListNotations.

(* (1) Create with the system flag, Update and DeleteById of an entity whose STORED flag is set - entered
   through s or through any child store of s - fail in an ordinary context, in every state; and the
   transaction that contains such an operation (at any position, after any successful prefix) leaves the
   database exactly as it was. *)
Theorem system_requires_system_ctx : forall sch s fuel st t pre o post stev',
  wf_system_b sch s = true -> tx_sys t = false ->
  tx_ops t = pre ++ o :: post ->
  snd (run_ops sch fuel (mkOctx (tx_sys t) (tx_vetoes t)) (st, []) pre) = Ok stev' ->
  sys_target sch s (fst stev') o ->
  (exists k, run_op sch fuel (mkOctx (tx_sys t) (tx_vetoes t)) stev' o = Err k) /\
  (exists rs, run_tx sch fuel st t = (rs, false, st, [])).
Proof. exact system_requires_system_ctx_lemma. Qed.
Print Assumptions system_requires_system_ctx.

(* the operation-level core of (1), for every state (reachable or not) *)
Theorem system_op_refused : forall sch s fuel oc stev o,
  wf_system_b sch s = true -> oc_sys oc = false -> sys_target sch s (fst stev) o ->
  exists k, run_op sch fuel oc stev o = Err k.
Proof. exact run_op_refuses_lemma. Qed.
Print Assumptions system_op_refused.

(* (2a) a successful create stores exactly the requested flag *)
Theorem create_stores_requested_flag : forall sch s oc st evs s0 i sys fv sv st' evs',
  wf_system_b sch s = true -> root_of sch s0 = s ->
  op_create sch oc (st, evs) s0 i sys fv sv = Ok (st', evs') ->
  get_field sch st' s i isSystemF = if sys then FBool true else FAbsent.
Proof. exact create_stores_requested_flag_lemma. Qed.
Print Assumptions create_stores_requested_flag.

(* (2b) no successful operation of any kind, in any context (create of another entity, full or field-restricted
   update through either store, delete incl. cascades, link operations), changes the flag of an entity that
   exists before and after it *)
Theorem op_preserves_flag : forall sch s fuel oc st evs o st' evs' j,
  wf_system_b sch s = true ->
  run_op sch fuel oc (st, evs) o = Ok (st', evs') ->
  present sch st s j = true -> present sch st' s j = true ->
  get_field sch st' s j isSystemF = get_field sch st s j isSystemF.
Proof. exact op_preserves_flag_lemma. Qed.
Print Assumptions op_preserves_flag.

(* (2c) for all histories of committed / rolled-back transactions, from any state: as long as entity j is not
   deleted in between ([alive_txs]: it exists before and after every operation), its flag never changes *)
Theorem system_flag_immutable : forall sch s fuel j txs st,
  wf_system_b sch s = true ->
  alive_txs sch s fuel j st txs ->
  get_field sch (run_txs sch fuel st txs) s j isSystemF = get_field sch st s j isSystemF.
Proof. exact system_flag_immutable_lemma. Qed.
Print Assumptions system_flag_immutable.

(* (2d) from its creation on, the flag is the one the entity was created with *)
Theorem flag_fixed_at_creation : forall sch s fuel oc stev s0 j sys fv sv stev1 rest rs stev',
  wf_system_b sch s = true -> root_of sch s0 = s ->
  run_op sch fuel oc stev (OCreate s0 j sys fv sv) = Ok stev1 ->
  run_ops sch fuel oc stev1 rest = (rs, Ok stev') ->
  alive_ops sch s fuel oc j stev1 rest ->
  get_field sch (fst stev') s j isSystemF = if sys then FBool true else FAbsent.
Proof. exact flag_fixed_at_creation_lemma. Qed.
Print Assumptions flag_fixed_at_creation.

(* (3) ordinary entities are unaffected: in a state without system entities, an operation that does not itself
   create a system entity yields - result kind, state, queued events - exactly what it yields under the schema
   with every CSystem constraint removed, in ANY context; such operations keep the state free of system entities,
   so whole transactions and whole histories coincide. *)
Theorem stripped_schema_has_no_system_constraint : forall sch x, ~ In CSystem (cons_of (strip sch) x).
Proof. exact strip_has_no_sys_lemma. Qed.
Print Assumptions stripped_schema_has_no_system_constraint.

Theorem ordinary_unaffected : forall sch fuel oc stev o,
  wf_nofield_b sch = true -> NoSys (fst stev) -> creates_no_sys o ->
  run_op (strip sch) fuel oc stev o = run_op sch fuel oc stev o.
Proof. exact ordinary_unaffected_lemma. Qed.
Print Assumptions ordinary_unaffected.

Theorem ordinary_stays_ordinary : forall sch fuel oc stev o stev',
  NoSys (fst stev) -> creates_no_sys o ->
  run_op sch fuel oc stev o = Ok stev' -> NoSys (fst stev').
Proof. exact run_op_nosys. Qed.
Print Assumptions ordinary_stays_ordinary.

Theorem ordinary_tx_unaffected : forall sch fuel st t,
  wf_nofield_b sch = true -> NoSys st -> tx_no_sys t ->
  run_tx (strip sch) fuel st t = run_tx sch fuel st t.
Proof. exact ordinary_tx_unaffected_lemma. Qed.
Print Assumptions ordinary_tx_unaffected.

Theorem ordinary_histories_unaffected : forall sch fuel txs,
  wf_nofield_b sch = true -> Forall tx_no_sys txs ->
  run_txs (strip sch) fuel st_empty txs = run_txs sch fuel st_empty txs.
Proof. exact ordinary_histories_unaffected_lemma. Qed.
Print Assumptions ordinary_histories_unaffected.

(* (3') in ANY state - system entities may exist elsewhere: a create without the flag, and an update (through either
   store) of an entity whose stored flag is not set, behave exactly as under the schema without the constraint.
   (wf_strip_b: no field named isSystem, parents are root stores, unique store names.) *)
Theorem ordinary_create_unaffected_any : forall sch oc st evs x i fv sv,
  wf_strip_b sch = true ->
  op_create (strip sch) oc (st, evs) x i false fv sv = op_create sch oc (st, evs) x i false fv sv.
Proof. exact ordinary_create_unaffected_any_lemma. Qed.
Print Assumptions ordinary_create_unaffected_any.

Theorem ordinary_update_unaffected_any : forall sch oc st evs x i fv sv ch,
  wf_strip_b sch = true -> NoFlag st (root_of sch x) i ->
  op_update (strip sch) oc (st, evs) x i fv sv ch = op_update sch oc (st, evs) x i fv sv ch.
Proof. exact ordinary_update_unaffected_any_lemma. Qed.
Print Assumptions ordinary_update_unaffected_any.

(* (4) MIXED transactions (Store/SystemMixed.v): every operation of a transaction runs through its own context object
   (the base context of the transaction, a system context derived from it, a nested Db.Update), and the body may
   swallow the refusal of an update of a system entity and go on to commit.
   (4a) the mixed machine with one context kind for all operations and no swallowing IS the transaction machine. *)
Theorem mixed_conservative : forall sch fuel st t,
  run_mtx sch fuel st (mkMtx (tx_vetoes t) (uniform (tx_sys t) (tx_ops t)) (tx_precommit_fails t)) = run_tx sch fuel st t.
Proof. exact run_mtx_uniform_lemma. Qed.
Print Assumptions mixed_conservative.

(* (4b) the context kind of THIS operation decides - whatever contexts were derived from the same base context earlier in
   the transaction: an operation on a system entity through an ordinary context is refused; and if the caller swallows
   the refusal, the machine continues from exactly the state (and queued events) before the refused operation *)
Theorem refused_op_no_write : forall sch s fuel vs stev m r,
  wf_system_b sch s = true -> m_sys m = false -> sys_target sch s (fst stev) (m_op m) ->
  exists k, run_op sch fuel (mkOctx false vs) stev (m_op m) = Err k /\
    run_mops sch fuel vs stev (m :: r) =
      if swallows sch (fst stev) m
      then (Some k :: fst (run_mops sch fuel vs stev r), snd (run_mops sch fuel vs stev r))
      else ([Some k], Err k).
Proof. exact refused_op_no_write_lemma. Qed.
Print Assumptions refused_op_no_write.

(* (4c) a refusal that is not swallowed rolls the whole mixed transaction back, wherever it stands and whichever
   contexts the operations before it used *)
Theorem mixed_system_requires_system_ctx : forall sch s fuel st t pre m post stev',
  wf_system_b sch s = true -> m_sys m = false ->
  mt_ops t = pre ++ m :: post ->
  snd (run_mops sch fuel (mt_vetoes t) (st, []) pre) = Ok stev' ->
  sys_target sch s (fst stev') (m_op m) ->
  swallows sch (fst stev') m = false ->
  exists rs, run_mtx sch fuel st t = (rs, false, st, []).
Proof. exact mixed_system_requires_system_ctx_lemma. Qed.
Print Assumptions mixed_system_requires_system_ctx.

(* (4d) the flag in mixed transactions: an entity that exists before and after every executed operation keeps its flag,
   whatever contexts are used and whichever refusals are swallowed *)
Theorem mixed_ops_preserve_flag : forall sch s fuel vs j ops stev rs stev',
  wf_system_b sch s = true ->
  run_mops sch fuel vs stev ops = (rs, Ok stev') ->
  alive_mops sch s fuel vs j stev ops ->
  get_field sch (fst stev') s j isSystemF = get_field sch (fst stev) s j isSystemF.
Proof. exact mixed_ops_preserve_flag_lemma. Qed.
Print Assumptions mixed_ops_preserve_flag.

(* (5) the constraint registered on a CHILD store c only (Store/SystemChild.v; wf_system_child_b: c is a child store of an
   existing root store, CSystem is in the constraint list of c, c does not declare a field named isSystem - the flag is read
   from the root entity bucket through the symbol granted by the parent).  What it protects are the system entities OF THE CHILD
   STORE ([child_sys_target]): create with the flag through c; update - through c, or through the root store when c is the
   child store that holds the entity - of an entity whose stored flag is set and which has data in c; DeleteById through ANY
   store of the family (root, c, a sibling child store) - and therefore by any cascade - of an entity whose stored flag is set
   and which c can load (it has data in c, or c is Extended).  In every state, for every fuel. *)
Theorem child_system_op_refused : forall sch c fuel oc stev o,
  wf_system_child_b sch c = true -> oc_sys oc = false -> child_sys_target sch c (fst stev) o ->
  exists k, run_op sch fuel oc stev o = Err k.
Proof. exact child_run_op_refuses_lemma. Qed.
Print Assumptions child_system_op_refused.

Theorem child_system_requires_system_ctx : forall sch c fuel st t pre o post stev',
  wf_system_child_b sch c = true -> tx_sys t = false ->
  tx_ops t = pre ++ o :: post ->
  snd (run_ops sch fuel (mkOctx (tx_sys t) (tx_vetoes t)) (st, []) pre) = Ok stev' ->
  child_sys_target sch c (fst stev') o ->
  (exists k, run_op sch fuel (mkOctx (tx_sys t) (tx_vetoes t)) stev' o = Err k) /\
  (exists rs, run_tx sch fuel st t = (rs, false, st, [])).
Proof. exact child_system_requires_system_ctx_lemma. Qed.
Print Assumptions child_system_requires_system_ctx.

(* (5') the flag part of the property does not depend on where the constraint is registered (wf_flag_b: s is an existing root
   store, no store declares a field named isSystem): (2a)-(2c) for the family of any root store *)
Theorem create_stores_requested_flag_any : forall sch s oc st evs s0 i sys fv sv st' evs',
  wf_flag_b sch s = true -> root_of sch s0 = s ->
  op_create sch oc (st, evs) s0 i sys fv sv = Ok (st', evs') ->
  get_field sch st' s i isSystemF = if sys then FBool true else FAbsent.
Proof. exact create_flag_any_lemma. Qed.
Print Assumptions create_stores_requested_flag_any.

Theorem op_preserves_flag_any : forall sch s fuel oc st evs o st' evs' j,
  wf_flag_b sch s = true ->
  run_op sch fuel oc (st, evs) o = Ok (st', evs') ->
  present sch st s j = true -> present sch st' s j = true ->
  get_field sch st' s j isSystemF = get_field sch st s j isSystemF.
Proof. exact op_preserves_flag_any_lemma. Qed.
Print Assumptions op_preserves_flag_any.

Theorem system_flag_immutable_any : forall sch s fuel j txs st,
  wf_flag_b sch s = true ->
  alive_txs sch s fuel j st txs ->
  get_field sch (run_txs sch fuel st txs) s j isSystemF = get_field sch st s j isSystemF.
Proof. exact flag_immutable_any_lemma. Qed.
Print Assumptions system_flag_immutable_any.

(* (6) histories in which the database content is replaced UNDERNEATH the store objects (Store/SystemRestore.v): a restore step
   [HRestore k] makes the state what it was after the first k steps (snapshot + Db.RestoreSnapshot / RestoreFromReader, a second
   node initialised on an empty database that receives the snapshot, a swapped file, a restart).
   (6a) every state such a history passes through is reachable by transactions alone, and the state it ends in is the state
   after an explicit restore-FREE history made of its own steps - so every statement above about states, operations,
   transactions and histories of transactions covers histories with restore steps. *)
Theorem restore_states_reachable : forall sch fuel st0 steps,
  Forall (reach sch fuel st0) (run_hist sch fuel st0 steps).
Proof. exact hist_reachable. Qed.
Print Assumptions restore_states_reachable.

Theorem restore_equals_restore_free_history : forall sch fuel st0 steps,
  hist_final sch fuel st0 steps = run_plain sch fuel st0 (restore_free steps) /\
  Forall (fun h => is_restore h = false /\ In h steps) (restore_free steps).
Proof. exact hist_restore_free. Qed.
Print Assumptions restore_equals_restore_free_history.

Theorem restore_free_tx_history_is_run_txs : forall sch fuel l st0,
  forallb is_tx l = true -> run_plain sch fuel st0 l = run_txs sch fuel st0 (txs_of l).
Proof. exact run_plain_txs. Qed.
Print Assumptions restore_free_tx_history_is_run_txs.

(* (6b) a restore step brings back exactly the k-th state - entities, fields, flags *)
Theorem restore_brings_back : forall sch fuel st0 steps k,
  (k < length (run_hist sch fuel st0 steps))%nat ->
  hist_final sch fuel st0 (steps ++ [HRestore k]) = nth k (run_hist sch fuel st0 steps) st0.
Proof. exact restore_brings_back_lemma. Qed.
Print Assumptions restore_brings_back.

(* (6c) the rules hold for the entities present NOW, however they got there: after ANY history - restores included - a
   transaction of an ordinary context that reaches an operation on a system entity (of a root store carrying the constraint,
   resp. of a child store carrying it) is refused and leaves the content as it is *)
Theorem system_rules_hold_after_restore : forall sch s fuel st0 steps t pre o post stev',
  wf_system_b sch s = true -> tx_sys t = false ->
  tx_ops t = pre ++ o :: post ->
  snd (run_ops sch fuel (mkOctx (tx_sys t) (tx_vetoes t)) (hist_final sch fuel st0 steps, []) pre) = Ok stev' ->
  sys_target sch s (fst stev') o ->
  exists rs, fst (hist_step sch fuel st0 (run_hist sch fuel st0 steps) (HTx t)) =
             (rs, false, hist_final sch fuel st0 steps, []).
Proof. exact restore_then_refused_lemma. Qed.
Print Assumptions system_rules_hold_after_restore.

Theorem child_system_rules_hold_after_restore : forall sch c fuel st0 steps t pre o post stev',
  wf_system_child_b sch c = true -> tx_sys t = false ->
  tx_ops t = pre ++ o :: post ->
  snd (run_ops sch fuel (mkOctx (tx_sys t) (tx_vetoes t)) (hist_final sch fuel st0 steps, []) pre) = Ok stev' ->
  child_sys_target sch c (fst stev') o ->
  exists rs, fst (hist_step sch fuel st0 (run_hist sch fuel st0 steps) (HTx t)) =
             (rs, false, hist_final sch fuel st0 steps, []).
Proof. exact restore_then_refused_child_lemma. Qed.
Print Assumptions child_system_rules_hold_after_restore.

(* (7) DeleteWhere (Store/XOps.v XDeleteWhere: QueryIds of the filter through the store, DeleteById per id in the order of the
   result, first error returned) from an ordinary context: when the collected ids contain an entity of the family whose STORED
   flag is set - at ANY position of the id order, whatever the filter, through the root store or any child store, whatever is
   deleted before it - the operation fails, in every state ... *)
Theorem delete_where_system_refused : forall sch s fuel oc stev s0 flt i,
  wf_system_b sch s = true -> oc_sys oc = false -> root_of sch s0 = s ->
  In i (dw_ids sch (fst stev) s0 flt) -> get_field sch (fst stev) s i isSystemF = FBool true ->
  exists k, run_xop sch fuel oc stev (XDeleteWhere s0 flt) = Err k.
Proof. intros sch s fuel oc stev s0 flt i Hwf. exact (delete_where_refused_lemma sch s Hwf fuel oc stev s0 flt i). Qed.
Print Assumptions delete_where_system_refused.

(* ... and the transaction that contains it (at any position, after any successful prefix of plain / derived operations)
   leaves the database exactly as it was: entities, fields, child data AND index entries (the state holds them all) *)
Theorem delete_where_requires_system_ctx : forall sch s fuel st t pre s0 flt post stev' i,
  wf_system_b sch s = true -> xtx_sys t = false ->
  xtx_ops t = pre ++ XDeleteWhere s0 flt :: post ->
  snd (run_xops sch fuel (mkOctx (xtx_sys t) (xtx_vetoes t)) (st, []) pre) = Ok stev' ->
  root_of sch s0 = s ->
  In i (dw_ids sch (fst stev') s0 flt) -> get_field sch (fst stev') s i isSystemF = FBool true ->
  (exists k, run_xop sch fuel (mkOctx (xtx_sys t) (xtx_vetoes t)) stev' (XDeleteWhere s0 flt) = Err k) /\
  (exists rs, run_xtx sch fuel st t = (rs, false, st, [])).
Proof.
  intros sch s fuel st t pre s0 flt post stev' i Hwf.
  exact (delete_where_requires_system_ctx_lemma sch s Hwf fuel st t pre s0 flt post stev' i).
Qed.
Print Assumptions delete_where_requires_system_ctx.

(* the reading the oracle of checks/c16.py uses: a DeleteWhere of an ordinary context that returned nil matched no system
   entity of the family *)
Theorem delete_where_ok_matched_no_system_entity : forall sch s fuel oc stev s0 flt stev',
  wf_system_b sch s = true -> oc_sys oc = false -> root_of sch s0 = s ->
  run_xop sch fuel oc stev (XDeleteWhere s0 flt) = Ok stev' ->
  forall i, In i (dw_ids sch (fst stev) s0 flt) -> get_field sch (fst stev) s i isSystemF <> FBool true.
Proof. intros sch s fuel oc stev s0 flt stev' Hwf. exact (delete_where_ok_no_system_entity_lemma sch s Hwf fuel oc stev s0 flt stev'). Qed.
Print Assumptions delete_where_ok_matched_no_system_entity.

(* the constraint on a CHILD store c only: the collected ids contain a flagged entity c can load *)
Theorem child_delete_where_system_refused : forall sch c fuel oc stev s0 flt i,
  wf_system_child_b sch c = true -> oc_sys oc = false -> root_of sch s0 = root_of sch c ->
  In i (dw_ids sch (fst stev) s0 flt) ->
  get_field sch (fst stev) c i isSystemF = FBool true -> loadable sch (fst stev) c i = true ->
  exists k, run_xop sch fuel oc stev (XDeleteWhere s0 flt) = Err k.
Proof. exact child_delete_where_refused_lemma. Qed.
Print Assumptions child_delete_where_system_refused.
