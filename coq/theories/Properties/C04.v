(* C04 - Foreign keys: targets exist, back-references exact, delete restricts or cascades.
   Statements over the store machine Store/Model.v, for EVERY schema that passes the boolean
   well-formedness checks, every fuel and every history of transactions.

   A foreign-key edge is (referrer root store s, field f) -> (target root store t), wired either
     ob = Some b : as an fk index  [CFkIndex f t b nl]  on s (AddFkIndex / AddNullableFkIndex /
                   AddFkIndexCascadeDelete) with back-reference set b on the target, or
     ob = None   : as an fk constraint  [CFkCons f t nl]  on s (AddFkConstraint),
   and guarded on the target store t by  [CFkRestrict b]  (what AddFkIndex / AddNullableFkIndex wire) or
   [CFkCascade s f c]  (what AddFkIndexCascadeDelete and AddFkConstraint with CascadeNone/CascadeDelete
   wire).  [wf_fk_b sch s f t ob] checks exactly this wiring (the maintaining constraint exactly once
   in the list of s, no other writer of the set (t, b), a guard in the list of t, f <> isSystem, unique
   store names, parents are root stores). *)
From Coq Require Import List NArith Bool.
From Storage Require Import Base.Bytes Store.Model Store.FrameProofs Store.TxProofs Store.FkProofs Store.FkDelete Store.FkWf Store.FkChildGuard Store.FkChildCascade Store.FkCascadeLoop.
Import ListNotations.

(* After any history of committed / rolled-back transactions (creates, full and field-restricted
   updates, deletes incl. restrict refusals and recursive cascade deletes, link operations, through
   parent and child stores): every present referrer's non-empty fk value names a present target. *)
Theorem fk_target_exists : forall sch s f t ob fuel (txs : list tx),
  wf_fk_b sch s f t ob = true ->
  let st := run_txs sch fuel st_empty txs in
  forall i, present sch st s i = true -> nonempty (fv_bytes (get_field sch st s i f)) = true ->
            present sch st t (fv_bytes (get_field sch st s i f)) = true.
Proof. exact fk_target_exists_wf. Qed.
Print Assumptions fk_target_exists.

(* fk index: in every reachable state the back-reference set of a target lists exactly the present
   referrers whose fk field names it (ids are never empty, hence ti non-empty) *)
Theorem backrefs_exact : forall sch s f t b fuel (txs : list tx),
  wf_fk_b sch s f t (Some b) = true ->
  let st := run_txs sch fuel st_empty txs in
  forall ti i, nonempty ti = true ->
    (In i (get_set sch st t ti b) <-> present sch st s i = true /\ fv_bytes (get_field sch st s i f) = ti).
Proof. exact backrefs_exact_wf. Qed.
Print Assumptions backrefs_exact.

(* no stale back-reference: a listed id is a present referrer naming this (present, non-empty) target *)
Theorem backrefs_sound : forall sch s f t b fuel (txs : list tx),
  wf_fk_b sch s f t (Some b) = true ->
  let st := run_txs sch fuel st_empty txs in
  forall ti i, In i (get_set sch st t ti b) ->
    present sch st s i = true /\ fv_bytes (get_field sch st s i f) = ti /\ present sch st t ti = true /\ nonempty ti = true.
Proof. exact backrefs_sound_wf. Qed.
Print Assumptions backrefs_sound.

(* the invariant behind both is preserved by every single transaction from ANY state satisfying it *)
Theorem fk_invariant_step : forall sch s f t ob fuel st (tr : tx),
  wf_fk_b sch s f t ob = true ->
  FInv sch s f t ob st -> FInv sch s f t ob (match run_tx sch fuel st tr with (_, _, st', _) => st' end).
Proof. exact fk_invariant_step_wf. Qed.
Print Assumptions fk_invariant_step.

(* Restrict.  In ANY state: deleting (through any store s0 of the family of root store r0) an entity x whose
   back-reference set b - guarded by [CFkRestrict b] in the constraint list of r0 - lists another
   entity fails, for every fuel: with the error of an earlier constraint of that list if one fails
   first, else with ReferenceExists.  ([pre] holds no cascading delete: those may remove the referrers.) *)
Theorem delete_restrict : forall sch oc n st evs s0 x b pre post,
  wf_stores_b sch = true ->
  let r0 := root_of sch s0 in
  cons_of sch r0 = pre ++ CFkRestrict b :: post ->
  forallb (fun k => negb (is_cascdel k)) pre = true ->
  (exists j, j <> x /\ In j (get_set sch st r0 x b)) ->
  delete_by_id sch oc (S n) (st, evs) s0 x =
    Err (match before_delete_all sch oc (delete_by_id sch oc n) (st, evs) (mkIctx false (oc_sys oc) r0 x) pre with
         | Err k => k
         | Ok _ => ERefExists
         end).
Proof. exact delete_restrict_wf. Qed.
Print Assumptions delete_restrict.

(* ... and the enclosing transaction leaves the state unchanged and delivers no event *)
Theorem delete_restrict_tx_unchanged : forall sch n st (tr : tx) ops1 ops2 s0 x b pre post st1 evs1,
  wf_stores_b sch = true ->
  tx_ops tr = ops1 ++ ODelete s0 x :: ops2 ->
  snd (run_ops sch (S n) (mkOctx (tx_sys tr) (tx_vetoes tr)) (st, []) ops1) = Ok (st1, evs1) ->
  cons_of sch (root_of sch s0) = pre ++ CFkRestrict b :: post ->
  forallb (fun k => negb (is_cascdel k)) pre = true ->
  (exists j, j <> x /\ In j (get_set sch st1 (root_of sch s0) x b)) ->
  exists rs, run_tx sch (S n) st tr = (rs, false, st, []).
Proof. exact delete_restrict_tx_unchanged_wf. Qed.
Print Assumptions delete_restrict_tx_unchanged.

(* Restrict, in the property's own terms: in every reachable state of an fk-index edge guarded by
   [CFkRestrict b], deleting a target that another present entity references is refused. *)
Theorem delete_referenced_refused : forall sch s f t b fuel (txs : list tx) oc n evs x j pre post,
  wf_fk_b sch s f t (Some b) = true ->
  let st := run_txs sch fuel st_empty txs in
  cons_of sch t = pre ++ CFkRestrict b :: post ->
  forallb (fun k => negb (is_cascdel k)) pre = true ->
  j <> x -> present sch st s j = true -> fv_bytes (get_field sch st s j f) = x -> nonempty x = true ->
  exists k, delete_by_id sch oc (S n) (st, evs) t x = Err k /\
            (before_delete_all sch oc (delete_by_id sch oc n) (st, evs) (mkIctx false (oc_sys oc) t x) pre <> Err k -> k = ERefExists).
Proof. exact delete_referenced_refused_wf. Qed.
Print Assumptions delete_referenced_refused.

(* Cascade.  In ANY state, for EVERY fuel: a delete that succeeds removed exactly the transitive cascade
   referrers of the entity - the nodes reachable from it through [CFkCascade rs f CascDelete] constraints
   and the look-up "field f of rs equals the id" - and nothing else; every other entity is still there
   with the same fields and child data.  (No acyclicity or fuel hypothesis is needed for this direction:
   on a reference cycle the machine runs out of fuel, i.e. the delete does not succeed.) *)
Theorem delete_cascade_exact : forall sch oc fuel st evs s0 x st' evs',
  wf_casc_b sch = true ->
  delete_by_id sch oc fuel (st, evs) s0 x = Ok (st', evs') ->
  ents_shrink st st' /\
  forall r y, (get_ent st r y <> None /\ get_ent st' r y = None) <-> reach sch st (root_of sch s0, x) (r, y).
Proof. exact delete_cascade_exact_wf. Qed.
Print Assumptions delete_cascade_exact.

(* "Enough fuel": the fuel only bounds the depth of the cascade recursion; a result other than
   EOutOfFuel is the same for every larger fuel (so delete_cascade_exact and delete_restrict speak about
   THE result of the delete, not about an artefact of the bound). *)
Theorem delete_fuel_monotone : forall sch oc n m stev s x,
  delete_by_id sch oc n stev s x <> Err EOutOfFuel ->
  delete_by_id sch oc (n + m) stev s x = delete_by_id sch oc n stev s x.
Proof. exact delete_fuel_monotone_lemma. Qed.
Print Assumptions delete_fuel_monotone.

(* The cascade look-up is field equality on the stored bytes: the id is data, never filter syntax
   (this replaces the string-level statement cascade_filter_denotes_id of the design: the repaired code
   builds no filter text). *)
Theorem cascade_predicate_is_field_equality : forall sch rs f i st x,
  casc_matches sch rs f i st x = true <-> (present sch st rs x = true /\ get_field sch st rs x f = FStr i).
Proof. exact cascade_predicate_is_field_equality_wf. Qed.
Print Assumptions cascade_predicate_is_field_equality.

(* ---- edges that end at a CHILD store: the delete guard lives in the constraint list of the child store ---- *)

(* Restrict through a child store.  In ANY state, for every fuel: if a restricting guard k - [CFkRestrict b] whose
   back-reference set lists another entity, or [CFkCascade rs f CascNone] with an entity of rs whose field f names x -
   is in the constraint list of the child store cd of the family of s0, x is loadable through cd (a plain child store:
   x has data in it; an extended one: x exists), and no cascading delete runs before the guard (root list, lists of the
   child stores registered before cd, the part of cd's list before k), then deleting x through the root store or through
   any child store is refused.  ([guard_fires] is the condition under which the hook of k itself answers ReferenceExists;
   an earlier hook may fail first with its own error.) *)
Theorem delete_child_guard_refused : forall sch oc n st evs s0 x cd before after pre post k,
  wf_stores_b sch = true ->
  let r0 := root_of sch s0 in
  children_of sch r0 = before ++ cd :: after ->
  cons_of sch (sd_name cd) = pre ++ k :: post ->
  quiet (cons_of sch r0) = true ->
  (forall d, In d before -> quiet (cons_of sch (sd_name d)) = true) ->
  quiet pre = true ->
  loadable sch st (sd_name cd) x = true ->
  guard_fires sch st (sd_name cd) x k ->
  exists e, delete_by_id sch oc (S n) (st, evs) s0 x = Err e.
Proof. exact delete_child_guard_refused_lemma. Qed.
Print Assumptions delete_child_guard_refused.

(* ... and the enclosing transaction ends rolled back: state unchanged, no event *)
Theorem delete_child_guard_tx_unchanged : forall sch n st (tr : tx) ops1 ops2 s0 x cd before after pre post k st1 evs1,
  wf_stores_b sch = true ->
  tx_ops tr = ops1 ++ ODelete s0 x :: ops2 ->
  snd (run_ops sch (S n) (mkOctx (tx_sys tr) (tx_vetoes tr)) (st, []) ops1) = Ok (st1, evs1) ->
  children_of sch (root_of sch s0) = before ++ cd :: after ->
  cons_of sch (sd_name cd) = pre ++ k :: post ->
  quiet (cons_of sch (root_of sch s0)) = true ->
  (forall d, In d before -> quiet (cons_of sch (sd_name d)) = true) ->
  quiet pre = true ->
  loadable sch st1 (sd_name cd) x = true ->
  guard_fires sch st1 (sd_name cd) x k ->
  exists rs, run_tx sch (S n) st tr = (rs, false, st, []).
Proof. exact delete_child_guard_tx_unchanged_lemma. Qed.
Print Assumptions delete_child_guard_tx_unchanged.

(* Cascade, without the restriction of [delete_cascade_exact] to cascading deletes on root stores: in ANY state, for
   EVERY fuel, for every schema with unique store names whose parents are root stores, a delete that succeeds removed
   exactly the nodes reachable from the entity through [CFkCascade rs f CascDelete] constraints in the lists of the stores
   that RUN for a node ([runs]: its root store, and the child stores through which it is loadable), and nothing else. *)
Theorem delete_cascade_exact_any : forall sch oc fuel st evs s0 x st' evs',
  wf_stores_b sch = true ->
  delete_by_id sch oc fuel (st, evs) s0 x = Ok (st', evs') ->
  ents_shrink st st' /\
  forall r y, (get_ent st r y <> None /\ get_ent st' r y = None) <-> reachc sch st (root_of sch s0, x) (r, y).
Proof. exact delete_cascade_exact_any_wf. Qed.
Print Assumptions delete_cascade_exact_any.

(* where [delete_cascade_exact] applies the two notions of reachability coincide *)
Theorem reachc_iff_reach : forall sch st a n,
  wf_casc_b sch = true -> (reachc sch st a n <-> reach sch st a n).
Proof. exact reachc_iff_reach_wf. Qed.
Print Assumptions reachc_iff_reach.

(* ---- referrers reachable over more than one cascade path (diamonds) ---- *)

(* The loop of a cascading delete applies the delete only to entities that are, at their turn, present referrers: its
   result is the same for any two delete functions that agree on such arguments.  So an entity of the referrer list that a
   NESTED cascade removed before its turn (own o <- item p <- item s and o <- s: the delete of p takes s along) can never
   make the cascade fail - whatever a delete of a vanished entity would answer. *)
Theorem cascade_loop_current_referrers_only : forall sch (del1 del2 : st_ev -> name -> id -> res st_ev) rs f i cands cur,
  (forall c x, casc_matches sch rs f i (fst c) x = true -> del1 c rs x = del2 c rs x) ->
  cascade_loop sch del1 rs f i cands cur = cascade_loop sch del2 rs f i cands cur.
Proof. exact cascade_loop_ext_lemma. Qed.
Print Assumptions cascade_loop_current_referrers_only.

(* ... in particular the delete is never asked for an absent entity *)
Theorem cascade_never_deletes_absent : forall sch (del other : st_ev -> name -> id -> res st_ev) rs f i cands cur,
  cascade_loop sch del rs f i cands cur =
  cascade_loop sch (fun c s x => if present sch (fst c) s x then del c s x else other c s x) rs f i cands cur.
Proof. exact cascade_loop_present_only_lemma. Qed.
Print Assumptions cascade_never_deletes_absent.
