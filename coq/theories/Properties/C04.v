(* C04 - placeholder while the pipeline is brought up *)
From Coq Require Import List.
Theorem c04_stub : True. Proof. exact I. Qed.
Print Assumptions c04_stub.
