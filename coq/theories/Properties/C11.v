(* C11 - String literals denote exactly the intended string.
   Statements only; each closed by [exact] and followed by Print Assumptions. *)
From Coq Require Import List NArith Bool.
From Storage Require Import Base.Bytes Lang.Unescape Lang.UnescapeProofs.
Import ListNotations.
Open Scope N_scope.

(* every string without raw control characters (other than FF LF CR TAB) has a quoted literal
   - backslash, quote and the four control characters escaped - that is one STRING token and
   denotes exactly that string *)
Theorem literal_roundtrip_full : forall s : str,
  expressible_full s = true ->
  is_string_token (literal_full s) /\ parse_zql_string (literal_full s) = s.
Proof. exact literal_roundtrip_full_lemma. Qed.
Print Assumptions literal_roundtrip_full.

(* the minimal escaper (only backslash and quote) serves every string without control characters *)
Theorem literal_roundtrip_min : forall s : str,
  expressible_min s = true ->
  is_string_token (literal_min s) /\ parse_zql_string (literal_min s) = s.
Proof. exact literal_roundtrip_min_lemma. Qed.
Print Assumptions literal_roundtrip_min.

(* two different strings never denote the same value, whichever escaper produced each literal *)
Theorem literals_distinct : forall (l1 l2 : str -> str) (s1 s2 : str),
  (l1 = literal_min \/ l1 = literal_full) -> (l2 = literal_min \/ l2 = literal_full) ->
  s1 <> s2 -> parse_zql_string (l1 s1) <> parse_zql_string (l2 s2).
Proof. exact literals_distinct_lemma. Qed.
Print Assumptions literals_distinct.

(* an escaped backslash followed by any character c (a letter such as n, t, r, f in particular)
   is read back as backslash, c - in every context *)
Theorem escaped_backslash_letter : forall (c : byte) (pre post : str),
  parse_zql_string (literal_full (pre ++ [BS; c] ++ post)) = pre ++ [BS; c] ++ post.
Proof. exact escaped_backslash_letter_lemma. Qed.
Print Assumptions escaped_backslash_letter.

(* every valid STRING token body is read pair by pair: each escape pair yields the character
   it names, each other byte itself; nothing is merged or re-read *)
Theorem token_value_faithful : forall body : str,
  body_ok body = true -> reescape_matches body (unescape body).
Proof. exact token_value_faithful_lemma. Qed.
Print Assumptions token_value_faithful.
