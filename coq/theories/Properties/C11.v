(* C11 - String literals denote exactly the intended string.
   Statements only; each closed by [exact] and followed by Print Assumptions. *)
From Coq Require Import List NArith Bool.
From Storage Require Import Base.Bytes Lang.Unescape Lang.UnescapeProofs.
From Storage Require Import Lang.Tokens Lang.BoolSurface Lang.WordOps Lang.StrCompare Lang.StrCompareProofs.
From Storage Require Import Lang.StrFilter Lang.StrFilterProofs.
Import ListNotations.
Open Scope N_scope.

(* every string without raw control characters (other than FF LF CR TAB) has a quoted literal
   - backslash, quote and the four control characters escaped - that is one STRING token and
   denotes exactly that string *)
Theorem literal_roundtrip_full : forall s : str,
  expressible_full s = true ->
  is_string_token (literal_full s) /\ parse_zql_string (literal_full s) = s.
Proof. exact literal_roundtrip_full_lemma. Qed.
Print Assumptions literal_roundtrip_full.

(* the minimal escaper (only backslash and quote) serves every string without control characters *)
Theorem literal_roundtrip_min : forall s : str,
  expressible_min s = true ->
  is_string_token (literal_min s) /\ parse_zql_string (literal_min s) = s.
Proof. exact literal_roundtrip_min_lemma. Qed.
Print Assumptions literal_roundtrip_min.

(* two different strings never denote the same value, whichever escaper produced each literal *)
Theorem literals_distinct : forall (l1 l2 : str -> str) (s1 s2 : str),
  (l1 = literal_min \/ l1 = literal_full) -> (l2 = literal_min \/ l2 = literal_full) ->
  s1 <> s2 -> parse_zql_string (l1 s1) <> parse_zql_string (l2 s2).
Proof. exact literals_distinct_lemma. Qed.
Print Assumptions literals_distinct.

(* an escaped backslash followed by any character c (a letter such as n, t, r, f in particular)
   is read back as backslash, c - in every context *)
Theorem escaped_backslash_letter : forall (c : byte) (pre post : str),
  parse_zql_string (literal_full (pre ++ [BS; c] ++ post)) = pre ++ [BS; c] ++ post.
Proof. exact escaped_backslash_letter_lemma. Qed.
Print Assumptions escaped_backslash_letter.

(* every valid STRING token body is read pair by pair: each escape pair yields the character
   it names, each other byte itself; nothing is merged or re-read *)
Theorem token_value_faithful : forall body : str,
  body_ok body = true -> reescape_matches body (unescape body).
Proof. exact token_value_faithful_lemma. Qed.
Print Assumptions token_value_faithful.

(* ---- end to end: the literal as operand of a comparison with a STORED value (Lang/StrCompare.v) ---- *)

(* a stored string is seen by the filter as that string - the empty one included, it is not null - and for
   every comparison operator (= != < <= > >= contains, not contains) the comparison of the stored value x
   with the literal of s gives what the comparison of x with s gives.  s is arbitrary: it may spell
   keywords, operators or whole filters *)
Theorem stored_comparison_exact : forall (op : sop) (s x : str),
  expressible_full s = true ->
  is_string_token (literal_full s) /\
  row_eval_string (Some x) = Some x /\
  cmp_query op (literal_full s) (Some x) = spec_cmp op x s.
Proof. exact stored_comparison_exact_lemma. Qed.
Print Assumptions stored_comparison_exact.

Theorem stored_comparison_exact_min : forall (op : sop) (s x : str),
  expressible_min s = true ->
  is_string_token (literal_min s) /\ cmp_query op (literal_min s) (Some x) = spec_cmp op x s.
Proof. exact stored_comparison_exact_min_lemma. Qed.
Print Assumptions stored_comparison_exact_min.

(* = matches exactly the stored values equal to s, != exactly the others *)
Theorem stored_eq_matches_exactly : forall s x : str,
  (cmp_query SEq (literal_full s) (Some x) = true <-> x = s) /\
  (cmp_query SNeq (literal_full s) (Some x) = true <-> x <> s).
Proof. exact stored_eq_matches_exactly_lemma. Qed.
Print Assumptions stored_eq_matches_exactly.

(* a row without a value equals no literal - the empty literal does not denote "no value" *)
Theorem absent_field_matches_no_literal : forall (op : sop) (lit : str),
  cmp_query op lit None = match op with SNeq | SNotContains => true | _ => false end.
Proof. exact cmp_absent_lemma. Qed.
Print Assumptions absent_field_matches_no_literal.

(* in / not in: for every spelling of the operator token, x is selected by  in [lit v1, .., lit vn]  iff x is
   one of v1..vn (not in: iff it is none of them) - whatever the v's spell, the word `not` included *)
Theorem in_list_exact : forall (neg : bool) (tok : str) (vals : list str) (x : str),
  spells_wordop wo_in neg tok ->
  in_query tok (map literal_full vals) (Some x) = xorb neg (existsb (str_eqb x) vals) /\
  in_query tok (map literal_min vals) (Some x) = xorb neg (existsb (str_eqb x) vals).
Proof. exact in_list_exact_lemma. Qed.
Print Assumptions in_list_exact.

(* ... and on the SET of strings the literals denote only: two lists that denote the same strings - however many
   literals each has, in whatever order they are written, with or without repeated literals - select the same values *)
Theorem in_list_length_order_independent : forall (neg : bool) (tok : str) (vals vals' : list str) (x : str),
  spells_wordop wo_in neg tok ->
  (forall v, In v vals <-> In v vals') ->
  in_query tok (map literal_full vals) (Some x) = in_query tok (map literal_full vals') (Some x) /\
  in_query tok (map literal_min vals) (Some x) = in_query tok (map literal_min vals') (Some x).
Proof. exact in_list_set_lemma. Qed.
Print Assumptions in_list_length_order_independent.

(* contains / not contains / icontains likewise depend on the operator token and the value of the literal only *)
Theorem contains_exact : forall (neg : bool) (tok s x : str),
  spells_wordop wo_contains neg tok ->
  contains_query tok (literal_full s) (Some x) = xorb neg (contains_sub s x) /\
  contains_query tok (literal_min s) (Some x) = xorb neg (contains_sub s x).
Proof. exact contains_exact_lemma. Qed.
Print Assumptions contains_exact.

Theorem icontains_exact : forall (neg : bool) (tok s x : str),
  spells_wordop wo_icontains neg tok ->
  icontains_query tok (literal_full s) (Some x) = xorb neg (contains_sub (map to_upper s) (map to_upper x)).
Proof. exact icontains_query_full_lemma. Qed.
Print Assumptions icontains_exact.

(* anyOf / allOf evaluate the comparison on every stored element; the seek short-cut taken for
   anyOf(set) = literal  on the ascending element cursor gives the same answer *)
Theorem set_comparison_exact : forall (op : sop) (s : str) (elems : list str),
  any_of (cmp_query op (literal_full s)) elems = existsb (fun e => spec_cmp op e s) elems /\
  all_of (cmp_query op (literal_full s)) elems = forallb (fun e => spec_cmp op e s) elems /\
  (ascending elems = true -> any_of_eq_seek (literal_full s) elems = existsb (fun e => str_eqb e s) elems).
Proof. exact set_comparison_exact_lemma. Qed.
Print Assumptions set_comparison_exact.

(* ---- filters with several comparisons (Lang/StrFilter.v): literal occurrences do not influence each other ---- *)

(* compositionality: a filter - any number of comparisons over plain fields, string sets and inside sub-queries,
   joined by and / or / not, parsed by one listener whose constant nodes have an identity - evaluates to the
   boolean combination of its comparisons, each evaluated as if it were the only one ([atom_pred] is the
   single-comparison evaluation of Lang/StrCompare.v).  For all token texts, repeated or not *)
Theorem filter_query_compositional : forall (f : filter atom) (r : row),
  filter_query f r = eval_filter atom_pred atom_target f r.
Proof. exact filter_query_compositional_lemma. Qed.
Print Assumptions filter_query_compositional.

(* every literal occurrence denotes its own string: if each comparison of the filter text [f] spells the
   comparison with strings at the same place of [vf] (operator token in any spelling, every literal token with
   that string as value), the filter selects exactly the rows that the comparisons with the strings themselves
   select - whatever other literals (equal, case variants, prefixes) occur in the filter *)
Theorem filter_literals_independent : forall (vf : filter vatom) (f : filter atom) (r : row),
  filter_rel spells vf f -> ascending (r_tags r) = true ->
  filter_query f r = spec_filter vf r.
Proof. exact filter_literals_independent_lemma. Qed.
Print Assumptions filter_literals_independent.

(* in particular for the filter written with either escaper *)
Theorem written_filter_exact : forall (vf : filter vatom) (r : row),
  ascending (r_tags r) = true ->
  filter_query (fmap (write_atom literal_full) vf) r = spec_filter vf r /\
  filter_query (fmap (write_atom literal_min) vf) r = spec_filter vf r.
Proof. exact written_filter_exact_lemma. Qed.
Print Assumptions written_filter_exact.
