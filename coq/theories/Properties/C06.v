(* C06 - A committed delete leaves no trace of the entity's id; the id can be created again.
   Statements over the frozen store machine Store/Model.v, for EVERY schema that passes the boolean
   well-formedness check wf_notrace_b (Store/NoTrace.v), every fuel, every history of transactions.
   [mentions sch st R x] (Store/NoTrace.v): x is an entity of root store R (with its child-store data), or the
   target of an entry of a unique index of R's family, or a member of a set-index bucket of R's family, or a
   member of a back-reference set / link set holding R-ids, or the value of a foreign-key field targeting R. *)
From Coq Require Import List NArith Bool.
From Storage Require Import Base.Bytes Store.Model Store.NoTrace Store.NoTraceInv Store.NoTraceWrite Store.NoTraceWf Store.NoTraceProofs.
Import ListNotations.

(* In every reachable state, a successful DeleteById of x - through the parent store or a child store, with
   whatever constraints, nested cascade deletes (enough fuel = the call returned Ok) and link cleanup the schema
   wires - leaves a state that does not mention x anywhere. *)
Theorem delete_leaves_no_trace : forall sch fuel (txs : list tx) oc fuel' evs s x st' evs',
  wf_notrace_b sch = true ->
  delete_by_id sch oc fuel' (run_txs sch fuel st_empty txs, evs) s x = Ok (st', evs') ->
  ~ mentions sch st' (root_of sch s) x.
Proof. intros sch fuel txs oc fuel' evs s x st' evs' Hwf. exact (final_delete_no_trace sch Hwf fuel txs oc fuel' evs s x st' evs'). Qed.
Print Assumptions delete_leaves_no_trace.

(* The same from ANY state satisfying the invariant (not only from the empty database), and the invariant is kept. *)
Theorem delete_leaves_no_trace_step : forall sch oc fuel st evs s x st' evs',
  wf_notrace_b sch = true ->
  NoTraceWrite.Inv sch st -> delete_by_id sch oc fuel (st, evs) s x = Ok (st', evs') ->
  NoTraceWrite.Inv sch st' /\ ~ mentions sch st' (root_of sch s) x.
Proof. intros sch oc fuel st evs s x st' evs' Hwf. exact (final_delete_step sch Hwf oc fuel st evs s x st' evs'). Qed.
Print Assumptions delete_leaves_no_trace_step.

(* Transaction level: a committed transaction that ends with the delete of x leaves a database without x. *)
Theorem committed_delete_leaves_no_trace : forall sch fuel (txs : list tx) t pre s x rs st' evs,
  wf_notrace_b sch = true ->
  tx_ops t = pre ++ [ODelete s x] ->
  run_tx sch fuel (run_txs sch fuel st_empty txs) t = (rs, true, st', evs) ->
  ~ mentions sch st' (root_of sch s) x.
Proof. intros sch fuel txs t pre s x rs st' evs Hwf. exact (final_committed_delete sch Hwf fuel txs t pre s x rs st' evs). Qed.
Print Assumptions committed_delete_leaves_no_trace.

(* In every reachable state an id that is not an entity of root store R is mentioned nowhere:
   indexes, buckets, back-reference sets, link sets and foreign keys only ever hold ids of present entities. *)
Theorem mentions_only_entities : forall sch fuel (txs : list tx) R x,
  wf_notrace_b sch = true -> root_of sch R = R ->
  get_ent (run_txs sch fuel st_empty txs) R x = None -> ~ mentions sch (run_txs sch fuel st_empty txs) R x.
Proof. intros sch fuel txs R x Hwf. exact (final_absent sch Hwf fuel txs R x). Qed.
Print Assumptions mentions_only_entities.

(* Link collections - declared on root stores or on child stores; the link sets live in the entity of the root store of the
   declaring store - are symmetric in every reachable state (so the cleanup of one side finds every holder), and both ends
   of a link live in the stores that declare the collection (so the delete of either end runs that cleanup). *)
Theorem links_symmetric : forall sch fuel (txs : list tx) s lf os of_ x t,
  wf_notrace_b sch = true -> In (lf, os, of_) (links_of sch s) ->
  (In t (eset (run_txs sch fuel st_empty txs) (root_of sch s) x lf) <-> In x (eset (run_txs sch fuel st_empty txs) (root_of sch os) t of_)) /\
  (In t (eset (run_txs sch fuel st_empty txs) (root_of sch s) x lf) ->
     present sch (run_txs sch fuel st_empty txs) s x = true /\ present sch (run_txs sch fuel st_empty txs) os t = true).
Proof. intros sch fuel txs s lf os of_ x t Hwf. exact (final_links_symmetric sch Hwf fuel txs s lf os of_ x t). Qed.
Print Assumptions links_symmetric.

(* Re-creation: in a state that does not mention x, Create of x is never rejected as "already exists"; when it
   succeeds the invariant holds again (so everything that mentions x afterwards is justified by the record just
   written) and the fields and child-store data of x are those of a create into an empty entity bucket. *)
Theorem recreate_as_fresh : forall sch st s x,
  wf_notrace_b sch = true -> NoTraceWrite.Inv sch st -> ~ mentions sch st (root_of sch s) x ->
  present sch st s x = false /\ present sch st (root_of sch s) x = false /\
  forall oc evs sys fv sv st' evs', op_create sch oc (st, evs) s x sys fv sv = Ok (st', evs') ->
    NoTraceWrite.Inv sch st' /\
    exists e', get_ent st' (root_of sch s) x = Some e' /\
               e_f e' = e_f (persist sch s true sys fv sv None ent_empty) /\
               e_c e' = e_c (persist sch s true sys fv sv None ent_empty).
Proof. intros sch st s x Hwf. exact (final_recreate sch Hwf st s x). Qed.
Print Assumptions recreate_as_fresh.

(* ... in particular right after a successful delete in a reachable state *)
Theorem delete_then_recreate : forall sch fuel (txs : list tx) oc fuel' evs s x st' evs',
  wf_notrace_b sch = true ->
  delete_by_id sch oc fuel' (run_txs sch fuel st_empty txs, evs) s x = Ok (st', evs') ->
  present sch st' s x = false /\ present sch st' (root_of sch s) x = false /\
  forall oc2 evs2 sys fv sv st2 evs2', op_create sch oc2 (st', evs2) s x sys fv sv = Ok (st2, evs2') ->
    NoTraceWrite.Inv sch st2 /\
    exists e', get_ent st2 (root_of sch s) x = Some e' /\
               e_f e' = e_f (persist sch s true sys fv sv None ent_empty) /\
               e_c e' = e_c (persist sch s true sys fv sv None ent_empty).
Proof. intros sch fuel txs oc fuel' evs s x st' evs' Hwf. exact (final_delete_then_recreate sch Hwf fuel txs oc fuel' evs s x st' evs'). Qed.
Print Assumptions delete_then_recreate.

(* The invariant is inductive: it holds for the empty database and every transaction preserves it. *)
Theorem no_trace_invariant_step : forall sch fuel st (t : tx),
  wf_notrace_b sch = true ->
  NoTraceWrite.Inv sch st -> NoTraceWrite.Inv sch (match run_tx sch fuel st t with (_, _, st', _) => st' end).
Proof. intros sch fuel st t Hwf. exact (run_tx_inv sch (NoTraceWf.wf_notrace_b_sound sch Hwf) fuel st t). Qed.
Print Assumptions no_trace_invariant_step.
