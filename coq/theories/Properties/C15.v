(* C15 - stub, replaced below *)
From Coq Require Import List NArith Bool.
From Storage Require Import Base.Bytes Store.Model.
Theorem c15_stub : True. Proof. exact I. Qed.
Print Assumptions c15_stub.
