(* C15 - Parent and child (extension) stores stay consistent.
   Statements over the store machine Store/Model.v for EVERY schema in which c is a child store of the
   root store r (boolean check wf_child_b: both stores exist, r has no parent, the parent of c is r, the
   field names of r are distinct), every state, every fuel, every context.
   Modelled as it is and NOT asserted either way: DeleteById through a plain child store of a parent entity
   that has no child data deletes the parent entity (delete_either_store holds for it as for any other id). *)
From Coq Require Import List NArith Bool.
From Coq Require Import Permutation Sorted.
From Storage Require Import Base.Bytes Store.Model Store.UniqueProofs Store.WfSchema Store.ChildProofs.
From Storage Require Import Store.Paging Store.PagingProofs Store.PagingChild.
From Storage Require Import Store.XOps Store.ChildDeleteWhere.
From Storage Require Import Store.Lookups Store.LookupsProofs Store.NoTrace.
From Storage Require Import Store.PagingCursor Store.PagingCursorProofs Store.ChildLinks.
From Storage Require Import Store.ChildValidation.
Import ListNotations.

(* an entity created through the child store exists in both stores, and the parent's fields hold the values
   the entity carried *)
Theorem child_create_in_both : forall sch r c oc st evs i sys fv sv st' evs',
  wf_child_b sch r c = true ->
  op_create sch oc (st, evs) c i sys fv sv = Ok (st', evs') ->
  present sch st' r i = true /\ present sch st' c i = true /\
  (forall f ptr, In (f, ptr) (fields_of sch r) -> f <> isSystemF -> get_field sch st' r i f = written fv f ptr).
Proof. exact child_create_in_both_closed. Qed.
Print Assumptions child_create_in_both.

(* in EVERY state: QueryIds / IterateIds of a plain child store = the ids with child data; of an extended child
   store = all parent ids; IterateValidIds = the ids with child (extension) data for both; FindById finds the ids
   with child data (plain) / every parent id (extended); an id with child data is a parent id *)
Theorem child_query_only_children : forall sch r c st,
  wf_child_b sch r c = true ->
  (is_ext sch c = false -> forall i, In i (query_ids sch st c) <-> present sch st c i = true) /\
  (is_ext sch c = true -> query_ids sch st c = query_ids sch st r) /\
  query_ids sch st r = ids_of st r /\
  (forall i, In i (valid_ids sch st c) <-> present sch st c i = true) /\
  (is_ext sch c = false -> forall i, In i (find_ids sch st c) <-> present sch st c i = true) /\
  (is_ext sch c = true -> find_ids sch st c = ids_of st r) /\
  (forall i, present sch st c i = true -> present sch st r i = true).
Proof. exact child_query_only_children_closed. Qed.
Print Assumptions child_query_only_children.

(* the child store sees the parent's fields: a field the child does not declare itself reads the same through both *)
Theorem child_sees_parent_fields : forall sch r c st i f,
  wf_child_b sch r c = true -> existsb (fun p => str_eqb (fst p) f) (fields_of sch c) = false ->
  get_field sch st c i f = get_field sch st r i f.
Proof. exact child_sees_parent_fields_closed. Qed.
Print Assumptions child_sees_parent_fields.

(* Update entered through the parent store for an entity whose child data c handles IS the update entered through
   the child store (same result, same state, same events) *)
Theorem update_either_store : forall sch r c oc stev i fv sv ch,
  wf_child_b sch r c = true -> handles sch r c (fst stev) i ->
  op_update sch oc stev r i fv sv ch = op_update sch oc stev c i fv sv ch.
Proof. exact update_either_store_closed. Qed.
Print Assumptions update_either_store.

(* [handles] holds for every entity with child data when c is the only child store of r *)
Theorem only_child_handles : forall sch r c st i,
  wf_child_b sch r c = true -> map sd_name (children_of sch r) = [c] -> present sch st c i = true -> handles sch r c st i.
Proof. exact handles_only_child_closed. Qed.
Print Assumptions only_child_handles.

(* ... the shared fields named by the field checker carry the new values afterwards, the others keep theirs,
   whichever store the update entered through *)
Theorem update_writes_shared_fields : forall sch r c oc st evs s0 i fv sv ch st' evs' f ptr,
  wf_child_b sch r c = true -> s0 = r \/ s0 = c ->
  op_update sch oc (st, evs) s0 i fv sv ch = Ok (st', evs') ->
  (s0 = r -> forall d, In d (children_of sch r) -> sd_name d = c) ->
  In (f, ptr) (fields_of sch r) -> f <> isSystemF ->
  get_field sch st' r i f = if checked ch f then written fv f ptr else get_field sch st r i f.
Proof. exact update_writes_shared_fields_closed. Qed.
Print Assumptions update_writes_shared_fields.

(* ... and the parent's unique index still mirrors the entities (Store/UniqueProofs.v op_update_inv) *)
Theorem update_either_store_keeps_index : forall sch r f oc st evs s0 i fv sv ch st' evs',
  wf_unique_b sch r f = true -> UInv sch r f st ->
  op_update sch oc (st, evs) s0 i fv sv ch = Ok (st', evs') -> UInv sch r f st'.
Proof.
  intros sch r f oc st evs s0 i fv sv ch st' evs' Hwf. destruct (wf_unique_b_sound sch r f Hwf) as [H1 [H2 [H3 [H4 H5]]]].
  exact (op_update_inv sch r f H1 H2 H3 H4 oc st evs s0 i fv sv ch st' evs').
Qed.
Print Assumptions update_either_store_keeps_index.

(* DeleteById through the child store IS DeleteById through the parent store *)
Theorem delete_either_store : forall sch r c oc n stev i,
  wf_child_b sch r c = true -> delete_by_id sch oc n stev c i = delete_by_id sch oc n stev r i.
Proof. exact delete_either_store_closed. Qed.
Print Assumptions delete_either_store.

(* ... and a successful delete through either leaves neither the parent entity nor the child data, and neither
   store's query returns the id any more *)
Theorem delete_removes_both : forall sch r c oc n st evs s0 i st' evs',
  wf_child_b sch r c = true -> s0 = r \/ s0 = c ->
  delete_by_id sch oc n (st, evs) s0 i = Ok (st', evs') ->
  present sch st' r i = false /\ present sch st' c i = false /\ ~ In i (query_ids sch st' r) /\ ~ In i (query_ids sch st' c).
Proof. exact delete_removes_both_closed. Qed.
Print Assumptions delete_removes_both.

(* the parent's unique-index invariant is preserved by EVERY operation - in particular by creates, updates and
   deletes entering through a child store *)
Theorem parent_constraints_apply : forall sch r f fuel oc st evs o st' evs',
  wf_unique_b sch r f = true -> UInv sch r f st ->
  run_op sch fuel oc (st, evs) o = Ok (st', evs') -> UInv sch r f st'.
Proof. exact parent_constraints_apply_closed. Qed.
Print Assumptions parent_constraints_apply.

(* hence uniqueness of a parent field is enforced for child entities: creating, through the child store, an entity
   that repeats a value held by another entity (plain parent or child entity alike) fails *)
Theorem child_create_duplicate_rejected : forall sch r c f ptr oc st evs i j v sys fv sv,
  wf_unique_b sch r f = true -> wf_child_b sch r c = true -> UInv sch r f st ->
  In (f, ptr) (fields_of sch r) -> f <> isSystemF ->
  lookup_fv fv f = Some (Some v) -> nonempty v = true ->
  j <> i -> present sch st r j = true -> fv_bytes (get_field sch st r j f) = v ->
  exists k, op_create sch oc (st, evs) c i sys fv sv = Err k.
Proof. exact child_create_duplicate_rejected_closed. Qed.
Print Assumptions child_create_duplicate_rejected.

(* ---- paged / sorted / counted queries (Store/Paging.v: the scan loops of boltz/query_scanners.go transcribed) ----

   The three scan loops - sortingScanner.ScanCursor (non-id sort), uniqueIndexScanner.ScanCursor (id order, with the
   total) and the paged cursor uniqueIndexScanner.Next (IterateIds) - compute the specification [query_page] for
   EVERY schema, state, store, filter, sort field and direction, skip and limit (None = limit none) *)
Theorem paged_scans_meet_spec : forall sch st s flt f asc (skip : nat) (limit : option nat),
  sorting_scan sch st s flt f asc skip limit = query_page sch st s flt (Some (f, asc)) skip limit /\
  unsorted_scan sch st s flt skip limit = query_page sch st s flt None skip limit /\
  cursor_scan sch st s flt skip limit = fst (query_page sch st s flt None skip limit).
Proof. exact paged_scans_meet_spec_closed. Qed.
Print Assumptions paged_scans_meet_spec.

(* ... where the total is the number of ids the store shows ([query_ids]) that satisfy the filter, and the page is
   skip/limit of those ids in id order, or sorted by (field value, nil first, in the given direction; then id) *)
Theorem query_page_meaning : forall sch st s flt srt (skip : nat) (limit : option nat),
  let m := filter (q_match sch st s flt) (query_ids sch st s) in
  snd (query_page sch st s flt srt skip limit) = length m /\
  exists l, fst (query_page sch st s flt srt skip limit)
            = match limit with None => skipn skip l | Some n => firstn n (skipn skip l) end /\
            Permutation m l /\
            match srt with
            | None => l = m
            | Some (f, asc) => StronglySorted (fun i j => row_leb sch st s f asc i j = true) l
            end.
Proof. exact query_page_meaning_closed. Qed.
Print Assumptions query_page_meaning.

Theorem query_order_total : forall sch st s f asc,
  (forall i j, row_leb sch st s f asc i j = true \/ row_leb sch st s f asc j i = true) /\
  (forall i j k, row_leb sch st s f asc i j = true -> row_leb sch st s f asc j k = true -> row_leb sch st s f asc i k = true) /\
  (forall i j, row_leb sch st s f asc i j = true -> row_leb sch st s f asc j i = true -> i = j).
Proof. exact row_leb_total_order_closed. Qed.
Print Assumptions query_order_total.

(* C15 for such queries, in EVERY state: through a plain child store every id of every page has child data, the
   total counts only parent entities with child data (never the plain parents that match the filter too), and the
   page has min(limit, total - skip) rows - no child row is lost to rows that are not shown; through an extended
   child store page and total are those of the same query through the parent; the parent's range over all ids *)
Theorem child_paged_query_only_children : forall sch r c st flt srt (skip : nat) (limit : option nat),
  wf_child_b sch r c = true ->
  (is_ext sch c = false ->
     (forall i, In i (fst (query_page sch st c flt srt skip limit)) -> present sch st c i = true /\ q_match sch st c flt i = true) /\
     snd (query_page sch st c flt srt skip limit)
       = length (filter (fun i => present sch st c i && q_match sch st c flt i) (ids_of st r)) /\
     length (fst (query_page sch st c flt srt skip limit))
       = match limit with
         | None => Nat.sub (snd (query_page sch st c flt srt skip limit)) skip
         | Some n => Nat.min n (Nat.sub (snd (query_page sch st c flt srt skip limit)) skip)
         end) /\
  (is_ext sch c = true -> flt_not_declared sch c flt -> srt_not_declared sch c srt ->
     query_page sch st c flt srt skip limit = query_page sch st r flt srt skip limit) /\
  snd (query_page sch st r flt srt skip limit) = length (filter (q_match sch st r flt) (ids_of st r)).
Proof. exact child_paged_query_only_children_closed. Qed.
Print Assumptions child_paged_query_only_children.

(* ---- DeleteWhere through the stores of a family (Store/XOps.v XDeleteWhere = BaseStore.DeleteWhere: QueryIds of the
   filter through the store it was called on, then DeleteById for every id returned; Store/ChildDeleteWhere.v) ----

   The ids DeleteWhere collects, in EVERY state: through a plain child store exactly the entities WITH child data that
   satisfy the filter (a plain parent entity that satisfies it is not among them), through an extended child store every
   parent entity that satisfies it (the filter is evaluated through the child store: it may name the child's own fields),
   through the parent store every parent entity that satisfies it *)
Theorem delete_where_through_child_ids : forall sch r c st flt,
  wf_child_b sch r c = true ->
  (is_ext sch c = false ->
     forall i, In i (dw_ids sch st c flt) <-> present sch st c i = true /\ dw_matches sch st c flt i = true) /\
  (is_ext sch c = true ->
     forall i, In i (dw_ids sch st c flt) <-> present sch st r i = true /\ dw_matches sch st c flt i = true) /\
  (forall i, In i (dw_ids sch st r flt) <-> present sch st r i = true /\ dw_matches sch st r flt i = true).
Proof. exact delete_where_ids_closed. Qed.
Print Assumptions delete_where_through_child_ids.

(* DeleteWhere through the child store IS the sequence of DeleteById calls through the PARENT store for exactly those ids
   (same result, same state, same events) *)
Theorem delete_where_through_child_is_parent_deletes : forall sch r c fuel oc stev flt,
  wf_child_b sch r c = true ->
  run_xop sch fuel oc stev (XDeleteWhere c flt) =
  snd (run_ops sch fuel oc stev (map (ODelete r) (dw_ids sch (fst stev) c flt))).
Proof. exact delete_where_through_child_closed. Qed.
Print Assumptions delete_where_through_child_is_parent_deletes.

(* a successful DeleteWhere through either store leaves neither the parent entity nor the child data of any collected id,
   and neither store's query returns it any more *)
Theorem delete_where_removes_both : forall sch r c fuel oc st evs s0 flt st' evs',
  wf_child_b sch r c = true -> s0 = r \/ s0 = c ->
  run_xop sch fuel oc (st, evs) (XDeleteWhere s0 flt) = Ok (st', evs') ->
  forall i, In i (dw_ids sch st s0 flt) ->
    present sch st' r i = false /\ present sch st' c i = false /\
    ~ In i (query_ids sch st' r) /\ ~ In i (query_ids sch st' c).
Proof. exact delete_where_removes_both_closed. Qed.
Print Assumptions delete_where_removes_both.

(* ... and it touches nothing else: an entity of r that the store's query did not show for the filter keeps its presence,
   its child data and every field - provided no cascade-delete constraint leads back into the family of r (boolean check
   dw_zone_b over a list of store names closed under root-of / child stores / cascade referrers; otherwise other entities
   of r legitimately go with the cascade) *)
Theorem delete_where_spares_the_rest : forall sch r c zone fuel oc st evs s0 flt st' evs',
  wf_child_b sch r c = true -> dw_zone_b sch r zone = true -> s0 = r \/ s0 = c -> mem_name s0 zone = true ->
  run_xop sch fuel oc (st, evs) (XDeleteWhere s0 flt) = Ok (st', evs') ->
  forall j, ~ In j (dw_ids sch st s0 flt) ->
    present sch st' r j = present sch st r j /\ present sch st' c j = present sch st c j /\
    (forall f, get_field sch st' r j f = get_field sch st r j f) /\
    (forall f, get_field sch st' c j f = get_field sch st c j f).
Proof. exact delete_where_spares_closed. Qed.
Print Assumptions delete_where_spares_the_rest.

(* in particular DeleteWhere through a PLAIN child store never deletes a plain parent entity, whether or not it satisfies
   the filter *)
Theorem delete_where_plain_child_spares_plain_parents : forall sch r c zone fuel oc st evs flt st' evs',
  wf_child_b sch r c = true -> is_ext sch c = false -> dw_zone_b sch r zone = true -> mem_name c zone = true ->
  run_xop sch fuel oc (st, evs) (XDeleteWhere c flt) = Ok (st', evs') ->
  forall j, present sch st r j = true -> present sch st c j = false ->
    present sch st' r j = true /\ (forall f, get_field sch st' r j f = get_field sch st r j f).
Proof. exact delete_where_plain_child_spares_plain_parents_closed. Qed.
Print Assumptions delete_where_plain_child_spares_plain_parents.

(* ---- every lookup variant of the store API (Store/Lookups.v: GetEntityBucket and getEntityBucketForLoad transcribed;
   FindById, LoadById, LoadEntity - the variant filling an entity the caller provides -, IsEntityPresent, GetEntityBucket
   asked directly, membership in IterateValidIds / QueryIds) ----

   In EVERY state, for every id: through the parent store all variants answer "is an entity"; through a child store the
   bucket-level variants answer "has child data"; FindById, LoadById and LoadEntity give ONE answer ([loadable]) - for a
   plain child store "has child data" (what its query shows), for an extended child store "is an entity of the parent"
   (what its query shows: ALL parent entities, with or without extension data) *)
Theorem lookups_agree : forall sch r c st i,
  wf_child_b sch r c = true ->
  (lk_find_by_id sch st r i = present sch st r i /\ lk_load_by_id sch st r i = present sch st r i /\
   lk_load_entity sch st r i = present sch st r i /\ lk_is_entity_present sch st r i = present sch st r i /\
   lk_bucket sch st r i = present sch st r i /\ lk_valid_id sch st r i = present sch st r i /\
   lk_queried sch st r i = present sch st r i) /\
  (lk_is_entity_present sch st c i = present sch st c i /\ lk_bucket sch st c i = present sch st c i /\
   lk_valid_id sch st c i = present sch st c i) /\
  (lk_find_by_id sch st c i = loadable sch st c i /\ lk_load_by_id sch st c i = loadable sch st c i /\
   lk_load_entity sch st c i = loadable sch st c i) /\
  (is_ext sch c = false -> loadable sch st c i = present sch st c i /\ lk_queried sch st c i = present sch st c i) /\
  (is_ext sch c = true -> loadable sch st c i = present sch st r i /\ lk_queried sch st c i = present sch st r i) /\
  (present sch st c i = true -> present sch st r i = true).
Proof. exact lookups_agree_closed. Qed.
Print Assumptions lookups_agree.

(* the string-list helpers built on GetEntityBucket (GetRelatedEntitiesIdList / GetRelatedEntitiesCursor / IsEntityRelated):
   through the parent store they show the stored string set; through a child store nothing of a set the child store
   does not keep in its own sub-bucket *)
Theorem related_lookups_agree : forall sch r c st i f,
  wf_child_b sch r c = true ->
  lk_related sch st r i f = get_set sch st r i f /\
  (child_owns_set sch c f = false -> lk_related sch st c i f = []) /\
  (forall x, lk_is_related sch st r i f x = true <-> In x (get_set sch st r i f)).
Proof. exact related_agree_closed. Qed.
Print Assumptions related_lookups_agree.

(* ---- families with SEVERAL child stores: c is ANY child store of r, s0 ANY store of the family (the parent, c, or
   another child store - extended or plain, registered before or after c).  After a successful DeleteById through s0, in
   every reachable state of a schema that passes wf_notrace_b (C06): no lookup variant finds the id through r or c; no
   unique index kept for the family - the parent's and EVERY child store's own - holds an entry pointing at the id; no
   set-index bucket lists it; no back-reference set of an fk index declared on any store of the family holds it *)
Theorem delete_removes_every_part : forall sch fuel (txs : list tx) oc fuel' evs r c s0 x st' evs',
  wf_notrace_b sch = true -> wf_child_b sch r c = true -> root_of sch s0 = r ->
  delete_by_id sch oc fuel' (run_txs sch fuel st_empty txs, evs) s0 x = Ok (st', evs') ->
  (present sch st' r x = false /\ present sch st' c x = false /\ loadable sch st' c x = false /\
   lk_find_by_id sch st' r x = false /\ lk_find_by_id sch st' c x = false /\
   lk_load_entity sch st' c x = false /\ lk_is_entity_present sch st' c x = false /\
   lk_valid_id sch st' c x = false /\ lk_queried sch st' c x = false) /\
  (forall f v, al_get v (uidx st' r f) <> Some x) /\
  (forall f v, ~ In x (sbucket st' r f v)) /\
  (forall s f t b nl ti, root_of sch s = r -> In (CFkIndex f t b nl) (cons_of sch s) -> ~ In x (eset st' (root_of sch t) ti b)).
Proof. exact delete_removes_every_part_closed. Qed.
Print Assumptions delete_removes_every_part.

(* ---- queries over a CALLER-SUPPLIED cursor (Store.QueryWithCursorC -> ScanCursor; Store/PagingCursor.v): the transcribed
   loops of the id-order scanner and of the sorting scanner, run over ANY list of candidate ids the cursor yields (the cursor of
   a set index of the parent, a related-entities cursor, a tree set of ids - parent-level data, with and without child data),
   compute the specification [cursor_query_page]: the candidates the store shows that satisfy the filter, in cursor order or
   sorted, then skip / limit; count = their number *)
Theorem cursor_scans_meet_spec : forall sch st s flt f asc (skip : nat) (limit : option nat) (cands : list id),
  sorting_scan_over sch st s flt f asc skip limit cands = cursor_query_page sch st s flt (Some (f, asc)) skip limit cands /\
  unsorted_scan_over sch st s flt skip limit cands = cursor_query_page sch st s flt None skip limit cands.
Proof. exact cursor_scans_meet_spec_closed. Qed.
Print Assumptions cursor_scans_meet_spec.

(* ... and what it shows per store kind, for EVERY candidate list: through a plain child store every id of the page is a
   candidate WITH child data that satisfies the filter, the count is the number of such candidates (never the number of
   candidates) and the page holds min(limit, count - skip) rows; through an extended child store page and count are the
   parent's over the same cursor (all candidates take part); through the parent all candidates take part *)
Theorem child_cursor_query_only_children : forall sch r c st flt srt (skip : nat) (limit : option nat) (cands : list id),
  wf_child_b sch r c = true ->
  (is_ext sch c = false ->
     (forall i, In i (fst (cursor_query_page sch st c flt srt skip limit cands)) ->
                In i cands /\ present sch st c i = true /\ q_match sch st c flt i = true) /\
     snd (cursor_query_page sch st c flt srt skip limit cands)
       = length (filter (fun i => present sch st c i && q_match sch st c flt i) cands) /\
     length (fst (cursor_query_page sch st c flt srt skip limit cands))
       = match limit with
         | None => Nat.sub (snd (cursor_query_page sch st c flt srt skip limit cands)) skip
         | Some n => Nat.min n (Nat.sub (snd (cursor_query_page sch st c flt srt skip limit cands)) skip)
         end) /\
  (is_ext sch c = true -> flt_not_declared sch c flt -> srt_not_declared sch c srt ->
     cursor_query_page sch st c flt srt skip limit cands = cursor_query_page sch st r flt srt skip limit cands) /\
  snd (cursor_query_page sch st r flt srt skip limit cands) = length (filter (q_match sch st r flt) cands).
Proof. exact child_cursor_query_only_children_closed. Qed.
Print Assumptions child_cursor_query_only_children.

(* ---- link collections are facts of the PARENT part: after a successful DeleteById through ANY store s0 of the family of r
   (the parent, the child store holding the entity's data, another child store), in every reachable state of a schema that
   passes wf_notrace_b: the entity and its own link sets are gone, and no link set of any entity of any store whose elements are
   ids of the family - the other side of every link collection declared on the parent store included - still lists the id *)
Theorem delete_removes_link_mentions : forall sch fuel (txs : list tx) oc fuel' evs r c s0 x st' evs',
  wf_notrace_b sch = true -> wf_child_b sch r c = true -> root_of sch s0 = r ->
  delete_by_id sch oc fuel' (run_txs sch fuel st_empty txs, evs) s0 x = Ok (st', evs') ->
  (get_ent st' r x = None /\ forall lf, get_set sch st' r x lf = [] /\ get_set sch st' c x lf = []) /\
  (forall s lf os of_ i, In (lf, os, of_) (links_of sch s) -> root_of sch os = r -> ~ In x (eset st' (root_of sch s) i lf)).
Proof. exact delete_removes_link_mentions_closed. Qed.
Print Assumptions delete_removes_link_mentions.

(* ---- the persist-time validation of the PARENT's entity strategy (XOps.persist_rejected: a required string written empty, a
   string-list element bbolt refuses, refused tags - errors raised on the persist context of the parent part) applies to a
   write through a child store exactly as to the same write through the parent store: same values, same checker *)
Theorem parent_validation_applies_through_child : forall bt req sch p c pd cd fv sv ch,
  find_store sch p = Some pd -> sd_parent pd = None ->
  find_store sch c = Some cd -> sd_parent cd = Some p ->
  persist_rejected bt req sch p fv sv ch = true ->
  persist_rejected bt req sch c fv sv ch = true.
Proof. exact parent_rejection_is_child_rejection_closed. Qed.
Print Assumptions parent_validation_applies_through_child.

(* ... and the guarded create fails through either store *)
Theorem parent_validation_refuses_child_create : forall bt req sch p c pd cd fuel oc stev i sys fv sv,
  find_store sch p = Some pd -> sd_parent pd = None ->
  find_store sch c = Some cd -> sd_parent cd = Some p ->
  persist_rejected bt req sch p fv sv None = true ->
  run_xop sch fuel oc stev (XPersist bt req (OCreate p i sys fv sv)) = Err EOther /\
  run_xop sch fuel oc stev (XPersist bt req (OCreate c i sys fv sv)) = Err EOther.
Proof. exact parent_validation_refuses_child_create_closed. Qed.
Print Assumptions parent_validation_refuses_child_create.
