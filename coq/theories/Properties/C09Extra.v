(* C09 - completeness and repair, entry by entry, for EXTRA / STALE / WRONG-TARGET entries (the mirror image of
   missing_backref_reported / missing_reverse_link_reported / missing_set_entry_reported of Properties/C09.v).

   Whether an entry is right is a byte-string EQUALITY: the index key is (one of) the entity's value(s), the owner
   of the back-reference set is the referrer's fk field, the id is the id of a present entity.  None of the
   statements has a hypothesis about what else the entity holds or which other keys / ids sit in the same bucket:
   an entry whose key or id is a proper prefix or an extension of a legitimate one ("admin" -> e while e holds
   "administrator"; e1 next to e10) is reported by check-only and is gone after one fix run, like any other.
   Instances on such a state: Examples/C09PrefixExamples.v. *)
From Coq Require Import List NArith Bool.
From Storage Require Import Base.Bytes Store.Model Store.Integrity Store.IntegrityProofs Store.IntegrityExtra.
Import ListNotations.

Theorem stale_set_entry_reported : forall sch st s f v i,
  In (JCons s (CSetIdx f)) (jobs sch) ->
  In i (sidx_ids st (root_of sch s) f v) ->
  ~ (present sch st s i = true /\ In v (get_set sch st s i f)) ->
  fst (check_all sch false st) <> [].
Proof. exact stale_set_entry_reported_lemma. Qed.
Print Assumptions stale_set_entry_reported.

Theorem stale_unique_entry_reported : forall sch st s f nl v i,
  In (JCons s (CUnique f nl)) (jobs sch) ->
  al_get v (uidx st (root_of sch s) f) = Some i ->
  ~ (present sch st s i = true /\ fv_bytes (get_field sch st s i f) = v) ->
  fst (check_all sch false st) <> [].
Proof. exact stale_unique_entry_reported_lemma. Qed.
Print Assumptions stale_unique_entry_reported.

Theorem extra_backref_reported : forall sch st s f t b nl ti x,
  In (JCons s (CFkIndex f t b nl)) (jobs sch) ->
  present sch st t ti = true -> In x (get_set sch st t ti b) ->
  ~ (present sch st s x = true /\ fv_bytes (get_field sch st s x f) = ti) ->
  fst (check_all sch false st) <> [].
Proof. exact extra_backref_reported_lemma. Qed.
Print Assumptions extra_backref_reported.

Theorem dangling_reference_reported : forall sch st s f t b nl i,
  In (JCons s (CFkIndex f t b nl)) (jobs sch) ->
  present sch st s i = true -> nonempty (fv_bytes (get_field sch st s i f)) = true ->
  present sch st t (fv_bytes (get_field sch st s i f)) = false ->
  fst (check_all sch false st) <> [].
Proof. exact dangling_reference_reported_lemma. Qed.
Print Assumptions dangling_reference_reported.

Theorem dangling_link_reported : forall sch st s lf os of_ i x,
  In (JLink s (lf, os, of_)) (jobs sch) ->
  present sch st s i = true -> In x (get_set sch st s i lf) -> present sch st os x = false ->
  fst (check_all sch false st) <> [].
Proof. exact dangling_link_reported_lemma. Qed.
Print Assumptions dangling_link_reported.

(* ... and after ONE fix run every entry that is left is right *)
Theorem fix_removes_stale_set_entries : forall sch st s f v i,
  wf_c09 sch = true -> In (JCons s (CSetIdx f)) (jobs sch) ->
  let st' := snd (check_all sch true st) in
  In i (sidx_ids st' (root_of sch s) f v) -> present sch st' s i = true /\ In v (get_set sch st' s i f).
Proof. exact fix_removes_stale_set_entries_lemma. Qed.
Print Assumptions fix_removes_stale_set_entries.

Theorem fix_removes_stale_unique_entries : forall sch st s f nl v i,
  wf_c09 sch = true -> In (JCons s (CUnique f nl)) (jobs sch) ->
  let st' := snd (check_all sch true st) in
  al_get v (uidx st' (root_of sch s) f) = Some i ->
  present sch st' s i = true /\ fv_bytes (get_field sch st' s i f) = v.
Proof. exact fix_removes_stale_unique_entries_lemma. Qed.
Print Assumptions fix_removes_stale_unique_entries.

Theorem fix_removes_extra_backrefs : forall sch st s f t b nl ti x,
  wf_c09 sch = true -> In (JCons s (CFkIndex f t b nl)) (jobs sch) ->
  let st' := snd (check_all sch true st) in
  present sch st' t ti = true -> In x (get_set sch st' t ti b) ->
  present sch st' s x = true /\ fv_bytes (get_field sch st' s x f) = ti.
Proof. exact fix_removes_extra_backrefs_lemma. Qed.
Print Assumptions fix_removes_extra_backrefs.
